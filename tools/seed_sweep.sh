#!/bin/bash
# usage: tools/seed_sweep.sh <from> <to> [tier]   - every registered check for each seed; prints only problems + a summary per seed
cd "$(dirname "$0")/.."
for s in $(seq $1 $2); do
  echo "##### seed $s"
  ./tools/run_all.sh $s ${3:-quick} | grep -v "exit=0 .* viol=0 drift=0$" ; echo "(seed $s done)"
done
