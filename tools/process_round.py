#!/usr/bin/env python3
"""usage: process_round.py <Cxx> <src dir with m1..m4> <offset>   - run the quick tier against each seeded
patch (tools/try_mutants.sh), then store them under /verif/seeded/<Cxx>/m<i+offset> with the outcome."""
import json, os, re, shutil, subprocess, sys
pid, src, off = sys.argv[1], sys.argv[2], int(sys.argv[3])
out = subprocess.run(["/verif/tools/try_mutants.sh", pid, src], capture_output=True, text=True).stdout
print(out)
cur = None; res = {}
for line in out.splitlines():
    m = re.match(r"=== \S+ (m\d+)", line)
    if m: cur = m.group(1); res[cur] = {}
    m = re.search(r"demo: pristine exit=(\d+) mutated exit=(\d+)", line)
    if m and cur: res[cur]["demo"] = (int(m.group(1)), int(m.group(2)))
    m = re.search(r"check exit=(\d+) violations=(\d+) drift=(\d+)", line)
    if m and cur: res[cur]["check"] = tuple(int(x) for x in m.groups())
    if "patch does not apply" in line and cur: res[cur]["noapply"] = True
for mname, r in sorted(res.items()):
    i = int(mname[1:]) + off
    d = f"/verif/seeded/{pid}/m{i}"
    demo = r.get("demo"); chk = r.get("check")
    if r.get("noapply") or demo is None or chk is None:
        print(f"{pid} {mname}: NOT STORED ({r})"); continue
    if demo != (0, 1):
        print(f"{pid} {mname}: demo not confirmed {demo}: NOT STORED"); continue
    os.makedirs(d, exist_ok=True)
    shutil.copy(f"{src}/{mname}/patch.diff", d); shutil.copy(f"{src}/{mname}/demo.py", d)
    meta = json.load(open(f"{src}/{mname}/meta.json"))
    status = "caught" if (chk[0] == 1 and chk[1] > 0) else ("missed (DRIFT only)" if chk[2] > 0 and chk[0] == 0 else "missed")
    if chk[0] == 2: status = "machinery failure (exit 2)"
    meta["confirmed"] = {"by": f"tools/try_mutants.sh {pid} {src} (scratch worktree of /repo HEAD, PYTHONPATH override)",
                         "demo_pristine_exit": 0, "demo_mutated_exit": 1, "check": f"./check {pid} --tier quick",
                         "check_exit": chk[0], "violations_reported": chk[1], "quick_tier": status, "note": ""}
    json.dump(meta, open(f"{d}/meta.json", "w"), indent=1)
    print(f"{pid} m{i}: {status} (exit={chk[0]} viol={chk[1]} drift={chk[2]})")
