#!/bin/bash
# usage: tools/try_mutants.sh <Cxx> <dir with m*/patch.diff demo.py>   (scratch worktree; /repo itself untouched)
PID=$1; SRC=$2
WT=/tmp/mutwt/$PID-$$
mkdir -p /tmp/mutwt
git -C /repo worktree add -q --detach $WT HEAD || exit 2
for m in $SRC/m*/; do
  name=$(basename $m)
  git -C $WT reset -q --hard HEAD
  echo "=== $PID $name"
  (cd $WT && PYTHONPATH=$WT timeout 600 /venv/bin/python $m/demo.py >/dev/null 2>&1); pre=$?
  if ! git -C $WT apply $m/patch.diff 2>/dev/null; then
    if ! git -C $WT apply --3way $m/patch.diff 2>/dev/null; then echo "  patch does not apply"; continue; fi
  fi
  (cd $WT && PYTHONPATH=$WT timeout 600 /venv/bin/python $m/demo.py >/dev/null 2>&1); post=$?
  echo "  demo: pristine exit=$pre mutated exit=$post"
  out=$(cd /verif && PYTHONPATH=$WT setsid timeout 1800 ./check $PID --tier quick 2>&1); rc=$?
  if [ $rc -eq 124 ]; then pkill -f "metadir /verif/.work/$PID-quick-" 2>/dev/null; fi
  echo "  check exit=$rc violations=$(echo "$out" | grep -c '^VIOLATION') drift=$(echo "$out" | grep -c '^DRIFT')"
  echo "$out" | grep "signature=" | sed 's/^/    /' | sort | uniq -c | head -5
done
git -C $WT reset -q --hard HEAD
git -C /repo worktree remove --force $WT
