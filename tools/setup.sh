#!/bin/sh
# Offline setup: nothing to build (Python harness + TLA+ specs); verify the toolchain is present.
set -e
cd "$(dirname "$0")/.."
test -f /opt/veriftools/tla/tla2tools.jar && command -v java >/dev/null || { echo "TLC missing"; exit 1; }
/venv/bin/python -c "import msdm, numpy, frozendict" || { echo "msdm not importable"; exit 1; }
mkdir -p evidence
echo "setup ok"
