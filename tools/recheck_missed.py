#!/usr/bin/env python3
"""Re-run the quick tier against every stored seeded change whose status is still 'missed' and update the meta."""
import glob, json, os, re, shutil, subprocess, sys
only = set(sys.argv[1:])
by = {}
for f in sorted(glob.glob("/verif/seeded/*/m*/meta.json")):
    d = json.load(open(f)); st = d["confirmed"]["quick_tier"]
    pid, m = f.split("/")[3], f.split("/")[4]
    if only and pid not in only: continue
    if st.startswith("missed") and "after" not in st:
        by.setdefault(pid, []).append(m)
for pid, ms in by.items():
    tmp = f"/tmp/mut/recheck-{pid}"
    shutil.rmtree(tmp, ignore_errors=True); os.makedirs(tmp)
    for m in ms: shutil.copytree(f"/verif/seeded/{pid}/{m}", f"{tmp}/{m}")
    out = subprocess.run(["/verif/tools/try_mutants.sh", pid, tmp], capture_output=True, text=True).stdout
    cur = None
    for line in out.splitlines():
        mm = re.match(r"=== \S+ (m\d+)", line)
        if mm: cur = mm.group(1)
        mm = re.search(r"check exit=(\d+) violations=(\d+) drift=(\d+)", line)
        if mm and cur:
            ex, v, dr = (int(x) for x in mm.groups())
            p = f"/verif/seeded/{pid}/{cur}/meta.json"; d = json.load(open(p))
            if ex == 1 and v > 0:
                d["confirmed"]["quick_tier"] = "missed at first, caught after strengthening"
                d["confirmed"]["note"] = (d["confirmed"].get("note", "") + f" Re-run after the check was strengthened: exit 1, {v} violation lines.").strip()
                json.dump(d, open(p, "w"), indent=1)
            print(pid, cur, "exit", ex, "viol", v, "drift", dr)
    shutil.rmtree(tmp, ignore_errors=True)
