#!/bin/bash
# usage: tools/run_all.sh [seed] [tier]  - runs every registered check once, prints one line each
SEED=${1:-0}; TIER=${2:-quick}
cd "$(dirname "$0")/.."
for p in $(python3 -c "import json;print(' '.join(c['property_id'] for c in json.load(open('MANIFEST.json'))['checks']))"); do
  s=$(date +%s)
  out=$(VERIF_SEED=$SEED ./check $p --tier $TIER 2>&1); rc=$?
  e=$(date +%s)
  echo "$p exit=$rc wall=$((e-s))s $(echo "$out" | grep "^\[$p\]" | cut -c1-160) viol=$(echo "$out" | grep -c '^VIOLATION') drift=$(echo "$out" | grep -c '^DRIFT')"
  if [ $rc -ne 0 ]; then echo "$out" | grep "VIOLATION\|signature=\|MACHINERY" | head -5; fi
done
