#!/venv/bin/python
"""Run the repository's test suite with the guard OFF and check the 88 stable baseline tests pass."""
import json, os, subprocess, sys, tempfile, xml.etree.ElementTree as ET
base = json.load(open("/root/.vp/BASELINE.json"))
env = dict(os.environ); env.pop("MSDM_VERIF", None)
with tempfile.TemporaryDirectory() as d:
    x = os.path.join(d, "j.xml")
    subprocess.run(["/venv/bin/python", "-m", "pytest", "-q", "-p", "no:cacheprovider", "--timeout=900",
                    "--continue-on-collection-errors", f"--junitxml={x}"], cwd="/repo", env=env,
                   stdout=subprocess.DEVNULL, stderr=subprocess.DEVNULL)
    passed = set()
    for tc in ET.parse(x).getroot().iter("testcase"):
        if not any(ch.tag in ("failure", "error", "skipped") for ch in tc):
            passed.add(f"{tc.get('classname')}::{tc.get('name')}")
missing = [t for t in base["stable_pass"] if t not in passed]
print(f"baseline: {len(base['stable_pass']) - len(missing)}/{len(base['stable_pass'])} stable tests pass; total passed {len(passed)}")
for t in missing: print("MISSING", t)
sys.exit(1 if missing else 0)
