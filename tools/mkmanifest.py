#!/usr/bin/env python3
"""Regenerate /verif/MANIFEST.json from the table below (one entry per claimed property)."""
import json, os
VERIF = os.path.dirname(os.path.dirname(os.path.abspath(__file__)))
TLA = "explicit TLA+ specification checked with TLC, bound to the code by "
CHECKS = {
 "C01": dict(section="6/C01", technique=TLA + "spec->code replay of exact VI/PI reference machines and exact-oracle comparison, plus a TLC judge pass evaluating the returned policies exactly",
   text="TLC explores the VIvec/VIdict/PI reference machines of spec/C01_Planners.tla on every generated instance (design invariants: residual bound, upper bound, masked zero, PI optimal) and emits the exact optimal values, action values and the machines' exact iterates; the real ValueIteration (both versions) and PolicyIteration.batch_plan_on run on msdm objects built from the same instances in six representations and every clause of the statement is compared; returned policies go back to TLC for exact evaluation.",
   note="Small-scope: <=3 non-absorbing + <=2 absorbing states, <=3 actions, probabilities over 2 or 4, discounts 1/2, 3/4, 9/10, 1. Trusted: TLC's evaluator, the Python projection of msdm results; the TLA+ oracle is cross-checked against an independent Fraction implementation."),
}
NOT_APPLICABLE = {
 "C19": "soft Bellman fixed point needs exp/log over reals; TLA+/TLC has bounded integers only (DESIGN.md section 10)",
}
PENDING = "check not built yet in this session (see DESIGN.md section 11 build order)"

def main():
    props = [json.loads(l)["id"] for l in open(os.path.join(VERIF, "properties.jsonl"))]
    checks = []
    for pid in props:
        if pid not in CHECKS or not os.path.exists(os.path.join(VERIF, "harness", "drivers", f"{pid}.py")):
            continue
        c = CHECKS[pid]
        checks.append({
            "property_id": pid,
            "quick_cmd": f"./check {pid} --tier quick",
            "thorough_cmd": f"./check {pid} --tier thorough",
            "evidence_file": f"/verif/evidence/{pid}.json",
            "replay_cmd_template": f"./check {pid} --replay {{path}}",
            "engine": "tlc",
            "level_claimed": {"category": "model_checking", "text": c["text"], "design_ref": f"DESIGN.md section {c['section']}"},
            "level_note": c["note"],
            "technique": c["technique"],
        })
    na = [{"property_id": p, "reason": r} for p, r in NOT_APPLICABLE.items()]
    for pid in props:
        if pid not in {c["property_id"] for c in checks} and pid not in NOT_APPLICABLE:
            na.append({"property_id": pid, "reason": PENDING})
    hooks_file = os.path.join(VERIF, "tools", "hook_commits.txt")
    commits = [l.strip() for l in open(hooks_file)] if os.path.exists(hooks_file) else []
    man = {
        "version": 1,
        "setup_cmd": "./tools/setup.sh",
        "hooks": {"guard": "MSDM_VERIF", "enable": "MSDM_VERIF=1 in the environment (./check sets it); msdm is an editable install, so checks always import /repo's working tree",
                  "baseline_off_cmd": "/verif/tools/baseline.py", "source_commits": commits, "add_only": True},
        "engines": [{"name": "tlc", "path": "/verif/harness/tlc.py", "serves_properties": [c["property_id"] for c in checks],
                     "kind_free_text": "TLC 1.8 model checker on the TLA+ modules under /verif/spec (exhaustive BFS over instance batches and nondeterministic histories; trace validation of recorded executions)"}],
        "checks": checks,
        "not_applicable": sorted(na, key=lambda x: x["property_id"]),
        "notes": "Exit 2 = machinery failure (never a verdict). DRIFT lines (exit 0) report that an implementation-shaped reference machine no longer explains the code although no clause of the property failed. Known findings: /verif/known_findings.json.",
    }
    json.dump(man, open(os.path.join(VERIF, "MANIFEST.json"), "w"), indent=1)
    print(f"{len(checks)} checks, {len(na)} not_applicable")

main()
