#!/usr/bin/env python3
"""Regenerate /verif/MANIFEST.json from the table below (one entry per claimed property)."""
import json, os
VERIF = os.path.dirname(os.path.dirname(os.path.abspath(__file__)))
TLA = "explicit TLA+ specification checked with TLC, bound to the code by "
CHECKS = {
 "C01": dict(section="6/C01", technique=TLA + "spec->code replay of exact VI/PI reference machines and exact-oracle comparison, plus a TLC judge pass evaluating the returned policies exactly",
   text="TLC explores the VIvec/VIdict/PI reference machines of spec/C01_Planners.tla on every generated instance (design invariants: residual bound, upper bound, masked zero, PI optimal) and emits the exact optimal values, action values and the machines' exact iterates; the real ValueIteration (both versions) and PolicyIteration.batch_plan_on run on msdm objects built from the same instances in six representations and every clause of the statement is compared; returned policies go back to TLC for exact evaluation.",
   note="Small-scope: <=3 non-absorbing + <=2 absorbing states, <=3 actions, probabilities over 2 or 4, discounts 1/2, 3/4, 9/10, 1. Trusted: TLC's evaluator, the Python projection of msdm results; the TLA+ oracle is cross-checked against an independent Fraction implementation."),
 "C06": dict(section="6/C06", technique=TLA + "spec->code replay: TLC runs the reachability / array-building / round-trip machine of spec/C06_Views.tla over every instance and emits keyed views that are compared cell by cell with msdm's arrays, tables and wrappers",
   text="TLC explores the reachable_states search (every pop order, every max_states cut-off), list construction, row filling, derived vectors and the from_matrices round trip for every generated instance, checks least-fixpoint / agreement / round-trip invariants, and emits the expected views; msdm objects in several representations (subclass, quick constructors with callables and constants, from_matrices) are projected through their own state/action lists and compared exactly; planning results of original and rebuilt objects are compared with the exact optimum.",
   note="Small-scope instances (<=5 states, <=3 actions) with mixed hashable labels; explicit lists are full state sets in shuffled order. Trusted: TLC's evaluator, the projection code; oracle cross-checked against independent Python."),
 "C07": dict(section="6/C07", technique=TLA + "spec->code replay of every action/observation history and belief-MDP path of spec/C07_Belief.tla into state_estimator, state_estimator_vec, predictive_observation_*, BeliefMDP and next_agentstate",
   text="TLC explores all action/observation histories (incl. zero-probability observations) and belief-MDP paths to depth 2-4 from several initial beliefs of every generated POMDP with the Bayes filter on unnormalised integer weights, checks Bayes / normalisation / mean-is-prediction / absorption invariants, and emits the exact posterior, predictive distribution, belief-MDP row, reward and absorption at every node; the driver replays every node through the real functions and compares each value.",
   note="POMDPs with 2-4 states, 1-3 actions, 1-3 observations, denominators 2-4, every action available in every state. Trusted: TLC's evaluator, projection code; every 10th node recomputed by an independent Fraction filter."),
 "C10": dict(section="6/C10", technique=TLA + "trace validation: listener traces of the four TD learners are validated event by event against the update-rule machine of spec/C10_TD.tla, plus exhaustive MC of all experience histories for boundedness",
   text="TLC (MC) explores every experience history to depth 8-9 of small proper MDPs for all four learners with the boundedness / absorbing-zero invariants; (trace mode) each recorded (s,a,r,ns,na) event of real training runs must be an enabled Step with the MDP's transition and reward, the written entry must equal the rule applied to the pre-state within the derived rounding bound, and Finish judges the returned Q-table (equals the fold) and policy (uniform over maximal-Q actions at visited states, all available actions elsewhere).",
   note="Fixed point 1/65536 with error bound n units after n updates (non-expansion for step sizes in [0,1]); expected SARSA with temperature>0 only range-checked (counted); trainings longer than 120 steps validated as a prefix. Trusted: TLC, the recorder attached through the repository's TDLearningEventListener."),
 "C02": dict(section="6/C02", technique=TLA + "spec->code replay: TLC runs the statement-by-statement evaluation machine of spec/C02_PolicyEval.tla against the exact oracle and emits exact values, action values, occupancies and initial value for every (instance, policy), compared entry-wise with TabularPolicy.evaluate_on",
   text="TLC enumerates (instance, stochastic policy) pairs (all policies over the weight menu when few), runs the reference machine that mirrors the evaluator one statement per action, and checks MachineMatchesOracle, Bellman, NegInfIffNegativeClass (closed classes by subset enumeration), OccupancyFlow and Duality; the emitted exact results are compared entry-wise (+-inf exactly, finite within 1e-9 relative) with evaluate_on on seven MDP representations and several policy constructions (from_state_action_lists, to_tabular, from_dict).",
   note="<=3 non-absorbing states, weights from {0,1/3,1/2,2/3,1}. Action values at explicitly absorbing states and occupancy at implicitly absorbing states are DRIFT-level. Trusted: TLC, projection code; every third record cross-checked against an independent Fraction implementation."),
 "C17": dict(section="6/C17", technique=TLA + "trace validation of RMAX training runs recorded through RMAXEventListener against the bookkeeping / optimistic-model machine of spec/C17_RMax.tla, plus exhaustive MC of all experience histories on tiny MDPs",
   text="TLC (MC) explores every experience history of tiny MDPs for thresholds 1-2 with Bookkeeping, ModelIsReal, NeverAboveVmax, UnknownExactlyVmax, KnownBellman invariants and ModelFrozen / QMonotone action properties; (trace mode) every recorded step of real RMAX.train_on runs must be a real transition with the MDP's reward, counts follow the first-m-samples rule, and the returned Q-values / policy are judged clause by clause (<= Vmax, unknown pairs exactly Vmax, empirical Bellman residual within tolerance, greedy policy).",
   note="Logged values are scaled integers with derived tolerances; exact optimistic fixed point only for <=3 non-absorbing states; action selection is DRIFT-level. Trusted: TLC, the recording listener."),
 "C11": dict(section="6/C11", technique=TLA + "spec->code replay of every operation chain of spec/C11_Dist.tla on every concrete distribution kind, plus TLC validation of recorded sampling traces (each draw an enabled Sample, equally seeded runs equal)",
   text="TLC explores every chain of <=2 (3 in thorough) operations (marginalize, chain, condition, joint, scaled mixture, conjunction, normalize, expectation, softmax shift, Sample) over measures with exact rational weights incl. zero entries and unnormalised totals, checks the probability laws as invariants written independently of the folds, and emits the exact measure after every step; the chains are replayed on DictDistribution, from_pairs, Uniform, Deterministic, Softmax and TableDistribution objects and items/prob/len/expectation are compared after each step; sampling traces from seeded generators are validated by TLC.",
   note="Events are atoms or pairs; <=3-4 events, weights 0..3; softmax scores are multiples of ln 2 so probabilities are exact rationals. Uniform over a set and TableDistribution.prob of tuple keys are DRIFT-level. Trusted: TLC, projection code; every emitted measure cross-checked against an independent Fraction oracle."),
 "C16": dict(section="6/C16", technique=TLA + "spec->code replay of the multichain policy-iteration machine of spec/C16_Multichain.tla (exact gain / bias evaluation, gain and bias improvement) and exact gain oracle by chain-class analysis, plus a TLC judge pass evaluating returned policies exactly",
   text="TLC explores the Evaluate / GainImprove / BiasImprove machine from every initial decision rule of every generated instance with EvalEquations, StoppedOptimal, StoppedPolicyAttains, NeverAboveOptimum, Terminates invariants and a Monotone action property against the oracle (MDP!OptimalValue when discounted; closed classes, stationary weights by the Markov chain tree theorem, absorption probabilities and max over deterministic policies when undiscounted); MultichainPolicyIteration.plan_on and its array function are run from default and random initial rules and, when converged, their values / gains / policy are compared with the exact optimum and the returned policy is evaluated exactly by TLC.",
   note="<=3-4 states; non-converged runs are counted, not judged (the statement is conditional on convergence); deviations inside msdm's own isclose window are DRIFT. Trusted: TLC, projection; gain oracle cross-checked against Fraction Gauss-Jordan enumeration and the multichain LP (scipy HiGHS)."),
 "C03": dict(section="6/C03", technique=TLA + "spec->code replay of LAO* behaviours (Start/Expand/Revise/Terminate machine of spec/C03_LAOStar.tla) and trace validation of randomised real runs recorded through LAOStarEventListener, with exact V* and exact evaluation of the returned policy by TLC",
   text="TLC (mc) explores every behaviour of the LAO* reference machine - all initial orders and all action / successor permutations - for four admissible heuristics per instance with Admissible, GreedyConsistent, ReviseOptimal, GraphWellFormed and TerminalOptimal invariants against the exact optimum; flag-free behaviours are replayed step by step into LAOStar (expanded state, ancestor set, values, best actions per iteration); (trace) recorded runs with randomised orders and seeds are re-executed by TLC with choices bound to the log, each logged choice must be legal, and the exact return of the returned policy is compared with the optimum.",
   note="<=3 non-absorbing states; the exact machine is skipped (counted) for discount 9/10 where 32-bit rationals overflow - those runs are still judged by the oracle and the exact policy evaluation. Expansion order / tie choices are DRIFT-level. Trusted: TLC, the listener-based recorder; oracle cross-checked against pyoracle."),
 "C12": dict(section="6/C12", technique=TLA + "one implementation test per transition of the TLA+ state graph: TLC enumerates table views x selectors of spec/C12_Table.tla (nested-dictionary oracle and implementation-shaped index machine) and every transition is replayed on Table, ProbabilityTable/TableDistribution, StateTable, StateActionTable, StateActionNextStateTable and TabularPolicy",
   text="TLC explores all views reachable by selector chains over tables with 1-3 fields and domains of size 1-3 (collision templates where a tuple is both a domain element and a field-wise key), judges every (view, selector) with the relational nested-dictionary oracle and the reference machine (RefinesOracle, OuterElementWins, ListRestricts, ForeignIsError, ViewDenotesCells, FullKeyIsCell, NestedIsCell, SliceIsIdentity) and emits the expected result kind, sub-table index, cells and exception family; every transition is executed on every table class of its arity with four labelings and compared (getitem, get, keys, items, values, len, row distributions, action_dist).",
   note="Selector shapes whose meaning the statement does not fix (partial slices, two lists, component equal to a whole domain, ...) are judged against the machine at DRIFT level only. Trusted: TLC, the label mapping; oracle cross-checked against an independent python nested-dictionary oracle on every 5th transition."),
 "C13": dict(section="6/C13", technique=TLA + "trace validation of merged multi-process run logs (digest of result, before/after states of the three global generators, hash seed) against the determinism / isolation machine of spec/C13_Seeding.tla, plus MC of the seeding idioms found in the code",
   text="Every randomised component is run for several seeds under perturbed states of the global random / numpy / torch generators in >=3 interpreter processes with different PYTHONHASHSEED; TLC validates the merged log with the Judge operator (isolated, rerun, global-independent, hash-independent clauses per run) and emits per-case verdicts; the MC part explores seven seeding idioms over seeds (0 included), label kinds, processes and prior generator states and proves which idioms can break which clause (Breaks predicate sound and exact).",
   note="Digests compare results exactly (floats by hex); internals that differ without changing results are DRIFT. Trusted: TLC, the canonical digest rendering, subprocess isolation."),
 "C15": dict(section="6/C15", technique=TLA + "spec->code replay of the augment / sub-task / option-run machines of spec/C15_Options.tla (all override subsets, all option histories by scripted sampling) and trace validation of semi-MDP simulations against the same rules",
   text="TLC explores augment() over all 128 subsets of overridden components of every base (Derived oracle, AugPreserved / AugOverridden / AugMatchesOracle), sub-goal option sub-tasks against the exact optimum of the derived instance, and every history of Option.run_on for all start states and step limits (OptFirstTerminal, OptWithinLimit, OptReturnExact, OptVerdictSound); histories are replayed into the real code with scripted sampling; recorded semi-MDP simulations are validated event by event and the exact outcome tally emitted by TLC is compared with the reported joint distribution, its marginals, expected_cumulative_reward, primitive actions and actions().",
   note="Bases with <=3 non-absorbing states; undiscounted sub-tasks judged only when proper with rewards <= 0 (others counted). Trusted: TLC, scripted distributions, projection; oracles cross-checked in Python."),
 "C18": dict(section="6/C18", technique=TLA + "trace validation of every positive-probability outcome of TabularGridGame against the allowed-move relation and reference machine of spec/C18_GridGame.tla, and spec->code replay of factor-table programs (spec/C18_Factor.tla, lib/FactorTable.tla) on DiscreteFactorTable",
   text="TLC explores all reachable states x 25 joint actions of every generated layout with 14 invariants (NoSharedCell, NoSwap, InGrid, NotInObstacle, NotThroughWall, OneCellCommanded, GoalLeadsToTerminal, TerminalAbsorbing, Normalisable, ...) and validates one recorded trace per real reachable state (each outcome must be an allowed move, probabilities sum to 1 within the quantisation bound); factor-table programs (scale, and, or, marginalize) over nested-dict rows with shared / disjoint / partially overlapping variables and zero rows, plus an exhaustive small family of table pairs, are executed on DiscreteFactorTable and compared with the JoinLaw / MixLaw / MargLaw oracle.",
   note="Layouts up to 4x4, two agents; fence success probability and non-terminal joint rewards are checked exactly but at DRIFT level (the statement constrains only the terminal state). Trusted: TLC, the recorder; move relation and factor steps cross-checked in independent Python."),
}
NOT_APPLICABLE = {
 "C19": "soft Bellman fixed point needs exp/log over reals; TLA+/TLC has bounded integers only (DESIGN.md section 10)",
}
PENDING = "check not built yet in this session (see DESIGN.md section 11 build order)"

def main():
    props = [json.loads(l)["id"] for l in open(os.path.join(VERIF, "properties.jsonl"))]
    checks = []
    for pid in props:
        if pid not in CHECKS or not os.path.exists(os.path.join(VERIF, "harness", "drivers", f"{pid}.py")):
            continue
        c = CHECKS[pid]
        checks.append({
            "property_id": pid,
            "quick_cmd": f"./check {pid} --tier quick",
            "thorough_cmd": f"./check {pid} --tier thorough",
            "evidence_file": f"/verif/evidence/{pid}.json",
            "replay_cmd_template": f"./check {pid} --replay {{path}}",
            "engine": "tlc",
            "level_claimed": {"category": "model_checking", "text": c["text"], "design_ref": f"DESIGN.md section {c['section']}"},
            "level_note": c["note"],
            "technique": c["technique"],
        })
    na = [{"property_id": p, "reason": r} for p, r in NOT_APPLICABLE.items()]
    for pid in props:
        if pid not in {c["property_id"] for c in checks} and pid not in NOT_APPLICABLE:
            na.append({"property_id": pid, "reason": PENDING})
    hooks_file = os.path.join(VERIF, "tools", "hook_commits.txt")
    commits = [l.strip() for l in open(hooks_file)] if os.path.exists(hooks_file) else []
    man = {
        "version": 1,
        "setup_cmd": "./tools/setup.sh",
        "hooks": {"guard": "MSDM_VERIF", "enable": "MSDM_VERIF=1 in the environment (./check sets it); msdm is an editable install, so checks always import /repo's working tree",
                  "baseline_off_cmd": "/verif/tools/baseline.py", "source_commits": commits, "add_only": True},
        "engines": [{"name": "tlc", "path": "/verif/harness/tlc.py", "serves_properties": [c["property_id"] for c in checks],
                     "kind_free_text": "TLC 1.8 model checker on the TLA+ modules under /verif/spec (exhaustive BFS over instance batches and nondeterministic histories; trace validation of recorded executions)"}],
        "checks": checks,
        "not_applicable": sorted(na, key=lambda x: x["property_id"]),
        "notes": "Exit 2 = machinery failure (never a verdict). DRIFT lines (exit 0) report that an implementation-shaped reference machine no longer explains the code although no clause of the property failed. Known findings: /verif/known_findings.json.",
    }
    json.dump(man, open(os.path.join(VERIF, "MANIFEST.json"), "w"), indent=1)
    print(f"{len(checks)} checks, {len(na)} not_applicable")

main()
