#!/bin/bash
# usage: tools/run_some.sh <seed> <tier> <Cxx>...   - like run_all.sh for the named checks
SEED=$1; TIER=$2; shift 2
cd "$(dirname "$0")/.."
for p in "$@"; do
  s=$(date +%s)
  out=$(VERIF_SEED=$SEED ./check $p --tier $TIER 2>&1); rc=$?
  e=$(date +%s)
  echo "$p exit=$rc wall=$((e-s))s $(echo "$out" | grep "^\[$p\]" | cut -c1-160) viol=$(echo "$out" | grep -c '^VIOLATION') drift=$(echo "$out" | grep -c '^DRIFT')"
  if [ $rc -ne 0 ]; then echo "$out" | grep "VIOLATION\|signature=\|MACHINERY\|Traceback\|Error" | head -8; fi
done
