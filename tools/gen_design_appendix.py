#!/usr/bin/env python3
"""Regenerate the generated parts of DESIGN.md: section 16.1 (seeded changes table, from
seeded/*/m*/meta.json) and appendix B (header comments of every spec module, as built)."""
import glob, json, os, re
V = os.path.dirname(os.path.dirname(os.path.abspath(__file__)))
BEGIN, END = "<!-- BEGIN GENERATED -->", "<!-- END GENERATED -->"

def seeded_table():
    rows = ["### 16.1 Seeded changes (generated from /verif/seeded/*/m*/meta.json)", "",
            "| id | change | files | needs to manifest | quick tier |", "|---|---|---|---|---|"]
    tot = caught = later = 0
    for meta in sorted(glob.glob(f"{V}/seeded/*/m*/meta.json")):
        d = json.load(open(meta))
        pid = meta.split("/")[-3]; m = meta.split("/")[-2]
        c = d.get("confirmed", {})
        st = c.get("quick_tier", "?")
        tot += 1
        if st.startswith("caught"): caught += 1
        elif "after strengthening" in st: later += 1
        note = c.get("note", "")
        clean = lambda s: re.sub(r"\s+", " ", str(s)).replace("|", "/")
        rows.append(f"| {pid}/{m} | {clean(d.get('clause',''))[:160]} | {clean(', '.join(os.path.basename(f) for f in d.get('files', [])))} | {clean(d.get('needs',''))[:200]} | {clean(st)}{(' - ' + clean(note)[:220]) if note else ''} |")
    rows += ["", f"Totals: {tot} seeded changes; {caught} caught by the quick tier as it stood when the change was seeded; {later} missed at first and caught after the check was strengthened; {tot - caught - later} not caught by the property's own quick tier (see notes)."]
    return "\n".join(rows)

def headers():
    out = ["## Appendix B - the specification modules as built (header comments, generated)", ""]
    for f in sorted(glob.glob(f"{V}/spec/lib/*.tla")) + sorted(glob.glob(f"{V}/spec/*.tla")):
        lines = open(f).read().splitlines()
        hdr = []
        for l in lines[1:]:
            if l.startswith("(*") or l.startswith("\\*") or not l.strip():
                hdr.append(l)
            else:
                break
        n = len(lines)
        invs = [m.group(1) for l in lines for m in [re.match(r"^(\w+) ==", l)] if m]
        out.append(f"### {os.path.relpath(f, V)} ({n} lines)")
        out.append("```")
        out += [re.sub(r"^\(\*\s?|\s*\*\)$", "", h) for h in hdr if h.strip()][:70]
        out.append("```")
        out.append("")
    return "\n".join(out)

def main():
    p = f"{V}/DESIGN.md"
    s = open(p).read()
    gen = f"{BEGIN}\n{seeded_table()}\n\n{headers()}\n{END}"
    if BEGIN in s:
        s = s[:s.index(BEGIN)] + gen + s[s.index(END) + len(END):]
    else:
        s = s.rstrip() + "\n\n" + gen + "\n"
    open(p, "w").write(s)
    print("DESIGN.md regenerated")
main()
