#!/usr/bin/env python3
"""usage: tools/mkround.py <round-no> <worktree-suffix> <out-suffix> [pids...]
Writes /tmp/mut/prompts/<pid>-r<round>.txt for a further mutation round: the generic prompt of
tools/mutant_prompt.txt plus the list of earlier seeded changes (from /verif/seeded/<pid>/m*/meta.json,
clause + needs only - nothing about the checks), and creates the scratch worktree /tmp/mut/<pid>-<suffix>."""
import glob, json, os, subprocess, sys
rnd, wsuf, osuf = sys.argv[1:4]
pids = sys.argv[4:] or [json.loads(l)["id"] for l in open("/verif/properties.jsonl")]
props = {json.loads(l)["id"]: json.loads(l) for l in open("/verif/properties.jsonl")}
base = open("/verif/tools/mutant_prompt.txt").read()
os.makedirs("/tmp/mut/prompts", exist_ok=True)
ORD = {"4": "FOURTH", "5": "FIFTH", "6": "SIXTH"}.get(rnd, rnd + "th")
for pid in pids:
    p = props[pid]
    wt = f"/tmp/mut/{pid}-{wsuf}"
    text = json.dumps({k: p[k] for k in ("title", "statement", "quantifier", "anchors")}, indent=1)
    s = (base.replace("__WT__/../__PID__-out", f"/tmp/mut/{pid}-{osuf}").replace("__WT__", wt)
         .replace("__PID__", pid).replace("__PROPTEXT__", text).replace("__N__", "4"))
    prev = []
    for m in sorted(glob.glob(f"/verif/seeded/{pid}/m*/meta.json"), key=lambda x: int(x.split("/")[-2][1:])):
        d = json.load(open(m))
        prev.append(f"- {', '.join(os.path.basename(f) for f in d.get('files', []))}: {d.get('clause', '')[:260]} (needs: {d.get('needs', '')[:200]}")
    s += (f"\n\nThis is a {ORD} round. Earlier engineers already produced the following changes for this property; do NOT repeat "
          "these ideas or close variants of them - find different ones: other functions and files the property's mechanism passes "
          "through (helpers, base classes, table / distribution / policy classes used by the anchored code), other clauses of the "
          "statement, other configuration options and input representations named in the quantifier, numerical corner cases, call "
          "histories (object reuse, caches, mutation of inputs, aliasing of returned arrays), and interactions between two files. "
          "Subtle is better than loud: a change that shifts a result by a small but real amount, or only on a rare structural "
          "shape, is more valuable than one that crashes. Avoid `git stash` (the stash is shared between worktrees); use "
          "`git diff > file` and `git checkout -- .` instead.\n" + "\n".join(prev) + "\n")
    open(f"/tmp/mut/prompts/{pid}-r{rnd}.txt", "w").write(s)
    if not os.path.isdir(wt):
        subprocess.run(["git", "-C", "/repo", "worktree", "add", "-q", "--detach", wt, "HEAD"], check=True)
    print(pid, wt, len(s))
