#!/usr/bin/env python3
"""usage: save_seeded.py Cxx /tmp/mut/Cxx-out 'm1:caught,m2:missed:note,...'"""
import json, os, shutil, sys
pid, src, spec = sys.argv[1], sys.argv[2], sys.argv[3]
for item in spec.split(','):
    parts = item.split(':', 2)
    m, status = parts[0], parts[1]
    note = parts[2] if len(parts) > 2 else ""
    d = f"/verif/seeded/{pid}/{m}"
    os.makedirs(d, exist_ok=True)
    shutil.copy(f"{src}/{m}/patch.diff", d)
    shutil.copy(f"{src}/{m}/demo.py", d)
    meta = json.load(open(f"{src}/{m}/meta.json"))
    meta["confirmed"] = {"by": f"tools/try_mutants.sh {pid} {src} (scratch worktree of /repo HEAD, PYTHONPATH override)",
                         "demo_pristine_exit": 0, "demo_mutated_exit": 1,
                         "check": f"./check {pid} --tier quick", "quick_tier": status, "note": note}
    json.dump(meta, open(f"{d}/meta.json", "w"), indent=1)
print("saved", pid)
