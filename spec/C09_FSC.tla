------------------------------ MODULE C09_FSC ------------------------------
(* Property C09: finite-state-controller values equal the return of executing the         *)
(* controller; executing the controller object produces action/observation histories with *)
(* exactly the probabilities the controller defines.                                      *)
(*                                                                                        *)
(* (M) abstract problem: a tabular POMDP with a stochastic controller (spec/lib/FSC.tla),  *)
(*     one per record of a JSON batch.                                                    *)
(* (O1) exact controller value: FSC!ValueSolve (cross-product chain on (node, state) with  *)
(*     absorbing states cut, Cramer / Laplace on integers).                               *)
(* (O2) history semantics: FSC!JointAlpha, the joint forward weights over (node, state) by  *)
(*     the definition of the controller, no factorisation and no normalisation.            *)
(* (R) reference machine "hist", one action per step of POMDPPolicy.run_on driving a        *)
(*     StochasticFiniteStateController:                                                    *)
(*       Init          ag = controller.initial_agentstate()  (node weights, canonical)      *)
(*       Act(a)        a drawn from controller.action_dist(ag): the mixture of action rows  *)
(*       Observe(o)    the world answers o (marginalised over the hidden state: gw are the   *)
(*                     unnormalised state weights of a still running episode) and           *)
(*                     ag' = controller.next_agentstate(ag, a, o)                           *)
(*     pc is the product of the probabilities with which the machine's action_dist chose    *)
(*     the actions of the history so far (a rational <<n, d>>).                             *)
(*     agn is the same machine with the update that does NOT condition on the action        *)
(*     (FSC!NodeNaive): it is not part of the property, it is emitted so that a divergence   *)
(*     of the implementation can be classified (invariant NaiveAgrees is expected to FAIL    *)
(*     and is only listed by the model-level demonstration run).                            *)
(*     Machine "value": one state per instance holding the oracle tables (no steps).        *)
(* (P) invariants at the bottom.  Emit prints, for every state in which the real code is    *)
(*     observable, what it has to return (pipeline A).                                      *)
(* Batch record: POMDP fields + controller fields + lst (state list flags), D (history       *)
(* depth), machs, full (1 iff the uncut value system is also to be solved), ghost.           *)
EXTENDS FSC, Json, IOUtils

Batch == JsonDeserialize(IOEnv.BATCH_FILE)

VARIABLES iid,    \* instance
          mach,   \* "hist" | "value"
          ag,     \* node weights of the controller object (canonical integers)
          agn,    \* node weights under the unconditioned update (classification only)
          gw,     \* unnormalised state weights of the running episode
          pa,     \* pending action (0 = none)
          pc,     \* probability with which the machine chose the actions so far, <<n, d>>
          hist,   \* sequence of [a, o]
          vt      \* value tables (mach = "value"), <<>> otherwise
vars == <<iid, mach, ag, agn, gw, pa, pc, hist, vt>>

M == Batch[iid]

ValueTables(m) ==
  LET vs == ValueSolve(m, TRUE) IN
  [cut  |-> vs,
   full |-> IF m.full = 1 THEN ValueSolve(m, FALSE) ELSE <<>>]

Init ==
  /\ iid \in 1..Len(Batch)
  /\ mach \in Range(Batch[iid].machs)
  /\ ag = InitNodes(Batch[iid])
  /\ agn = InitNodes(Batch[iid])
  /\ gw = InitStates(Batch[iid])
  /\ pa = 0
  /\ pc = <<1, 1>>
  /\ hist = <<>>
  /\ vt = IF mach = "value" THEN ValueTables(Batch[iid]) ELSE <<>>

\* a = controller.action_dist(ag).sample(): possible iff the mixture gives a positive weight; the
\* episode must still be running with positive probability
Act(a) ==
  /\ mach = "hist" /\ pa = 0 /\ Len(hist) < M.D
  /\ LiveMass(M, gw) > 0
  /\ ActW(M, ag, a) > 0
  /\ pa' = a
  /\ pc' = RMul(pc, Norm(ActW(M, ag, a), ActDen(M, ag)))
  /\ UNCHANGED <<iid, mach, ag, agn, gw, hist, vt>>

\* the world emits o (positive probability given the history and a), then
\* ag' = controller.next_agentstate(ag, a, o)
Observe(o) ==
  /\ mach = "hist" /\ pa # 0
  /\ BSum(M, EnvPost(M, gw, pa, o)) > 0
  /\ gw' = EnvPost(M, gw, pa, o)
  /\ ag' = NodeStep(M, ag, pa, o)
  /\ agn' = NodeNaive(M, agn, pa, o)
  /\ hist' = Append(hist, [a |-> pa, o |-> o])
  /\ pa' = 0
  /\ UNCHANGED <<iid, mach, pc, vt>>

ActStep == \E a \in Ac(M) : Act(a)
ObserveStep == \E o \in Ob(M) : Observe(o)
Next == ActStep \/ ObserveStep
Spec == Init /\ [][Next]_vars

\* ------------------------------------------------------------------ emission (pipeline A)
RatTab(m, vs) == VTable(m, vs)
ValueRecord(m) ==
  LET c == vt.cut IN
  [v    |-> RatTab(m, c),
   sv   |-> [s \in St(m) |-> Norm(SVNum(m, c, s), Safe(m.ND * c.det))],
   ev   |-> Norm(EVNum(m, c), Safe(Safe(m.ID * m.ND) * c.det)),
   vg   |-> IF m.full = 1 THEN RatTab(m, vt.full) ELSE <<>>,
   svg  |-> IF m.full = 1 THEN [s \in St(m) |-> Norm(SVNum(m, vt.full, s), Safe(m.ND * vt.full.det))] ELSE <<>>,
   evg  |-> IF m.full = 1 THEN Norm(EVNum(m, vt.full), Safe(Safe(m.ID * m.ND) * vt.full.det)) ELSE <<>>,
   ghostmatters |-> GhostMatters(m)]
HistRecord(m) ==
  LET al == JointAlpha(m, hist) IN
  [ag     |-> ag, agn |-> agn,
   actw   |-> ActRow(m, ag), actden |-> ActDen(m, ag),
   nactw  |-> ActRow(m, agn), nactden |-> ActDen(m, agn),
   pc     |-> pc,
   ptrue  |-> Norm(JSum(m, al), JDen(m, Len(hist))),
   live   |-> LiveMass(m, gw) > 0]
Emit ==
  pa = 0 =>
    PrintT(ToJson([iid |-> iid, mach |-> mach, hist |-> hist,
                   rec |-> IF mach = "value" THEN ValueRecord(M) ELSE HistRecord(M)]))

\* ------------------------------------------------------------------ properties (P)
\* (P1) history probabilities: the probability the controller's definition gives to the history
\*      (O2, joint forward weights) is the product of the machine's action probabilities and of the
\*      world's probability of the observations (and of still running)
HistoryProbability ==
  (mach = "hist" /\ pa = 0) =>
     LET al == JointAlpha(M, hist) k == Len(hist) IN
     Norm(JSum(M, al), JDen(M, k)) = RMul(pc, Norm(BSum(M, gw), EDen(M, k)))
\* (P2) given the history, node and state are independent: the joint forward weights are the outer
\*      product of the node-side and the world-side forward weights (same denominators)
Factorises ==
  (mach = "hist" /\ pa = 0) =>
     LET al == JointAlpha(M, hist) f == NodeForward(M, hist) IN
     \A n \in Nd(M) : \A s \in St(M) : al[n][s] = Safe(f[n] * gw[s])
\* (P3) the agent state of the controller object is the posterior over nodes given the history, and
\*      the machine's cumulative action probability is the node-side forward mass
AgentStateIsPosterior ==
  (mach = "hist" /\ pa = 0) =>
     LET f == NodeForward(M, hist) IN
     /\ NSum(M, f) > 0
     /\ ag = NReduce(M, f)
     /\ pc = Norm(NSum(M, f), NDen(M, Len(hist)))
\* (P4) action_dist is a distribution; the agent state is canonical and non-zero
ActionDistNormalised ==
  mach = "hist" =>
     /\ NSum(M, ag) > 0 /\ GCDTo(ag, M.NN) = 1
     /\ SumTo(ActRow(M, ag), M.K) = ActDen(M, ag)
\* (P5) total probability: the extensions of a history by one action/observation pair carry exactly
\*      the mass of the episodes that are still running (those on absorbing states have ended)
TotalProbability ==
  (mach = "hist" /\ pa = 0 /\ Len(hist) < M.D) =>
     LET al == JointAlpha(M, hist) IN
     SumTo([a \in Ac(M) |-> SumTo([o \in Ob(M) |-> JSum(M, JointPost(M, al, a, o))], M.NO)], M.K)
       = Safe(CD(M) * JLive(M, al))
\* (P6) the machine explores exactly the histories of positive probability
ExploresPossibleHistories ==
  (mach = "hist" /\ pa = 0) =>
     /\ JSum(M, JointAlpha(M, hist)) > 0
     /\ Len(hist) < M.D =>
          \A a \in Ac(M) : \A o \in Ob(M) :
             (JSum(M, JointPost(M, JointAlpha(M, hist), a, o)) > 0)
               <=> (LiveMass(M, gw) > 0 /\ ActW(M, ag, a) > 0 /\ BSum(M, EnvPost(M, gw, a, o)) > 0)
\* (V1) the value tables solve the evaluation equations exactly; absorbing states are worth 0
ValueEquation ==
  mach = "value" =>
     /\ SolvesSystem(vt.cut)
     /\ \A n \in Nd(M) : \A s \in ExplAbs(M) : VNum(M, vt.cut, n, s) = 0
     /\ M.full = 1 => SolvesSystem(vt.full)
\* (V2) when no absorbing state declares outgoing dynamics the uncut chain has the same values
CutOnlyMattersWithGhosts ==
  (mach = "value" /\ M.full = 1 /\ ~GhostMatters(M)) =>
     VTable(M, vt.cut) = VTable(M, vt.full)
\* instance filter
InstancesWellFormed == PWellFormed(M) /\ CWellFormed(M) /\ ListClosed(M) /\ M.GN < M.GD
\* NOT a property: the unconditioned update agrees with the controller's semantics.  Listed only by
\* the model-level demonstration (expected to be violated when two nodes have different action rows).
NaiveAgrees == agn = ag
=============================================================================
