----------------------------- MODULE C06_Views -----------------------------
(* Property C06: matrix, table and wrapper views of a tabular MDP agree with its         *)
(* functional definition.                                                               *)
(*                                                                                      *)
(* (M) an instance is an MDP record of lib/MDP.tla plus                                  *)
(*       Z[s][a][t]   1 iff next_state_dist(s, a) lists t with probability 0             *)
(*       Z0[s]        1 iff initial_state_dist() lists s with probability 0              *)
(*       explicit     1 iff the state list is given explicitly: it is then `order`, a     *)
(*                    permutation of all states, IN THAT ORDER (not re-sorted)          *)
(*       aexplicit    1 iff the action list is given explicitly: it is then `aorder`      *)
(*       cuts         the max_states values explored for reachable_states (INF = -1)     *)
(*       plan         1 iff the optimal values are wanted (planning-result clause)       *)
(*     The discount GN/GD may be 0 (GN = 0): discount_rate = 0 is a legal, falsy value.  *)
(*     PD is 2, 3, 4 or - in the rare-probability family - 10^8 / 10^9 with numerators   *)
(*     1 and 10 next to ordinary ones (entries of 1e-9 / 1e-8: positive, hence successors *)
(*     and cells like any other; rewards are bounded there so that every sum T*R stays   *)
(*     below 2^30, and plan = 0).                                                        *)
(*     States may be dead ends (no action), explicitly absorbing with arbitrary ghost    *)
(*     dynamics, implicitly absorbing, and the initial support may contain absorbing     *)
(*     states.                                                                          *)
(* (O) oracle: MDP!Reach (least fixed point), CutResults (every result the max_states    *)
(*     cut-off admits), keyed views OT / OR / OA / OSAR / p0 / AbsAll / DeadEnd /        *)
(*     CannotReach written directly from the functional definition.                     *)
(* (R) reference machine, one action per step of the code:                              *)
(*       Pop        one iteration of the while loop of reachable_states (any frontier   *)
(*                  element: set.pop() is arbitrary), with the max_states test          *)
(*       MkList     state_list: explicit list or the reachable set                      *)
(*       FillRow    one iteration of the `for si, s in enumerate(state_list)` loops of   *)
(*                  transition_matrix / reward_matrix / action_matrix                   *)
(*       Derive     state_action_reward_matrix, initial_state_vec, dead_end_state_vec,   *)
(*                  absorbing_state_vec, _unable_to_reach_absorbing, reachable_state_vec *)
(*                  computed from the ARRAYS (as the code does)                         *)
(*       Rebuild    TabularMarkovDecisionProcess.from_matrices on those arrays, and the  *)
(*                  arrays of the rebuilt MDP; also from_matrices on DENSE input arrays  *)
(*                  (rows under masked-out actions, rewards on zero-probability triples) *)
(*     Absorbing states of the initial support are never put on the frontier            *)
(*     ("successors of absorbing states not expanded" holds for initial states too).    *)
(* (P) invariants at the bottom.                                                        *)
EXTENDS MDP, Json, IOUtils

Batch == JsonDeserialize(IOEnv.BATCH_FILE)
INF == -1

\* ------------------------------------------------------------------ (M) listed entries
Entries(m, s, a) == {t \in St(m) : m.P[s][a][t] > 0 \/ m.Z[s][a][t] = 1}
InitEntries(m)   == {s \in St(m) : m.p0[s] > 0 \/ m.Z0[s] = 1}

\* ------------------------------------------------------------------ (O) oracle
Closed(m, X) == \A s \in X \ ExplAbs(m) : Edges(m, s) \subseteq X
\* the least closed superset of the initial support, by brute force over all subsets (N <= 6)
LeastClosed(m) ==
  LET cands == {X \in SUBSET St(m) : InitSupp(m) \subseteq X /\ Closed(m, X)} IN
  CHOOSE X \in cands : \A Y \in cands : X \subseteq Y

\* initial frontier: absorbing states are never expanded, also not when they are initial states
Frontier0(m) == InitSupp(m) \ ExplAbs(m)
Limit(c, vis) == c # INF /\ Cardinality(vis) >= c

\* every set reachable_states(max_states = c) may return: expansion stops as soon as at least c
\* states are known; which frontier element is expanded next is arbitrary
RECURSIVE CutRuns(_, _, _, _)
CutRuns(m, c, fr, vis) ==
  IF fr = {} \/ Limit(c, vis) THEN {vis}
  ELSE UNION { LET new == Edges(m, s) \ vis IN
               CutRuns(m, c, (fr \ {s}) \cup (new \ ExplAbs(m)), vis \cup new) : s \in fr }
CutResults(m, c) == CutRuns(m, c, Frontier0(m), InitSupp(m))
\* reachable_states is a function of the MDP and of its own argument only: in any history of calls on one object
\* (keyword, positional or default argument, any earlier calls with other values) call number i with argument
\* c_i must return a member of CutResults(m, c_i).  The oracle has no history variable, so the driver judges
\* every call of a history with this one predicate.
AdmissibleCall(m, c, X) == X \in CutResults(m, c)

\* keyed views, straight from the functional definition
OT(m, s, a, t) == IF m.avail[s][a] = 1 THEN m.P[s][a][t] ELSE 0                 \* over PD
OR(m, s, a, t) == IF m.avail[s][a] = 1 /\ m.P[s][a][t] > 0 THEN m.R[s][a][t] ELSE 0
OA(m, s, a)    == m.avail[s][a]
OSAR(m, L, s, a) == SumSet([t \in St(m) |-> OT(m, s, a, t) * OR(m, s, a, t)], L)   \* over PD
FullT(m) == [s \in St(m) |-> [a \in Ac(m) |-> [t \in St(m) |-> OT(m, s, a, t)]]]
FullR(m) == [s \in St(m) |-> [a \in Ac(m) |-> [t \in St(m) |-> OR(m, s, a, t)]]]
FullSAR(m) == [s \in St(m) |-> [a \in Ac(m) |-> OSAR(m, St(m), s, a)]]

\* discount 0 (GN = 0, outside MDP!WellFormed): the optimal value is the best expected immediate reward
ImmediateValue(m) ==
  [s \in St(m) |-> IF s \in ExplAbs(m) THEN <<0, 1>>
                   ELSE RMaxSet({Norm(OSAR(m, St(m), s, a), m.PD) : a \in Avail(m, s)})]
\* optimal values wanted by the planning clause (every state has an action on such instances)
PlanValue(m) == IF m.GN = 0 THEN ImmediateValue(m) ELSE OptimalValue(m)

\* corner inputs named by the quantifier (only counted in the evidence; no verdict depends on them)
GhostOutside(m, L) == {s \in L \cap ExplAbs(m) : ~(Edges(m, s) \subseteq L)}
ZeroOutside(m, L)  == {s \in L : \E a \in Avail(m, s) : \E t \in Entries(m, s, a) : m.P[s][a][t] = 0 /\ t \notin L}
AbsInitGhost(m)    == {s \in InitSupp(m) \cap ExplAbs(m) : ~(Edges(m, s) \subseteq Reach(m))}

\* an instance the quick constructors can express with constants and deterministic variants
ConstCompat(m) ==
  [reward  |-> \A s \in St(m), a \in Ac(m), t \in St(m) : m.R[s][a][t] = m.R[1][1][1],
   actions |-> \A s \in St(m) : Avail(m, s) = Ac(m),
   det     |-> \A s \in St(m) : \A a \in Avail(m, s) :
                  Cardinality(Entries(m, s, a)) = 1 /\ \E t \in St(m) : m.P[s][a][t] = m.PD,
   init    |-> Cardinality(InitEntries(m)) = 1]

\* ------------------------------------------------------------------ (R) array steps
\* L is the set of listed states; entries outside the list have no cell and are skipped
RowT(m, L, s) == [a \in Ac(m) |-> [t \in L |->
                    IF a \in Avail(m, s) /\ t \in Entries(m, s, a) THEN m.P[s][a][t] ELSE 0]]
RowR(m, L, s) == [a \in Ac(m) |-> [t \in L |->
                    IF a \in Avail(m, s) /\ t \in Entries(m, s, a) /\ m.P[s][a][t] # 0 THEN m.R[s][a][t] ELSE 0]]
RowA(m, s)    == [a \in Ac(m) |-> IF a \in Avail(m, s) THEN 1 ELSE 0]

RECURSIVE ArrClosure(_, _, _, _)
ArrClosure(adj, cur, L, k) ==
  IF k = 0 THEN cur
  ELSE LET nxt == cur \cup UNION {adj[t] : t \in cur} IN
       IF nxt = cur THEN cur ELSE ArrClosure(adj, nxt, L, k - 1)

\* everything the code derives from the three arrays (+ is_absorbing, initial_state_dist, discount)
Derived(m, L, T, Rw, Am, vis) ==
  LET K    == Ac(m)
      dead == {s \in L : \A a \in K : Am[s][a] = 0}
      loop == {s \in L : \A a \in K : T[s][a][s] = m.PD \/ Am[s][a] = 0}
      zero == {s \in L : \A a \in K : \A t \in L : Rw[s][a][t] = 0}
      absv == {s \in L : (s \in loop /\ s \notin dead /\ s \in zero) \/ m.abs[s] = 1}
      adj  == TLCEval([s \in L |-> {t \in L : \E a \in K : T[s][a][t] > 0 /\ Am[s][a] = 1}])
      can  == {s \in L : ArrClosure(adj, {s}, L, m.N) \cap absv # {}}
  IN [sar    |-> [s \in L |-> [a \in K |-> SumSet([t \in L |-> T[s][a][t] * Rw[s][a][t]], L)]],
      p0     |-> [s \in L |-> m.p0[s]],
      dead   |-> dead,
      absv   |-> absv,
      cannot |-> IF Discounted(m) THEN {} ELSE L \ can,
      reach  |-> vis \cap L]

\* dense, non-canonical input arrays for from_matrices: the dynamics tensor is filled under every action (also
\* the ones the action matrix masks out) and the reward tensor on every triple (also zero-probability ones)
DenseT(m, L) == [s \in L |-> [a \in Ac(m) |-> [t \in L |-> m.P[s][a][t]]]]
DenseR(m, L) == [s \in L |-> [a \in Ac(m) |-> [t \in L |-> m.R[s][a][t]]]]

\* from_matrices: the MDP whose functions read the arrays (states renumbered 1..n in list order)
FromMatrices(m, ls, T, Rw, Am, d) ==
  LET n == Len(ls) IN
  [N |-> n, K |-> m.K, PD |-> m.PD, GN |-> m.GN, GD |-> m.GD, ID |-> m.ID,
   abs   |-> [i \in 1..n |-> IF ls[i] \in d.absv THEN 1 ELSE 0],
   avail |-> [i \in 1..n |-> [a \in Ac(m) |-> Am[ls[i]][a]]],
   P     |-> [i \in 1..n |-> [a \in Ac(m) |-> [j \in 1..n |-> T[ls[i]][a][ls[j]]]]],
   R     |-> [i \in 1..n |-> [a \in Ac(m) |-> [j \in 1..n |-> Rw[ls[i]][a][ls[j]]]]],
   Z     |-> [i \in 1..n |-> [a \in Ac(m) |-> [j \in 1..n |-> 0]]],
   p0    |-> [i \in 1..n |-> d.p0[ls[i]]],
   Z0    |-> [i \in 1..n |-> 0],
   explicit |-> 1]

\* all arrays of an instance with an explicit full list, in one go (used for the rebuilt MDP)
AllArrays(m2) ==
  LET L  == St(m2)
      T  == TLCEval([s \in L |-> RowT(m2, L, s)])
      Rw == TLCEval([s \in L |-> RowR(m2, L, s)])
      Am == TLCEval([s \in L |-> RowA(m2, s)])
  IN [T |-> T, R |-> Rw, A |-> Am, d |-> Derived(m2, L, T, Rw, Am, Reach(m2))]

\* the arrays of the rebuilt MDP equal the arrays it was built from (position i <-> state ls[i])
SameArrays(m, ls, T, Rw, Am, d, x) ==
  LET n == Len(ls) IN
  /\ \A i \in 1..n : \A a \in Ac(m) :
        /\ x.A[i][a] = Am[ls[i]][a]
        /\ x.d.sar[i][a] = d.sar[ls[i]][a]
        /\ \A j \in 1..n : x.T[i][a][j] = T[ls[i]][a][ls[j]] /\ x.R[i][a][j] = Rw[ls[i]][a][ls[j]]
  /\ \A i \in 1..n : x.d.p0[i] = d.p0[ls[i]]
  /\ {ls[i] : i \in x.d.absv}   = d.absv
  /\ {ls[i] : i \in x.d.dead}   = d.dead
  /\ {ls[i] : i \in x.d.cannot} = d.cannot
  /\ {ls[i] : i \in x.d.reach}  = d.reach

\* ------------------------------------------------------------------ machine
VARIABLES iid, cut, phase, frontier, visited, lst, T, Rw, Am, der, rb, rbd
vars == <<iid, cut, phase, frontier, visited, lst, T, Rw, Am, der, rb, rbd>>
M == Batch[iid]
LSet == Range(lst)

Init ==
  /\ iid \in 1..Len(Batch)
  /\ cut \in Range(Batch[iid].cuts) \cup {INF}
  /\ phase = "reach"
  /\ frontier = Frontier0(Batch[iid])
  /\ visited = InitSupp(Batch[iid])          \* S0 = {e for e, p in initial_state_dist().items() if p > 0}
  /\ lst = <<>> /\ T = <<>> /\ Rw = <<>> /\ Am = <<>> /\ der = <<>> /\ rb = <<>> /\ rbd = <<>>

\* while len(frontier) > 0: if len(visited) >= max_states: break; s = frontier.pop(); expand s
Pop(s) ==
  /\ phase = "reach" /\ frontier # {} /\ ~Limit(cut, visited)
  /\ s \in frontier
  /\ LET succ == UNION {{t \in Entries(M, s, a) : M.P[s][a][t] # 0} : a \in Avail(M, s)}   \* `if prob == 0: continue`
         new  == succ \ visited
     IN /\ frontier' = (frontier \ {s}) \cup (new \ ExplAbs(M))
        /\ visited' = visited \cup new
  /\ UNCHANGED <<iid, cut, phase, lst, T, Rw, Am, der, rb, rbd>>

ReachEnd ==
  /\ phase = "reach" /\ (frontier = {} \/ Limit(cut, visited))
  /\ phase' = IF cut = INF THEN "list" ELSE "cutdone"
  /\ UNCHANGED <<iid, cut, frontier, visited, lst, T, Rw, Am, der, rb, rbd>>

\* state_list: the explicit list as given, or the reachable set in sorted order (abstract order = label order)
MkList ==
  /\ phase = "list"
  /\ lst' = IF M.explicit = 1 THEN M.order ELSE SeqOfSet(visited, M.N)
  /\ phase' = "rows"
  /\ UNCHANGED <<iid, cut, frontier, visited, T, Rw, Am, der, rb, rbd>>

Extend(f, s, v) == [x \in DOMAIN f \cup {s} |-> IF x = s THEN v ELSE f[x]]
FillRow ==
  /\ phase = "rows" /\ DOMAIN T # LSet
  /\ LET s == lst[Cardinality(DOMAIN T) + 1] IN
       /\ T'  = Extend(T, s, RowT(M, LSet, s))
       /\ Rw' = Extend(Rw, s, RowR(M, LSet, s))
       /\ Am' = Extend(Am, s, RowA(M, s))
  /\ UNCHANGED <<iid, cut, phase, frontier, visited, lst, der, rb, rbd>>

Derive ==
  /\ phase = "rows" /\ DOMAIN T = LSet
  /\ der' = Derived(M, LSet, T, Rw, Am, visited)
  /\ phase' = "derived"
  /\ UNCHANGED <<iid, cut, frontier, visited, lst, T, Rw, Am, rb, rbd>>

Rebuild ==
  /\ phase = "derived"
  /\ rb' = AllArrays(FromMatrices(M, lst, T, Rw, Am, der))
  \* from_matrices is also called with hand-written dense arrays that are not in canonical form
  /\ rbd' = AllArrays(FromMatrices(M, lst, DenseT(M, LSet), DenseR(M, LSet), Am, der))
  /\ phase' = "done"
  /\ UNCHANGED <<iid, cut, frontier, visited, lst, T, Rw, Am, der>>

Next == (\E s \in St(M) : Pop(s)) \/ ReachEnd \/ MkList \/ FillRow \/ Derive \/ Rebuild
Spec == Init /\ [][Next]_vars

\* action_list: the explicit list as given, or the actions available in some listed state
ActionList(m, L) == IF m.aexplicit = 1 THEN m.aorder
                    ELSE SeqOfSet(UNION {Avail(m, s) : s \in L}, m.K)

\* ------------------------------------------------------------------ emission (pipeline A)
SetsOf(m) == [i \in 1..Len(m.cuts) |-> CutResults(m, m.cuts[i])]
ViewRecord(m) ==
  [iid |-> iid, kind |-> "views",
   reach |-> visited,
   lst |-> lst, alst |-> ActionList(m, LSet),
   T |-> FullT(m), R |-> FullR(m), A |-> m.avail, sar |-> FullSAR(m), p0 |-> m.p0,
   lsar |-> [i \in 1..Len(lst) |-> der.sar[lst[i]]],
   absall |-> AbsAll(m), dead |-> DeadEnd(m), cannot |-> CannotReach(m),
   labs |-> der.absv, ldead |-> der.dead, lcannot |-> der.cannot, lreach |-> der.reach,
   ghostout |-> GhostOutside(m, Reach(m)), zeroout |-> ZeroOutside(m, Reach(m)),
   absinit |-> AbsInitGhost(m),
   const |-> ConstCompat(m),
   cuts |-> SetsOf(m),
   vstar |-> IF m.plan = 1 THEN PlanValue(m) ELSE <<>>]
Emit ==
  /\ phase = "done" => PrintT(ToJson(ViewRecord(M)))
  /\ phase = "cutdone" => PrintT(ToJson([iid |-> iid, kind |-> "cut", cut |-> cut,
                                        visited |-> visited]))

\* ------------------------------------------------------------------ (P) properties
\* (P1) breadth-first search invariant: everything found is reachable, absorbing states never wait for
\*      expansion, and every expanded state has all its positive-probability successors in the set
ReachInv ==
  /\ frontier \subseteq visited /\ InitSupp(M) \subseteq visited
  /\ visited \subseteq Reach(M)
  /\ frontier \cap ExplAbs(M) = {}
  /\ \A s \in visited \ (frontier \cup ExplAbs(M)) : Edges(M, s) \subseteq visited
\* (P2) without a cut-off the search ends in the least fixed point: closed, and no proper subset that
\*      contains the initial support is closed
ReachFixpoint ==
  (cut = INF /\ phase # "reach") =>
     /\ visited = Reach(M) /\ visited = LeastClosed(M)
     /\ Closed(M, visited)
     /\ \A X \in SUBSET visited : (InitSupp(M) \subseteq X /\ Closed(M, X)) => X = visited
\* (P3) cut-off semantics: a result is one of the oracle's; it is complete when the limit is not reached
CutSemantics ==
  (phase = "cutdone") =>
     /\ visited \in CutResults(M, cut)
     /\ visited \subseteq Reach(M)
     /\ (cut = INF \/ Cardinality(Reach(M)) <= cut) => visited = Reach(M)
     /\ cut # INF => Cardinality(visited) >= MinI(cut, Cardinality(Reach(M)))
\* (P4) the list has no duplicates and is the reachable set unless given explicitly
ListOk ==
  (phase \in {"rows", "derived", "done"}) =>
     /\ \A i \in 1..Len(lst) : \A j \in 1..Len(lst) : i # j => lst[i] # lst[j]
     /\ IF M.explicit = 1 THEN lst = M.order /\ LSet = St(M) ELSE LSet = Reach(M)
\* (P5) the arrays hold the numbers the functions return; rows of unavailable actions are zero
ArraysAgree ==
  (phase \in {"rows", "derived", "done"}) =>
     \A s \in DOMAIN T : \A a \in Ac(M) :
        /\ Am[s][a] = OA(M, s, a)
        /\ \A t \in LSet : T[s][a][t] = OT(M, s, a, t) /\ Rw[s][a][t] = OR(M, s, a, t)
        /\ a \notin Avail(M, s) => \A t \in LSet : T[s][a][t] = 0 /\ Rw[s][a][t] = 0
\* (P6) what is derived from the arrays agrees with the definitions on the model itself
DerivedAgree ==
  (phase \in {"derived", "done"}) =>
     /\ der.absv = AbsAll(M) \cap LSet
     /\ der.dead = DeadEnd(M) \cap LSet
     /\ der.cannot = CannotReach(M) \cap LSet
     /\ der.reach = Reach(M) \cap LSet
     /\ \A s \in LSet : der.p0[s] = M.p0[s]
     /\ \A s \in LSet : \A a \in Ac(M) : der.sar[s][a] = OSAR(M, LSet, s, a)
     \* rows of listed non-absorbing states are complete distributions
     /\ \A s \in LSet \ ExplAbs(M) : \A a \in Avail(M, s) : SumSet([t \in LSet |-> T[s][a][t]], LSet) = M.PD
\* (P7) rebuilding from the arrays gives identical arrays, vectors and reachable set
RoundTrip ==
  (phase = "done") => SameArrays(M, lst, T, Rw, Am, der, rb)
\* (P7b) an MDP built by from_matrices from dense arrays is the same MDP (actions masked by the action matrix,
\*       rewards only matter on positive-probability transitions): its arrays are the canonical ones
DenseRebuild ==
  (phase = "done") => SameArrays(M, lst, T, Rw, Am, der, rbd)
\* instance filter
InstancesWellFormed ==
  \* MDP!WellFormed with the discount allowed to be 0 (the wrapper clauses cover discount_rate = 0)
  /\ \A s \in St(M) : \A a \in Avail(M, s) : SumTo([t \in St(M) |-> M.P[s][a][t]], M.N) = M.PD
  /\ \A s \in St(M), a \in Ac(M), t \in St(M) : M.P[s][a][t] >= 0
  /\ SumTo([s \in St(M) |-> M.p0[s]], M.N) = M.ID
  /\ M.GN >= 0 /\ M.GN <= M.GD
  /\ Len(M.order) = M.N /\ Range(M.order) = St(M)
  /\ Len(M.aorder) = M.K /\ Range(M.aorder) = Ac(M)
  /\ \A s \in St(M), a \in Ac(M), t \in St(M) : M.Z[s][a][t] = 1 => M.P[s][a][t] = 0
  /\ \A s \in St(M) : M.Z0[s] = 1 => M.p0[s] = 0
\* (P8) at discount 0 the general oracle (policy enumeration + linear solve) degenerates to the myopic formula
ZeroDiscountIsMyopic ==
  (phase = "done" /\ M.plan = 1 /\ M.GN = 0) => OptimalValue(M) = ImmediateValue(M)
\* termination: a state without successor is a terminal phase
Terminates == (~ENABLED Next) => phase \in {"done", "cutdone"}
=============================================================================
