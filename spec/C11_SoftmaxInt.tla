--------------------------- MODULE C11_SoftmaxInt ---------------------------
(* Property C11, clause "softmax is normalised and shift-invariant", for integer (exact)   *)
(* scores in natural units, including shifts far beyond 2^53.                             *)
(*                                                                                       *)
(* The probabilities e^k / Z are not rational, so the abstract state of a softmax with     *)
(* integer scores is the vector of its score gaps to the maximum                           *)
(*        Gap(sc)[i] = max(sc) - sc[i]        (log(p_max / p_i) = Gap[i], sum p = 1)        *)
(* which determines the distribution.  A shift is a pair (small, big): `small` is an        *)
(* ordinary integer, `big` an index into the table BIG of the instance (decimal strings   *)
(* such as 2^53, 2^64+1, 10^30, -2^70 that only the harness reads as exact Python ints;    *)
(* 32-bit TLC integers cannot hold them and the model does not need their values: a shift  *)
(* adds the same integer to every score).  The score of event i in a state is               *)
(*        sc[i] + sum of BIG[off[t]]                                                       *)
(* (R) one action Shift(j) per construction of a new SoftmaxDistribution from shifted       *)
(*     scores; (P) ShiftInvariant: every reachable state denotes the initial distribution   *)
(*     (same gaps); the emitted chains are replayed on the real code with exact ints, and  *)
(*     the gaps are cross-checked by the harness with unbounded integer arithmetic.         *)
EXTENDS Num, Json, IOUtils

Batch == JsonDeserialize(IOEnv.BATCH_FILE)

VARIABLES iid, n, sc, off, hist
vars == <<iid, n, sc, off, hist>>
M == Batch[iid]

Gap(k) == LET mx == MaxSet(Range(k)) IN [i \in 1..Len(k) |-> mx - k[i]]
Argmax(k) == {i \in 1..Len(k) : Gap(k)[i] = 0}

Init ==
  /\ iid \in 1..Len(Batch)
  /\ n = 0
  /\ sc = Batch[iid].k
  /\ off = <<>>
  /\ hist = <<>>

Shift(j) ==
  /\ n < M.DEPTH
  /\ sc' = [i \in 1..Len(sc) |-> sc[i] + M.C[j].small]
  /\ off' = IF M.C[j].big = 0 THEN off ELSE Append(off, M.C[j].big)
  /\ hist' = Append(hist, [j |-> j, sc |-> sc', off |-> off', gap |-> Gap(sc')])
  /\ n' = n + 1
  /\ UNCHANGED iid

Next == \E j \in 1..Len(M.C) : Shift(j)
Spec == Init /\ [][Next]_vars

Emit == (n = M.DEPTH) => PrintT(ToJson([iid |-> iid, gap0 |-> Gap(M.k), hist |-> hist]))

\* softmax is shift-invariant: every state denotes the distribution of the initial scores
ShiftInvariant == Gap(sc) = Gap(M.k) /\ Argmax(sc) = Argmax(M.k)
\* normalisation in terms of the gaps: some event has gap 0 (weight e^0 = 1), so Z >= 1 is well defined
Normalisable == Argmax(sc) # {}
\* instance filter: gaps small enough for e^-gap to be a normal float (no underflow in the comparison)
InstancesWellFormed ==
  /\ \A i \in 1..Len(M.k) : Gap(M.k)[i] <= 30
  /\ \A j \in 1..Len(M.C) : M.C[j].big \in 0..Len(M.BIG)
=============================================================================
