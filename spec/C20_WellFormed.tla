--------------------------- MODULE C20_WellFormed ---------------------------
(* Property C20, first sentence: every built-in domain defines a well-formed model.     *)
(*                                                                                      *)
(* The harness dumps the functional interface of a real msdm domain object (any of the   *)
(* six built-in domains, any layout / parameters) into an extracted transition system:   *)
(*   N           number of states in the domain's state_list (states are 1..N; 0 stands  *)
(*               for "a state that is NOT in the state list")                            *)
(*   SC          scale: a float probability p is logged as the integer round(p * SC)      *)
(*   abs[s]      1 iff is_absorbing(s)                                                   *)
(*   T[s]        sequence over the actions offered in s (in the order of actions(s)) of   *)
(*               the entries <<t, num>> of next_state_dist(s, a) exactly as listed        *)
(*   RF[s]       same shape: 1 iff reward(s, a, t) is a finite number                     *)
(*   I           entries <<t, num>> of initial_state_dist()                              *)
(*   GN, GD      the discount rate the domain was CONFIGURED with (GN/GD; for a constructor *)
(*               default: the documented default), DQ = round(obj.discount_rate * DS) the  *)
(*               discount rate read back from the constructed object, DS = 10^6             *)
(*   NO, O[a][t] number of observations; entries <<o, num>> of observation_dist(a, t) for *)
(*               every action of the action list and every listed state (<<>> if not a    *)
(*               POMDP; o = 0: observation not in the observation list)                   *)
(* (R) The machine is an agent walking through the extracted system exactly like          *)
(*     MarkovDecisionProcess.reachable_states does: it starts in the support of the       *)
(*     initial distribution or (field all = 1: GridWorld lists walls and enclosed cells)   *)
(*     in addition in any listed state, takes any offered action and any                   *)
(*     successor of positive probability, and does not leave absorbing states.            *)
(* (P) In every state the walk can be in, the clauses of the statement are evaluated on   *)
(*     the logged numbers; TLC decides, and prints a verdict record per failing state and  *)
(*     a summary per instance.  Of the rows of absorbing states only normalisation is     *)
(*     judged (their successors are never expanded) and the predicates GhostOutside / ZeroOutside name the   *)
(*     input shapes on which msdm's array builders index entries outside the lists.        *)
(* Tolerance (derived): an entry is rounded by at most 1/2 unit, the float sum of a row of *)
(* n entries is within n * 2^-52 of the exact sum, so a normalised row of n logged entries  *)
(* sums to SC +- n units (SC = 10^8).                                                    *)
EXTENDS Num, Json, IOUtils

Batch == JsonDeserialize(IOEnv.BATCH_FILE)

VARIABLES iid, cur, via
vars == <<iid, cur, via>>
M == Batch[iid]

St(m) == 1..m.N
Entries(m, s) == UNION {{<<j, k>> : k \in 1..Len(m.T[s][j])} : j \in 1..Len(m.T[s])}
RowSum(row) == SumTo([k \in 1..Len(row) |-> row[k][2]], Len(row))
RowOK(m, row) == /\ \A k \in 1..Len(row) : row[k][2] >= 0
                 /\ AbsI(RowSum(row) - m.SC) <= Len(row)
PosSucc(m, s) == {m.T[s][j][k][1] : <<j, k>> \in {e \in Entries(m, s) : m.T[s][e[1]][e[2]][2] > 0}}
InitSupp(m) == {m.I[k][1] : k \in {k \in 1..Len(m.I) : m.I[k][2] > 0}}

\* ------------------------------------------------------------------ clauses, per state
\* names of the clauses of the statement that fail in state s (0 = outside the list)
Bad(m, s) ==
  IF s = 0 THEN {"successor-outside-state-list"}
  ELSE
  (IF Len(m.T[s]) = 0 THEN {"no-action"} ELSE {})
  \* normalisation is asked of EVERY listed state, absorbing ones included (their rows end up in the arrays)
  \cup (IF \E j \in 1..Len(m.T[s]) : ~RowOK(m, m.T[s][j]) THEN {"transition-not-normalised"} ELSE {})
  \cup (IF m.abs[s] = 0 /\ \E e \in Entries(m, s) : m.T[s][e[1]][e[2]][2] > 0 /\ m.RF[s][e[1]][e[2]] = 0
        THEN {"reward-not-finite"} ELSE {})
  \cup (IF m.NO > 0 /\ \E a \in 1..Len(m.O) : ~RowOK(m, m.O[a][s]) THEN {"observation-not-normalised"} ELSE {})
  \cup (IF m.NO > 0 /\ \E a \in 1..Len(m.O) : \E k \in 1..Len(m.O[a][s]) : m.O[a][s][k][2] > 0 /\ m.O[a][s][k][1] = 0
        THEN {"observation-outside-observation-list"} ELSE {})
\* the offending (action position, entries) of a state, for the report
Detail(m, s) ==
  IF s = 0 THEN <<>>
  ELSE [j \in 1..Len(m.T[s]) |-> [ok |-> IF RowOK(m, m.T[s][j]) THEN 1 ELSE 0, sum |-> RowSum(m.T[s][j])]]

\* ------------------------------------------------------------------ instance level
InitBad(m) ==
  (IF ~RowOK(m, m.I) THEN {"initial-not-normalised"} ELSE {})
  \cup (IF 0 \in InitSupp(m) THEN {"initial-outside-state-list"} ELSE {})
\* the constructed model carries the configured discount rate: DQ is within half a unit (+ float noise)
\* of GN/GD * DS, i.e. |DQ * GD - GN * DS| < GD (all products stay below 2^31: GD <= 1000, DS = 10^6)
DiscountOK(m) == AbsI(m.DQ * m.GD - m.GN * m.DS) < m.GD
ModelBad(m) == IF DiscountOK(m) THEN {} ELSE {"discount-rate-not-the-configured-one"}
RECURSIVE Closure(_, _, _)
Closure(m, cur_, k) ==
  IF k = 0 THEN cur_
  ELSE LET nxt == cur_ \cup UNION {PosSucc(m, s) : s \in {t \in cur_ : t # 0 /\ m.abs[t] = 0}} IN
       IF nxt = cur_ THEN cur_ ELSE Closure(m, nxt, k - 1)
Reach(m) == Closure(m, InitSupp(m), m.N + 1)
\* shapes on which an array builder that indexes every listed entry cannot work
GhostOutside(m) == {s \in St(m) : m.abs[s] = 1 /\ \E e \in Entries(m, s) : m.T[s][e[1]][e[2]][1] = 0}
ZeroOutside(m)  == {s \in St(m) : m.abs[s] = 0 /\ \E e \in Entries(m, s) :
                                     m.T[s][e[1]][e[2]][1] = 0 /\ m.T[s][e[1]][e[2]][2] = 0}
ZeroObsOutside(m) == IF m.NO = 0 THEN {} ELSE
                     {s \in St(m) : \E a \in 1..Len(m.O) : \E k \in 1..Len(m.O[a][s]) :
                                     m.O[a][s][k][1] = 0 /\ m.O[a][s][k][2] = 0}

\* ------------------------------------------------------------------ machine
Init ==
  /\ iid \in 1..Len(Batch)
  /\ cur \in InitSupp(Batch[iid]) \cup (IF Batch[iid].all = 1 THEN St(Batch[iid]) ELSE {})
  /\ via = "init"

Step ==
  /\ cur # 0 /\ M.abs[cur] = 0
  /\ cur' \in PosSucc(M, cur)
  /\ via' = "step"
  /\ UNCHANGED iid

Next == Step
Spec == Init /\ [][Next]_vars

\* ------------------------------------------------------------------ verdicts
Summary(m) ==
  [iid |-> iid, kind |-> "summary", tag |-> m.tag, initbad |-> InitBad(m), modelbad |-> ModelBad(m), nreach |-> Cardinality(Reach(m) \ {0}),
   ghost |-> GhostOutside(m), zero |-> ZeroOutside(m), zeroobs |-> ZeroObsOutside(m),
   unreached |-> St(m) \ Reach(m)]
First(m) == CHOOSE s \in InitSupp(m) : \A t \in InitSupp(m) : s <= t
Emit ==
  /\ (via = "init" /\ InitSupp(M) # {} /\ cur = First(M)) => PrintT(ToJson(Summary(M)))
  /\ Bad(M, cur) # {} =>
        PrintT(ToJson([iid |-> iid, kind |-> "bad", tag |-> M.tag, s |-> cur, clauses |-> Bad(M, cur),
                       reachable |-> IF cur \in Reach(M) THEN 1 ELSE 0, detail |-> Detail(M, cur)]))

\* the same clauses as TLC invariants (violated = some instance of the batch fails the clause)
WellFormedState == Bad(M, cur) = {}
WellFormedInit  == InitBad(M) = {}
WellFormedModel == ModelBad(M) = {}
\* design-level: the walk stays inside 0..N and only ever stands outside the list after a step that the
\* closure also sees
TypeOK == cur \in 0..M.N /\ (M.all = 0 => cur \in Reach(M))
=============================================================================
