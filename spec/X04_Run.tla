------------------------------- MODULE X04_Run -------------------------------
(* Extension X04, roll-outs: MultiAgentPolicy.run_on on a tabular stochastic game.        *)
(*                                                                                      *)
(* Batch = [games |-> instances of lib/StochGame.tla with a joint policy,                *)
(*          traces |-> roll-outs recorded from the real code: [gid, mx, init, ev]]       *)
(* where ev is the sequence of events [s, j, r] (state, joint action, joint rewards)      *)
(* that run_on returned, mx = maxSteps and init = the given initial state (0: sampled).   *)
(*                                                                                      *)
(* MODE "mc"    (R) the reference machine of run_on: sample an initial state, then at     *)
(*              most mx times: sample a joint action from the product policy, a           *)
(*              successor from next_state_dist, record (s, a, r), stop when the           *)
(*              successor is terminal.  Seeded sampling = nondeterministic choice, so     *)
(*              TLC explores every roll-out.  (P) every roll-out the machine produces     *)
(*              is valid (StochGame!JudgeRun finds nothing), never longer than mx,        *)
(*              and never records a terminal state.                                       *)
(* MODE "trace" pipeline B: one Check action per recorded event; `bad` collects every     *)
(*              clause of "the trajectory is valid" the event breaks (verdicts are        *)
(*              total); the verdict of a trace is printed when all events are consumed.   *)
EXTENDS StochGame, Json, IOUtils

Batch == JsonDeserialize(IOEnv.BATCH_FILE)
Mode == IOEnv.MODE
Games == Batch.games
Traces == Batch.traces

VARIABLES tix, mx, cur, hist, l, bad, phase
vars == <<tix, mx, cur, hist, l, bad, phase>>

\* ------------------------------------------------------------------ (R) generator, MODE "mc"
G == Games[tix]
GenInit ==
  /\ tix \in 1..Len(Games)
  /\ mx \in 1..3
  /\ cur \in GInit(Games[tix], 0) \ GTerm(Games[tix])       \* problem.initial_state_dist().sample()
  /\ hist = <<>> /\ l = 0 /\ bad = {} /\ phase = "run"
\* a = joint_action_dist(s).sample(); ns = next_state_dist(s, a).sample(); r = joint_rewards(s, a, ns)
GenStep(j, t) ==
  /\ phase = "run" /\ Len(hist) < mx
  /\ JointProb(G, cur, j) > 0 /\ G.P[cur][j][t] > 0
  /\ hist' = Append(hist, [s |-> cur, j |-> j, r |-> G.R[cur][j][t]])
  /\ IF G.term[t] = 1 \/ Len(hist) + 1 = mx
     THEN phase' = "end" /\ cur' = t
     ELSE phase' = "run" /\ cur' = t
  /\ UNCHANGED <<tix, mx, l, bad>>
GenNext == \E j \in GJA(G) : \E t \in GSt(G) : GenStep(j, t)
\* every produced roll-out is valid; the judge and the generator agree
GenValid == JudgeRun(G, mx, 0, hist) \subseteq (IF phase = "end" THEN {} ELSE {"stopped-before-terminal-state"})
GenBounded == Len(hist) <= mx /\ \A i \in 1..Len(hist) : G.term[hist[i].s] = 0
\* a roll-out shorter than mx has ended in a terminal state
GenEnds == (phase = "end" /\ Len(hist) < mx) => G.term[cur] = 1
GenProgress == (phase = "run") => ENABLED GenNext
GenWellFormed == WellFormedGame(G) /\ WellFormedPolicy(G)

\* ------------------------------------------------------------------ pipeline B, MODE "trace"
Tr == Traces[tix]
TG == Games[Tr.gid]
TraceInit ==
  /\ tix \in 1..Len(Traces)
  /\ mx = Traces[tix].mx /\ hist = Traces[tix].ev /\ cur = 0
  /\ l = 0 /\ bad = {} /\ phase = "check"
Check ==
  /\ phase = "check" /\ l < Len(hist)
  /\ l' = l + 1
  /\ bad' = bad \cup JudgeEvent(TG, mx, Tr.init, hist, l + 1)
  /\ UNCHANGED <<tix, mx, cur, hist, phase>>
Finish ==
  /\ phase = "check" /\ l = Len(hist)
  /\ phase' = "judged"
  /\ UNCHANGED <<tix, mx, cur, hist, l, bad>>
TraceNext == Check \/ Finish
Verdict == phase = "judged" => PrintT(ToJson([tid |-> tix, accept |-> bad = {}, bad |-> bad]))
\* the clauses as invariants over the judged events (a failing clause is also a TLC counterexample)
TrInitial     == "initial-state-outside-initial-support" \notin bad /\ "initial-state-not-the-given-one" \notin bad
TrLength      == "longer-than-max-steps" \notin bad
TrActions     == "joint-action-unavailable" \notin bad /\ "joint-action-has-zero-policy-probability" \notin bad
TrSuccessors  == "successor-has-zero-probability" \notin bad
TrRewards     == "reward" \notin bad
TrTermination == "continued-after-terminal-state" \notin bad /\ "stopped-before-terminal-state" \notin bad
=============================================================================
