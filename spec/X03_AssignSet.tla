--------------------------- MODULE X03_AssignSet ---------------------------
(* Extension X03, second part: msdm.core.assignment.AssignmentSet behaves like a set of    *)
(* (possibly unhashable) assignments under add / remove / contains / union /              *)
(* intersection / difference / equality (and pop).                                        *)
(*                                                                                      *)
(* (M) elements: nested assignments compared structurally (X03_Keys / lib/Nested).        *)
(* (O)=(R) the reference container is a TLA+ set s of such values: structural equality of  *)
(*     the elements is set membership.  One action per call on the real object:            *)
(*        Add   s.add(x)         Rem   s.remove(x)  (KeyError if absent)    Has   x in s   *)
(*        Or / And / Sub(j)      s = s | o,  s & o,  s - o     (o = j-th set of the family) *)
(*        ROr / RAnd / RSub(j)   s = o | s,  o & s,  o - s     (the current set on the right) *)
(*        Pop                    x = s.pop()  - any element (one successor per element),    *)
(*                               KeyError on the empty set                                 *)
(*     The binary operations return a NEW set on which the machine continues; neither       *)
(*     operand may change (checked by the harness).                                        *)
(* (P) SetLaw (action property): the algebra each action must realise; SetOK.              *)
(*                                                                                      *)
(* TLC explores every operation sequence of length <= Cfg.maxlen from every configured      *)
(* initial set; every state emits its history (with expected return values and the input     *)
(* shape of each call), the expected elements, and its equality with every set of the family. *)
EXTENDS X03_Keys

Keys    == SeqToSet(Cfg.keys)
MaxLen  == Cfg.maxlen
NOthers == Len(Cfg.others)          \* Cfg.others[j] = sequence of key indices (constructor order)
BinArgs == SeqToSet(Cfg.bin)        \* members of the family usable as the other operand
BinOps  == SeqToSet(Cfg.binops)     \* subset of {"or","and","sub","ror","rand","rsub"}
Inits   == SeqToSet(Cfg.inits)      \* 0 = empty set, j = AssignmentSet(Cfg.others[j])
WithPop == Cfg.pop = 1

VARIABLES init, s, hist
vars == <<init, s, hist>>

Other(j) == {K(Cfg.others[j][i]) : i \in 1..Len(Cfg.others[j])}

None    == [t |-> "none", v |-> 0]
KeyErr  == [t |-> "keyerr", v |-> 0]
Val(v)  == [t |-> "val", v |-> v]
Bool(b) == [t |-> "bool", v |-> IF b THEN 1 ELSE 0]

ElemShape(i) ==
  IF \E j \in Partner(i) : K(j) \in s THEN "json-text-twin-of-the-item-is-present"
  ELSE IF Unhashable(K(i)) THEN (IF K(i) \in s THEN "unhashable-item-present" ELSE "unhashable-item-absent")
  ELSE (IF K(i) \in s THEN "hashable-item-present" ELSE "hashable-item-absent")
\* input shape of a binary operation  left <op> right
BinShape(left, right) ==
  IF \E x \in left \cup right : \E j \in Partner(IdxOf(x)) : K(j) \in left \cup right
    THEN "json-text-twins-among-the-operands"
  ELSE IF \E x \in right \ left : Unhashable(x) THEN "unhashable-item-only-in-right-operand"
  ELSE IF \E x \in left \cup right : Unhashable(x) THEN "unhashable-items"
  ELSE "hashable-items"
Ev(op, i, o, ret, shape) == [op |-> op, k |-> i, o |-> o, ret |-> ret, shape |-> shape]

Init ==
  /\ init \in Inits /\ hist = <<>>
  /\ s = IF init = 0 THEN {} ELSE Other(init)

Add(i) == /\ s' = s \cup {K(i)}
          /\ hist' = Append(hist, Ev("add", i, 0, None, ElemShape(i)))
Rem(i) == /\ s' = s \ {K(i)}
          /\ hist' = Append(hist, Ev("rem", i, 0, IF K(i) \in s THEN None ELSE KeyErr, ElemShape(i)))
Has(i) == /\ s' = s
          /\ hist' = Append(hist, Ev("has", i, 0, Bool(K(i) \in s), ElemShape(i)))
Result(op, o) ==
  CASE op = "or"   -> s \cup o   [] op = "ror"  -> o \cup s
    [] op = "and"  -> s \cap o   [] op = "rand" -> o \cap s
    [] op = "sub"  -> s \ o      [] op = "rsub" -> o \ s
Bin(op, j) ==
  /\ s' = Result(op, Other(j))
  /\ hist' = Append(hist, Ev(op, 0, j, None,
                             IF op \in {"or", "and", "sub"} THEN BinShape(s, Other(j)) ELSE BinShape(Other(j), s)))
\* pop returns an arbitrary element: one successor per choice, the harness follows the branch the real
\* call took
Pop == \/ /\ s = {} /\ s' = s /\ hist' = Append(hist, Ev("pop", 0, 0, KeyErr, "empty"))
       \/ \E x \in s : /\ s' = s \ {x}
                       /\ hist' = Append(hist, Ev("pop", 0, 0, Val(IdxOf(x)),
                                                  IF Unhashable(x) THEN "unhashable-item-popped" ELSE "hashable-item-popped"))

Next ==
  /\ Len(hist) < MaxLen
  /\ \/ \E i \in Keys : Add(i) \/ Rem(i) \/ Has(i)
     \/ \E op \in BinOps : \E j \in BinArgs : Bin(op, j)
     \/ (WithPop /\ Pop)
  /\ UNCHANGED init
Spec == Init /\ [][Next]_vars

\* ------------------------------------------------------------------ emission (pipeline A)
Emit ==
  PrintT(ToJson([init |-> init, hist |-> hist, items |-> {IdxOf(x) : x \in s},
                 eq |-> [j \in 1..NOthers |-> s = Other(j)]]))
EmitUniverse ==
  (hist = <<>> /\ init = CHOOSE x \in Inits : TRUE) =>
     PrintT(ToJson([universe |-> [i \in 1..NU |-> K(i)],
                    unhashable |-> [i \in 1..NU |-> Unhashable(K(i))],
                    shadows |-> Shadows]))

\* ------------------------------------------------------------------ (P) properties
SetOK == s \subseteq SeqToSet(KeyUniv)
ConfigOK ==
  /\ KeysOK /\ Keys \subseteq 1..NU /\ BinArgs \subseteq 1..NOthers /\ Inits \subseteq 0..NOthers
  /\ BinOps \subseteq {"or", "and", "sub", "ror", "rand", "rsub"}
  /\ \A j \in 1..NOthers : SeqToSet(Cfg.others[j]) \subseteq 1..NU
\* the algebra of sets, stated elementwise over the whole universe
SetLaw ==
  [][LET e == hist'[Len(hist')]
         In(x, S) == x \in S
         o == Other(e.o) IN
     \A x \in SeqToSet(KeyUniv) :
       CASE e.op = "add"  -> In(x, s') = (In(x, s) \/ x = K(e.k))
         [] e.op = "rem"  -> In(x, s') = (In(x, s) /\ x # K(e.k)) /\ (e.ret = KeyErr) = ~In(K(e.k), s)
         [] e.op = "has"  -> s' = s /\ e.ret = Bool(In(K(e.k), s))
         [] e.op \in {"or", "ror"}   -> In(x, s') = (In(x, s) \/ In(x, o))
         [] e.op \in {"and", "rand"} -> In(x, s') = (In(x, s) /\ In(x, o))
         [] e.op = "sub"  -> In(x, s') = (In(x, s) /\ ~In(x, o))
         [] e.op = "rsub" -> In(x, s') = (In(x, o) /\ ~In(x, s))
         [] e.op = "pop"  -> IF s = {} THEN s' = s /\ e.ret = KeyErr
                             ELSE /\ e.ret.t = "val" /\ K(e.ret.v) \in s
                                  /\ In(x, s') = (In(x, s) /\ x # K(e.ret.v))
         [] OTHER -> FALSE]_vars
=============================================================================
