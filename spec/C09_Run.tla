------------------------------ MODULE C09_Run ------------------------------
(* Property C09, pipeline B: episodes recorded from POMDPPolicy.run_on driving a real       *)
(* StochasticFiniteStateController are validated against the controller semantics of        *)
(* spec/lib/FSC.tla.  One TLC run validates a whole batch: Init chooses the episode.         *)
(*                                                                                        *)
(* Data = [insts |-> instances (POMDP + controller), eps |-> episodes]; an episode is        *)
(*   iid, s0 (initial state), given (1 iff the caller passed the initial state), maxsteps,   *)
(*   agw (node weights passed as initial_agentstate; empty = none passed),                  *)
(*   ag0 (initial agent state, quantised), steps = <<[s, a, ns, o, rq, agq, nagq, adq], ...>>,*)
(*   (adq = controller.action_dist(agent state of the step), the distribution a was drawn    *)
(*   from, quantised)                                                                       *)
(*   last = [s, agq]  (the closing record of run_on)                                        *)
(* States / actions / observations are abstract indices (1-based); agent states are         *)
(* quantised as round(x * SA), rewards as round(r * SR).                                    *)
(*                                                                                        *)
(* The machine replays the episode event by event (one action per iteration of the loop of   *)
(* run_on): StepEv checks that the logged step is one the model allows from the current      *)
(* state, EndEv checks the stop rule.  The verdict is total: `bad` is the name of the first  *)
(* failing conjunct ("" = accepted) and `agv` says whether the logged agent states are the   *)
(* exact node posteriors ("ok"), the unconditioned update ("naive") or neither ("other").    *)
EXTENDS FSC, Json, IOUtils

Data == JsonDeserialize(IOEnv.BATCH_FILE)
SA == 4096
SR == 1024

VARIABLES tid,   \* episode
          l,     \* next event: 1..Len(steps) steps, Len+1 end, Len+2 done
          es,    \* state of the world
          ag,    \* exact node posterior (canonical weights)
          agn,   \* node weights under the unconditioned update (classification only)
          bad,   \* first failing conjunct of the episode semantics, "" if none
          agv    \* "ok" | "naive" | "other"
vars == <<tid, l, es, ag, agn, bad, agv>>

Ep == Data.eps[tid]
M  == Data.insts[Ep.iid]
NSteps == Len(Ep.steps)

\* quantised node distribution q is the distribution of the weights w, within one unit per entry
Close(m, q, w) ==
  /\ NSum(m, w) > 0
  /\ \A n \in Nd(m) : AbsI(Safe(q[n] * NSum(m, w)) - Safe(w[n] * SA)) <= NSum(m, w)
\* quantised action distribution q is the action mixture of the node weights w, within one unit
CloseAct(m, q, w) ==
  /\ NSum(m, w) > 0
  /\ \A a \in Ac(m) : AbsI(Safe(q[a] * ActDen(m, w)) - Safe(ActW(m, w, a) * SA)) <= ActDen(m, w)
AgVerdict(m, q, w, wn, old) ==
  IF old # "ok" THEN old
  ELSE IF Close(m, q, w) THEN "ok"
  ELSE IF Close(m, q, wn) THEN "naive"
  ELSE "other"

InitVerdict(m, e) ==
  IF e.s0 \notin St(m) THEN "initial-state-unknown"
  ELSE IF e.given = 0 /\ m.p0[e.s0] = 0 THEN "initial-state-outside-initial-support"
  ELSE ""

StepVerdict(m, e, s, w, wn, i, cap) ==
  IF e.s # s THEN "state-discontinuity"
  ELSE IF s \in ExplAbs(m) THEN "continued-after-absorbing-state"
  ELSE IF i > cap THEN "exceeded-max-steps"
  ELSE IF ActW(m, w, e.a) = 0 THEN
         (IF ActW(m, wn, e.a) > 0 THEN "action-impossible-given-history:unconditioned-on-action"
          ELSE "action-outside-support")
  ELSE IF m.P[s][e.a][e.ns] = 0 THEN "impossible-successor"
  ELSE IF m.O[e.a][e.ns][e.o] = 0 THEN "impossible-observation"
  ELSE IF e.rq # SR * m.R[s][e.a][e.ns] THEN "reward"
  ELSE IF ~CloseAct(m, e.adq, w) THEN
         (IF CloseAct(m, e.adq, wn) THEN "action-probabilities-given-history:unconditioned-on-action"
          ELSE "action-probabilities-given-history")
  ELSE ""

EndVerdict(m, e, s, cap) ==
  IF e.last.s # s THEN "final-state-discontinuity"
  ELSE IF s \notin ExplAbs(m) /\ Len(e.steps) < cap THEN "stopped-before-absorbing-state"
  ELSE ""

\* node weights the episode starts from: run_on(..., initial_agentstate = agw / sum) when the caller passed
\* one (agw non-empty), otherwise the controller's own initial node distribution
StartNodes(m, e) == IF Len(e.agw) = 0 THEN InitNodes(m) ELSE NReduce(m, [n \in Nd(m) |-> e.agw[n]])

Init ==
  /\ tid \in 1..Len(Data.eps)
  /\ l = IF InitVerdict(Data.insts[Data.eps[tid].iid], Data.eps[tid]) = "" THEN 1
         ELSE Len(Data.eps[tid].steps) + 2
  /\ es = Data.eps[tid].s0
  /\ ag = StartNodes(Data.insts[Data.eps[tid].iid], Data.eps[tid])
  /\ agn = StartNodes(Data.insts[Data.eps[tid].iid], Data.eps[tid])
  /\ bad = InitVerdict(Data.insts[Data.eps[tid].iid], Data.eps[tid])
  /\ agv = AgVerdict(Data.insts[Data.eps[tid].iid], Data.eps[tid].ag0,
                     StartNodes(Data.insts[Data.eps[tid].iid], Data.eps[tid]), StartNodes(Data.insts[Data.eps[tid].iid], Data.eps[tid]), "ok")

\* one iteration of the loop of run_on
StepEv ==
  /\ l <= NSteps
  /\ LET e == Ep.steps[l]
         v == StepVerdict(M, e, es, ag, agn, l, Ep.maxsteps)
     IN IF v # "" THEN
          /\ bad' = v /\ l' = NSteps + 2
          /\ UNCHANGED <<es, ag, agn, agv>>
        ELSE
          /\ bad' = bad /\ l' = l + 1
          /\ es' = e.ns
          /\ ag' = NodeStep(M, ag, e.a, e.o)
          /\ agn' = NodeNaive(M, agn, e.a, e.o)
          /\ agv' = AgVerdict(M, e.nagq, NodeStep(M, ag, e.a, e.o), NodeNaive(M, agn, e.a, e.o),
                              AgVerdict(M, e.agq, ag, agn, agv))
  /\ UNCHANGED tid

\* the closing record: the loop stopped because the state is absorbing or the step budget is spent
EndEv ==
  /\ l = NSteps + 1
  /\ bad' = EndVerdict(M, Ep, es, Ep.maxsteps)
  /\ agv' = AgVerdict(M, Ep.last.agq, ag, agn, agv)
  /\ l' = NSteps + 2
  /\ UNCHANGED <<tid, es, ag, agn>>

Next == StepEv \/ EndEv
Spec == Init /\ [][Next]_vars

Done == l = NSteps + 2
Emit == Done => PrintT(ToJson([tid |-> tid, bad |-> bad, agv |-> agv, es |-> es]))

\* ------------------------------------------------------------------ properties
\* every recorded episode is an execution of the model: every action drawn from the controller's
\* posterior action mixture given the history so far (support and probabilities), possible successors /
\* observations, the model's rewards, no step from an absorbing state, and the loop only stops at an
\* absorbing state or when the step budget is spent
EpisodeAccepted == bad = ""
\* the agent states logged along the episode are the node posteriors
AgentStatesArePosteriors == agv = "ok"
\* design: while the episode is accepted the exact posterior is a canonical non-zero weight vector
PosteriorWellDefined == (bad = "" /\ l <= NSteps + 1) => (NSum(M, ag) > 0 /\ GCDTo(ag, M.NN) = 1)
InstancesWellFormed == PWellFormed(M) /\ CWellFormed(M)
=============================================================================
