----------------------------- MODULE C17_RMax -----------------------------
(* Property C17: R-MAX (msdm/algorithms/rmax.py) stays optimistic about what it has not  *)
(* tried often enough.                                                                  *)
(*                                                                                      *)
(* (M) abstract problem: a batch record = finite episodic MDP instance (fields of        *)
(*     lib/MDP.tla, every action available everywhere) + configuration                   *)
(*       thr   sample threshold (num_transition_samples)                                 *)
(*       rmax  the MDP's maximal reward (integer, >= every reward that can be met); the  *)
(*             statement's bound is rmax / (1 - gamma) for THIS value, also when the      *)
(*             learner was configured with a larger one and did not refuse it            *)
(*       lst   lst[s] = 1 iff s is in the MDP's state list                               *)
(* (O) exact oracle: the fixed point of the Bellman equation of the empirical optimistic *)
(*     model (SolveExact): known pairs use the first thr samples, every other pair is a  *)
(*     self-loop worth Vmax = rmax / (1 - gamma).  Computed with the shared optimal      *)
(*     value oracle on the *shifted* instance U = V - Vmax, in which a state with an     *)
(*     unknown pair is absorbing (U = 0) and rewards are R - rmax <= 0.                  *)
(* (R) reference machine, one action per step of the code:                               *)
(*       StartEpisode   s ~ initial_state_dist                                           *)
(*       Step           _act (all equal -> any action, else first argmax),               *)
(*                      ns ~ next_state_dist, _observe (count-limited model update),     *)
(*                      and, when the count reaches thr, _value_iteration (here: the     *)
(*                      exact fixed point instead of the tolerance-stopped iteration)    *)
(*     variables: cur, cnt (s_a_counts), tcnt (transitions), rsum (rewards), Q           *)
(* (P) invariants / action properties at the bottom.                                     *)
(*                                                                                      *)
(* Modes (IOEnv.MODE):                                                                   *)
(*   "mc"     TLC explores every experience history of every instance of the batch       *)
(*            (no episode counter: the graph is finite because counts stop at thr).      *)
(*   "trace"  pipeline B.  A batch record additionally carries the event list recorded   *)
(*            from the real RMAX.train_on run through RMAXEventListener:                 *)
(*              step   (s, a, r, ns) of end_of_timestep, r scaled by 1024, plus the      *)
(*                     internal q_matrix when it changed (integers, unit 1/SC)           *)
(*              end    end_of_episode                                                    *)
(*              final  the returned q_values, their exact ranks, the support of the      *)
(*                     returned policy and the exact-side flags (see JudgeExact)         *)
(*              cut    the run did not return (only the steps before are judged)         *)
(*            The final event may also carry er (ern = 1): the episode_rewards reported  *)
(*            by the default EpisodeRewardEventListener for the same configuration; it    *)
(*            must equal the per-episode totals of the MDP's rewards along this history.  *)
(*            The trace actions replay the bookkeeping of (R) from the logged arguments, *)
(*            judge every clause of the property in integer arithmetic and accumulate    *)
(*            total verdicts (fail = property clauses, drift = implementation shaped);   *)
(*            one JSON verdict record per trace is printed at the end.                   *)
(*                                                                                      *)
(* Quantised numbers (trace mode): a float x of the implementation is logged as          *)
(* round(x * SC), so |logged - x*SC| <= 1/2.  Tolerances (all in units of 1/SC):         *)
(*   optimism / optimistic value:  2          (1/2 rounding + float slack 1e-9 relative)*)
(*   Bellman residual on a known pair, multiplied through by thr * GD:                   *)
(*       | q(s,a)*thr*GD - ( rsum*GD*SC + GN * sum_n tcnt(n) * max_a' q(n,a') ) |        *)
(*         <  diff*SC*thr*GD   (the code's own stopping rule, exact in the reals)        *)
(*          + thr*GD/2 + GN*thr/2  (rounding of q(s,a) and of the successor values)      *)
(*         <= (DQ + 2) * thr * GD   with DQ = ceil(diff * SC)                            *)
(*         EQ = ceil(eps * SC) more units in the near-tie family, whose real rewards are *)
(*         R - RE * eps (eps ~ 1e-6) while the model here uses the integer R             *)
(*   greedy policy: decided exactly, without tolerance: the final event carries, per      *)
(*       state, the dense ranks rk[s][a] of the raw float Q-values (exact float          *)
(*       comparison); every action in the support must have the maximal rank             *)
(*   SC is chosen per trace so that every product stays below 2^30 (2^24 down to 2^7 for   *)
(*   the slow-mixing family with gamma = 999/1000, where Vmax = 1000 rmax); the exact       *)
(*   machine is only compared (orc = 1) when SC >= 1024.                                    *)
(*   distance to the exact machine (coarse unit 1/1024): TC = ceil(1024 (diff + 3/SC)    *)
(*       / (1 - gamma)) + 3   (contraction: ||Q - Q*|| <= residual / (1 - gamma))        *)
EXTENDS MDP, Json, IOUtils

Batch == JsonDeserialize(IOEnv.BATCH_FILE)
Mode  == IOEnv.MODE

VARIABLES iid,    \* index of the instance / trace in the batch
          pc,     \* "start" (between episodes) | "act" | "trace" | "done"
          cur,    \* current state, 0 between episodes
          cnt,    \* cnt[s][a]      number of samples of (s, a) in the model, <= thr
          tcnt,   \* tcnt[s][a][n]  successor counts among the first thr samples
          rsum,   \* rsum[s][a]     reward sum of the first thr samples
          Q,      \* exact Q of the reference machine (rationals)
          l,      \* trace mode: position in the event list
          obs,    \* trace mode: last logged q_matrix (integers, unit 1/SC); <<>> before the first
          fail,   \* trace mode: property clauses that failed, <<tag, position>>
          drift,  \* trace mode: implementation-shaped mismatches, <<kind, tag, position>>
          epr,    \* trace mode: reward totals of the finished episodes (MDP rewards of the steps, unit 1/1024)
          epcur   \* trace mode: reward total of the running episode
vars == <<iid, pc, cur, cnt, tcnt, rsum, Q, l, obs, fail, drift, epr, epcur>>

M == Batch[iid]

\* ------------------------------------------------------------------ (M) configuration
Gap(b)  == b.GD - b.GN                               \* (1 - gamma) * GD
Vmax(b) == Norm(b.rmax * b.GD, Gap(b))               \* rmax / (1 - gamma)
Zero2(b) == [s \in St(b) |-> [a \in Ac(b) |-> 0]]
Zero3(b) == [s \in St(b) |-> [a \in Ac(b) |-> [n \in St(b) |-> 0]]]
Optimistic(b) == [s \in St(b) |-> [a \in Ac(b) |-> Vmax(b)]]
\* instance filter: uniform action sets, discounted, rmax dominates every reward that can be experienced
InstanceOK(b) ==
  /\ WellFormed(b) /\ Discounted(b) /\ b.thr >= 1
  /\ \A s \in St(b) : \A a \in Ac(b) : b.avail[s][a] = 1
  /\ \A s \in Reach(b) \ ExplAbs(b) : \A a \in Ac(b) : \A n \in Succ(b, s, a) : b.R[s][a][n] <= b.rmax

\* ------------------------------------------------------------------ (R) bookkeeping of _observe
IsKnown(b, c, s, a) == c[s][a] >= b.thr
Fires(b, c, s, a)   == c[s][a] = b.thr - 1            \* this sample is the thr-th one
ObsCnt(b, c, s, a)     == IF c[s][a] < b.thr THEN [c EXCEPT ![s][a] = @ + 1] ELSE c
ObsT(b, c, t, s, a, n) == IF c[s][a] < b.thr THEN [t EXCEPT ![s][a][n] = @ + 1] ELSE t
ObsR(b, c, rs, s, a, r) == IF c[s][a] < b.thr THEN [rs EXCEPT ![s][a] = @ + r] ELSE rs

\* ------------------------------------------------------------------ (O) exact fixed point
FullyKnown(b, c) == {s \in St(b) : \A a \in Ac(b) : IsKnown(b, c, s, a)}
\* the shifted empirical instance: U = V - Vmax, optimistic states absorbing, rewards R - rmax
EmpInst(b, c, t) ==
  LET full == FullyKnown(b, c) IN
  [N |-> b.N, K |-> b.K, PD |-> b.thr, GN |-> b.GN, GD |-> b.GD, ID |-> 1,
   abs   |-> [s \in St(b) |-> IF s \in full THEN 0 ELSE 1],
   avail |-> [s \in St(b) |-> [a \in Ac(b) |-> 1]],
   P     |-> [s \in St(b) |-> [a \in Ac(b) |-> [n \in St(b) |->
                IF IsKnown(b, c, s, a) THEN t[s][a][n] ELSE IF n = s THEN b.thr ELSE 0]]],
   R     |-> [s \in St(b) |-> [a \in Ac(b) |-> [n \in St(b) |-> b.R[s][a][n] - b.rmax]]],
   p0    |-> [s \in St(b) |-> IF s = 1 THEN 1 ELSE 0]]
SolveExact(b, c, t) ==
  LET e  == TLCEval(EmpInst(b, c, t))
      U  == TLCEval(OptimalValue(e))
      vm == Vmax(b)
  IN TLCEval([s \in St(b) |-> [a \in Ac(b) |->
        IF IsKnown(b, c, s, a) THEN RAdd(vm, QFromV(e, U, s, a)) ELSE vm]])

\* right-hand side of the empirical Bellman equation at a known pair, written directly (not through
\* the oracle): Rhat + gamma * sum_n That(n) * max_a' q(n, a')
RowMax(b, q, s) == RMaxSet({q[s][a] : a \in Ac(b)})
BellmanRHS(b, t, rs, q, s, a) ==
  LET term(n) == IF t[s][a][n] = 0 THEN <<0, 1>>
                 ELSE LET v == RowMax(b, q, n) IN Norm(Safe(t[s][a][n] * b.GN * v[1]), Safe(b.thr * b.GD * v[2]))
  IN RAdd(Norm(rs[s][a], b.thr), RSumTo([n \in St(b) |-> term(n)], b.N))

\* ------------------------------------------------------------------ (R) action selection of _act
AllEqual(b, q, s) == \A a \in Ac(b) : q[s][a] = q[s][1]
FirstArgmax(b, q, s) ==
  CHOOSE a \in Ac(b) : /\ \A a2 \in Ac(b) : ~RLess(q[s][a], q[s][a2])
                       /\ \A a2 \in 1..(a - 1) : RLess(q[s][a2], q[s][a])
Allowed(b, q, s) == IF b.actrule = "any" \/ AllEqual(b, q, s) THEN Ac(b) ELSE {FirstArgmax(b, q, s)}

\* ------------------------------------------------------------------ integer judge (quantised values)
\* o[s] is the row of state s (length K) or <<>> if the implementation has no row for s
HasRow(b, o, s) == Len(o[s]) = b.K
RowMaxI(b, o, s) == IF HasRow(b, o, s) THEN MaxSet({o[s][a] : a \in Ac(b)}) ELSE 0
VQn(b) == Safe(b.rmax * b.GD * b.SC)                                  \* Vmax * SC * Gap
ExceedsAt(b, o, s, a) == Safe(o[s][a] * Gap(b)) > VQn(b) + 2 * Gap(b)
NotOptAt(b, o, s, a)  == AbsI(Safe(o[s][a] * Gap(b)) - VQn(b)) > 2 * Gap(b)
ResidAt(b, t, rs, o, s, a) ==
  AbsI(Safe(o[s][a] * b.thr * b.GD)
       - (Safe(rs[s][a] * b.GD * b.SC)
          + Safe(b.GN * SumTo([n \in St(b) |-> t[s][a][n] * RowMaxI(b, o, n)], b.N))))
ResidBad(b, t, rs, o, s, a) == ResidAt(b, t, rs, o, s, a) > (b.DQ + b.EQ + 2) * b.thr * b.GD
\* floor(x * 1024) of a finite rational (TLC: \div floors, % is non-negative for a positive divisor)
Coarse(x) == (x[1] \div x[2]) * 1024 + ((x[1] % x[2]) * 1024) \div x[2]
FarAt(b, q, o, s, a) == AbsI(Coarse(q[s][a]) - (o[s][a] \div (b.SC \div 1024))) > b.TC
\* clauses of the statement that fail on the value table o given the model (c, t, rs)
JudgeQ(b, c, t, rs, o) ==
  LET rows == {s \in St(b) : HasRow(b, o, s)}
      seen == {s \in St(b) : \E a \in Ac(b) : c[s][a] > 0} \cup
              {n \in St(b) : \E s \in St(b) : \E a \in Ac(b) : t[s][a][n] > 0}
  IN (IF \E s \in rows : \E a \in Ac(b) : ExceedsAt(b, o, s, a) THEN {"exceeds-vmax"} ELSE {})
     \cup (IF \E s \in rows : \E a \in Ac(b) : ~IsKnown(b, c, s, a) /\ NotOptAt(b, o, s, a)
           THEN {"unknown-pair-not-optimistic"} ELSE {})
     \cup (IF \E s \in rows : \E a \in Ac(b) : IsKnown(b, c, s, a) /\ ResidBad(b, t, rs, o, s, a)
           THEN {"empirical-bellman-residual"} ELSE {})
     \cup (IF (seen \cup Reach(b)) \ rows # {} THEN {"reachable-state-without-q"} ELSE {})
     \* every state the MDP declares (b.lst[s] = 1: member of its state list) has pairs that were tried 0 times
     \cup (IF {s \in St(b) : b.lst[s] = 1} \ (rows \cup seen \cup Reach(b)) # {} THEN {"listed-state-without-q"} ELSE {})
\* the value table is explained by the exact machine (only where the oracle is feasible)
JudgeMachine(b, q, o) ==
  IF b.orc = 1 /\ \E s \in St(b) : HasRow(b, o, s) /\ \E a \in Ac(b) : FarAt(b, q, o, s, a)
  THEN {"far-from-exact-machine"} ELSE {}
\* greedy policy, exact: rk[s] are the dense ranks of the returned row (<<>> if there is no row);
\* every action in the support has the maximal rank, and the support is not empty
HasRank(b, rk, s) == Len(rk[s]) = b.K
TopRank(b, rk, s) == MaxSet({rk[s][a] : a \in Ac(b)})
JudgePolicy(b, rk, pol) ==
  IF \E s \in St(b) : HasRank(b, rk, s) /\
        (\/ \E a \in Ac(b) : pol[s][a] = 1 /\ rk[s][a] < TopRank(b, rk, s)
         \/ \A a \in Ac(b) : pol[s][a] = 0)
  THEN {"policy-not-greedy"} ELSE {}
\* implementation shaped: the code shares the support among *all* maximisers
PolicyDrift(b, rk, pol) ==
  IF \E s \in St(b) : HasRank(b, rk, s) /\ \E a \in Ac(b) : pol[s][a] = 0 /\ rk[s][a] = TopRank(b, rk, s)
  THEN {"policy-omits-a-maximiser"} ELSE {}
\* exact side of the final event.  Facts about the raw 53-bit floats that 32-bit integers cannot hold are
\* established by the recorder in exact rational arithmetic and logged as flags (like the ranks):
\*   xo[s][a] = 1 iff the returned value IS the optimistic value: the double nearest to rmax / (1 - gamma)
\*              (quotient of the two double parameters) or the IEEE evaluation of that expression
\*   xr[s][a] = 1 iff the exact rational Bellman residual of the pair on the model (xc, xt) is below the
\*              configured tolerance (+ B 2^-40 for the float64 evaluation of the code's own stopping test)
\* The spec decides which pairs are untried / known, and (xc, xt) must be its own model (else the flags mean
\* nothing: reported as "exact-side-model-differs", which the harness treats as a machinery failure).
JudgeExact(b, c, e) ==
  LET rows == {s \in St(b) : Len(e.xo[s]) = b.K} IN
  (IF \E s \in rows : \E a \in Ac(b) : ~IsKnown(b, c, s, a) /\ e.xo[s][a] = 0
   THEN {"unknown-pair-not-exactly-optimistic"} ELSE {})
  \cup (IF \E s \in rows : \E a \in Ac(b) : IsKnown(b, c, s, a) /\ e.xr[s][a] = 0
        THEN {"empirical-bellman-residual"} ELSE {})
\* dense ranks of an exact table (model checking mode)
RanksOf(b, q) == [s \in St(b) |-> [a \in Ac(b) |->
                    1 + Cardinality({q[s][a2] : a2 \in {x \in Ac(b) : RLess(q[s][x], q[s][a])}})]]
\* floor(x * sc + 1/2) without forming x[1] * sc
RoundTo(x, sc) == (x[1] \div x[2]) * sc + (Safe((x[1] % x[2]) * 2 * sc) + x[2]) \div (2 * x[2])
Quantise(b, q) == [s \in St(b) |-> [a \in Ac(b) |-> RoundTo(q[s][a], b.SC)]]

\* ------------------------------------------------------------------ machine: model checking mode
Init ==
  /\ iid \in 1..Len(Batch)
  /\ pc = (IF Mode = "mc" THEN "start" ELSE "trace")
  /\ cur = 0
  /\ cnt = Zero2(Batch[iid]) /\ tcnt = Zero3(Batch[iid]) /\ rsum = Zero2(Batch[iid])
  /\ Q = Optimistic(Batch[iid])
  /\ l = (IF Mode = "mc" THEN 0 ELSE 1)
  /\ obs = <<>> /\ fail = {} /\ drift = {}
  /\ epr = <<>> /\ epcur = 0

\* s = mdp.initial_state_dist().sample(); an absorbing start ends the episode at once
StartEpisode ==
  /\ pc = "start"
  /\ \E s0 \in InitSupp(M) :
        IF M.abs[s0] = 1 THEN cur' = 0 /\ pc' = "start" ELSE cur' = s0 /\ pc' = "act"
  /\ UNCHANGED <<iid, cnt, tcnt, rsum, Q, l, obs, fail, drift, epr, epcur>>

\* one pass of the while loop: _act, sample ns, reward, _observe (+ solve when the count reaches thr)
Step ==
  /\ pc = "act"
  /\ \E a \in Allowed(M, Q, cur) : \E ns \in Succ(M, cur, a) :
       LET c2 == ObsCnt(M, cnt, cur, a)
           t2 == ObsT(M, cnt, tcnt, cur, a, ns)
           r2 == ObsR(M, cnt, rsum, cur, a, M.R[cur][a][ns])
       IN /\ cnt' = c2 /\ tcnt' = t2 /\ rsum' = r2
          /\ Q' = (IF Fires(M, cnt, cur, a) THEN SolveExact(M, c2, t2) ELSE Q)
          /\ IF M.abs[ns] = 1 THEN cur' = 0 /\ pc' = "start" ELSE cur' = ns /\ pc' = "act"
  /\ UNCHANGED <<iid, l, obs, fail, drift, epr, epcur>>

\* ------------------------------------------------------------------ machine: trace validation mode
Ev == M.ev[l]
NoRows(b) == [s \in St(b) |-> <<>>]
\* implementation-shaped expectations about a step, judged on the last logged table
ActDrift(b, o, s, a) ==
  IF o = <<>> \/ ~HasRow(b, o, s) THEN {}
  ELSE IF (\E a2 \in Ac(b) : o[s][a2] # o[s][1]) /\ o[s][a] < RowMaxI(b, o, s) THEN {"action-not-argmax"} ELSE {}

TrStep ==
  /\ pc = "trace" /\ l <= Len(M.ev) /\ Ev.k = "step"
  /\ LET s == Ev.s  a == Ev.a  ns == Ev.ns
         okidx == s \in St(M) /\ a \in Ac(M) /\ ns \in St(M)
         f1 == IF ~okidx THEN {"step-outside-the-mdp"}
               ELSE (IF M.P[s][a][ns] = 0 THEN {"step-not-a-transition"} ELSE {})
                    \cup (IF M.P[s][a][ns] > 0 /\ Ev.r2 # 1024 * M.R[s][a][ns] THEN {"step-wrong-reward"} ELSE {})
                    \cup (IF M.abs[s] = 1 THEN {"step-from-absorbing-state"} ELSE {})
                    \cup (IF cur # 0 /\ s # cur THEN {"step-not-from-current-state"} ELSE {})
                    \cup (IF cur = 0 /\ M.p0[s] = 0 THEN {"episode-start-outside-initial-support"} ELSE {})
         c2 == IF okidx THEN ObsCnt(M, cnt, s, a) ELSE cnt
         t2 == IF okidx THEN ObsT(M, cnt, tcnt, s, a, ns) ELSE tcnt
         r2 == IF okidx THEN ObsR(M, cnt, rsum, s, a, M.R[s][a][ns]) ELSE rsum
         fired == okidx /\ Fires(M, cnt, s, a)
         q2 == IF fired /\ M.orc = 1 THEN SolveExact(M, c2, t2) ELSE Q
         o2 == IF Ev.q # <<>> THEN Ev.q ELSE obs
         d1 == (IF okidx THEN ActDrift(M, obs, s, a) ELSE {})
               \cup (IF Ev.q # <<>> /\ obs # <<>> /\ ~fired THEN {"q-changed-without-new-known-pair"} ELSE {})
         d2 == IF o2 # <<>> /\ (Ev.q # <<>> \/ fired)
               THEN JudgeQ(M, c2, t2, r2, o2) \cup JudgeMachine(M, q2, o2) ELSE {}
     IN /\ cnt' = c2 /\ tcnt' = t2 /\ rsum' = r2 /\ Q' = q2 /\ obs' = o2
        /\ cur' = (IF okidx THEN ns ELSE 0)
        /\ epcur' = epcur + (IF okidx THEN 1024 * M.R[s][a][ns] ELSE Ev.r2)
        /\ fail' = fail \cup {<<x, l>> : x \in f1}
        /\ drift' = drift \cup {<<"step", x, l>> : x \in d1} \cup {<<"mid", x, l>> : x \in d2}
  /\ l' = l + 1
  /\ UNCHANGED <<iid, pc, epr>>

\* end_of_episode: the table at this point is what a run with this many episodes returns
TrEnd ==
  /\ pc = "trace" /\ l <= Len(M.ev) /\ Ev.k = "end"
  /\ LET d1 == IF cur # 0 /\ M.abs[cur] = 0 THEN {"episode-ended-at-non-absorbing-state"} ELSE {}
         d2 == IF obs # <<>> THEN JudgeQ(M, cnt, tcnt, rsum, obs) ELSE {}
     IN drift' = drift \cup {<<"step", x, l>> : x \in d1} \cup {<<"epend", x, l>> : x \in d2}
  /\ cur' = 0 /\ l' = l + 1
  /\ epr' = Append(epr, epcur) /\ epcur' = 0
  /\ UNCHANGED <<iid, pc, cnt, tcnt, rsum, Q, obs, fail>>

\* the returned q_values and policy: every value clause of the statement is judged here
TrFinal ==
  /\ pc = "trace" /\ l <= Len(M.ev) /\ Ev.k = "final"
  /\ LET f1 == JudgeQ(M, cnt, tcnt, rsum, Ev.q) \cup JudgePolicy(M, Ev.rk, Ev.pol) \cup JudgeExact(M, cnt, Ev)
               \* the per-episode reward totals reported by the default listener (event_listener_results of the
               \* same configuration run with EpisodeRewardEventListener; ern = 1 when present) are the totals of
               \* the MDP's rewards along the episodes of this very history, one entry per episode
               \cup (IF Ev.ern = 1 /\ Ev.er # epr THEN {"episode-rewards-not-of-this-run"} ELSE {})
         d1 == JudgeMachine(M, Q, Ev.q) \cup PolicyDrift(M, Ev.rk, Ev.pol)
               \cup (IF Ev.xc # cnt \/ Ev.xt # tcnt THEN {"exact-side-model-differs"} ELSE {})
               \cup (IF obs # <<>> /\ \E s \in St(M) : HasRow(M, obs, s) /\ HasRow(M, Ev.q, s) /\ obs[s] # Ev.q[s]
                     THEN {"returned-q-differs-from-last-q-matrix"} ELSE {})
     IN /\ fail' = fail \cup {<<x, l>> : x \in f1}
        /\ drift' = drift \cup {<<"final", x, l>> : x \in d1}
  /\ obs' = Ev.q /\ pc' = "done" /\ l' = l + 1
  /\ UNCHANGED <<iid, cur, cnt, tcnt, rsum, Q, epr, epcur>>

\* the run was interrupted by the harness (it did not return): only the experienced steps are judged
TrCut ==
  /\ pc = "trace" /\ l <= Len(M.ev) /\ Ev.k = "cut"
  /\ drift' = drift \cup {<<"final", "run-did-not-return", l>>}
  /\ pc' = "done" /\ l' = l + 1
  /\ UNCHANGED <<iid, cur, cnt, tcnt, rsum, Q, obs, fail, epr, epcur>>

Next == StartEpisode \/ Step \/ TrStep \/ TrEnd \/ TrFinal \/ TrCut
Spec == Init /\ [][Next]_vars

\* ------------------------------------------------------------------ emission (trace mode)
Emit ==
  pc = "done" =>
    PrintT(ToJson([iid |-> iid, tag |-> M.tag, l |-> l, fail |-> fail, drift |-> drift,
                   cnt |-> cnt, tcnt |-> tcnt, rsum |-> rsum,
                   qstar |-> IF M.orc = 1 THEN Q ELSE <<>>]))

\* ------------------------------------------------------------------ (P) properties of the design
InstancesOK == InstanceOK(M)
\* bookkeeping: only the first thr samples of a pair enter the model
Bookkeeping ==
  \A s \in St(M) : \A a \in Ac(M) :
     /\ cnt[s][a] \in 0..M.thr
     /\ SumTo([n \in St(M) |-> tcnt[s][a][n]], M.N) = cnt[s][a]
     /\ rsum[s][a] = SumTo([n \in St(M) |-> tcnt[s][a][n] * M.R[s][a][n]], M.N)
\* the model only contains real transitions and nothing is ever tried in an absorbing state
\* (model checking mode; in trace mode an event that breaks this is a verdict, not an invariant)
ModelIsReal ==
  Mode = "mc" => \A s \in St(M) : \A a \in Ac(M) :
     /\ \A n \in St(M) : tcnt[s][a][n] > 0 => M.P[s][a][n] > 0
     /\ (M.abs[s] = 1 => cnt[s][a] = 0)
ModelFrozen ==      \* action property: a known pair's model never changes again
  [][\A s \in St(M) : \A a \in Ac(M) : IsKnown(M, cnt, s, a) =>
        cnt'[s][a] = cnt[s][a] /\ tcnt'[s][a] = tcnt[s][a] /\ rsum'[s][a] = rsum[s][a]]_vars
\* optimism: nothing exceeds Vmax; unknown pairs are exactly Vmax
NeverAboveVmax == Mode = "mc" => \A s \in St(M) : \A a \in Ac(M) : ~RLess(Vmax(M), Q[s][a])
UnknownExactlyVmax == Mode = "mc" => \A s \in St(M) : \A a \in Ac(M) : ~IsKnown(M, cnt, s, a) => Q[s][a] = Vmax(M)
\* the oracle's table satisfies the empirical Bellman equation exactly at every known pair
KnownBellman ==
  Mode = "mc" => \A s \in St(M) : \A a \in Ac(M) :
     IsKnown(M, cnt, s, a) => Q[s][a] = BellmanRHS(M, tcnt, rsum, Q, s, a)
\* optimism only ever decreases
QMonotone == [][Mode = "mc" => \A s \in St(M) : \A a \in Ac(M) : ~RLess(Q[s][a], Q'[s][a])]_vars
\* the integer judge of the trace mode accepts the exact machine in every reachable state
\* (tolerances of the judge are sufficient for rounding: no false alarm by construction)
JudgeAcceptsMachine ==
  Mode = "mc" => LET o == Quantise(M, Q) IN
     /\ JudgeQ(M, cnt, tcnt, rsum, o) = {}
     /\ JudgeMachine(M, Q, o) = {}
     /\ LET pol == [s \in St(M) |-> [a \in Ac(M) |-> IF Q[s][a] = RowMax(M, Q, s) THEN 1 ELSE 0]] IN
           JudgePolicy(M, RanksOf(M, Q), pol) = {} /\ PolicyDrift(M, RanksOf(M, Q), pol) = {}
\* vacuity guard (model checking mode): reports the instances in which some state became fully known,
\* i.e. in which the exact fixed point was computed on a non-trivial system
EmitLearned ==
  (Mode = "mc" /\ pc = "start" /\ FullyKnown(M, cnt) # {}) =>
     PrintT(ToJson([iid |-> iid, kind |-> "learned", full |-> Cardinality(FullyKnown(M, cnt))]))
=============================================================================
