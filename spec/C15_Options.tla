--------------------------- MODULE C15_Options ---------------------------
(* Property C15: augmented sub-tasks and options preserve the base MDP and stop at      *)
(* their goals.                                                                         *)
(*                                                                                      *)
(* (M) abstract problem: a base MDP instance (MDP.tla record) extended with             *)
(*       gclass / ginst   discount rate found on the base's class / on the instance     *)
(*                        (<<0,0>> = no instance attribute); the base's discount is     *)
(*                        Eff = ginst if present else gclass                            *)
(*       tab              1 iff the base is tabular (has state and action lists)        *)
(*       slist / alist    the base's state and action lists (sequences)                 *)
(*       ov               one replacement value per overridable component               *)
(*     and, depending on the mode, a sub-goal option (sub, inis, incl, clip) or an      *)
(*     executable option (term, pol, lim) with recorded simulations.                    *)
(* (O) oracles: Derived(m, ovr) (component-wise definition of the derived MDP),         *)
(*     SubOv (the sub-goal sub-task's overrides), MDP!OptimalValue / OptimalQ of the    *)
(*     derived instance, Must (what an option run has to do at its end), DiscSum        *)
(*     (discounted return of a history), outcome tallies and their marginals.           *)
(* (R) reference machines, one action per step of the code:                             *)
(*     augment():   AugClass (subclass creation: where the discount comes from),        *)
(*                  AugSet (one per component, in the order of the code), AugInstantiate *)
(*                  preceded by WarmBase when the call history says that the base's     *)
(*                  array views / reachable set were read (or it was planned on) before: *)
(*                  the base's views then sit in a cache (tally) that the derived MDP    *)
(*                  must never show                                                      *)
(*                  and followed by DeriveAnother (a second MDP is derived with the same  *)
(*                  set of overridden components: other override functions on the same   *)
(*                  base, another base instance of the same class with another discount,  *)
(*                  or a second sub-goal option on the same base) and RequeryFirst: the    *)
(*                  first derived MDP, still alive, is read only now and must answer from  *)
(*                  its own components                                                    *)
(*                  In plan mode Reconfigure may come first: the option was read (sub_task   *)
(*                  arrays, planning_result) under an earlier configuration M.pre and then  *)
(*                  reconfigured (clip, include_mdp_absorbing_states, initiation set, grown   *)
(*                  sub-goal list); the sub-task describes the option as it is now           *)
(*     sub-task:    the same machine with ovr = {initial, reward, absorbing} and the     *)
(*                  option's overrides, followed by PlanStep (planner = exact oracle)    *)
(*     Option.run_on / Policy.run_on: OptStep (one loop iteration: action, successor,   *)
(*                  reward), OptBreak (loop exit: terminal state or step cap), OptCheck   *)
(*                  (the raise rule); the semi-MDP's accumulation of the discounted      *)
(*                  return runs along (cum)                                             *)
(*                  preceded by RunElsewhere when the call history says that the same    *)
(*                  option object was executed on another MDP (other transitions and      *)
(*                  rewards) before: every run follows the MDP it is executed on          *)
(*     trace mode:  the same step / end rules with the choices bound to the events       *)
(*                  recorded from the real code, then the tally (TrStep, TrEnd, TrFinish)*)
(*     VARIANT = "intended" is the machine the property demands and the one every         *)
(*     verdict is taken from.  "asbuilt" is an MC-only demonstration: it models the two   *)
(*     deviations msdm had before they were repaired (discount taken from the class;     *)
(*     raise when len(trajectory) >= max_steps) and TLC is expected to violate            *)
(*     AugPreserved / OptVerdictSound on it.  Nothing in the conformance step refers to   *)
(*     it: a recurrence in the real code is an ordinary violation.                        *)
(* (P) invariants at the bottom.                                                        *)
(* Modes (IOEnv.MODE): "aug", "plan", "opt" (pipeline A: TLC emits what the real code    *)
(* must produce), "trace" (pipeline B: TLC validates recorded simulations and emits the  *)
(* exact outcome distribution they induce).                                              *)
EXTENDS MDP, Json, IOUtils

Batch   == JsonDeserialize(IOEnv.BATCH_FILE)
Mode    == IOEnv.MODE
Variant == IOEnv.VARIANT

VARIABLES iid, pc, ovr, d, opt, cur, nst, cum, hist, j, l, tally, fail
vars == <<iid, pc, ovr, d, opt, cur, nst, cum, hist, j, l, tally, fail>>

M == Batch[iid]
Zero == <<0, 1>>

\* ====================================================================== derived MDPs
CompSeq == <<"initial", "actions", "next", "reward", "absorbing", "state_list", "action_list">>
FunComps == {"initial", "actions", "next", "reward", "absorbing"}
Comps(m) == IF m.tab = 1 THEN Range(CompSeq) ELSE FunComps

\* the base's discount rate: instance attribute if there is one, else the class attribute
Eff(m) == IF m.ginst[2] # 0 THEN <<m.ginst[1], m.ginst[2]>> ELSE <<m.gclass[1], m.gclass[2]>>

BaseC(m, c) ==
  CASE c = "initial"     -> <<m.p0, m.ID>>
    [] c = "actions"     -> m.avail
    [] c = "next"        -> m.P
    [] c = "reward"      -> m.R
    [] c = "absorbing"   -> m.abs
    [] c = "state_list"  -> m.slist
    [] c = "action_list" -> m.alist

\* ---- the sub-goal option's overrides (PlanToSubgoalOption.sub_task)
SubSet(m)  == Range(m.sub)
ClipFin(m) == m.clip[2] # 0                      \* <<1,0>> = +infinity = no clipping
Clipped(m, r, t) ==
  IF t \in SubSet(m) THEN r
  ELSE IF ClipFin(m) /\ r > m.clip[1] THEN m.clip[1]
  ELSE r
SubOvC(m, c) ==
  CASE c = "initial"   -> <<[s \in St(m) |-> IF s \in Range(m.inis) THEN 1 ELSE 0], Len(m.inis)>>
    [] c = "reward"    -> [s \in St(m) |-> [a \in Ac(m) |-> [t \in St(m) |-> Clipped(m, m.R[s][a][t], t)]]]
    [] c = "absorbing" -> [s \in St(m) |-> IF s \in SubSet(m) \/ (m.incl = 1 /\ m.abs[s] = 1) THEN 1 ELSE 0]

OvC(m, c) ==
  IF Mode = "plan" THEN SubOvC(m, c)
  ELSE CASE c = "initial"     -> <<m.ov.p0, m.ov.ID>>
         [] c = "actions"     -> m.ov.avail
         [] c = "next"        -> m.ov.P
         [] c = "reward"      -> m.ov.R
         [] c = "absorbing"   -> m.ov.abs
         [] c = "state_list"  -> m.ov.slist
         [] c = "action_list" -> m.ov.alist

\* (O) the derived MDP, component by component
DerivedC(m, o, c) == IF c \in o THEN OvC(m, c) ELSE BaseC(m, c)
Unset == <<>>
Derived(m, o) ==
  [discount    |-> Eff(m),
   initial     |-> DerivedC(m, o, "initial"),
   actions     |-> DerivedC(m, o, "actions"),
   next        |-> DerivedC(m, o, "next"),
   reward      |-> DerivedC(m, o, "reward"),
   absorbing   |-> DerivedC(m, o, "absorbing"),
   state_list  |-> IF m.tab = 1 THEN DerivedC(m, o, "state_list") ELSE Unset,
   action_list |-> IF m.tab = 1 THEN DerivedC(m, o, "action_list") ELSE Unset]
Blank == [discount |-> Unset, initial |-> Unset, actions |-> Unset, next |-> Unset, reward |-> Unset,
          absorbing |-> Unset, state_list |-> Unset, action_list |-> Unset]

\* a derived MDP as an instance record of MDP.tla (for the planning oracle and the array views)
AsInstance(m, dd) ==
  [N |-> m.N, K |-> m.K, PD |-> m.PD, GN |-> dd.discount[1], GD |-> dd.discount[2], ID |-> dd.initial[2],
   abs |-> dd.absorbing, avail |-> dd.actions, P |-> dd.next, R |-> dd.reward, p0 |-> dd.initial[1]]

\* (O) the array views of a derived MDP (C06's clause applied to it): transition and reward arrays over
\* available actions / positive-probability successors, absorbing vector (declared or implicit), reachable set
Views(m, dd) ==
  LET inst == AsInstance(m, dd) IN
  [T |-> [s \in St(m) |-> [a \in Ac(m) |-> [t \in St(m) |-> IF inst.avail[s][a] = 1 THEN inst.P[s][a][t] ELSE 0]]],
   R |-> [s \in St(m) |-> [a \in Ac(m) |-> [t \in St(m) |->
            IF inst.avail[s][a] = 1 /\ inst.P[s][a][t] > 0 THEN inst.R[s][a][t] ELSE 0]]],
   absvec |-> [s \in St(m) |-> IF s \in AbsAll(inst) THEN 1 ELSE 0],
   reach |-> Reach(inst)]

NonPositive(inst) ==
  \A s \in St(inst) : \A a \in Avail(inst, s) : \A t \in Succ(inst, s, a) : inst.R[s][a][t] <= 0
\* instances on which the planning clause can be judged against a finite optimum
Judgeable(inst) ==
  \/ Discounted(inst)
  \/ (ExplAbs(inst) # {} /\ NonPositive(inst) /\ Proper(inst))
MaxSteps(inst) ==
  IF Discounted(inst) \/ NonAbs(inst) = {} THEN Zero
  ELSE RMaxSet(UNION {{StepsValue(inst, AsWeights(inst, pi), 1)[s] : s \in NonAbs(inst)} : pi \in DetPols(inst)})
PlanOracle(m, dd) ==
  LET inst == AsInstance(m, dd)
      jd   == Judgeable(inst)
      vs   == IF jd THEN TLCEval(OptimalValue(inst)) ELSE [s \in St(inst) |-> UNAV]
  IN TLCEval([judge |-> jd, v |-> vs,
              q |-> IF jd THEN OptimalQ(inst, vs) ELSE [s \in St(inst) |-> [a \in Ac(inst) |-> UNAV]],
              nmax |-> IF jd THEN MaxSteps(inst) ELSE Zero,
              implabs |-> ImplAbs(inst)])

\* ====================================================================== options
TermSet(m)    == Range(m.term)
PolSupp(m, s) == {a \in Ac(m) : m.pol[s][a] > 0}
RECURSIVE IPow(_, _)
IPow(b, k) == IF k = 0 THEN 1 ELSE Safe(b * IPow(b, k - 1))
GPow(m, k) == Norm(IPow(m.GN, k), IPow(m.GD, k))
\* exact for the first m.hmax steps (gamma^k representable in 30 bits); later steps contribute nothing to the
\* tracked return and are accounted for by the bound TailBound (runs within hmax steps are exact: TailBound is not used)
StepReward(m, k, s, a, t) == IF k < m.hmax THEN RMul(GPow(m, k), <<m.R[s][a][t], 1>>) ELSE <<0, 1>>
\* (O) discounted return of a history <<s, a, t>>... (its first hmax terms)
DiscSum(m, h) == RSumTo([i \in 1..MinI(Len(h), m.hmax) |-> StepReward(m, i - 1, h[i][1], h[i][2], h[i][3])],
                        MinI(Len(h), m.hmax))
RMaxAbs(m) == MaxSet({0} \cup {AbsI(m.R[s][a][t]) : s \in St(m), a \in Ac(m), t \in St(m)})
\* |sum_{k >= hmax} gamma^k r_k| <= rmax * gamma^hmax / (1 - gamma)   (only needed when gamma < 1)
TailBound(m) == IF m.GN = 0 \/ m.GN = m.GD THEN <<0, 1>>
           ELSE Norm(Safe(RMaxAbs(m) * IPow(m.GN, m.hmax) * m.GD), Safe(IPow(m.GD, m.hmax) * (m.GD - m.GN)))
\* (O) what the end of a run that stands in state c after n <= lim steps has to be: reaching a terminal
\* state within the limit (including on exactly the lim-th step) is ending at the goal; raising is
\* required only when lim steps were taken and the last state is still not terminal
Must(m, c, n) == IF c \in TermSet(m) THEN "return" ELSE "raise"
AsBuiltRaises(m, n) == n + 1 >= m.lim

\* why a recorded step is not a step of the machine ("ok" if it is)
StepReason(m, c, n, e) ==
  IF e[1] # c THEN "not-chained"
  ELSE IF e[2] \notin Ac(m) \/ e[3] \notin St(m) THEN "unknown-state-or-action"
  ELSE IF c \in TermSet(m) THEN "continued-past-terminal"
  ELSE IF n >= m.lim THEN "stepped-beyond-limit"
  ELSE IF e[2] \notin PolSupp(m, c) THEN "action-outside-policy"
  ELSE IF m.P[c][e[2]][e[3]] = 0 THEN "successor-outside-support"
  ELSE IF e[4] # m.R[c][e[2]][e[3]] THEN "reward-differs"
  ELSE "ok"
\* why the recorded end of a run (returned / raised) is not allowed ("ok" if it is)
EndReason(m, c, n, out, fin) ==
  IF fin # c THEN "final-record-differs"
  ELSE IF out = "returned" THEN
     (IF c \in TermSet(m) THEN "ok"
      ELSE IF n < m.lim THEN "returned-before-terminal" ELSE "returned-at-limit-without-terminal")
  ELSE
     (IF c \in TermSet(m) THEN "raised-at-terminal"
      ELSE IF n < m.lim THEN "raised-before-limit-nonterminal"
      ELSE "ok")

\* ---- tallies (trace mode)
Cnt(tl, P(_)) == Cardinality({i \in 1..Len(tl) : P(tl[i])})
OutsJoint(tl) == {[e |-> x[1], t |-> x[2], r |-> x[3], c |-> Cnt(tl, LAMBDA y : y = x)] : x \in Range(tl)}
OutsST(tl)    == {[e |-> x[1], t |-> x[2], c |-> Cnt(tl, LAMBDA y : y[1] = x[1] /\ y[2] = x[2])] : x \in Range(tl)}
OutsS(tl)     == {[e |-> x[1], c |-> Cnt(tl, LAMBDA y : y[1] = x[1])] : x \in Range(tl)}
ExpReturn(tl, n) == RMul(RSumTo([i \in 1..Len(tl) |-> tl[i][3]], Len(tl)), <<1, n>>)
\* one-step outcomes of the primitive actions at s: (successor, 1, reward) with probability P/PD
Prim(m, s) == [a \in Ac(m) |-> IF a \in Avail(m, s)
                               THEN {[e |-> t, t |-> 1, r |-> m.R[s][a][t], p |-> m.P[s][a][t]] : t \in Succ(m, s, a)}
                               ELSE {}]
\* the semi-MDP's actions at s: options whose initiation set contains s (+ primitive actions)
SemiActions(m, s) == [prim |-> IF m.inclprim = 1 THEN Avail(m, s) ELSE {},
                      opts |-> {o \in 1..Len(m.oinit) : s \in Range(m.oinit[o])}]

\* control states in which the (first) derived MDP exists
Built == {"done", "again", "requeried", "planned"}

\* ====================================================================== machines
InitCommon ==
  /\ iid \in 1..Len(Batch)
  /\ opt = Unset /\ hist = <<>> /\ tally = <<>> /\ fail = "" /\ j = 0 /\ l = 0
InitAug ==
  /\ Mode = "aug" /\ InitCommon
  /\ ovr \in (IF Batch[iid].allsub = 1 THEN SUBSET Comps(Batch[iid])
              ELSE {Range(x) : x \in Range(Batch[iid].ovrs)})
  /\ pc = (IF Batch[iid].warm = "none" THEN "class" ELSE "warm") /\ d = Blank
  /\ cur = 0 /\ nst = 0 /\ cum = Zero
InitPlan ==
  /\ Mode = "plan" /\ InitCommon
  /\ ovr = {"initial", "reward", "absorbing"}
  /\ pc = (IF Batch[iid].warm # "none" THEN "warm" ELSE IF Batch[iid].reconf = 1 THEN "reconf" ELSE "class") /\ d = Blank
  /\ cur = 0 /\ nst = 0 /\ cum = Zero
InitOpt ==
  /\ Mode = "opt" /\ InitCommon
  /\ ovr = {} /\ d = Unset
  /\ cur \in Range(Batch[iid].starts)
  /\ pc = (IF Batch[iid].prev = 1 THEN "elsewhere" ELSE "run") /\ nst = 0 /\ cum = Zero
InitTrace ==
  /\ Mode = "trace" /\ iid \in 1..Len(Batch)
  /\ opt = Unset /\ hist = <<>> /\ tally = <<>> /\ fail = "" /\ j = 1 /\ l = 0
  /\ ovr = {} /\ d = Unset
  /\ cur = Batch[iid].s0
  /\ pc = (IF Batch[iid].prev = 1 THEN "elsewhere" ELSE "run") /\ nst = 0 /\ cum = Zero
Init == InitAug \/ InitPlan \/ InitOpt \/ InitTrace

\* ---------------------------------------------------------------- augment()
NextComp(m, c) ==
  CASE c = "class"       -> "initial"
    [] c = "initial"     -> "actions"
    [] c = "actions"     -> "next"
    [] c = "next"        -> "reward"
    [] c = "reward"      -> "absorbing"
    [] c = "absorbing"   -> IF m.tab = 1 THEN "state_list" ELSE "instance"
    [] c = "state_list"  -> "action_list"
    [] c = "action_list" -> "instance"
\* call history: the base's arrays / reachable set were read, or it was planned on, before augment():
\* its views are now cached on the base instance
WarmBase ==
  /\ Mode \in {"aug", "plan"} /\ pc = "warm"
  /\ pc' = (IF Mode = "plan" /\ M.reconf = 1 THEN "reconf" ELSE "class")
  /\ tally' = Append(tally, <<"base", Views(M, Derived(M, {}))>>)
  /\ UNCHANGED <<iid, ovr, d, opt, cur, nst, cum, hist, j, l, fail>>
\* call history (plan mode): the option was read under its earlier configuration M.pre - its sub-task's
\* views were computed (and possibly cached) then - and is reconfigured to M's before being read again
Reconfigure ==
  /\ Mode = "plan" /\ pc = "reconf" /\ pc' = "class"
  /\ tally' = Append(tally, <<"pre", Views(M.pre, Derived(M.pre, ovr))>>)
  /\ UNCHANGED <<iid, ovr, d, opt, cur, nst, cum, hist, j, l, fail>>
\* class AugmentedMDP(mdp.__class__) with an empty __init__: the point where the discount is fixed
AugClass ==
  /\ Mode \in {"aug", "plan"} /\ pc = "class"
  /\ d' = [d EXCEPT !.discount = IF Variant = "asbuilt" THEN <<M.gclass[1], M.gclass[2]>> ELSE Eff(M)]
  /\ pc' = "initial"
  /\ UNCHANGED <<iid, ovr, opt, cur, nst, cum, hist, j, l, tally, fail>>
\* one `if x is not None: Aug.x = x else: Aug.x = mdp.x`
AugSet ==
  /\ Mode \in {"aug", "plan"} /\ pc \in Range(CompSeq)
  /\ d' = [d EXCEPT ![pc] = IF pc \in ovr THEN OvC(M, pc) ELSE BaseC(M, pc)]
  /\ pc' = NextComp(M, pc)
  /\ UNCHANGED <<iid, ovr, opt, cur, nst, cum, hist, j, l, tally, fail>>
AugInstantiate ==
  /\ Mode \in {"aug", "plan"} /\ pc = "instance" /\ pc' = "done"
  /\ UNCHANGED <<iid, ovr, d, opt, cur, nst, cum, hist, j, l, tally, fail>>
\* a second derived MDP of the same kind (M.sib: its base and its override values); it is kept in hist.
\* VARIANT "sharedclass" (MC-only demonstration) models one class shared per (base class, overridden set):
\* writing the second MDP's components rewrites the first
DeriveAnother ==
  /\ Mode \in {"aug", "plan"} /\ pc = "done" /\ pc' = "again"
  /\ hist' = <<Derived(M.sib, ovr)>>
  /\ d' = IF Variant = "sharedclass" /\ M.sib.cls = M.cls THEN Derived(M.sib, ovr) ELSE d
  /\ UNCHANGED <<iid, ovr, opt, cur, nst, cum, j, l, tally, fail>>
\* the first derived MDP is queried (functional interface, array views, planner) only now
RequeryFirst ==
  /\ Mode \in {"aug", "plan"} /\ pc = "again" /\ pc' = "requeried"
  /\ UNCHANGED <<iid, ovr, d, opt, cur, nst, cum, hist, j, l, tally, fail>>
\* planner.plan_on(sub_task): the exact optimum of the derived instance
PlanStep ==
  /\ Mode = "plan" /\ pc = "requeried" /\ pc' = "planned"
  /\ opt' = PlanOracle(M, d)
  /\ UNCHANGED <<iid, ovr, d, cur, nst, cum, hist, j, l, tally, fail>>

\* ---------------------------------------------------------------- Option.run_on (all histories)
StepEffect(a, t) ==
  /\ hist' = Append(hist, <<cur, a, t>>)
  /\ cum' = RAdd(cum, StepReward(M, nst, cur, a, t))
  /\ cur' = t
  /\ nst' = nst + 1
\* call history: the same option object has been executed on another MDP (M.prevP, M.prevR) before.
\* Nothing of that run may survive: the machine has no memory of it.
RunElsewhere ==
  /\ Mode \in {"opt", "trace"} /\ pc = "elsewhere" /\ pc' = "run"
  /\ UNCHANGED <<iid, ovr, d, opt, cur, nst, cum, hist, j, l, tally, fail>>
\* VARIANT "memo" (MC-only demonstration): the termination-augmented MDP of the first execution is reused,
\* so later runs follow the other MDP's transitions and rewards; expected to violate OptStepsFollowModel /
\* OptReturnExact
Dyn(m) == IF Variant = "memo" /\ m.prev = 1 THEN [m EXCEPT !.P = m.prevP, !.R = m.prevR] ELSE m
OptStep ==
  /\ Mode = "opt" /\ pc = "run" /\ nst < M.lim /\ cur \notin TermSet(M)
  /\ \E a \in PolSupp(M, cur) : \E t \in Succ(Dyn(M), cur, a) :
        /\ hist' = Append(hist, <<cur, a, t>>)
        /\ cum' = RAdd(cum, StepReward(Dyn(M), nst, cur, a, t))
        /\ cur' = t /\ nst' = nst + 1
  /\ UNCHANGED <<iid, pc, ovr, d, opt, j, l, tally, fail>>
OptBreak ==
  /\ Mode = "opt" /\ pc = "run" /\ (nst = M.lim \/ cur \in TermSet(M))
  /\ pc' = "ended"
  /\ UNCHANGED <<iid, ovr, d, opt, cur, nst, cum, hist, j, l, tally, fail>>
OptCheck ==
  /\ Mode = "opt" /\ pc = "ended"
  /\ pc' = IF Variant = "asbuilt"
           THEN (IF AsBuiltRaises(M, nst) THEN "raised" ELSE "returned")
           ELSE (IF cur \notin TermSet(M) THEN "raised" ELSE "returned")
  /\ UNCHANGED <<iid, ovr, d, opt, cur, nst, cum, hist, j, l, tally, fail>>

\* ---------------------------------------------------------------- trace validation (recorded simulations)
Sim == M.sims[j]
Reject(why) ==
  /\ pc' = "rejected" /\ fail' = why
  /\ UNCHANGED <<iid, ovr, d, opt, cur, nst, cum, hist, j, l, tally>>
TrStep ==
  /\ Mode = "trace" /\ pc = "run" /\ j <= Len(M.sims) /\ l < Len(Sim.ev)
  /\ LET e == Sim.ev[l + 1]
         why == StepReason(M, cur, nst, e)
     IN IF why = "ok"
        THEN /\ StepEffect(e[2], e[3]) /\ l' = l + 1
             /\ UNCHANGED <<iid, pc, ovr, d, opt, j, tally, fail>>
        ELSE Reject(why)
TrEnd ==
  /\ Mode = "trace" /\ pc = "run" /\ j <= Len(M.sims) /\ l = Len(Sim.ev)
  /\ LET why == EndReason(M, cur, nst, Sim.out, Sim.fin)
     IN IF why # "ok" THEN Reject(why)
        ELSE IF Sim.out = "raised" THEN
               IF j = Len(M.sims) /\ M.outcome = "raised"
               THEN /\ pc' = "accepted"
                    /\ UNCHANGED <<iid, ovr, d, opt, cur, nst, cum, hist, j, l, tally, fail>>
               ELSE Reject("raise-not-propagated")
        ELSE /\ tally' = Append(tally, <<cur, nst, cum>>)
             /\ j' = j + 1 /\ l' = 0 /\ cur' = M.s0 /\ nst' = 0 /\ cum' = Zero /\ hist' = <<>>
             /\ UNCHANGED <<iid, pc, ovr, d, opt, fail>>
TrFinish ==
  /\ Mode = "trace" /\ pc = "run" /\ j = Len(M.sims) + 1
  /\ IF M.outcome = "dist" /\ Len(M.sims) = M.n
     THEN /\ pc' = "accepted"
          /\ UNCHANGED <<iid, ovr, d, opt, cur, nst, cum, hist, j, l, tally, fail>>
     ELSE Reject(IF M.outcome = "dist" THEN "wrong-number-of-simulations" ELSE "raised-without-raising-run")

Next == RunElsewhere \/ WarmBase \/ Reconfigure \/ DeriveAnother \/ RequeryFirst \/ AugClass \/ AugSet \/ AugInstantiate \/ PlanStep \/ OptStep \/ OptBreak \/ OptCheck
        \/ TrStep \/ TrEnd \/ TrFinish
Spec == Init /\ [][Next]_vars

\* ====================================================================== emission
Emit ==
  CASE Mode = "aug" /\ pc = "requeried" ->
         PrintT(ToJson([kind |-> "aug", iid |-> iid, ovr |-> ovr, d |-> d,
                        eff |-> Eff(M), views |-> Views(M, d), d2 |-> hist[1],
                        cachediffers |-> (\E x \in Range(tally) : x[2] # Views(M, d))]))
    [] Mode = "plan" /\ pc = "planned" ->
         PrintT(ToJson([kind |-> "plan", iid |-> iid, d |-> d, judge |-> opt.judge, v |-> opt.v, q |-> opt.q,
                        nmax |-> opt.nmax, implabs |-> opt.implabs, views |-> Views(M, d), d2 |-> hist[1],
                        cachediffers |-> (\E x \in Range(tally) : x[2] # Views(M, d))]))
    [] Mode = "opt" /\ pc \in {"returned", "raised"} ->
         PrintT(ToJson([kind |-> "opt", iid |-> iid, s0 |-> IF hist = <<>> THEN cur ELSE hist[1][1],
                        hist |-> hist, end |-> cur, nst |-> nst, status |-> pc, cum |-> cum,
                        must |-> Must(M, cur, nst)]))
    [] Mode = "trace" /\ pc \in {"accepted", "rejected"} ->
         PrintT(ToJson([kind |-> "trace", iid |-> iid, verdict |-> pc, reason |-> fail, at |-> <<j, l>>,
                        nst |-> nst, lim |-> M.lim,
                        joint |-> OutsJoint(tally), st |-> OutsST(tally), s |-> OutsS(tally),
                        exp |-> IF Len(tally) = 0 THEN Zero ELSE ExpReturn(tally, M.n),
                        tail |-> IF \E i \in 1..Len(tally) : tally[i][2] > M.hmax THEN TailBound(M) ELSE Zero,
                        n |-> M.n, prim |-> Prim(M, M.s0), acts |-> SemiActions(M, M.s0)]))
    [] OTHER -> TRUE

\* ====================================================================== properties
\* --- augment(): every component that was not overridden is the base's, including the discount
AugPreserved ==
  (Mode \in {"aug", "plan"} /\ pc \in Built) =>
     /\ d.discount = Eff(M)
     /\ \A c \in Comps(M) \ ovr : d[c] = BaseC(M, c)
AugOverridden ==
  (Mode \in {"aug", "plan"} /\ pc \in Built) => \A c \in ovr : d[c] = OvC(M, c)
AugMatchesOracle ==
  (Mode \in {"aug", "plan"} /\ pc \in Built) => d = Derived(M, ovr)
\* the array views of the derived MDP are those of the oracle's derived MDP, whatever was cached on the base:
\* every overridden reward / transition shows on the support, declared absorbing states are in the vector,
\* the reachable set is closed from the derived initial support; the base's cache is left as it was
ViewsOfDerived ==
  (Mode \in {"aug", "plan"} /\ pc \in Built) =>
     LET v == Views(M, d) inst == AsInstance(M, d) IN
     /\ v = Views(M, Derived(M, ovr))
     /\ \A s \in St(M) : \A a \in Ac(M) : \A t \in St(M) :
          (d.actions[s][a] = 1 /\ d.next[s][a][t] > 0) => (v.T[s][a][t] = d.next[s][a][t] /\ v.R[s][a][t] = d.reward[s][a][t])
     /\ \A s \in St(M) : d.absorbing[s] = 1 => v.absvec[s] = 1
     /\ InitSupp(inst) \subseteq v.reach
     /\ \A s \in v.reach \ ExplAbs(inst) : Edges(inst, s) \subseteq v.reach
     /\ \A x \in Range(tally) : x[2] = (IF x[1] = "base" THEN Views(M, Derived(M, {}))
                                                      ELSE Views(M.pre, Derived(M.pre, ovr)))
\* two derived MDPs alive at once: each answers from its own components, whatever was derived later
DerivedIsolated ==
  (Mode \in {"aug", "plan"} /\ pc \in {"again", "requeried", "planned"}) =>
     /\ d = Derived(M, ovr)
     /\ hist = <<Derived(M.sib, ovr)>>
     /\ Views(M, d) = Views(M, Derived(M, ovr))
\* nothing is read before it was set, non-tabular bases get no lists
AugOrder ==
  (Mode \in {"aug", "plan"}) =>
     /\ (M.tab = 0 => d.state_list = Unset /\ d.action_list = Unset)
     /\ (pc \in {"warm", "reconf", "class"} => d = Blank)
     /\ (pc = "warm" => tally = <<>>)
\* --- sub-goal sub-task: base discount, base dynamics, rewards clipped only off the sub-goals,
\*     absorbing exactly at the sub-goals (and the base's absorbing states when asked), uniform start
SubTaskSound ==
  (Mode = "plan" /\ pc \in Built) =>
     /\ d.discount = Eff(M)
     /\ d.actions = M.avail /\ d.next = M.P
     /\ \A s \in St(M) : \A a \in Ac(M) : \A t \in St(M) :
          LET r == M.R[s][a][t] x == d.reward[s][a][t] IN
          /\ x <= r
          /\ (t \in SubSet(M) => x = r)
          /\ (t \notin SubSet(M) /\ ClipFin(M) => x = MinI(r, M.clip[1]))
          /\ (~ClipFin(M) => x = r)
     /\ \A s \in St(M) : (d.absorbing[s] = 1) <=> (s \in SubSet(M) \/ (M.incl = 1 /\ M.abs[s] = 1))
     /\ d.initial[2] = Cardinality(Range(M.inis))
     /\ \A s \in St(M) : d.initial[1][s] = (IF s \in Range(M.inis) THEN 1 ELSE 0)
\* the sub-goals are worth 0 and the oracle's values satisfy the optimality equation of the derived instance
PlanOracleSound ==
  (Mode = "plan" /\ pc = "planned" /\ opt.judge) =>
     LET inst == AsInstance(M, d) IN
     /\ \A s \in SubSet(M) : opt.v[s] = Zero
     /\ \A s \in NonAbs(inst) : opt.v[s] = RMaxSet({QFromV(inst, opt.v, s, a) : a \in Avail(inst, s)})
\* --- option execution
OptVerdictSound ==
  (Mode = "opt" /\ pc \in {"returned", "raised"}) =>
     /\ (pc = "returned" <=> Must(M, cur, nst) = "return")
     /\ (pc = "raised"   <=> Must(M, cur, nst) = "raise")
     /\ (pc = "raised"   => nst = M.lim /\ \A i \in 1..Len(hist) : hist[i][1] \notin TermSet(M) /\ hist[i][3] \notin TermSet(M))
OptFirstTerminal ==
  (Mode = "opt" /\ pc = "returned") =>
     /\ cur \in TermSet(M)
     /\ \A i \in 1..Len(hist) : hist[i][1] \notin TermSet(M)
     /\ \A i \in 1..(Len(hist) - 1) : hist[i][3] = hist[i + 1][1]
     /\ (hist # <<>> => hist[Len(hist)][3] = cur)
OptWithinLimit ==
  (Mode \in {"opt", "trace"}) => (nst <= M.lim /\ (Mode = "opt" => Len(hist) = nst))
OptReturnExact ==
  (Mode \in {"opt", "trace"} /\ MinI(Len(hist), M.hmax) <= 24) => cum = DiscSum(M, hist)     \* (deeper recursion overflows TLC's stack;
                                                                                            \*  longer undiscounted sums are cross-checked outside)
OptStepsFollowModel ==
  (Mode \in {"opt", "trace"}) =>
     \A i \in 1..Len(hist) : hist[i][2] \in PolSupp(M, hist[i][1]) /\ M.P[hist[i][1]][hist[i][2]][hist[i][3]] > 0
\* --- accepted traces: the tally is a distribution over (terminal state, steps, return)
TraceTally ==
  (Mode = "trace" /\ pc = "accepted") =>
     /\ (M.outcome = "dist" => Len(tally) = M.n)
     /\ \A i \in 1..Len(tally) : tally[i][1] \in TermSet(M) /\ tally[i][2] <= M.lim
     /\ SumSet([x \in OutsJoint(tally) |-> x.c], OutsJoint(tally)) = Len(tally)
\* --- instance filter
\* MDP!WellFormed with discount 0 admitted
WF(m) ==
  /\ \A s \in St(m) : \A a \in Avail(m, s) : SumTo([t \in St(m) |-> m.P[s][a][t]], m.N) = m.PD
  /\ \A s \in St(m) : \A a \in Ac(m) : \A t \in St(m) : m.P[s][a][t] >= 0
  /\ SumTo([s \in St(m) |-> m.p0[s]], m.N) = m.ID
  /\ m.GN >= 0 /\ m.GN <= m.GD
InstancesWellFormed ==
  /\ WF(M)
  /\ (Mode \in {"aug", "plan"} => M.GN > 0 /\ WF(M.sib))
  /\ (Mode \in {"opt", "trace"} => M.hmax >= 0 /\ (M.GN = 0 \/ M.GN = M.GD \/ M.hmax <= 20))
  /\ (Mode \in {"aug", "plan"} => Eff(M) = <<M.GN, M.GD>>)
  /\ (Mode \in {"opt", "trace"} => \A s \in St(M) : PolSupp(M, s) # {} /\ PolSupp(M, s) \subseteq Avail(M, s))
=============================================================================
