---------------------------- MODULE C18_Factor ----------------------------
(* Property C18, second sentence: "The product of two factor tables is the normalised   *)
(* natural join of their rows with multiplied weights, so independent per-agent move     *)
(* tables combine into the product distribution, and a weighted mixture of two tables    *)
(* over the same variables adds their weights row by row."                               *)
(*                                                                                      *)
(* (M) tables over leaf variables with integer weights:            lib/FactorTable.tla   *)
(* (O) declarative join / mixture / marginal as functions:         JoinFn, MixFn, ...    *)
(* (R) reference machine: a stack machine executing a program of DiscreteFactorTable     *)
(*     operations, one action per operation of the real class:                           *)
(*        Load (constructor)  Scale (__mul__)  And (product)  Or (mix)  Marg (marginalize)*)
(*        Div (__truediv__)  Normalize (normalize = self / Z)                            *)
(*     with the loops of the code (first-wins de-duplication, dropped zero rows,          *)
(*     matched / unmatched bookkeeping, resulting row and key order).                    *)
(* (P) JoinLaw, JoinCommutes, IndependentProduct, MixLaw, MargLaw, NormLaw, StackWellFormed,*)
(*     ExponentClasses, ClassOfProduct.                                                  *)
(*     Extreme weight classes: every table on the stack has a symbolic decimal exponent   *)
(*     class (xstack): weights are mantissa * 10^class.  Normalised results are decided   *)
(*     on the mantissas; the implementation gets the real extreme floats / logits.        *)
(*                                                                                      *)
(* Modes (IOEnv.MODE):                                                                   *)
(*   "batch"  programs sampled by the harness (nested variables, 3 values, chains of ops) *)
(*   "exh"    TLC enumerates *every* pair of tables of a small family (IOEnv.EXH) and      *)
(*            applies one operation                                                      *)
(* In both modes every step emits the exact expected table; the harness replays the same  *)
(* operations on msdm's DiscreteFactorTable and compares after every action (pipeline A). *)
EXTENDS FactorTable, Json, IOUtils

Mode  == IOEnv.MODE
Batch == IF Mode = "batch" THEN JsonDeserialize(IOEnv.BATCH_FILE) ELSE <<>>

VARIABLES iid, src, prog, top, pc, stack, xstack, note
vars == <<iid, src, prog, top, pc, stack, xstack, note>>

\* ------------------------------------------------------------------ exhaustive family
Dom == {0, 1}
AllVals(n) == IF n = 1 THEN << <<0>>, <<1>> >> ELSE << <<0, 0>>, <<0, 1>>, <<1, 0>>, <<1, 1>> >>
WSel == {-1, 0, 1, 2}            \* -1: row absent; 0: listed with weight zero
TabOf(vs, sel) ==
  LET av == AllVals(Len(vs))
      idx == SelectSeq([i \in 1..Len(av) |-> i], LAMBDA i : sel[i] >= 0)
  IN Tab(vs, [r \in 1..Len(idx) |-> Row(av[idx[r]], sel[idx[r]])], 1)
Sels(vs, ws) == [1..Len(AllVals(Len(vs))) -> ws]
\* <<variables of the left table, variables of the right table, operations, weight choices>>
ExhShapes ==
  IF IOEnv.EXH = "small"
  THEN {<< <<1>>, <<1>>, {"and", "or"}, WSel >>, << <<1>>, <<2>>, {"and"}, WSel >>, << <<1, 2>>, <<2>>, {"and"}, WSel >>}
  ELSE {<< <<1, 2>>, <<2, 3>>, {"and"}, WSel >>, << <<1, 2>>, <<3>>, {"and"}, WSel >>, << <<2>>, <<2, 1>>, {"and"}, WSel >>,
        << <<1, 2>>, <<2, 1>>, {"or"}, {-1, 0, 1} >>, << <<1, 2>>, <<1, 2>>, {"or"}, {-1, 0, 1} >>}
Instr(op) == [op |-> op, k |-> 0, n |-> 1, d |-> 1, e |-> 0, keep |-> <<>>]

\* ------------------------------------------------------------------ machine
NoNote == [op |-> "init", samevars |-> FALSE, keyorder |-> FALSE, disjoint |-> FALSE, anyempty |-> FALSE,
           zerogroup |-> FALSE, zerototal |-> FALSE]

Init ==
  /\ pc = 1 /\ note = NoNote
  /\ IF Mode = "batch"
     THEN /\ iid \in 1..Len(Batch)
          /\ src = Batch[iid].tabs /\ prog = Batch[iid].prog /\ top = Batch[iid].top
          /\ stack = <<>> /\ xstack = <<>>
     ELSE /\ iid = 0
          /\ \E sh \in ExhShapes : \E s1 \in Sels(sh[1], sh[4]) : \E s2 \in Sels(sh[2], sh[4]) :
               \E op \in sh[3] :
                 LET t1 == TLCEval(TabOf(sh[1], s1))
                     t2 == TLCEval(TabOf(sh[2], s2)) IN
                 /\ src = <<t1, t2>> /\ stack = <<t1, t2>> /\ xstack = <<0, 0>>
                 /\ prog = <<Instr(op)>>
          /\ top = <<1, 2, 3>>

Cur == prog[pc]
Running == pc <= Len(prog)
Depth == Len(stack)
A1 == stack[Depth - 1]          \* left operand (self)
A2 == stack[Depth]              \* right operand (other) / the table a unary operation acts on
Pop2Push(t) == SubSeq(stack, 1, Depth - 2) \o <<t>>
Pop1Push(t) == SubSeq(stack, 1, Depth - 1) \o <<t>>
\* Extreme weight classes.  The weight of row r of stack[i] is (w / den) * 10^xstack[i]: the table
\* carries exact small mantissas, the decimal exponent class is tracked symbolically next to it
\* (10^-400 is no TLC integer and no float either).  A product adds the classes, scaling by
\* (n / d) * 10^e adds e, a marginal keeps the class; a mixture adds weights row by row and is only
\* requested between operands of the same class.  Since a class multiplies every row of a table by
\* the same factor, the *normalised* result of every operation is decided on the mantissas alone -
\* while the implementation receives the real floats (1e-170, logits of +-800 after a product).
X1 == xstack[Depth - 1]
X2 == xstack[Depth]
XPop2Push(x) == SubSeq(xstack, 1, Depth - 2) \o <<x>>
XPop1Push(x) == SubSeq(xstack, 1, Depth - 1) \o <<x>>
SrcEx(k) == IF Mode = "batch" THEN Batch[iid].exps[k] ELSE 0
\* np.exp(logit) is evaluated by mix() and marginalize(): their operands must be ordinary floats
OrdinaryClass(x) == x >= -200 /\ x <= 200

RECURSIVE Dedup(_)
Dedup(sq) ==
  IF sq = <<>> THEN <<>>
  ELSE LET r == Dedup(SubSeq(sq, 1, Len(sq) - 1)) IN
       IF sq[Len(sq)] \in Range(r) THEN r ELSE Append(r, sq[Len(sq)])
\* order of the top-level dictionary keys of the rows of a table
TopOrder(t, tp) == Dedup([i \in 1..Len(t.vars) |-> tp[t.vars[i]]])
\* signature predicate of the suspected defect in mix(): both operands have rows, the same
\* variables, but list their top-level keys in a different order
KeyOrderDiffers(t1, t2, tp) ==
  NRows(t1) > 0 /\ NRows(t2) > 0 /\ TopOrder(t1, tp) # TopOrder(t2, tp)

BinNote(op) == [op |-> op, samevars |-> VarSet(A1) = VarSet(A2),
                keyorder |-> KeyOrderDiffers(A1, A2, top),
                disjoint |-> VarSet(A1) \cap VarSet(A2) = {},
                anyempty |-> NRows(A1) = 0 \/ NRows(A2) = 0]
UnNote(op) == [NoNote EXCEPT !.op = op]
\* some group of the marginal has total weight zero (then log(0) = -inf enters the scores)
ZeroGroup(t, keep) == \E g \in MargAsgs(t, Range(keep)) : MargWeight(t, Range(keep), g) = 0

Load  == /\ Running /\ Cur.op = "load"
         /\ stack' = Append(stack, src[Cur.k]) /\ xstack' = Append(xstack, SrcEx(Cur.k))
         /\ note' = UnNote("load")
Scale == /\ Running /\ Cur.op = "scale" /\ Depth >= 1
         /\ stack' = Pop1Push(RefScale(A2, Cur.n, Cur.d)) /\ xstack' = XPop1Push(X2 + Cur.e)
         /\ note' = UnNote("scale")
And   == /\ Running /\ Cur.op = "and" /\ Depth >= 2
         /\ stack' = Pop2Push(RefJoin(A1, A2)) /\ xstack' = XPop2Push(X1 + X2)
         /\ note' = BinNote("and")
Or    == /\ Running /\ Cur.op = "or" /\ Depth >= 2
         /\ stack' = Pop2Push(RefMix(A1, A2)) /\ xstack' = XPop2Push(IF NRows(A1) = 0 THEN X2 ELSE X1)
         /\ note' = BinNote("or")
Marg  == /\ Running /\ Cur.op = "marg" /\ Depth >= 1
         /\ stack' = Pop1Push(RefMarg(A2, Cur.keep)) /\ xstack' = XPop1Push(X2)
         /\ note' = [UnNote("marg") EXCEPT !.zerogroup = ZeroGroup(A2, Cur.keep)]

\* __truediv__: every logit - log((n / d) * 10^e)
Div   == /\ Running /\ Cur.op = "div" /\ Depth >= 1
         /\ stack' = Pop1Push(RefScale(A2, Cur.d, Cur.n)) /\ xstack' = XPop1Push(X2 - Cur.e)
         /\ note' = UnNote("div")
\* normalize() = self / self.Z: the same rows with weights w / Total, which sum to one (class 0).  A table
\* without any weight cannot be normalised (Z = 0): left as it is and flagged.
RefNorm(t) == IF Total(t) > 0 THEN Tab(t.vars, t.rows, Total(t)) ELSE t
Normalize == /\ Running /\ Cur.op = "norm" /\ Depth >= 1
         /\ stack' = Pop1Push(RefNorm(A2)) /\ xstack' = XPop1Push(0)      \* (a table without weight is in every class)
         /\ note' = [UnNote("norm") EXCEPT !.zerototal = (Total(A2) = 0)]

Next == /\ (Load \/ Scale \/ And \/ Or \/ Marg \/ Div \/ Normalize)
        /\ pc' = pc + 1 /\ UNCHANGED <<iid, src, prog, top>>
Spec == Init /\ [][Next]_vars

\* ------------------------------------------------------------------ emission (pipeline A)
Emit ==
  pc > 1 =>
    IF Mode = "batch"
    THEN PrintT(ToJson([iid |-> iid, step |-> pc - 1, note |-> note, res |-> stack[Depth], ex |-> xstack[Depth]]))
    ELSE PrintT(ToJson([iid |-> 0, step |-> 1, note |-> note, t1 |-> src[1], t2 |-> src[2],
                        res |-> stack[Depth], ex |-> xstack[Depth]]))

\* ------------------------------------------------------------------ (P) properties, evaluated in
\* the state *before* the operation (where both operands are still on the stack)
Before(op) == Running /\ Cur.op = op
\* the nested loop with its de-duplication computes the natural join with multiplied weights
JoinLaw ==
  (Before("and") /\ Depth >= 2 /\ DupFree(A1) /\ DupFree(A2)) =>
     /\ SameFn(RefJoin(A1, A2), JoinFn(A1, A2))
     /\ DupFree(RefJoin(A1, A2))
\* as a function the product does not depend on the order of the operands
JoinCommutes ==
  (Before("and") /\ Depth >= 2 /\ DupFree(A1) /\ DupFree(A2)) =>
     PosFn(RefJoin(A1, A2)) = PosFn(RefJoin(A2, A1))
\* tables over disjoint variables combine into the product distribution: every joint weight is
\* the product of the two weights, and each marginal of the result is proportional to its factor
IndependentProduct ==
  (Before("and") /\ Depth >= 2 /\ DupFree(A1) /\ DupFree(A2) /\ VarSet(A1) \cap VarSet(A2) = {}) =>
     LET j == RefJoin(A1, A2) IN
     /\ \A f \in Asgs(A1) : \A g \in Asgs(A2) : WOf(j, Merge(f, g)) = WOf(A1, f) * WOf(A2, g)
     /\ Total(j) = Total(A1) * Total(A2)
     /\ NRows(j) > 0 => \A f \in Asgs(A1) : MargWeight(j, VarSet(A1), f) = WOf(A1, f) * Total(A2)
\* a mixture over the same variables adds the weights row by row
MixLaw ==
  (Before("or") /\ Depth >= 2 /\ DupFree(A1) /\ DupFree(A2) /\ VarSet(A1) = VarSet(A2)) =>
     LET x == RefMix(A1, A2) IN
     /\ \A m \in MixAsgs(A1, A2) : WOf(x, m) * A1.den * A2.den = MixWeight(A1, A2, m) * x.den
     /\ Asgs(x) \subseteq MixAsgs(A1, A2)
     /\ DupFree(x)
\* marginalisation preserves the total weight and every group weight
MargLaw ==
  (Before("marg") /\ Depth >= 1) =>
     LET x == RefMarg(A2, Cur.keep) IN
     /\ Total(x) = Total(A2)
     /\ \A g \in MargAsgs(A2, Range(Cur.keep)) : WOf(x, g) = MargWeight(A2, Range(Cur.keep), g)
\* the normalised table has the same rows with proportional weights that sum to one
NormLaw ==
  (Before("norm") /\ Depth >= 1 /\ Total(A2) > 0) =>
     LET x == RefNorm(A2) IN
     /\ Total(x) = x.den /\ x.vars = A2.vars /\ NRows(x) = NRows(A2)
     \* proportional: row i has weight (w_i / den) / (Total / den) = w_i / Total - same numerators over the
     \* denominator Total (stated without any product, so it cannot leave TLC's 32-bit integers)
     /\ \A i \in 1..NRows(x) : x.rows[i].vals = A2.rows[i].vals /\ x.rows[i].w = A2.rows[i].w
     /\ x.den = Total(A2)
\* instance filter / closure: everything on the stack is a well-formed table that is a function,
\* and mixtures are only requested over equal variable sets
StackWellFormed ==
  /\ \A i \in 1..Depth : WellFormedTab(stack[i]) /\ DupFree(stack[i])
  /\ (Before("or") /\ Depth >= 2) => VarSet(A1) = VarSet(A2) \/ NRows(A1) = 0 \/ NRows(A2) = 0
  /\ Running => Depth >= (IF Cur.op \in {"and", "or"} THEN 2 ELSE IF Cur.op = "load" THEN 0 ELSE 1)
  /\ Before("div") => Cur.n > 0
\* instance filter for the extreme weight classes: one class per table on the stack; every table that
\* is loaded has |class| <= 400 (up to 250 the weights themselves are floats, 3e250 and 1e-250 exist, and may
\* be given as probs=; beyond that the harness gives logits= / scores= directly), scaling factors are floats;
\* mixtures only between operands of one ordinary class, marginals only of an ordinary class.
\* Products are unrestricted: their class may leave the float range (that is the point).
ExponentClasses ==
  /\ Len(xstack) = Depth
  /\ (Before("load")) => SrcEx(Cur.k) >= -400 /\ SrcEx(Cur.k) <= 400
  /\ (Before("scale") /\ Depth >= 1) => Cur.e >= -250 /\ Cur.e <= 250
  /\ (Before("or") /\ Depth >= 2 /\ NRows(A1) > 0 /\ NRows(A2) > 0) => X1 = X2 /\ OrdinaryClass(X1)
  /\ (Before("marg") /\ Depth >= 1) => OrdinaryClass(X2)
  /\ (Before("norm") /\ Depth >= 1) => OrdinaryClass(X2)       \* Z = exp(logsumexp(logits)) is a float
  /\ (Before("div") /\ Depth >= 1) => Cur.e >= -250 /\ Cur.e <= 250
\* the normalised product does not depend on the classes: a product of the same mantissa tables in
\* class 0 has the same positive function (RefJoin never looks at xstack) and the class of the
\* result is the sum - stated so that a change of the bookkeeping above is caught
ClassOfProduct ==
  (Before("and") /\ Depth >= 2) => XPop2Push(X1 + X2)[Depth - 1] = X1 + X2
=============================================================================
