----------------------------- MODULE C14_Rollout -----------------------------
(* Property C14: policy roll-outs are valid trajectories and Monte-Carlo evaluation        *)
(* averages them.                                                                          *)
(*                                                                                        *)
(* (M) abstract problem.  The batch file is a record                                       *)
(*       insts  : MDP instances (fields of lib/MDP.tla) or POMDP instances (lib/POMDP.tla) *)
(*                each with a policy:                                                      *)
(*                  kind = "mdp",  pk = "tab"   W[s][a] / QD  (functional and tabular        *)
(*                                              policies are built from these weights)     *)
(*                  kind = "pomdp", pk = "ctrl" finite-state controller whose agent state   *)
(*                                              is a weight vector over NN nodes:           *)
(*                                              CA[n][a] action weights, CU[n][a][o][n2]    *)
(*                                              node update weights, ag0 initial weights    *)
(*                                              (a vertex = deterministic node)             *)
(*                                 pk = "qb"    value based belief policy: argmax of        *)
(*                                              sum_s b(s) QV[s][a]                          *)
(*                                 pk = "alpha" alpha-vector policy: one step look-ahead    *)
(*                                              over the vectors AV[d][s]                   *)
(*       cases  : mode "mc":    (iid, cap, start, ag0) roll-out problems                    *)
(*       traces : mode "trace": recorded executions of the real code (see below)            *)
(*     Agent states are reduced integer weight vectors (beliefs over states, or over        *)
(*     controller nodes); MDP policies have the constant agent state <<>>.                  *)
(* (O) oracles.  Returns: backward recursion RetFrom (G_t = r_t + gamma G_{t+1}) and the    *)
(*     direct sum DirectRet.  TruncV(T, k): exact expected return of the policy truncated   *)
(*     after k steps (V_0 = 0, V_k(absorbing) = 0).  DetOracle: for a deterministic policy  *)
(*     on a deterministic MDP, the unique trajectory and the averages Monte-Carlo           *)
(*     evaluation must report.  EvalTables: exact averages of a set of recorded roll-outs.  *)
(* (R) reference machine, one action per iteration of the loops in                          *)
(*     msdm/core/mdp/policy.py Policy.run_on and msdm/core/pomdp/policy.py                  *)
(*     POMDPPolicy.run_on:                                                                   *)
(*       Init   - initial state given or sampled from the initial distribution, t = 0,       *)
(*                agent state = the policy's initial agent state (or the given one)         *)
(*       Step   - `if is_absorbing(s): break` did not fire and t < cap: sample a from the    *)
(*                policy at s / ag, ns from the model, (o from the observation kernel at     *)
(*                (a, ns)), r = R(s, a, ns), ag' = Update(ag, a, o), s' = ns, t' = t + 1     *)
(*       Stop   - loop exit at an absorbing state or at t = cap; the final record            *)
(*     Seeded randomness is nondeterministic choice among positive-probability outcomes.     *)
(* (P) invariants at the bottom.                                                            *)
(*                                                                                        *)
(* IOEnv.MODE = "mc":    TLC explores every roll-out of every case, checks (P) in every      *)
(*                       state and prints every complete behaviour (pipeline A: the driver   *)
(*                       replays it through the real code with scripted sampling) and, per   *)
(*                       MDP case, the truncated-value oracle.                               *)
(* IOEnv.MODE = "trace": pipeline B.  A trace of kind                                        *)
(*                         "roll": events init / step* / stop recorded from a real roll-out; *)
(*                                 every event must be explained by the action of the same   *)
(*                                 name with the logged arguments;                           *)
(*                         "eval": the roll-outs a Monte-Carlo evaluation made (recorded by  *)
(*                                 a wrapping subclass); TLC computes the exact averages     *)
(*                                 the evaluation has to report, and the deterministic       *)
(*                                 oracle where it applies;                                  *)
(*                         "ret":  a reward sequence and a discount; TLC computes the        *)
(*                                 returns by the backward recursion.                        *)
(*                       Verdicts are total: a failing event gives phase "rejected" with the *)
(*                       failing clause, never a silent deadlock.                            *)
EXTENDS POMDP, Json, IOUtils

Batch == JsonDeserialize(IOEnv.BATCH_FILE)
Mode  == IOEnv.MODE
NJobs == IF Mode = "mc" THEN Len(Batch.cases) ELSE Len(Batch.traces)

VARIABLES tid,    \* index of the case (mc) or trace (trace)
          l,      \* trace mode: position of the next event; mc mode: 0
          s,      \* current state (0 before the init event of a trace)
          t,      \* number of steps taken = the loop variable of run_on
          ag,     \* current agent state
          hist,   \* mc mode: the steps taken so far (the trajectory under construction); trace mode: <<>>
          phase,  \* "run" | "done" | "rejected" | "oracle"
          fails,  \* failure records: clauses of the statement that failed
          flags   \* implementation-shaped observations (drift)
vars == <<tid, l, s, t, ag, hist, phase, fails, flags>>

Job  == IF Mode = "mc" THEN Batch.cases[tid] ELSE Batch.traces[tid]
Tr   == Job
TI   == Batch.insts[Job.iid]
Ev   == Job.ev[l]

\* ------------------------------------------------------------------ (M) policies and agent states
IsPO(T)   == T.kind = "pomdp"
Nodes(T)  == 1..T.NN
Gam(T)    == <<T.GN, T.GD>>

ReduceK(w, k) == LET g == GCDTo(w, k) IN IF g = 0 THEN w ELSE [i \in 1..k |-> w[i] \div g]

\* value of action a at belief weights w, as an integer over a denominator common to all actions
AVal(T, w, a) ==
  IF T.pk = "qb" THEN SumTo([x \in St(T) |-> Safe(w[x] * T.QV[x][a])], T.N)
  ELSE \* "alpha": (GD * OD * BReward + GN * sum_o max_d <Post(w, a, o), AV[d]>) over BSum * PD * OD * GD
       LET fut(o) == LET p == Post(T, w, a, o) IN
                     MaxSet({SumTo([n \in St(T) |-> Safe(p[n] * T.AV[d][n])], T.N) : d \in 1..T.ND})
       IN Safe(T.GD * T.OD * BReward(T, w, a)) + Safe(T.GN * SumTo([o \in Ob(T) |-> fut(o)], T.NO))

\* weights the policy gives to the actions at state x / agent state g (only their positivity matters)
ActW(T, x, g) ==
  IF ~IsPO(T) THEN [a \in Ac(T) |-> T.W[x][a]]
  ELSE IF T.pk = "ctrl" THEN [a \in Ac(T) |-> SumTo([n \in Nodes(T) |-> g[n] * T.CA[n][a]], T.NN)]
  ELSE LET v  == TLCEval([a \in Ac(T) |-> AVal(T, g, a)])
           mx == MaxSet({v[a] : a \in Ac(T)})
       IN [a \in Ac(T) |-> IF v[a] = mx THEN 1 ELSE 0]
PolSupp(T, x, g) == LET w == ActW(T, x, g) IN {a \in Ac(T) : w[a] > 0}

\* the policy's own agent-state update
Update(T, g, a, o) ==
  IF ~IsPO(T) THEN <<>>
  ELSE IF T.pk = "ctrl"
  THEN \* node weights conditioned on the action taken, pushed through the node kernel, renormalised
       ReduceK([n2 \in Nodes(T) |-> SumTo([n \in Nodes(T) |-> Safe(Safe(g[n] * T.CA[n][a]) * T.CU[n][a][o][n2])], T.NN)], T.NN)
  ELSE Filter(T, g, a, o)

\* the policy's initial agent state
PolAg0(T) == IF ~IsPO(T) THEN <<>>
             ELSE IF T.pk = "ctrl" THEN ReduceK(T.ag0, T.NN)
             ELSE Reduce(T, T.p0)
JobAg0(T, j) == IF ~IsPO(T) THEN <<>> ELSE IF Len(j.ag0) = 0 THEN PolAg0(T) ELSE j.ag0

ObsSupp(T, a, n) == IF IsPO(T) THEN {o \in Ob(T) : T.O[a][n][o] > 0} ELSE {0}
Starts(T, j) == IF j.start = 0 THEN InitSupp(T) ELSE {j.start}
IsAbs(T, x) == T.abs[x] = 1

\* instance filter
PolicyOK(T) ==
  /\ IF IsPO(T) THEN PWellFormed(T) ELSE WellFormed(T)
  /\ ~IsPO(T) => \A x \in St(T) :
        /\ \A a \in Ac(T) : T.W[x][a] >= 0 /\ (T.avail[x][a] = 0 => T.W[x][a] = 0)
        /\ SumTo([a \in Ac(T) |-> T.W[x][a]], T.K) = T.QD
  /\ (IsPO(T) /\ T.pk = "ctrl") =>
        /\ \A n \in Nodes(T) : SumTo([a \in Ac(T) |-> T.CA[n][a]], T.K) = T.CAD
        /\ \A n \in Nodes(T) : \A a \in Ac(T) : \A o \in Ob(T) :
              SumTo([n2 \in Nodes(T) |-> T.CU[n][a][o][n2]], T.NN) = T.CUD
        /\ SumTo(T.ag0, T.NN) > 0

\* ------------------------------------------------------------------ (O) returns
RECURSIVE Pow(_, _)
Pow(b, e) == IF e = 0 THEN 1 ELSE Safe(b * Pow(b, e - 1))
\* the defining backward recursion G_i = r_i + gamma * G_{i+1}, G_{n+1} = 0
RECURSIVE RetFrom(_, _, _)
RetFrom(rs, i, g) == IF i > Len(rs) THEN <<0, 1>> ELSE RAdd(<<rs[i], 1>>, RMul(g, RetFrom(rs, i + 1, g)))
RetSeq(rs, g) == [i \in 1..Len(rs) |-> RetFrom(rs, i, g)]
\* the direct sum sum_{j >= i} gamma^(j-i) r_j (what a matrix of discount powers computes)
DirectRet(rs, i, g) ==
  RSumTo([j \in 1..Len(rs) |-> IF j < i THEN <<0, 1>> ELSE Norm(Safe(rs[j] * Pow(g[1], j - i)), Pow(g[2], j - i))], Len(rs))
\* returns of a trajectory with the final record counted as a step of reward 0 (msdm's SimulationResult.reward)
Rewards(h) == [i \in 1..Len(h) |-> h[i].r]
RollRets(rs, g) == RetSeq(Append(rs, 0), g)
\* the discounted returns of a roll-out with n steps fit TLC's 32-bit integers (denominators GD^n); undiscounted
\* returns are integer sums and always fit.  Long discounted roll-outs (the long-horizon family) are still validated
\* step by step and their visit counts are exact; only their return *values* are left to the driver's Fractions.
Fits(T, n) == T.GN = T.GD \/ n <= (IF T.GD <= 2 THEN 20 ELSE IF T.GD <= 4 THEN 10 ELSE 6)

\* ------------------------------------------------------------------ (O) truncated exact evaluation (MDP policies)
\* one backup: V_k from V_{k-1}
TruncStep(T, v) ==
  TLCEval([x \in St(T) |->
    IF IsAbs(T, x) THEN <<0, 1>>
    ELSE RSumTo([a \in Ac(T) |->
           IF T.W[x][a] = 0 THEN <<0, 1>>
           ELSE RMul(<<T.W[x][a], T.QD>>,
                     RSumTo([u \in St(T) |->
                        IF T.P[x][a][u] = 0 THEN <<0, 1>>
                        ELSE RMul(<<T.P[x][a][u], T.PD>>, RAdd(<<T.R[x][a][u], 1>>, RMul(Gam(T), v[u])))], T.N))], T.K)])
\* <<V_0, ..., V_k>> (entry k + 1 is V_k), linear in k
RECURSIVE TruncSeq(_, _)
TruncSeq(T, k) ==
  IF k = 0 THEN <<[x \in St(T) |-> <<0, 1>>]>>
  ELSE LET prev == TruncSeq(T, k - 1) IN Append(prev, TruncStep(T, prev[k]))
TruncV(T, k) == TruncSeq(T, k)[k + 1]

\* deterministic policy on a deterministic MDP with a single initial state
IsDet(T) ==
  /\ ~IsPO(T)
  /\ Cardinality(InitSupp(T)) = 1
  /\ \A x \in St(T) : IsAbs(T, x) \/
        /\ Cardinality(PolSupp(T, x, <<>>)) = 1
        /\ \A a \in PolSupp(T, x, <<>>) : Cardinality(Succ(T, x, a)) = 1
DetAct(T, x)  == CHOOSE a \in PolSupp(T, x, <<>>) : TRUE
DetNext(T, x) == CHOOSE u \in Succ(T, x, DetAct(T, x)) : TRUE
RECURSIVE DetTraj(_, _, _)
\* the unique state sequence of a roll-out from x with k steps left (final state included)
DetTraj(T, x, k) == IF k = 0 \/ IsAbs(T, x) THEN <<x>> ELSE <<x>> \o DetTraj(T, DetNext(T, x), k - 1)
\* what Monte-Carlo evaluation of any number of roll-outs must report: per visited state the mean over the
\* visits (at time i-1, with cap-(i-1) steps left) of the truncated exact value, and the visit count per roll-out
DetOracle(T, cap) ==
  LET s0 == CHOOSE x \in InitSupp(T) : TRUE
      tr == DetTraj(T, s0, cap)
      n  == Len(tr)
      vis(x) == {i \in 1..n : tr[i] = x}
      ts == TruncSeq(T, cap)
      tv == [k \in 0..cap |-> ts[k + 1]]
      \* (the final record has return 0: either absorbing or no steps left, and TruncV is 0 in both cases)
      val(i) == tv[cap - (i - 1)][tr[i]]
  IN [iv |-> tv[cap][s0],
      traj |-> tr,
      sv |-> [x \in Range(tr) |-> RMul(RSumTo([i \in 1..n |-> IF tr[i] = x THEN val(i) ELSE <<0, 1>>], n),
                                       <<1, Cardinality(vis(x))>>)],
      occ |-> [x \in Range(tr) |-> Cardinality(vis(x))]]

\* ------------------------------------------------------------------ (O) averages of recorded roll-outs
\* E.rolls[i] = [ss |-> states incl. the final one, as |-> actions, rs |-> rewards]; final = 1: the final record
\* of every roll-out counts as a visit with return 0 and action 0 ("None"), as msdm's evaluate_on does; final = 0:
\* only the steps count
VSum(E, final, G(_, _)) ==
  LET n == Len(E.rolls) IN
  RSumTo([ri \in 1..n |->
            LET m == Len(E.rolls[ri].ss) - (1 - final) IN
            RSumTo([i \in 1..m |-> G(ri, i)], m)], n)
EvalTables(T, E, final) ==
  LET n    == Len(E.rolls)
      fit  == \A ri \in 1..n : Fits(T, Len(E.rolls[ri].rs))
      rets == TLCEval([ri \in 1..n |-> IF fit THEN RollRets(E.rolls[ri].rs, Gam(T))
                                               ELSE [i \in 1..(Len(E.rolls[ri].rs) + 1) |-> <<0, 1>>]])
      st(ri, i)  == E.rolls[ri].ss[i]
      act(ri, i) == IF i <= Len(E.rolls[ri].as) THEN E.rolls[ri].as[i] ELSE 0
      visited == UNION {{E.rolls[ri].ss[i] : i \in 1..(Len(E.rolls[ri].ss) - (1 - final))} : ri \in 1..n}
      cnt(x)  == VSum(E, final, LAMBDA ri, i : IF st(ri, i) = x THEN <<1, 1>> ELSE <<0, 1>>)[1]
      tot(x)  == VSum(E, final, LAMBDA ri, i : IF st(ri, i) = x THEN rets[ri][i] ELSE <<0, 1>>)
      acts(x) == UNION {{act(ri, i) : i \in {j \in 1..(Len(E.rolls[ri].ss) - (1 - final)) : st(ri, j) = x}} : ri \in 1..n}
      cnta(x, a) == VSum(E, final, LAMBDA ri, i : IF st(ri, i) = x /\ act(ri, i) = a THEN <<1, 1>> ELSE <<0, 1>>)[1]
      tota(x, a) == VSum(E, final, LAMBDA ri, i : IF st(ri, i) = x /\ act(ri, i) = a THEN rets[ri][i] ELSE <<0, 1>>)
  IN [n   |-> n, valsok |-> fit,
      iv  |-> IF n = 0 THEN UNAV ELSE RMul(RSumTo([ri \in 1..n |-> rets[ri][1]], n), <<1, n>>),
      sv  |-> [x \in visited |-> RMul(tot(x), <<1, cnt(x)>>)],
      cnt |-> [x \in visited |-> cnt(x)],
      av  |-> [x \in visited |-> [a \in acts(x) |-> RMul(tota(x, a), <<1, cnta(x, a)>>)]]]

\* ------------------------------------------------------------------ (R) the machine
Init ==
  /\ tid \in 1..NJobs
  /\ l = (IF Mode = "trace" THEN 1 ELSE 0)
  /\ t = 0 /\ hist = <<>> /\ fails = {} /\ flags = {}
  /\ IF Mode = "mc"
     THEN LET j == Batch.cases[tid] T == Batch.insts[j.iid] IN
          \/ /\ phase = "run" /\ s \in Starts(T, j) /\ ag = JobAg0(T, j)
          \/ /\ j.oracle = 1 /\ phase = "oracle" /\ s = 0 /\ ag = <<>>
     ELSE phase = "run" /\ s = 0 /\ ag = <<>>

StepRec(x, a, n, o, g, g2) == [s |-> x, a |-> a, ns |-> n, o |-> o, r |-> TI.R[x][a][n], ag |-> g, nag |-> g2]

\* --- mc mode: every roll-out
MCStep ==
  /\ Mode = "mc" /\ phase = "run" /\ t < Job.cap /\ ~IsAbs(TI, s)
  /\ \E a \in PolSupp(TI, s, ag) : \E n \in Succ(TI, s, a) : \E o \in ObsSupp(TI, a, n) :
        LET g2 == Update(TI, ag, a, o) IN
        /\ hist' = Append(hist, StepRec(s, a, n, o, ag, g2))
        /\ s' = n /\ t' = t + 1 /\ ag' = g2
  /\ UNCHANGED <<tid, l, phase, fails, flags>>
MCStop ==
  /\ Mode = "mc" /\ phase = "run" /\ (IsAbs(TI, s) \/ t = Job.cap)
  /\ phase' = "done"
  /\ UNCHANGED <<tid, l, s, t, ag, hist, fails, flags>>

\* --- trace mode: pipeline B
F(c) == [c |-> c, pos |-> l]
Reject(c) == /\ phase' = "rejected" /\ fails' = fails \cup {F(c)}
             /\ UNCHANGED <<tid, l, s, t, ag, hist, flags>>
IsRoll == Mode = "trace" /\ Tr.kind = "roll"

\* the first record of the trajectory: the given or sampled initial state, the initial agent state
TraceInit ==
  /\ IsRoll /\ phase = "run" /\ l <= Len(Tr.ev) /\ Ev.k = "init"
  /\ IF l # 1 THEN Reject("init-event-out-of-place")
     ELSE IF Ev.s \notin St(TI) THEN Reject("unknown-state")
     ELSE IF Tr.start # 0 /\ Ev.s # Tr.start THEN Reject("start-differs-from-given-initial-state")
     ELSE IF Tr.start = 0 /\ TI.p0[Ev.s] = 0 THEN Reject("start-outside-initial-support")
     ELSE IF Ev.ag # Tr.ag0 THEN Reject("initial-agentstate-differs-from-policy-or-given")
     ELSE /\ s' = Ev.s /\ ag' = Ev.ag /\ l' = l + 1
          /\ flags' = flags \cup (IF Tr.ag0given = 0 /\ Tr.ag0 # PolAg0(TI)
                                  THEN {"initial-agentstate-differs-from-model"} ELSE {})
          /\ UNCHANGED <<tid, t, hist, phase, fails>>

\* first clause of the statement that the logged step breaks ("ok" if none)
StepFault(T, cap, e, cs, ct, cag) ==
  IF e.s \notin St(T) \/ e.ns \notin St(T) THEN "unknown-state"
  ELSE IF e.a \notin Ac(T) THEN "unknown-action"
  ELSE IF cs = 0 THEN "step-before-initial-record"
  ELSE IF e.s # cs THEN "steps-do-not-chain"
  ELSE IF ct >= cap THEN "step-beyond-cap"
  ELSE IF IsAbs(T, e.s) THEN "step-from-absorbing-state"
  ELSE IF e.a \notin Range(e.supp) THEN "action-zero-policy-probability"
  ELSE IF T.P[e.s][e.a][e.ns] = 0 THEN "successor-zero-probability"
  ELSE IF IsPO(T) /\ e.o \notin Ob(T) THEN "unknown-observation"
  ELSE IF IsPO(T) /\ T.O[e.a][e.ns][e.o] = 0 THEN "observation-zero-probability"
  ELSE IF e.r # T.R[e.s][e.a][e.ns] THEN "reward-differs-from-model"
  ELSE IF e.ag # cag THEN "agentstate-does-not-chain"
  ELSE IF e.nag # e.upd THEN "agentstate-not-policy-update"
  ELSE "ok"

TraceStep ==
  /\ IsRoll /\ phase = "run" /\ l <= Len(Tr.ev) /\ Ev.k = "step"
  /\ LET f == StepFault(TI, Tr.cap, Ev, s, t, ag) IN
     IF f # "ok" THEN Reject(f)
     ELSE /\ s' = Ev.ns /\ t' = t + 1 /\ ag' = Ev.nag /\ l' = l + 1
          /\ flags' = flags
               \* value-based policies compare floats: exact ties may be split, never reordered
               \cup (IF IsPO(TI) /\ TI.pk \in {"qb", "alpha"}
                     THEN (IF Range(Ev.supp) \subseteq PolSupp(TI, s, ag) THEN {} ELSE {"policy-support-differs-from-model"})
                          \cup (IF Range(Ev.supp) # PolSupp(TI, s, ag) THEN {"exact-tie-split-by-floating-point"} ELSE {})
                     ELSE IF Range(Ev.supp) # PolSupp(TI, s, ag) THEN {"policy-support-differs-from-model"} ELSE {})
               \cup (IF Ev.nag # Update(TI, ag, Ev.a, Ev.o) THEN {"agentstate-differs-from-model-update"} ELSE {})
               \cup (IF TI.avail[Ev.s][Ev.a] = 0 THEN {"action-not-available"} ELSE {})
               \cup (IF Ev.t # t THEN {"timestep-field-differs"} ELSE {})
          /\ UNCHANGED <<tid, hist, phase, fails>>

\* the final record: loop exit exactly at the first absorbing state or at the cap
TraceStop ==
  /\ IsRoll /\ phase = "run" /\ l <= Len(Tr.ev) /\ Ev.k = "stop"
  /\ IF s = 0 THEN Reject("stop-before-initial-record")
     ELSE IF Ev.s # s THEN Reject("final-state-is-not-the-last-successor")
     ELSE IF ~(IsAbs(TI, s) \/ t = Tr.cap) THEN Reject("stopped-before-absorbing-state-or-cap")
     ELSE IF Ev.ag # ag THEN Reject("final-agentstate-does-not-chain")
     ELSE IF l # Len(Tr.ev) THEN Reject("records-after-the-final-record")
     ELSE /\ phase' = "done" /\ l' = l + 1
          /\ UNCHANGED <<tid, s, t, ag, hist, fails, flags>>

\* a trace that ends without a final record
TraceTruncated ==
  /\ IsRoll /\ phase = "run" /\ l = Len(Tr.ev) + 1
  /\ Reject("no-final-record")

\* eval / ret traces: a single judging step (the work is in the emission)
TraceJudge ==
  /\ Mode = "trace" /\ Tr.kind = "eval" /\ phase = "run"
  /\ phase' = "done"
  /\ UNCHANGED <<tid, l, s, t, ag, hist, fails, flags>>

\* ret traces: a history of calc_returns calls (discounts Tr.calls) on ONE reward-sequence object.  Computing
\* returns is a function of the reward sequence: in the model the sequence Tr.rs is a constant of the history, so
\* every call is judged against the recursion of Tr.rs; Tr.after[l] is what the caller's object held after call l.
TraceRetCall ==
  /\ Mode = "trace" /\ Tr.kind = "ret" /\ phase = "run" /\ l <= Len(Tr.calls)
  /\ l' = l + 1
  /\ fails' = fails \cup (IF Tr.after[l] # Tr.rs THEN {F("reward-sequence-changed-by-the-call")} ELSE {})
  /\ UNCHANGED <<tid, s, t, ag, hist, phase, flags>>
TraceRetDone ==
  /\ Mode = "trace" /\ Tr.kind = "ret" /\ phase = "run" /\ l = Len(Tr.calls) + 1
  /\ phase' = "done"
  /\ UNCHANGED <<tid, l, s, t, ag, hist, fails, flags>>

Next == MCStep \/ MCStop \/ TraceInit \/ TraceStep \/ TraceStop \/ TraceTruncated \/ TraceJudge
        \/ TraceRetCall \/ TraceRetDone
Spec == Init /\ [][Next]_vars

\* ------------------------------------------------------------------ emission
TraceRewards(tr) ==
  LET idx == SelectSeq([i \in 1..Len(tr.ev) |-> i], LAMBDA i : tr.ev[i].k = "step") IN
  [i \in 1..Len(idx) |-> tr.ev[idx[i]].r]

EvalRecord(T, E) ==
  LET main == EvalTables(T, E, 1)
      alt  == EvalTables(T, E, 0)
      det  == IsDet(T) /\ Fits(T, E.cap)
      dor  == IF det THEN DetOracle(T, E.cap) ELSE <<>>
      \* every recorded roll-out is the unique trajectory of the deterministic model
      same == det /\ \A ri \in 1..Len(E.rolls) : E.rolls[ri].ss = dor.traj
      \* every roll-out of the evaluation starts at its OWN draw from the initial distribution: the draws E.draws
      \* (outcomes, in order, observed at the distribution object) can be matched one-to-one to the start states.
      \* Only judged when the support has >= 2 states (a one-state draw carries no randomness) and draws were seen.
      nstart(x) == Cardinality({ri \in 1..Len(E.rolls) : E.rolls[ri].ss[1] = x})
      ndraw(x)  == Cardinality({d \in 1..Len(E.draws) : E.draws[d] = x})
      startfault == /\ Cardinality(InitSupp(T)) >= 2 /\ Len(E.draws) >= 1
                    /\ \E x \in St(T) : nstart(x) > ndraw(x)
  IN [tid |-> tid, kind |-> "eval", main |-> main, alt |-> alt, det |-> det, dor |-> dor, same |-> same,
      startfault |-> startfault, ndraws |-> Len(E.draws),
      \* design-level consistency: on the unique trajectory the averages of the roll-outs ARE the oracle
      detagree |-> (same /\ main.n > 0) =>
                      /\ main.iv = dor.iv
                      /\ DOMAIN main.sv = DOMAIN dor.sv
                      /\ \A x \in DOMAIN main.sv : main.sv[x] = dor.sv[x] /\ main.cnt[x] = dor.occ[x] * main.n]

Emit ==
  IF Mode = "mc"
  THEN /\ phase = "done" =>
            PrintT(ToJson([kind |-> "beh", cid |-> tid, s0 |-> IF Len(hist) = 0 THEN s ELSE hist[1].s,
                           hist |-> hist, fin |-> s, fag |-> ag, rets |-> RollRets(Rewards(hist), Gam(TI))]))
       /\ phase = "oracle" =>
            PrintT(ToJson([kind |-> "oracle", cid |-> tid,
                           tv |-> LET ts == TruncSeq(TI, Job.cap) IN [k \in 0..Job.cap |-> ts[k + 1]], det |-> IsDet(TI)]))
  ELSE phase # "run" =>
         IF Tr.kind = "roll"
         THEN PrintT(ToJson([tid |-> tid, kind |-> "roll", phase |-> phase, l |-> l, t |-> t,
                             fails |-> fails, flags |-> flags,
                             rets |-> IF phase = "done" /\ Fits(TI, t) THEN RollRets(TraceRewards(Tr), Gam(TI)) ELSE <<>>,
                             retsok |-> Fits(TI, t)]))
         ELSE IF Tr.kind = "eval" THEN PrintT(ToJson(EvalRecord(TI, Tr)))
         ELSE PrintT(ToJson([tid |-> tid, kind |-> "ret", fails |-> fails,
                             calls |-> [c \in 1..Len(Tr.calls) |->
                                LET g == <<Tr.calls[c][1], Tr.calls[c][2]>> IN
                                [rets |-> RetSeq(Tr.rs, g),
                                 direct |-> [i \in 1..Len(Tr.rs) |-> DirectRet(Tr.rs, i, g)]]]]))

\* ------------------------------------------------------------------ (P) properties of the design
\* roll-outs stop exactly at the first absorbing state or at the cap: never later, never earlier
StopsExactly ==
  Mode = "mc" =>
    /\ t = Len(hist) /\ t <= Job.cap
    /\ \A i \in 1..Len(hist) : ~IsAbs(TI, hist[i].s)
    /\ phase = "done" => (IsAbs(TI, s) \/ t = Job.cap)
\* the machine cannot get stuck before a stop condition holds (terminates <=> reaches "done")
NeverStuck ==
  (Mode = "mc" /\ phase = "run" /\ t < Job.cap /\ ~IsAbs(TI, s)) =>
     /\ PolSupp(TI, s, ag) # {}
     /\ \A a \in PolSupp(TI, s, ag) : TI.avail[s][a] = 1 /\ Succ(TI, s, a) # {} /\ \A n \in Succ(TI, s, a) : ObsSupp(TI, a, n) # {}
\* every step is a positive-probability step of policy and model with the model's reward; steps chain
ValidTrajectory ==
  Mode = "mc" =>
    /\ Len(hist) > 0 => (hist[1].s \in Starts(TI, Job) /\ hist[1].ag = JobAg0(TI, Job) /\ hist[Len(hist)].ns = s
                         /\ hist[Len(hist)].nag = ag)
    /\ \A i \in 1..Len(hist) :
          LET e == hist[i] IN
          /\ e.a \in PolSupp(TI, e.s, e.ag) /\ TI.P[e.s][e.a][e.ns] > 0 /\ e.r = TI.R[e.s][e.a][e.ns]
          /\ IsPO(TI) => TI.O[e.a][e.ns][e.o] > 0
          /\ e.nag = Update(TI, e.ag, e.a, e.o)
          /\ i < Len(hist) => (hist[i + 1].s = e.ns /\ hist[i + 1].ag = e.nag)
\* belief policies started inside the belief's support keep the true state inside the support (so the
\* observation is never impossible for the filter)
BeliefTracksState ==
  (Mode = "mc" /\ IsPO(TI) /\ TI.pk # "ctrl" /\ phase # "oracle") =>
     LET s0 == IF Len(hist) = 0 THEN s ELSE hist[1].s
         g0 == JobAg0(TI, Job)
     IN g0[s0] > 0 => ag[s] > 0
\* the backward recursion and the direct discounted sum are the same function of the reward sequence
ReturnsAgree ==
  (Mode = "mc" /\ phase = "done") =>
     LET rs == Append(Rewards(hist), 0) IN
     \A i \in 1..Len(rs) : RetFrom(rs, i, Gam(TI)) = DirectRet(rs, i, Gam(TI))
\* deterministic policy on a deterministic MDP: the roll-out is the oracle's trajectory and its return is the
\* exact evaluation truncated at the cap
DetReturnIsTruncated ==
  (Mode = "mc" /\ phase = "done" /\ IsDet(TI) /\ Job.start = 0 /\ Job.oracle = 1) =>
     LET d == DetOracle(TI, Job.cap) IN
     /\ d.traj = (IF Len(hist) = 0 THEN <<s>> ELSE [i \in 1..Len(hist) |-> hist[i].s] \o <<s>>)
     /\ RollRets(Rewards(hist), Gam(TI))[1] = d.iv
InstancesOK == (Mode = "trace" /\ Tr.kind = "ret") \/ PolicyOK(TI)
=============================================================================
