---------------------------- MODULE C07_Belief ----------------------------
(* Property C07: POMDP belief updates follow Bayes' rule and the belief MDP is consistent. *)
(*                                                                                        *)
(* (M) abstract problem: a tabular POMDP instance (spec/lib/POMDP.tla) from a JSON batch   *)
(*     with a list of initial beliefs (integer weight vectors: the instance's own initial *)
(*     distribution, vertices, beliefs with zero components, interior points).            *)
(* (O) exact oracle: POMDP!Joint - the forward algorithm on unnormalised integer weights   *)
(*     over the whole action/observation history (no intermediate normalisation) - and    *)
(*     the stand-alone definitions POMDP!Predict / Lik / Filter / BSucc / BWeight /        *)
(*     BReward / BAbsorbing.                                                              *)
(* (R) reference machines, one action per call of the real code:                          *)
(*     "filter": FilterStep(a, o) = one call of state_estimator / state_estimator_vec /    *)
(*               ValueBasedTabularPOMDPPolicy.next_agentstate; two implementation-shaped   *)
(*               belief variables are updated side by side:                                *)
(*                 bv - the vector version (einsum 's,sn,n->n' over ALL states, then        *)
(*                      normalise; zero vector when the observation is impossible)         *)
(*                 bd - the dictionary version (pomdp.py:19-35: iterate over the support    *)
(*                      of the belief only, accumulate over the successors that are        *)
(*                      touched, drop zero entries, empty dictionary when impossible)      *)
(*               ImpossibleStep(a, o) = the same call with a zero-probability observation. *)
(*     "bmdp":   BeliefMDPStep(a, nb) = one transition of BeliefMDP(pomdp).next_state_dist *)
(*               from the current belief under action a to the successor belief nb.        *)
(*     Normalisation is modelled by gcd reduction (canonical weights), so equal beliefs    *)
(*     are equal TLA+ values and the belief MDP merges equal posteriors.                   *)
(*     la is the look-ahead of the current belief (predictive observation distribution,    *)
(*     posteriors, belief-MDP row, reward, absorption for every action): a function of bv   *)
(*     kept in a variable so that TLC evaluates it once per state (it adds no states).     *)
(*     The depth bounds D (filter) / DB (bmdp) are per-instance fields of the batch; the    *)
(*     history is part of the state (the behaviours form a tree) because the replay needs  *)
(*     it - no other counter exists.                                                       *)
(*     A behaviour of the filter machine fixes WHAT is computed, not which Python objects   *)
(*     carry it: the driver replays the behaviours with fresh belief objects and again with *)
(*     one belief object / array overwritten in place between the calls (aliasing history). *)
(* (P) invariants at the bottom.  Emit prints, for every state of every behaviour, what    *)
(*     the real code has to return at that point (pipeline A).                             *)
(* Batch record: POMDP instance fields + beliefs (list of weight vectors), machs (list of  *)
(* machine names), D, DB, ghost (1 iff absorbing states keep arbitrary outgoing rows),      *)
(* optional alpha (one integer alpha vector, emitted as val / apred), avail may have zeros  *)
(* (state-dependent action sets: steps only with actions in POMDP!Allowed), and            *)
(* optional LL (0 = beliefs at the depth bound carry no look-ahead table; used by the      *)
(* "tiny-mass" cases whose weights are ~10^8, see LeafLA below).                            *)
EXTENDS POMDP, Json, IOUtils

Batch == JsonDeserialize(IOEnv.BATCH_FILE)

VARIABLES iid,    \* instance
          mach,   \* "filter" | "bmdp"
          b0,     \* index of the initial belief in Batch[iid].beliefs
          bv,     \* belief, vector shaped (canonical integer weights over all states)
          bd,     \* belief, dictionary shaped (function on the support only)
          la,     \* look-ahead table of bv (POMDP!BeliefTable): a function of bv, evaluated once per state
          hist,   \* sequence of [a, o, b]: action, observation (0 for bmdp), resulting belief
          phase   \* "live" | "empty" (after an impossible observation)
vars == <<iid, mach, b0, bv, bd, la, hist, phase>>

M == Batch[iid]
InitW(m, k) == [s \in St(m) |-> m.beliefs[k][s]]

\* ------------------------------------------------------------------ dictionary-shaped filter
EmptyDict == [n \in {} |-> 0]
DictOf(m, w) == [s \in BSupp(m, w) |-> w[s]]
RECURSIVE GCDSet(_, _)
GCDSet(f, S) == IF S = {} THEN 0 ELSE LET x == CHOOSE y \in S : TRUE IN GCD(f[x], GCDSet(f, S \ {x}))
\* for s, s_prob in b.items(): skip zeros; for ns, ns_prob in T(s, a): acc[ns] += O(a, ns)(o) * s_prob * ns_prob
\* tot = sum(acc); empty if tot == 0; else {ns: p / tot for p > 0}
DictFilter(m, d, a, o) ==
  LET dom     == DOMAIN d
      touched == {n \in St(m) : \E s \in dom : m.P[s][a][n] > 0}
      acc     == TLCEval([n \in touched |->
                    SumSet([s \in dom |-> Safe(Safe(d[s] * m.P[s][a][n]) * m.O[a][n][o])], dom)])
      tot     == SumSet(acc, touched)
      keep    == {n \in touched : acc[n] > 0}
      g       == GCDSet(acc, keep)
  IN IF tot = 0 THEN EmptyDict ELSE TLCEval([n \in keep |-> acc[n] \div g])

\* ------------------------------------------------------------------ machine
Init ==
  /\ iid \in 1..Len(Batch)
  /\ mach \in Range(Batch[iid].machs)
  /\ b0 \in 1..Len(Batch[iid].beliefs)
  /\ bv = Reduce(Batch[iid], InitW(Batch[iid], b0))
  /\ bd = DictOf(Batch[iid], Reduce(Batch[iid], InitW(Batch[iid], b0)))
  /\ la = BeliefTable(Batch[iid], Reduce(Batch[iid], InitW(Batch[iid], b0)))
  /\ hist = <<>>
  /\ phase = "live"

Depth(m) == IF mach = "bmdp" THEN m.DB ELSE m.D
\* LL = 0 ("tiny-mass" cases: belief weights up to ~10^8): a belief at the depth bound gets no look-ahead
\* table, because the table of such a leaf would need products beyond 2^30 (the leaf itself is still
\* compared with the real posterior).  Absent field = 1 = every live belief has its table.
LeafLA(m) == IF "LL" \in DOMAIN m THEN m.LL ELSE 1
TableAt(m, w, d) == IF LeafLA(m) = 0 /\ d >= Depth(m) THEN BeliefTable(m, ZeroVec(m)) ELSE BeliefTable(m, w)
HasLA == phase = "live" /\ (LeafLA(M) = 1 \/ Len(hist) < Depth(M))

\* one call of state_estimator(b, a, o) / state_estimator_vec(b, ai, oi) / next_agentstate(b, a, o)
FilterStep(a, o) ==
  /\ mach = "filter" /\ phase = "live" /\ Len(hist) < Depth(M)
  /\ a \in Allowed(M, bv)
  /\ la.act[a].lik[o] > 0
  /\ bv' = la.act[a].filt[o]
  /\ bd' = DictFilter(M, bd, a, o)
  /\ la' = TableAt(M, la.act[a].filt[o], Len(hist) + 1)
  /\ hist' = Append(hist, [a |-> a, o |-> o, b |-> la.act[a].filt[o]])
  /\ UNCHANGED <<iid, mach, b0, phase>>

\* the same call with an observation of probability zero
ImpossibleStep(a, o) ==
  /\ mach = "filter" /\ phase = "live" /\ Len(hist) < Depth(M)
  /\ a \in Allowed(M, bv)
  /\ la.act[a].lik[o] = 0
  /\ bv' = la.act[a].filt[o]           \* the zero vector
  /\ bd' = DictFilter(M, bd, a, o)      \* the empty dictionary
  /\ la' = BeliefTable(M, ZeroVec(M))
  /\ phase' = "empty"
  /\ hist' = Append(hist, [a |-> a, o |-> o, b |-> ZeroVec(M)])
  /\ UNCHANGED <<iid, mach, b0>>

\* one transition of BeliefMDP(pomdp).next_state_dist(b, a) to the successor belief nb
BeliefMDPStep(a, nb) ==
  /\ mach = "bmdp" /\ phase = "live" /\ Len(hist) < Depth(M)
  /\ a \in Allowed(M, bv)
  /\ nb \in la.act[a].succ
  /\ bv' = nb
  /\ bd' = DictOf(M, nb)
  /\ la' = TableAt(M, nb, Len(hist) + 1)
  /\ hist' = Append(hist, [a |-> a, o |-> 0, b |-> nb])
  /\ UNCHANGED <<iid, mach, b0, phase>>

Next ==
  \/ (mach = "filter" /\ phase = "live" /\ \E a \in Ac(M) : \E o \in Ob(M) : FilterStep(a, o) \/ ImpossibleStep(a, o))
  \/ (mach = "bmdp" /\ phase = "live" /\ \E a \in Ac(M) : \E nb \in la.act[a].succ : BeliefMDPStep(a, nb))
Spec == Init /\ [][Next]_vars

\* ------------------------------------------------------------------ emission (pipeline A)
Pairs(d) == {<<n, d[n]>> : n \in DOMAIN d}
LookAhead(m) ==
  [den  |-> la.den, rden |-> la.rden, absb |-> la.absb,
   obs  |-> [a \in Ac(m) |-> la.act[a].lik],
   pred |-> [a \in Ac(m) |-> la.act[a].pred],
   rw   |-> [a \in Ac(m) |-> la.act[a].rw],
   succ |-> [a \in Ac(m) |-> {[b |-> nb, w |-> la.act[a].wt[nb]] : nb \in la.act[a].succ}],
   \* actions available in every supported state: the only ones the real code is run with
   allowed |-> Allowed(m, bv),
   \* one alpha vector (optional batch field alpha): value of the belief (over BSum) and of the state
   \* prediction (over rden); AlphaVectorPolicy.action_value(b, a) = rw/rden + gamma * apred/rden because
   \* the probability-weighted mean of the posteriors is the prediction (MeanIsPrediction)
   val   |-> IF "alpha" \in DOMAIN m THEN AlphaValue(m, bv, m.alpha) ELSE 0,
   bsum  |-> BSum(m, bv),
   apred |-> [a \in Ac(m) |-> IF "alpha" \in DOMAIN m THEN AlphaValue(m, la.act[a].pred, m.alpha) ELSE 0]]
Emit ==
  PrintT(ToJson([iid |-> iid, mach |-> mach, b0 |-> b0, hist |-> hist, phase |-> phase,
                 bv |-> bv, bd |-> Pairs(bd),
                 la |-> IF HasLA THEN LookAhead(M) ELSE <<>>]))

\* ------------------------------------------------------------------ properties (P)
PlainHist == [i \in 1..Len(hist) |-> [a |-> hist[i].a, o |-> hist[i].o]]
W0 == Reduce(M, InitW(M, b0))

\* (P1) the step-by-step normalised filter equals conditioning the joint distribution of
\*      (state, whole observation history) on the history (forward algorithm without intermediate
\*      normalisation, POMDP!Joint); an impossible history has joint weight 0
FilterIsBayes ==
  mach = "filter" =>
     LET j == Joint(M, W0, PlainHist) IN
     IF phase = "live" THEN BSum(M, j) > 0 /\ bv = Reduce(M, j)
     ELSE BSum(M, j) = 0 /\ bv = ZeroVec(M)
\* (P2) the dictionary and the vector versions agree (the dictionary lists exactly the support)
DictVecAgree == bd = DictOf(M, bv)
\* (P3) a live belief is a point of the simplex in canonical form; empty only after an impossible observation
BeliefNormalised ==
  /\ phase = "live" => BSum(M, bv) > 0 /\ IsReduced(M, bv) /\ \A s \in St(M) : bv[s] >= 0
  /\ phase = "empty" => bv = ZeroVec(M) /\ bd = EmptyDict /\ hist # <<>>
\* (P4) the predictive observation distribution sums to one
ObsNormalised ==
  HasLA => \A a \in Allowed(M, bv) : SumTo(la.act[a].lik, M.NO) = la.den
\* (P5) belief-MDP rows are normalised distributions over canonical non-zero beliefs
BMDPNormalised ==
  HasLA => \A a \in Allowed(M, bv) :
     LET t == la.act[a] IN
     /\ t.succ # {}
     /\ SumSet(t.wt, t.succ) = la.den
     /\ \A nb \in t.succ : BSum(M, nb) > 0 /\ IsReduced(M, nb) /\ t.wt[nb] > 0
\* (P6) the probability-weighted mean of the successor beliefs is the one-step state prediction:
\*      Sum_nb (wt[nb]/den) * nb[n]/BSum(nb) = pred[n]/(BSum(w)*PD)
\*      wt[nb] is a multiple of BSum(nb) (sum of the gcds of the merged posteriors)
MeanIsPrediction ==
  HasLA => \A a \in Allowed(M, bv) :
     LET t == la.act[a] IN
     /\ \A nb \in t.succ : t.wt[nb] % BSum(M, nb) = 0
     /\ \A n \in St(M) :
          SumSet([nb \in t.succ |-> Safe((t.wt[nb] \div BSum(M, nb)) * nb[n])], t.succ) = M.OD * t.pred[n]
     /\ SumTo(t.pred, M.N) = la.rden
\* (P7) absorbing beliefs (all mass on absorbing states; dictionary form: every listed key) stay
\*      absorbing and earn nothing when the absorbing states have no ghost dynamics
AbsorbingClosed ==
  /\ (HasLA \/ phase = "empty") => (la.absb <=> (DOMAIN bd \subseteq ExplAbs(M)))
  /\ (HasLA /\ M.ghost = 0 /\ la.absb) =>
        \A a \in Allowed(M, bv) : la.act[a].rw = 0 /\ \A nb \in la.act[a].succ : BAbsorbing(M, nb)
\* (P8) the table the machines step with is the one defined by the stand-alone operators of POMDP.tla
\*      (checked at the initial beliefs and after the first step; deeper it is a function of bv anyway)
TableMatchesDefinitions ==
  (HasLA /\ Len(hist) <= 1) => \A a \in Ac(M) :
     /\ la.act[a].succ = BSucc(M, bv, a)
     /\ \A nb \in BSucc(M, bv, a) : la.act[a].wt[nb] = BWeight(M, bv, a, nb)
     /\ \A o \in Ob(M) : la.act[a].lik[o] = Lik(M, bv, a, o) /\ la.act[a].filt[o] = Filter(M, bv, a, o)
\* instance filter
InstancesWellFormed ==
  /\ PWellFormedSD(M)
  /\ \A k \in 1..Len(M.beliefs) : SumTo(M.beliefs[k], M.N) > 0 /\ \A s \in St(M) : M.beliefs[k][s] >= 0
=============================================================================
