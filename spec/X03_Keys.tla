------------------------------ MODULE X03_Keys ------------------------------
(* Extension X03: the universe of assignments used as keys of AssignmentMap and as        *)
(* elements of AssignmentSet (shared by X03_AssignMap and X03_AssignSet).                 *)
(*                                                                                      *)
(* Values are nested assignments of depth <= 2 (lib/Nested.tla): dictionaries (the kind   *)
(* the classes exist for), lists, and hashable atoms (str, int, tuple).  The universe is   *)
(* collision-rich on purpose:                                                            *)
(*   1/2    differ in one leaf;  3 has two keys (python presents it in both orders);       *)
(*   4/5    differ only at depth 2;  6 is the empty dictionary;                            *)
(*   7/10   list and tuple with the same elements;  9 the int that is also a leaf of 1;    *)
(*   11/12  strings whose text is the JSON text of the unhashable keys 1 / 7               *)
(* Which members a run uses is chosen by the configuration file (Cfg.keys).               *)
EXTENDS Nested, Json, IOUtils

Cfg == JsonDeserialize(IOEnv.CFG_FILE)

A(l) == Atom(l)
KeyUniv == <<
  Dict([a |-> A("i:1")]),                                                     \*  1  {"a": 1}
  Dict([a |-> A("i:2")]),                                                     \*  2  {"a": 2}
  Dict([a |-> A("i:1"), b |-> A("i:2")]),                                     \*  3  {"a": 1, "b": 2}
  Dict([a |-> Dict([x |-> A("i:1"), y |-> A("i:2")]), b |-> A("i:2")]),       \*  4  {"a": {"x": 1, "y": 2}, "b": 2}
  Dict([a |-> Dict([x |-> A("i:2"), y |-> A("i:2")]), b |-> A("i:2")]),       \*  5  {"a": {"x": 2, "y": 2}, "b": 2}
  EmptyDict,                                                                  \*  6  {}
  A("l:[1, 2]"),                                                              \*  7  [1, 2]
  A("s:a"),                                                                   \*  8  "a"
  A("i:1"),                                                                   \*  9  1
  A("t:[1, 2]"),                                                              \* 10  (1, 2)
  A("s:{\"a\": 1}"),                                                          \* 11  '{"a": 1}'
  A("s:[1, 2]"),                                                              \* 12  '[1, 2]'
  Dict([a |-> A("l:[1, 2]"), b |-> EmptyDict]) >>                             \* 13  {"a": [1, 2], "b": {}}
NU == Len(KeyUniv)
K(i) == KeyUniv[i]
IdxOf(v) == CHOOSE i \in 1..NU : KeyUniv[i] = v

ListLeaves == {"l:[1, 2]"}
\* python cannot hash it: the classes encode it (json text) before using it as a dict key / set element
Unhashable(v) == IsDict(v) \/ \E e \in v : e[1] = <<>> /\ e[2] \in ListLeaves
\* <<s, u>>: the hashable string key s is the json text of the unhashable key u
Shadows == {<<11, 1>>, <<12, 7>>}
Partner(i) == {p[2] : p \in {q \in Shadows : q[1] = i}} \cup {p[1] : p \in {q \in Shadows : q[2] = i}}

KeysOK ==
  /\ \A i \in 1..NU : WellFormed(K(i)) /\ Depth(K(i)) <= 2
  /\ \A i \in 1..NU : \A j \in 1..NU : K(i) = K(j) => i = j
  /\ \A p \in Shadows : ~Unhashable(K(p[1])) /\ Unhashable(K(p[2]))

SeqToSet(sq) == {sq[i] : i \in 1..Len(sq)}
=============================================================================
