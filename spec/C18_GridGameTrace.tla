------------------------- MODULE C18_GridGameTrace -------------------------
(* Pipeline B for property C18: validation of what the real TabularGridGame did against  *)
(* the allowed-move relation (O) of C18_GridGame.                                        *)
(*                                                                                      *)
(* The harness computes, with the real next_state_dist only, the closure of every        *)
(* layout's initial state and records one trace per (layout, state): the state and, for  *)
(* each of the 25 joint actions, every positive-probability outcome with its probability *)
(* quantised to units of 1/Q and the joint rewards in thousandths.  One trace is one      *)
(* Expand action here; it is explained iff every logged outcome is an allowed move of    *)
(* the abstract game, every row sums to one, own-goal states lead to the terminal state, *)
(* the terminal state is absorbing and pays nothing, and the per-agent marginals that    *)
(* marginalize() returns for the logged table are normalised and are the marginals of the *)
(* logged joint distribution.  Verdicts are total: the set                                *)
(* `bad` names every (joint action, outcome, clause) that is not explained, and is       *)
(* emitted per trace (ACCEPT iff empty).  The clause predicates are additionally listed  *)
(* as invariants so that a failing clause is also a TLC counterexample.                  *)
EXTENDS C18_GridGame

Traces == Batch.traces
Q == 1000000000                  \* probabilities are logged as round(p * Q), at least 1 when p > 0
QCAP == 1050000000               \* the harness caps logged values here; sums saturate (32-bit integers)

VARIABLES tid, bad
tvars == <<lid, pos, ja, phase, tab, tid, bad>>
Tr == Traces[tid]

JaOf(k) == <<((k - 1) \div 5) + 1, ((k - 1) % 5) + 1>>
SatAdd(a, b) == MinI(a + b, QCAP)
RECURSIVE SatSum(_, _)
SatSum(row, k) == IF k = 0 THEN 0 ELSE SatAdd(row[k].q, SatSum(row, k - 1))
\* derived tolerance: each logged value is off by at most one unit (rounding 1/2, the floor of 1
\* for tiny positive probabilities), the float sum itself by far less than a unit
SumOK(row) == AbsI(SatSum(row, Len(row)) - Q) <= Len(row) + 1

Fail(k, n, c) == [ja |-> k, n |-> n, c |-> c]
\* The per-agent marginal that marginalize() returns for the logged distribution: it must be normalised
\* and equal the marginal of the logged joint row (each logged value is off by at most one unit).
JointMass(row, i, c) == LET sel == SelectSeq(row, LAMBDA o : o.n[i] = c) IN SatSum(sel, Len(sel))
MargFails(k, row, mm) ==
  IF Len(row) = 0 \/ Len(mm) = 0 THEN {}        \* no distribution at all (the "sum" clause reports it) / not recorded
  ELSE UNION {
         (IF SumOK(mm[i]) THEN {} ELSE {Fail(k, T, "marginal-sum")})
         \cup {Fail(k, <<mm[i][j].c, mm[i][j].c>>, "marginal") : j \in
                 {j \in 1..Len(mm[i]) : AbsI(mm[i][j].q - JointMass(row, i, mm[i][j].c)) > Len(row) + 1}}
         \cup {Fail(k, row[o].n, "marginal") : o \in
                 {o \in 1..Len(row) : \A j \in 1..Len(mm[i]) : mm[i][j].c # row[o].n[i]}}
       : i \in Agents }
\* everything in the event that the abstract game does not explain.  ev.hist = 1: the expansion was recorded on
\* a second game object after a call history (bounded exploration, a simulation loop that updates its own state
\* dictionary in place); the same clauses must hold, only the closure bookkeeping of the harness does not apply
Judge(LL, ev) ==
  UNION {
    (IF SumOK(ev.rows[k]) THEN {} ELSE {Fail(k, T, "sum")})
    \cup MargFails(k, ev.rows[k], ev.marg[k])
    \cup UNION { {Fail(k, ev.rows[k][o].n, c) : c \in Clauses(LL, ev.s, JaOf(k), ev.rows[k][o].n)}
                 \cup (IF ev.s = T /\ ev.rows[k][o].r # <<0, 0>> THEN {Fail(k, ev.rows[k][o].n, "terminal-pays")} ELSE {})
                 \cup (IF LL.capped = 0 /\ ev.hist = 0 /\ ev.rows[k][o].n \notin Range(LL.states) THEN {Fail(k, ev.rows[k][o].n, "closure")} ELSE {})
                 \cup (IF ev.rows[k][o].q <= 0 THEN {Fail(k, ev.rows[k][o].n, "malformed")} ELSE {})
                 \* normalize() of the returned table: the row weight exp(logit) of the normalised table is the
                 \* probability of the row (both logged in units of 1/Q, each off by at most one unit)
                 \cup (IF AbsI(ev.rows[k][o].z - ev.rows[k][o].q) > 2 THEN {Fail(k, ev.rows[k][o].n, "normalize")} ELSE {})
               : o \in 1..Len(ev.rows[k]) }
    : k \in 1..25 }

TraceInit ==
  /\ tid \in 1..Len(Traces)
  /\ lid = Traces[tid].lid
  /\ pos = Traces[tid].s /\ ja = NoJa /\ phase = "event" /\ tab = <<>>
  /\ bad = {}
\* the logged expansion of state pos under all 25 joint actions
Expand ==
  /\ phase = "event" /\ Tr.kind = "expand" /\ phase' = "judged"
  /\ Len(Tr.rows) = 25
  /\ bad' = Judge(L, Tr)
  /\ UNCHANGED <<lid, pos, ja, tab, tid>>
\* one "cover" trace per layout: the expanded states are exactly the recorded closure, which
\* contains the initial state (so no expansion was dropped and the quantifier "every reachable
\* state" is what was validated)
Cover ==
  /\ phase = "event" /\ Tr.kind = "cover" /\ phase' = "judged"
  /\ bad' = (IF L.capped = 1 \/ (Range(Tr.expanded) = Range(L.states) /\ Len(Tr.expanded) = Len(L.states)
                                 /\ Tr.s \in Range(L.states))       \* Tr.s: the recorded initial state
             THEN {} ELSE {Fail(0, Tr.s, "closure")})
            \* the library's reachable_states() (Tr.lib, when it returned) contains the initial state and is closed
            \* under the recorded positive-probability outcomes, i.e. it contains the whole recorded closure
            \cup (IF Tr.haslib = 1 /\ L.capped = 0
                  THEN {Fail(0, s, "reachable-states-not-closed") : s \in Range(L.states) \ Range(Tr.lib)}
                  ELSE {})
  /\ UNCHANGED <<lid, pos, ja, tab, tid>>
TraceNext == Expand \/ Cover
TraceSpec == TraceInit /\ [][TraceNext]_tvars

\* verdict per trace
Verdict ==
  phase = "judged" =>
    PrintT(ToJson([tid |-> tid, accept |-> bad = {}, bad |-> bad]))

\* the clauses of the statement as invariants over the judged events
Has(c) == \E b \in bad : b.c = c
Normalised          == ~Has("sum")
TrNoSharedCell      == ~Has("shared-cell")
TrNoSwap            == ~Has("swap")
TrInGrid            == ~Has("off-grid")
TrNotInObstacle     == ~Has("obstacle")
TrNotThroughWall    == ~Has("wall")
TrAtMostOneCell     == ~Has("more-than-one-cell") /\ ~Has("terminal-from-non-goal-state")
TrGoalLeadsToTerminal == ~Has("own-goal-not-terminal")
TrTerminalAbsorbing == ~Has("terminal-not-absorbing") /\ ~Has("terminal-pays")
\* every per-agent marginal of a returned distribution is itself a normalised distribution and is the
\* marginal of the joint one
TrMarginal          == ~Has("marginal") /\ ~Has("marginal-sum")
\* normalize() of a returned distribution has row weights equal to the probabilities
TrNormalize         == ~Has("normalize")
\* "every reachable state": the library's own reachable_states() lacks no state that the recorded behaviour
\* reaches with positive probability
TrReachableClosed   == ~Has("reachable-states-not-closed")
\* the recorded state set really is closed and well formed (a failure here is the harness's fault)
TrClosed            == ~Has("closure") /\ ~Has("malformed")
=============================================================================
