------------------------------ MODULE C11_Dist ------------------------------
(* Property C11: finite distributions obey the probability calculus.                    *)
(*                                                                                      *)
(* (M) abstract model.  An event is a tuple: an atom <<i>> (i in 1..NA) or a pair        *)
(*     <<x, y>> of events (what `joint` produces).  A finite measure is a record         *)
(*     [ev |-> sequence of distinct events, p |-> sequence of exact rationals <<n, d>>]  *)
(*     - zero entries and totals other than 1 are allowed.  Every concrete kind of msdm  *)
(*     denotes such a measure (DistOf): dict / table (weights w/d as listed), pairs      *)
(*     (from_pairs: duplicates are summed), uniform, det, softmax (scores are integer    *)
(*     multiples of ln 2, so that the probabilities 2^k/Z are exact rationals).          *)
(*     Softmax corner inputs: a score of -infinity (flag ni[i] = 1: a forbidden event)    *)
(*     has probability exactly 0 and stays in the support; a finite score more than       *)
(*     TINYGAP*ln 2 below the maximum has a probability in (0, 2^-TINYGAP]: its weight is  *)
(*     not tracked - the abstract measure carries 0 for it and the event is a member of   *)
(*     the state variable `tiny` ("carries an untracked weight <= 2^-64 of the mass"), so  *)
(*     the other probabilities are exact up to a relative 2^-60 (the comparison tolerance  *)
(*     of the harness is 1e-9) and a draw of a tiny event is an enabled Sample.            *)
(*     Near-normalised inputs (total within 1e-5 of 1 but not 1: integer weights over 10^6  *)
(*     or 2^17) are instances whose field OPS restricts the chains to the operations whose   *)
(*     exact arithmetic stays inside 30 bits (marg, mix, norm, expect).                      *)
(*     Fibre family (field FIBK = image sizes): the marg menu is every surjection of the     *)
(*     support onto 1..k, enumerated by TLC, so that every kind meets projections with fibres *)
(*     of unequal sizes for every (support size, image size).                                 *)
(* (O) exact oracle: the laws at the bottom of the module (each written independently of  *)
(*     the fold that computes the operation) + the expected measure after every step.    *)
(* (R) reference machine: one action per operation of the code, shaped like the code     *)
(*     (insertion-ordered accumulation as in the defaultdict loops of distributions.py): *)
(*     marg(f) chain(k) cond(l) joint(o) mix(a*cur | b*o) and(o) norm expect(g) shift(c) *)
(*     and Sample(e) (enabled iff e is in the support and has positive probability, or   *)
(*     the support is a single point).  Arguments come from the menus of the instance;   *)
(*     functions over the support are tables aligned with the support of the pre-state.  *)
(*     Operations are functions of their operands: all successors of a state are computed  *)
(*     from the same `cur` (the branching of the state graph).  The harness replays that     *)
(*     branching on ONE shared real object per state and re-reads it after every operation:  *)
(*     an operation that changes its receiver (so that a later a | c, a.normalize(), a.prob  *)
(*     no longer speak about the measure of the state) is a failure of the clause replayed.  *)
(* (P) the clauses of the statement as invariants over the last step (see the bottom).   *)
(* Modes (IOEnv.MODE): "mc" explores all operation chains of length DEPTH over the batch  *)
(* and emits the expected measure after every step (pipeline A); "trace" re-plays, with   *)
(* the same Enabled/Apply operators, the chain a recorded trace names and then validates  *)
(* every recorded draw of the real sample() as an enabled Sample action (pipeline B).    *)
EXTENDS Num, Json, IOUtils

Batch == JsonDeserialize(IOEnv.BATCH_FILE)
Mode  == IOEnv.MODE

VARIABLES iid, n, cur, sc, tiny, hist, l, phase
vars == <<iid, n, cur, sc, tiny, hist, l, phase>>

ZeroR == <<0, 1>>
OneR  == <<1, 1>>
RPos(x) == x[1] > 0 /\ x[2] > 0
\* product with cross-cancellation before multiplying (near-normalised measures have weights over
\* denominators of 10^6 / 2^17: the plain product of Num.tla would leave 30 bits, the result does not)
RMulC(x, y) ==
  IF ~IsFin(x) \/ ~IsFin(y) \/ x[1] = 0 \/ y[1] = 0 THEN RMul(x, y)
  ELSE LET g1 == GCD(x[1], y[2]) g2 == GCD(y[1], x[2]) IN
       Norm(Safe((x[1] \div g1) * (y[1] \div g2)), Safe((x[2] \div g2) * (y[2] \div g1)))
RInv(x) == IF x[1] > 0 THEN <<x[2], x[1]>> ELSE <<-x[2], -x[1]>>
RDiv(x, y) == RMulC(x, RInv(y))

\* ------------------------------------------------------------------ measures
Empty == [ev |-> <<>>, p |-> <<>>]
Has(sq, x) == \E i \in 1..Len(sq) : sq[i] = x
Pos(sq, x) == CHOOSE i \in 1..Len(sq) : sq[i] = x
PAt(D, e) == IF Has(D.ev, e) THEN D.p[Pos(D.ev, e)] ELSE ZeroR
Total(D) == RSumTo(D.p, Len(D.p))
Supp(D) == Range(D.ev)
\* cyclic lookup: menus are finite tables, supports can be longer
At(tab, i) == tab[((i - 1) % Len(tab)) + 1]

\* newdist[e] += q   (defaultdict accumulation, insertion ordered)
Acc(D, e, q) ==
  IF Has(D.ev, e) THEN [ev |-> D.ev, p |-> [D.p EXCEPT ![Pos(D.ev, e)] = RAdd(@, q)]]
  ELSE [ev |-> Append(D.ev, e), p |-> Append(D.p, q)]
RECURSIVE Fold(_, _, _, _)
Fold(acc, es, ps, i) == IF i > Len(es) THEN acc ELSE Fold(Acc(acc, es[i], ps[i]), es, ps, i + 1)

Scale(D, a) == [ev |-> D.ev, p |-> TLCEval([i \in 1..Len(D.p) |-> RMulC(D.p[i], a)])]

RECURSIVE Pow2(_)
Pow2(k) == IF k = 0 THEN 1 ELSE 2 * Pow2(k - 1)
\* exp(s - max) / Z with s = k ln 2; ni[i] = 1 marks a score of -infinity (at least one score is finite)
TINYGAP == 64
NEARGAP == 8        \* instance filter: a finite score is within NEARGAP of the maximum or more than TINYGAP below
SMax(k, ni) == MaxSet({k[i] : i \in {x \in 1..Len(k) : ni[x] = 0}})
IsTiny(k, ni, i) == ni[i] = 0 /\ SMax(k, ni) - k[i] > TINYGAP
Softmax(ev, k, ni) ==
  LET mx == SMax(k, ni)
      u  == [i \in 1..Len(k) |-> IF ni[i] = 1 \/ IsTiny(k, ni, i) THEN ZeroR ELSE <<1, Pow2(mx - k[i])>>]
      z  == RSumTo(u, Len(k))
  IN [ev |-> ev, p |-> TLCEval([i \in 1..Len(k) |-> RDiv(u[i], z)])]
SoftmaxTiny(ev, k, ni) == {ev[i] : i \in {x \in 1..Len(k) : IsTiny(k, ni, x)}}
SoftmaxOK(r) ==
  /\ \E i \in 1..Len(r.k) : r.ni[i] = 0
  /\ \A i \in 1..Len(r.k) : r.ni[i] = 0 => (SMax(r.k, r.ni) - r.k[i] <= NEARGAP \/ SMax(r.k, r.ni) - r.k[i] > TINYGAP)

\* the measure denoted by a concrete representation
DistOf(r) ==
  IF r.kind = "uniform" THEN [ev |-> r.ev, p |-> [i \in 1..Len(r.ev) |-> <<1, Len(r.ev)>>]]
  ELSE IF r.kind = "det" THEN [ev |-> <<r.ev[1]>>, p |-> <<OneR>>]
  ELSE IF r.kind = "softmax" THEN Softmax(r.ev, r.k, r.ni)
  ELSE IF r.kind = "pairs" THEN Fold(Empty, r.ev, [i \in 1..Len(r.ev) |-> Norm(r.w[i], r.d)], 1)
  ELSE [ev |-> r.ev, p |-> [i \in 1..Len(r.ev) |-> Norm(r.w[i], r.d)]]      \* dict, table

\* ------------------------------------------------------------------ the operations (code shaped)
\* marginalize: for e, p in items(): newdist[projection(e)] += p
Marg(D, f) == Fold(Empty, f, D.p, 1)
\* chain: for e, p in items(): for e2, p2 in function(e).items(): cum[e2] += p * p2
RECURSIVE ChainFold(_, _, _, _)
ChainFold(acc, D, ks, i) ==
  IF i > Len(D.ev) THEN acc
  ELSE ChainFold(Fold(acc, ks[i].ev, Scale(ks[i], D.p[i]).p, 1), D, ks, i + 1)
Chain(D, ks) == ChainFold(Empty, D, ks, 1)
\* condition: keep weight > 0, multiply, divide by the sum
Cond(D, lk) ==
  LET keep == SelectSeq([i \in 1..Len(D.ev) |-> i], LAMBDA i : RPos(lk[i]))
      raw  == [j \in 1..Len(keep) |-> RMulC(D.p[keep[j]], lk[keep[j]])]
      nrm  == RSumTo(raw, Len(keep))
  IN [ev |-> [j \in 1..Len(keep) |-> D.ev[keep[j]]], p |-> TLCEval([j \in 1..Len(keep) |-> RDiv(raw[j], nrm)])]
CondMass(D, lk) == RSumTo([i \in 1..Len(D.ev) |-> IF RPos(lk[i]) THEN RMulC(D.p[i], lk[i]) ELSE ZeroR], Len(D.ev))
\* joint: {(a, b): pa * pb for a in self for b in other}
Joint(D, E) ==
  LET m == Len(E.ev) IN
  [ev |-> [t \in 1..(Len(D.ev) * m) |-> <<D.ev[((t - 1) \div m) + 1], E.ev[((t - 1) % m) + 1]>>],
   p  |-> TLCEval([t \in 1..(Len(D.ev) * m) |-> RMulC(D.p[((t - 1) \div m) + 1], E.p[((t - 1) % m) + 1])])]
\* a * self | b * other
Mix(D, a, E, b) ==
  LET x == Scale(D, a) y == Scale(E, b) IN Fold(Fold(Empty, x.ev, x.p, 1), y.ev, y.p, 1)
\* conjunction: renormalised product on the common support (the code iterates a set: order is free)
AndD(D, E) ==
  LET keep == SelectSeq([i \in 1..Len(D.ev) |-> i], LAMBDA i : Has(E.ev, D.ev[i]))
      raw  == [j \in 1..Len(keep) |-> RMulC(D.p[keep[j]], PAt(E, D.ev[keep[j]]))]
      nrm  == RSumTo(raw, Len(keep))
  IN [ev |-> [j \in 1..Len(keep) |-> D.ev[keep[j]]], p |-> TLCEval([j \in 1..Len(keep) |-> RDiv(raw[j], nrm)])]
AndMass(D, E) == RSumTo([i \in 1..Len(D.ev) |-> RMulC(D.p[i], PAt(E, D.ev[i]))], Len(D.ev))
Normalize(D) == LET t == Total(D) IN [ev |-> D.ev, p |-> TLCEval([i \in 1..Len(D.p) |-> RDiv(D.p[i], t)])]
Expect(D, g) == RSumTo([i \in 1..Len(D.ev) |-> RMulC(<<g[i], 1>>, D.p[i])], Len(D.ev))

\* ------------------------------------------------------------------ arguments from the instance menus
\* functions over the support = tables aligned with the support of the pre-state D
\* projection: target atoms.  In the fibre family (m.FIBK non-empty) the menu entry j IS the projection table
\* (a surjection 1..n -> 1..k enumerated by TLC, see FibMenu); otherwise j indexes the menu m.F
IsFib(m) == Len(m.FIBK) > 0
ArgF(m, D, j) == IF IsFib(m) THEN [i \in 1..Len(D.ev) |-> <<j[i]>>]
                 ELSE [i \in 1..Len(D.ev) |-> <<At(m.F[j], i)>>]
\* every surjection of the support positions onto 1..k, for every image size k the instance lists: all ways
\* of merging n events into k groups, fibres of equal and of unequal sizes alike
Surj(nn, k) == {f \in [1..nn -> 1..k] : \A y \in 1..k : \E i \in 1..nn : f[i] = y}
FibMenu(m, D) == UNION {Surj(Len(D.ev), k) : k \in {x \in 1..Len(D.ev) : x \in Range(m.FIBK)}}
ArgK(m, D, j) == [i \in 1..Len(D.ev) |-> DistOf(At(m.K[j], i))]        \* kernel
ArgL(m, D, j) == [i \in 1..Len(D.ev) |-> Norm(At(m.L[j], i)[1], At(m.L[j], i)[2])]   \* likelihood
ArgG(m, D, j) == [i \in 1..Len(D.ev) |-> At(m.G[j], i)]                \* real function (integers)
Opd(m, j) == DistOf(m.O[j])                                             \* operand distribution
MixA(m, j) == Norm(m.MX[j].an, m.MX[j].ad)
MixB(m, j) == Norm(m.MX[j].bn, m.MX[j].bd)

Ops == {"marg", "chain", "cond", "joint", "mix", "and", "norm", "expect", "shift"}
Menu(m, D, op) ==
  IF op = "marg" THEN (IF IsFib(m) THEN FibMenu(m, D) ELSE 1..Len(m.F)) ELSE IF op = "chain" THEN 1..Len(m.K)
  ELSE IF op = "cond" THEN 1..Len(m.L) ELSE IF op = "joint" THEN 1..Len(m.O)
  ELSE IF op = "mix" THEN 1..Len(m.MX) ELSE IF op = "and" THEN 1..Len(m.O)
  ELSE IF op = "norm" THEN {1} ELSE IF op = "expect" THEN 1..Len(m.G)
  ELSE 1..Len(m.C)

\* where the operation is defined (positive mass to divide by) and inside the bounded family
Enabled(m, D, s, k, op, j) ==
  IF op = "cond" THEN RPos(CondMass(D, ArgL(m, D, j)))
  ELSE IF op = "joint" THEN Len(D.ev) * Len(Opd(m, j).ev) <= m.MAXN /\ Len(D.ev) > 0
  ELSE IF op = "and" THEN RPos(AndMass(D, Opd(m, j)))
  ELSE IF op = "norm" THEN RPos(Total(D))
  ELSE IF op = "shift" THEN k = 0 /\ m.init.kind = "softmax"
  ELSE TRUE
Apply(m, D, s, op, j) ==
  IF op = "marg" THEN Marg(D, ArgF(m, D, j))
  ELSE IF op = "chain" THEN Chain(D, ArgK(m, D, j))
  ELSE IF op = "cond" THEN Cond(D, ArgL(m, D, j))
  ELSE IF op = "joint" THEN Joint(D, Opd(m, j))
  ELSE IF op = "mix" THEN Mix(D, MixA(m, j), Opd(m, m.MX[j].o), MixB(m, j))
  ELSE IF op = "and" THEN AndD(D, Opd(m, j))
  ELSE IF op = "norm" THEN Normalize(D)
  ELSE IF op = "shift" THEN Softmax(m.init.ev, [i \in 1..Len(s) |-> s[i] + m.C[j]], m.init.ni)
  ELSE D                                                   \* expect: an observation
Obs(m, D, op, j) == IF op = "expect" THEN Expect(D, ArgG(m, D, j)) ELSE ZeroR
\* events of the result that may carry an untracked tiny weight (an over-approximation is sound: it only
\* makes more draws admissible; operands and kernels are never wide, only the initial softmax can be)
TinyAfter(m, D, tn, s, op, j, post) ==
  IF tn = {} /\ op # "shift" THEN {}
  ELSE IF op = "marg" THEN {ArgF(m, D, j)[i] : i \in {x \in 1..Len(D.ev) : D.ev[x] \in tn}}
  ELSE IF op = "chain" THEN UNION {Supp(ArgK(m, D, j)[i]) : i \in {x \in 1..Len(D.ev) : D.ev[x] \in tn}}
  ELSE IF op = "joint" THEN {<<a, b>> : a \in tn, b \in Supp(Opd(m, j))}
  ELSE IF op = "shift" THEN SoftmaxTiny(m.init.ev, [i \in 1..Len(s) |-> s[i] + m.C[j]], m.init.ni)
  ELSE tn \cap Supp(post)                                   \* cond, and, mix, norm, expect
CanSample(D, tn, e) == Has(D.ev, e) /\ (Len(D.ev) = 1 \/ RPos(PAt(D, e)) \/ e \in tn)

\* ------------------------------------------------------------------ machine
Inst(i) == IF Mode = "trace" THEN Batch[i].inst ELSE Batch[i]
M == Inst(iid)
Init ==
  /\ iid \in 1..Len(Batch)
  /\ n = 0 /\ l = 1 /\ hist = <<>>
  /\ phase = (IF Mode = "trace" THEN "replay" ELSE "run")
  /\ cur = DistOf(Inst(iid).init)
  /\ sc = Inst(iid).init.k
  /\ tiny = (IF Inst(iid).init.kind = "softmax"
             THEN SoftmaxTiny(Inst(iid).init.ev, Inst(iid).init.k, Inst(iid).init.ni) ELSE {})

Step(op, j) ==
  /\ Enabled(M, cur, sc, n, op, j)
  /\ cur' = Apply(M, cur, sc, op, j)
  /\ sc' = IF op = "shift" THEN [i \in 1..Len(sc) |-> sc[i] + M.C[j]] ELSE sc
  /\ tiny' = TinyAfter(M, cur, tiny, sc, op, j, cur')
  /\ hist' = Append(hist, [op |-> op, j |-> j, post |-> cur', obs |-> Obs(M, cur, op, j), tiny |-> tiny'])
  /\ n' = n + 1

\* pipeline A / MC: every chain of DEPTH operations
Op ==
  /\ Mode = "mc" /\ phase = "run" /\ n < M.DEPTH
  /\ \E op \in {o \in Ops : o \in Range(M.OPS)} : \E j \in Menu(M, cur, op) : Step(op, j)   \* OPS: operations of the family
  /\ UNCHANGED <<iid, l, phase>>
\* MC only: a draw of sample() as an action of the model (bounded: one draw ends the behaviour)
Sample ==
  /\ Mode = "mc" /\ phase = "run" /\ n = M.DEPTH
  /\ \E i \in 1..Len(cur.ev) : CanSample(cur, tiny, cur.ev[i]) /\ phase' = "sampled" /\ l' = i
  /\ UNCHANGED <<iid, n, cur, sc, tiny, hist>>

\* pipeline B: the recorded trace names its chain; replay it with the same operators ...
T == Batch[iid]
TraceOp ==
  /\ Mode = "trace" /\ phase = "replay" /\ n < Len(T.ops)
  /\ IF Enabled(M, cur, sc, n, T.ops[n + 1].op, T.ops[n + 1].j)
     THEN Step(T.ops[n + 1].op, T.ops[n + 1].j) /\ UNCHANGED <<iid, l, phase>>
     ELSE phase' = "badchain" /\ UNCHANGED <<iid, n, cur, sc, tiny, hist, l>>
TraceStart ==
  /\ Mode = "trace" /\ phase = "replay" /\ n = Len(T.ops)
  /\ phase' = "draws" /\ UNCHANGED <<iid, n, cur, sc, tiny, hist, l>>
\* ... then every recorded draw must be an enabled Sample, and the two equally seeded runs must agree
TraceSample ==
  /\ Mode = "trace" /\ phase = "draws" /\ l <= Len(T.s1)
  /\ IF ~CanSample(cur, tiny, T.s1[l]) THEN phase' = "rejected-event" /\ l' = l
     ELSE IF l > Len(T.s2) \/ T.s2[l] # T.s1[l] THEN phase' = "rejected-seed" /\ l' = l
     ELSE phase' = phase /\ l' = l + 1
  /\ UNCHANGED <<iid, n, cur, sc, tiny, hist>>
TraceEnd ==
  /\ Mode = "trace" /\ phase = "draws" /\ l = Len(T.s1) + 1
  /\ phase' = (IF Len(T.s2) = Len(T.s1) THEN "accepted" ELSE "rejected-seed")
  /\ UNCHANGED <<iid, n, cur, sc, tiny, hist, l>>

Next == Op \/ Sample \/ TraceOp \/ TraceStart \/ TraceSample \/ TraceEnd
Spec == Init /\ [][Next]_vars

\* ------------------------------------------------------------------ emission
Emit ==
  IF Mode = "mc" THEN
    (phase = "run" /\ n = M.DEPTH) =>
       PrintT(ToJson([iid |-> iid, init |-> DistOf(M.init), hist |-> hist,
                      tiny0 |-> IF M.init.kind = "softmax" THEN SoftmaxTiny(M.init.ev, M.init.k, M.init.ni) ELSE {}]))
  ELSE
    (phase \notin {"replay", "draws"}) =>
       PrintT(ToJson([tid |-> iid, tag |-> T.tag, verdict |-> phase, at |-> l,
                      event |-> IF phase = "rejected-event" THEN T.s1[l] ELSE <<>>,
                      dist |-> cur]))

\* ------------------------------------------------------------------ (P) the clauses, on the last step
Pre == IF n = 1 THEN DistOf(M.init) ELSE hist[n - 1].post
Last == hist[n]
Is(op) == n > 0 /\ Last.op = op
AllEv(D, E) == Supp(D) \cup Supp(E)

\* marginalising preserves total mass and sums the probabilities of merged events
LawMarg ==
  Is("marg") =>
    LET f == ArgF(M, Pre, Last.j) IN
    /\ Total(cur) = Total(Pre)
    /\ Supp(cur) = Range(f)
    /\ \A y \in Supp(cur) :
         PAt(cur, y) = RSumTo([i \in 1..Len(Pre.ev) |-> IF f[i] = y THEN Pre.p[i] ELSE ZeroR], Len(Pre.ev))
\* chaining is the law of total probability
LawChain ==
  Is("chain") =>
    LET ks == ArgK(M, Pre, Last.j) IN
    /\ \A y \in Supp(cur) \cup UNION {Supp(ks[i]) : i \in 1..Len(ks)} :
         PAt(cur, y) = RSumTo([i \in 1..Len(Pre.ev) |-> RMulC(Pre.p[i], PAt(ks[i], y))], Len(Pre.ev))
    /\ Total(cur) = RSumTo([i \in 1..Len(Pre.ev) |-> RMulC(Pre.p[i], Total(ks[i]))], Len(Pre.ev))
\* conditioning on a positive-mass event is Bayes' rule and is normalised
LawCond ==
  Is("cond") =>
    LET lk == ArgL(M, Pre, Last.j)
        ev == CondMass(Pre, lk) IN
    /\ Total(cur) = OneR
    /\ \A i \in 1..Len(Pre.ev) : RMulC(PAt(cur, Pre.ev[i]), ev) = RMulC(Pre.p[i], lk[i])
    /\ Supp(cur) \subseteq Supp(Pre)
    \* Bayes' rule does not depend on a common positive factor of the likelihood.  The instance field LS[j]
    \* names such a factor 2^-LS[j] (e.g. 2^-1027: the evidence is then a subnormal float, out of reach of
    \* 32-bit rationals) with which the harness scales the real-valued likelihood handed to the code; the
    \* posterior the model expects is the same.  Checked here with the factor 1/2.
    /\ Cond(Pre, [i \in 1..Len(lk) |-> RMulC(lk[i], <<1, 2>>)]) = cur
\* joint is the product measure
LawJoint ==
  Is("joint") =>
    LET E == Opd(M, Last.j) IN
    /\ \A a \in Supp(Pre) : \A b \in Supp(E) : PAt(cur, <<a, b>>) = RMulC(PAt(Pre, a), PAt(E, b))
    /\ Len(cur.ev) = Len(Pre.ev) * Len(E.ev)
    /\ Total(cur) = RMulC(Total(Pre), Total(E))
    \* its marginals give the factors back (scaled by the other total)
    /\ Marg(cur, [t \in 1..Len(cur.ev) |-> cur.ev[t][1]]) = Scale(Pre, Total(E))
\* scaled mixtures add pointwise
LawMix ==
  Is("mix") =>
    LET E == Opd(M, M.MX[Last.j].o) a == MixA(M, Last.j) b == MixB(M, Last.j) IN
    /\ Supp(cur) = AllEv(Pre, E)
    /\ \A e \in Supp(cur) : PAt(cur, e) = RAdd(RMulC(a, PAt(Pre, e)), RMulC(b, PAt(E, e)))
    /\ Total(cur) = RAdd(RMulC(a, Total(Pre)), RMulC(b, Total(E)))
\* conjunction is the renormalised pointwise product on the common support
LawAnd ==
  Is("and") =>
    LET E == Opd(M, Last.j) z == AndMass(Pre, E) IN
    /\ Supp(cur) = Supp(Pre) \cap Supp(E)
    /\ Total(cur) = OneR
    /\ \A e \in Supp(cur) : RMulC(PAt(cur, e), z) = RMulC(PAt(Pre, e), PAt(E, e))
\* normalise divides by the total
LawNorm ==
  Is("norm") =>
    /\ Total(cur) = OneR
    /\ cur.ev = Pre.ev
    /\ \A i \in 1..Len(Pre.ev) : RMulC(cur.p[i], Total(Pre)) = Pre.p[i]
\* expectation is the probability-weighted sum (checked through linearity and the constant function)
LawExpect ==
  Is("expect") =>
    LET g == ArgG(M, Pre, Last.j) IN
    /\ cur = Pre
    /\ Expect(Pre, [i \in 1..Len(g) |-> 3 * g[i] + 2]) = RAdd(RMulC(<<3, 1>>, Last.obs), RMulC(<<2, 1>>, Total(Pre)))
    /\ (\A i \in 1..Len(g) : g[i] = g[1]) => Last.obs = RMulC(<<g[1], 1>>, Total(Pre))
    /\ \A i \in 1..Len(g) : (\A k \in 1..Len(g) : k # i => Pre.p[k] = ZeroR) => Last.obs = RMulC(<<g[i], 1>>, Pre.p[i])
\* softmax is normalised and shift-invariant; ratios are 2^delta among the tracked (non-tiny, finite) events;
\* a -infinity score is probability exactly 0 (and not tiny); a tiny event carries 0 in the abstract measure
PreTiny == IF n = 1 THEN SoftmaxTiny(M.init.ev, M.init.k, M.init.ni) ELSE hist[n - 1].tiny
LawSoftmax ==
  /\ (M.init.kind = "softmax") => SoftmaxOK(M.init)
  /\ (n = 0 /\ M.init.kind = "softmax") => Total(cur) = OneR
  /\ Is("shift") => cur = Pre /\ Total(cur) = OneR /\ tiny = PreTiny
  /\ ((n = 0 \/ Is("shift")) /\ M.init.kind = "softmax") =>
        /\ \A a \in 1..Len(cur.ev) : \A b \in 1..Len(cur.ev) :
             (M.init.ni[a] = 0 /\ M.init.ni[b] = 0 /\ cur.ev[a] \notin tiny /\ cur.ev[b] \notin tiny /\ sc[a] >= sc[b])
                => cur.p[a] = RMulC(<<Pow2(sc[a] - sc[b]), 1>>, cur.p[b])
        /\ \A a \in 1..Len(cur.ev) : M.init.ni[a] = 1 => (cur.p[a] = ZeroR /\ cur.ev[a] \notin tiny)
        /\ \A a \in 1..Len(cur.ev) : cur.ev[a] \in tiny => (cur.p[a] = ZeroR /\ M.init.ni[a] = 0)
        /\ \E a \in 1..Len(cur.ev) : RPos(cur.p[a])
\* sampling only returns events of positive probability / the sole event of a one-point distribution
LawSample ==
  phase = "sampled" => (Len(cur.ev) = 1 \/ RPos(cur.p[l]) \/ cur.ev[l] \in tiny)
\* probabilities stay non-negative, supports duplicate free
WellFormed ==
  /\ \A i \in 1..Len(cur.ev) : ~RLess(cur.p[i], ZeroR)
  /\ Cardinality(Supp(cur)) = Len(cur.ev)
  /\ Len(cur.p) = Len(cur.ev)
  /\ tiny \subseteq Supp(cur)
=============================================================================
