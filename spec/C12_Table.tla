----------------------------- MODULE C12_Table -----------------------------
(* Property C12: tables index like nested dictionaries over their field domains.        *)
(*                                                                                      *)
(* (M) abstract problem.  A value is an atom or a tuple of atoms,                       *)
(*        [t |-> 0, e |-> <<i>>]   atom i          [t |-> 1, e |-> <<i1,..,in>>]  tuple *)
(*     (and [t |-> 2, e |-> members] a frozenset of atoms, used as a foreign key only)  *)
(*     so that a tuple can be BOTH an element of a domain and a field-wise key.  A      *)
(*     table T = [doms |-> sequence of duplicate-free sequences of values, L, W]; its   *)
(*     cell at positions p is the mixed-radix code of p (injective, = numpy C order).   *)
(*     A selector is what is written between the brackets of t[...]:                    *)
(*        key (an atom), list of values, full slice, ellipsis, partial slice, or a      *)
(*        python tuple "tup" of components (key / list / slice / ellipsis / pslice).    *)
(*     A python tuple of atoms is simultaneously the value Tup(atoms): AsVal.           *)
(* (O) oracle: the nested-dictionary meaning, written relationally on DENOTATIONS       *)
(*     D = [doms |-> value sequences of the open fields, cells |-> {<<keytuple, cell>>}]*)
(*     (select the matching key tuples, project away the fixed fields) - OSel.          *)
(* (R) implementation-shaped reference machine.  State = a VIEW of the table: per field *)
(*     Fixed(position) or Open(list of positions).  One action GetItem(sel) per         *)
(*     __getitem__ call, computed the way the code does it: RArrayIndex (outermost      *)
(*     domain first, then slice / ellipsis / list / field-wise tuple with ellipsis      *)
(*     padding, a per-field integer / slice / integer-list) followed by RUpdate (fixed  *)
(*     fields dropped, listed fields restricted and re-ordered, orthogonal take).  R    *)
(*     also predicts the exception family the code raises, and the class the MDP tables  *)
(*     turn it into (WrapMDP).                                                          *)
(* (P) invariants at the bottom: R and O agree on every selector whose meaning the      *)
(*     statement fixes; full key = array cell; nested single-field indexing = the same  *)
(*     cell; an outer-domain element always wins; list selection restricts and orders;  *)
(*     foreign keys are errors; views always denote original cells.                     *)
(* TLC explores, for every table of the batch, all views reachable by selector chains   *)
(* of length <= T.L drawn from Menu (grammar of the statement, width T.W).  The         *)
(* invariant Judge evaluates O and R once per (view, selector), checks the four         *)
(* per-transition properties and emits the expected result of every outgoing transition *)
(* (pipeline A: one implementation test per transition of the state graph); the same    *)
(* properties are also stated one by one (RefinesOracle, OuterElementWins, ...).        *)
(* Shapes the statement does not fix (DriftShape) are emitted with R's prediction only. *)
(* The machine has no memory besides the view: the result of GetItem is a function of    *)
(* (view, selector CONTENT).  The driver therefore replays list selectors through one    *)
(* re-used python object that is edited in place between two lookups on the same table   *)
(* (call history + mutated input) and still expects exactly the emitted result.          *)
EXTENDS Integers, Sequences, FiniteSets, TLC, Json, IOUtils, SequencesExt

Batch == JsonDeserialize(IOEnv.BATCH_FILE)

VARIABLES tid, view, hist
vars == <<tid, view, hist>>
\* hist (the chain that led here) is history only; its length is the chain bound
StateView == <<tid, view, Len(hist)>>

\* ---------------------------------------------------------------- values
Atom(i) == [t |-> 0, e |-> <<i>>]
Tup(es) == [t |-> 1, e |-> es]
\* a frozenset of atoms (e = its members in increasing order): a hashable that is opaque to indexing, like an atom.
\* It only occurs as a FOREIGN key whose members are labels of the domain - it is never unpacked into a list of keys.
SetV(es) == [t |-> 2, e |-> es]
NoVal   == [t |-> 0, e |-> <<>>]
FA      == 99                       \* an atom that is in no domain
MAXD    == 4                        \* largest domain size
Rev(s)   == [i \in 1..Len(s) |-> s[Len(s) + 1 - i]]
IndexIn(dom, x) == IF \E i \in 1..Len(dom) : dom[i] = x THEN CHOOSE i \in 1..Len(dom) : dom[i] = x ELSE 0
NoDup(s) == \A i \in 1..Len(s) : \A j \in 1..Len(s) : s[i] = s[j] => i = j
AllAtoms(d) == \A i \in 1..Len(d) : d[i].t = 0
WholeTup(d) == Tup([i \in 1..Len(d) |-> d[i].e[1]])      \* the python tuple equal to an all-atom domain
AtomsOf(val) == IF val.t = 0 THEN {val} ELSE {Atom(val.e[i]) : i \in 1..Len(val.e)}

\* ---------------------------------------------------------------- selectors
KeyC(v)    == [k |-> "key",    v |-> v,     vs |-> <<>>]
ListC(vs)  == [k |-> "list",   v |-> NoVal, vs |-> vs]
SliceC     == [k |-> "slice",  v |-> NoVal, vs |-> <<>>]
EllC       == [k |-> "ell",    v |-> NoVal, vs |-> <<>>]
PSliceC    == [k |-> "pslice", v |-> NoVal, vs |-> <<>>]
KeyS(v)    == [k |-> "key",    v |-> v,     vs |-> <<>>, cs |-> <<>>]
ListS(vs)  == [k |-> "list",   v |-> NoVal, vs |-> vs,   cs |-> <<>>]
SliceS     == [k |-> "slice",  v |-> NoVal, vs |-> <<>>, cs |-> <<>>]
EllS       == [k |-> "ell",    v |-> NoVal, vs |-> <<>>, cs |-> <<>>]
PSliceS    == [k |-> "pslice", v |-> NoVal, vs |-> <<>>, cs |-> <<>>]
TupS(cs)   == [k |-> "tup",    v |-> NoVal, vs |-> <<>>, cs |-> cs]
\* the selector that python writes for a value: the atom itself, or the tuple of its atoms
SelOfVal(v) == IF v.t # 1 THEN KeyS(v) ELSE TupS([i \in 1..Len(v.e) |-> KeyC(Atom(v.e[i]))])
\* a selector that is also a value: an atom, or a python tuple all of whose components are atoms
HasVal(sel) == \/ sel.k = "key"
               \/ sel.k = "tup" /\ \A i \in 1..Len(sel.cs) : sel.cs[i].k = "key" /\ sel.cs[i].v.t = 0
AsVal(sel)  == IF sel.k = "key" THEN sel.v ELSE Tup([i \in 1..Len(sel.cs) |-> sel.cs[i].v.e[1]])
EllPos(cs)  == {i \in 1..Len(cs) : cs[i].k = "ell"}
NLists(cs)  == Cardinality({i \in 1..Len(cs) : cs[i].k = "list"})
\* replace the (single) ellipsis by as many full slices as there are fields left (none if negative)
Expand(cs, m) ==
  IF EllPos(cs) = {} THEN cs
  ELSE LET i == CHOOSE x \in EllPos(cs) : TRUE
           n == m - Len(cs) + 1
           fill == IF n > 0 THEN [x \in 1..n |-> SliceC] ELSE <<>>
       IN SubSeq(cs, 1, i - 1) \o fill \o SubSeq(cs, i + 1, Len(cs))
\* components of a selector seen as a field-wise key
CompsOf(sel) == CASE sel.k = "tup"  -> sel.cs
                  [] sel.k = "list" -> <<ListC(sel.vs)>>
                  [] sel.k = "key"  -> <<KeyC(sel.v)>>
                  [] sel.k = "slice" -> <<SliceC>>
                  [] sel.k = "ell" -> <<EllC>>
                  [] OTHER -> <<PSliceC>>

\* ---------------------------------------------------------------- tables and views
NF(T) == Len(T.doms)
RootView(T) == [f \in 1..NF(T) |-> [fx |-> FALSE, ps |-> [i \in 1..Len(T.doms[f]) |-> i]]]
OpenSeq(v) == SelectSeq([f \in 1..Len(v) |-> f], LAMBDA f : ~v[f].fx)
DomOf(T, v, f) == [i \in 1..Len(v[f].ps) |-> T.doms[f][v[f].ps[i]]]
RECURSIVE CodeTo(_, _, _)
CodeTo(T, pos, f) == IF f = 0 THEN 0 ELSE CodeTo(T, pos, f - 1) * Len(T.doms[f]) + (pos[f] - 1)
Code(T, pos) == CodeTo(T, pos, NF(T))
RECURSIVE PosTo(_, _)
PosTo(v, f) == IF f = 0 THEN {<<>>} ELSE {Append(p, x) : p \in PosTo(v, f - 1), x \in Range(v[f].ps)}
PosSet(v) == PosTo(v, Len(v))
\* what a view means: the open domains (as values, in order) and the cell under every key tuple
Denote(T, v) ==
  LET of == OpenSeq(v)
      m  == Len(of)
  IN [doms  |-> [j \in 1..m |-> DomOf(T, v, of[j])],
      cells |-> {<<[j \in 1..m |-> T.doms[of[j]][p[of[j]]]], Code(T, p)>> : p \in PosSet(v)}]

\* ---------------------------------------------------------------- (O) nested-dictionary oracle
OErr  == [st |-> "err", d |-> [doms |-> <<>>, cells |-> {}]]
OOk(d) == [st |-> "ok", d |-> d]
IsOuterElem(D, sel) == Len(D.doms) > 0 /\ HasVal(sel) /\ AsVal(sel) \in Range(D.doms[1])
\* component-wise application from the outside in: select matching key tuples, project fixed fields away
OTup(D, cs0) ==
  LET m == Len(D.doms) IN
  IF Cardinality(EllPos(cs0)) > 1 THEN OErr
  ELSE LET cs1 == Expand(cs0, m) IN
    IF Len(cs1) > m THEN OErr
    ELSE LET cs == cs1 \o [x \in 1..(m - Len(cs1)) |-> SliceC]
             okc(j) == CASE cs[j].k = "key"   -> cs[j].v \in Range(D.doms[j])
                         [] cs[j].k = "list"  -> \A x \in Range(cs[j].vs) : x \in Range(D.doms[j])
                         [] cs[j].k = "slice" -> TRUE
                         [] OTHER -> FALSE
         IN IF \E j \in 1..m : ~okc(j) THEN OErr
            ELSE LET keep == SelectSeq([j \in 1..m |-> j], LAMBDA j : cs[j].k # "key")
                     match(kt) == \A j \in 1..m : CASE cs[j].k = "key"  -> kt[j] = cs[j].v
                                                    [] cs[j].k = "list" -> kt[j] \in Range(cs[j].vs)
                                                    [] OTHER -> TRUE
                 IN OOk([doms  |-> [i \in 1..Len(keep) |-> IF cs[keep[i]].k = "list" THEN cs[keep[i]].vs
                                                           ELSE D.doms[keep[i]]],
                         cells |-> {<<[i \in 1..Len(keep) |-> c[1][keep[i]]], c[2]>> :
                                      c \in {x \in D.cells : match(x[1])}}])
OSel(D, sel) ==
  IF IsOuterElem(D, sel) THEN OTup(D, <<KeyC(AsVal(sel))>>)       \* (1) an outer element always wins
  ELSE CASE sel.k = "key"    -> OErr                              \* (5) foreign
         [] sel.k = "slice"  -> OOk(D)                            \* (2) identity
         [] sel.k = "ell"    -> OOk(D)
         [] sel.k = "pslice" -> OErr
         [] sel.k = "list"   -> OTup(D, <<ListC(sel.vs)>>)        \* (3) restrict + re-order the outer field
         [] OTHER            -> OTup(D, sel.cs)                   \* (4) field-wise
\* fixing the outer field to one of its values (used to flatten a denotation and in the properties)
FixVal(D, x) == [doms |-> Tail(D.doms), cells |-> {<<Tail(c[1]), c[2]>> : c \in {y \in D.cells : y[1][1] = x}}]
RECURSIVE CatTo(_, _)
CatTo(f, n) == IF n = 0 THEN <<>> ELSE CatTo(f, n - 1) \o f[n]
RECURSIVE CellSeq(_)
\* the cells in the (C) order of the domains
CellSeq(D) == IF Len(D.doms) = 0 THEN <<(CHOOSE c \in D.cells : TRUE)[2]>>
              ELSE CatTo([i \in 1..Len(D.doms[1]) |-> CellSeq(FixVal(D, D.doms[1][i]))], Len(D.doms[1]))

\* ---------------------------------------------------------------- shape classification
\* canonical components (ellipsis expanded) when that is possible
Canon(D, sel) == LET cs == CompsOf(sel) IN IF Cardinality(EllPos(cs)) > 1 THEN cs ELSE Expand(cs, Len(D.doms))
\* a key and a list component (or two lists) with a slice between them: the statement says nothing about lists on
\* inner fields combined with slices; numpy moves the indexed axes to the front for this shape and the code
\* inherits that (a 2x2x2 table comes back transposed, other shapes raise) - modelled in R, judged at DRIFT level
Separated(cn) ==
  \E a \in 1..Len(cn) : \E b \in 1..Len(cn) : \E c \in 1..Len(cn) :
     /\ a < b /\ b < c /\ cn[a].k \in {"key", "list"} /\ cn[b].k = "slice" /\ cn[c].k \in {"key", "list"}
     /\ (cn[a].k = "list" \/ cn[c].k = "list")
\* shapes whose meaning the statement does not fix: partial slices, two ellipses, two list components,
\* repeated keys in a list, a component equal to a whole domain, the empty tuple
DriftShape(D, sel) ==
  /\ ~IsOuterElem(D, sel)
  /\ LET cs == CompsOf(sel) cn == Canon(D, sel) m == Len(D.doms) IN
     \/ \E i \in 1..Len(cs) : cs[i].k = "pslice"
     \/ Cardinality(EllPos(cs)) > 1
     \/ NLists(cs) > 1
     \/ \E i \in 1..Len(cs) : cs[i].k = "list" /\ ~NoDup(cs[i].vs)
     \/ sel.k = "tup" /\ Len(sel.cs) = 0
     \/ Separated(cn)
     \/ sel.k = "tup" /\ \E j \in 1..Len(cn) : j <= m /\ cn[j].k = "key" /\ cn[j].v.t = 1
                           /\ cn[j].v \notin Range(D.doms[j]) /\ AllAtoms(D.doms[j]) /\ cn[j].v = WholeTup(D.doms[j])
Strict(D, sel) == ~DriftShape(D, sel)
\* a key outside the domain (the clause "raises an error instead of returning a value")
Foreign(D, sel) ==
  /\ Strict(D, sel) /\ ~IsOuterElem(D, sel)
  /\ LET cn == Canon(D, sel) m == Len(D.doms) IN
     /\ sel.k \in {"key", "list", "tup"}
     /\ \/ Len(cn) > m
        \/ \E j \in 1..Len(cn) : j <= m /\
              \/ cn[j].k = "key" /\ cn[j].v \notin Range(D.doms[j])
              \/ cn[j].k = "list" /\ \E x \in Range(cn[j].vs) : x \notin Range(D.doms[j])
\* per-component class, for signatures: K key in domain, F foreign atom, S foreign frozenset of domain atoms,
\* T foreign tuple, W whole domain,
\* ":" slice, "..." ellipsis, P partial slice, L list, Lf list with a foreign key, L0 empty list, Ld repeated key
CompClass(D, cs, i) ==
  LET m == Len(D.doms)
      e == IF EllPos(cs) = {} THEN 0 ELSE CHOOSE x \in EllPos(cs) : TRUE
      j == IF e = 0 \/ i < e THEN i ELSE m - (Len(cs) - i)         \* the field the component lands on
      c == cs[i]
  IN CASE c.k = "slice" -> ":"
       [] c.k = "ell" -> "..."
       [] c.k = "pslice" -> "P"
       [] c.k = "list" -> IF Len(c.vs) = 0 THEN "L0"
                          ELSE IF ~NoDup(c.vs) THEN "Ld"
                          ELSE IF j >= 1 /\ j <= m /\ \A x \in Range(c.vs) : x \in Range(D.doms[j]) THEN "L" ELSE "Lf"
       [] OTHER -> IF j >= 1 /\ j <= m /\ c.v \in Range(D.doms[j]) THEN "K"
                   ELSE IF c.v.t = 0 THEN "F"
                   ELSE IF c.v.t = 2 THEN "S"
                   ELSE IF j >= 1 /\ j <= m /\ AllAtoms(D.doms[j]) /\ c.v = WholeTup(D.doms[j]) THEN "W" ELSE "T"
Classes(D, sel) == LET cs == CompsOf(sel) IN [i \in 1..Len(cs) |-> CompClass(D, cs, i)]

\* ---------------------------------------------------------------- (R) the implementation-shaped machine
IntI(i)   == [k |-> "int",   i |-> i, is |-> <<>>]
SliceI    == [k |-> "slice", i |-> 0, is |-> <<>>]
ListI(is) == [k |-> "list",  i |-> 0, is |-> is]
TSubI     == [k |-> "tsub",  i |-> 0, is |-> <<>>]     \* a tuple of domain elements used as a subset (broken in the code)
RErr(fam) == [st |-> "err", fam |-> fam, ix |-> <<>>]
ROk(ix)   == [st |-> "ok",  fam |-> "",  ix |-> ix]
\* _index_into_fields: left to right, first failing component decides the exception
RECURSIVE RScan(_, _, _, _, _, _)
RScan(T, v, cs, j, seq, acc) ==
  IF j > Len(cs) THEN (IF \E i \in 1..Len(acc) : acc[i].k = "tsub" THEN RErr("Value") ELSE ROk(acc))
  ELSE LET dom == DomOf(T, v, OpenSeq(v)[j])
           c   == cs[j]
       IN CASE c.k = "slice"  -> RScan(T, v, cs, j + 1, seq, Append(acc, SliceI))
            [] c.k = "pslice" -> RErr("Slice")
            [] c.k = "list"   ->
                 IF seq THEN RErr("Index")
                 ELSE LET is == [i \in 1..Len(c.vs) |-> IndexIn(dom, c.vs[i])] IN
                      IF 0 \in Range(is) THEN RErr("Domain") ELSE RScan(T, v, cs, j + 1, TRUE, Append(acc, ListI(is)))
            [] OTHER ->       \* key component
                 IF IndexIn(dom, c.v) > 0 THEN RScan(T, v, cs, j + 1, seq, Append(acc, IntI(IndexIn(dom, c.v))))
                 ELSE IF c.v.t = 1 /\ AllAtoms(dom) /\ c.v = WholeTup(dom)
                      THEN (IF seq THEN RErr("Index") ELSE RScan(T, v, cs, j + 1, TRUE, Append(acc, SliceI)))
                 ELSE IF c.v.t = 1
                      THEN (IF seq THEN RErr("Index")
                            ELSE IF \E a \in AtomsOf(c.v) : a \notin Range(dom) THEN RErr("Domain")
                            ELSE RScan(T, v, cs, j + 1, TRUE, Append(acc, TSubI)))
                 ELSE RErr("Index")
RFields(T, v, cs0) ==
  LET m == Len(OpenSeq(v)) IN
  IF Cardinality(EllPos(cs0)) > 1 THEN RErr("Assert")
  ELSE LET cs == Expand(cs0, m) IN
       IF Len(cs) > m THEN RErr("Index") ELSE RScan(T, v, cs, 1, FALSE, <<>>)
\* _array_index
RArrayIndex(T, v, sel) ==
  LET d1 == DomOf(T, v, OpenSeq(v)[1]) IN
  IF HasVal(sel) /\ IndexIn(d1, AsVal(sel)) > 0 THEN ROk(<<IntI(IndexIn(d1, AsVal(sel)))>>)
  ELSE CASE sel.k = "slice"  -> ROk(<<>>)
         [] sel.k = "ell"    -> ROk(<<>>)
         [] sel.k = "pslice" -> RErr("Slice")
         [] sel.k = "key"    -> RErr("Key")
         [] sel.k = "list"   -> LET is == [i \in 1..Len(sel.vs) |-> IndexIn(d1, sel.vs[i])] IN
                                IF 0 \in Range(is) THEN RErr("Domain")
                                ELSE IF ~NoDup(sel.vs) THEN RErr("Value")
                                ELSE ROk(<<ListI(is)>>)
         [] OTHER -> IF Len(sel.cs) = 1 /\ sel.cs[1].k \in {"slice", "ell"} THEN ROk(<<>>)
                     ELSE IF Len(sel.cs) = 1 /\ sel.cs[1].k = "pslice" THEN RErr("Slice")
                     ELSE LET r == RFields(T, v, sel.cs) IN
                          IF r.st = "ok" /\ \E i \in 1..Len(sel.cs) : sel.cs[i].k = "list" /\ ~NoDup(sel.cs[i].vs)
                          THEN RErr("Value") ELSE r
\* _updated_index + data take: integer -> field fixed (dropped from the index), slice -> unchanged,
\* list -> restricted and re-ordered; fields beyond the index are unchanged
RUpdate(v, ix) ==
  LET of == OpenSeq(v)
      upd(f) == IF \E j \in 1..Len(ix) : of[j] = f
                THEN LET j == CHOOSE x \in 1..Len(ix) : of[x] = f IN
                     CASE ix[j].k = "int"  -> [fx |-> TRUE,  ps |-> <<v[f].ps[ix[j].i]>>]
                       [] ix[j].k = "list" -> [fx |-> FALSE, ps |-> [x \in 1..Len(ix[j].is) |-> v[f].ps[ix[j].is[x]]]]
                       [] OTHER -> v[f]
                ELSE v[f]
  IN [f \in 1..Len(v) |-> upd(f)]
\* StateTable.__getitem__ (all MDP tables, TabularPolicy included) turns KeyError, IndexError, DomainError and
\* ValueError (SliceError and the shape check of a new table are ValueErrors) into StateActionIndexError;
\* an AssertionError (two ellipses) passes through
WrapMDP(fam) == IF fam \in {"Key", "Index", "Domain", "Value", "Slice"} THEN "SAIE" ELSE fam
\* AbstractTable.get(key, default): [] with KeyError (only) turned into the default. The MDP tables raise
\* StateActionIndexError (an IndexError, not a KeyError), so their get never answers with the default.
GetOutcome(st, fam) == IF st = "ok" THEN "value" ELSE IF fam = "Key" THEN "default" ELSE "raise"
\* numpy: integer, slice, integer-list -> the indexed axis comes first; the code keeps the index in field order
QuirkIx(ix) == Len(ix) = 3 /\ ix[1].k = "int" /\ ix[2].k = "slice" /\ ix[3].k = "list"
RSel(T, v, sel) ==
  LET a == RArrayIndex(T, v, sel) IN
  IF a.st = "err" THEN [st |-> "err", fam |-> a.fam, view |-> v, garbled |-> FALSE]
  ELSE IF QuirkIx(a.ix) /\ Len(v[OpenSeq(v)[2]].ps) # Len(a.ix[3].is)
       THEN [st |-> "err", fam |-> "Value", view |-> v, garbled |-> FALSE]      \* shape check of the new table fails
  ELSE [st |-> "ok", fam |-> "", view |-> RUpdate(v, a.ix), garbled |-> QuirkIx(a.ix)]

\* ---------------------------------------------------------------- selector menu (grammar of the statement)
RECURSIVE Prod(_, _, _)
\* all component sequences for open fields lo..hi, S[j] = components offered for field j
Prod(S, lo, hi) == IF hi < lo THEN {<<>>} ELSE {Append(p, c) : p \in Prod(S, lo, hi - 1), c \in S[hi]}
GoodLists(d, W) ==
  (IF Len(d) >= 2 THEN {ListC(Rev(d))} ELSE {}) \cup (IF Len(d) >= 1 THEN {ListC(<<d[1]>>)} ELSE {})
  \cup (IF W >= 2 THEN {ListC(<<d[p[1]], d[p[2]]>>) : p \in {q \in (1..Len(d)) \X (1..Len(d)) : q[1] # q[2]}} \cup {ListC(d)}
        ELSE {})
  \cup (IF W >= 3 THEN {ListC(<<d[p[1]], d[p[2]], d[p[3]]>>) :
                         p \in {q \in (1..Len(d)) \X (1..Len(d)) \X (1..Len(d)) : q[1] # q[2] /\ q[1] # q[3] /\ q[2] # q[3]}}
        ELSE {})
Good(d, W) == {KeyC(d[i]) : i \in 1..Len(d)} \cup {SliceC} \cup GoodLists(d, W)
\* frozensets of atoms of the domain (none of them is a domain element: domains hold atoms and tuples only)
SetsOf(d, W) ==
  LET da == {d[i].e[1] : i \in {x \in 1..Len(d) : d[x].t = 0}} IN
  IF da = {} THEN {}
  ELSE LET lo == CHOOSE a \in da : \A b \in da : a <= b IN
       IF W <= 1 THEN {SetV(<<lo>>)} \cup {SetV(<<lo, b>>) : b \in {x \in da : x > lo /\ \A y \in da : y > lo => x <= y}}
       ELSE {SetV(<<a>>) : a \in da} \cup {SetV(<<p[1], p[2]>>) : p \in {q \in da \X da : q[1] < q[2]}}
Odd(d, W, oa) ==
  {KeyC(Atom(FA)), ListC(<<>>)} \cup {KeyC(x) : x \in SetsOf(d, 1)} \cup (IF Len(d) >= 1 THEN {ListC(<<d[1], Atom(FA)>>)} ELSE {ListC(<<Atom(FA)>>)})
  \cup (IF AllAtoms(d) /\ WholeTup(d) \notin Range(d) THEN {KeyC(WholeTup(d))} ELSE {})
  \cup (IF AllAtoms(d) /\ Len(d) >= 2 /\ Tup(<<d[2].e[1], d[1].e[1]>>) \notin Range(d)
        THEN {KeyC(Tup(<<d[2].e[1], d[1].e[1]>>))} ELSE {})
  \cup (IF W >= 2 THEN {KeyC(a) : a \in oa \ Range(d)} \cup {PSliceC, KeyC(Tup(<<FA>>))}
                          \cup (IF Len(d) >= 1 THEN {ListC(<<d[1], d[1]>>)} ELSE {}) ELSE {})
Menu(T, v) ==
  LET of == OpenSeq(v)
      m  == Len(of)
      W  == T.W
      ds == [j \in 1..m |-> DomOf(T, v, of[j])]
      oa == UNION {UNION {AtomsOf(T.doms[f][i]) : i \in 1..Len(T.doms[f])} : f \in 1..NF(T)}
      tv == UNION {{T.doms[f][i] : i \in {x \in 1..Len(T.doms[f]) : T.doms[f][x].t = 1}} : f \in 1..NF(T)}
      G  == [j \in 1..m |-> Good(ds[j], W)]
      O  == [j \in 1..m |-> Odd(ds[j], W, oa)]
      K  == [j \in 1..m |-> {KeyC(ds[j][i]) : i \in 1..Len(ds[j])}]
      goodT == UNION {{cs \in Prod(G, 1, n) : NLists(cs) <= 1} : n \in 1..m}
      \* exactly one odd component, the rest good
      oddT  == UNION {UNION {{cs \in Prod([j \in 1..m |-> IF j = p THEN O[j] ELSE G[j]], 1, n) : NLists(cs) <= 1} :
                              p \in 1..n} : n \in 1..m}
      \* prefix, ellipsis, suffix
      ellT  == UNION {UNION {{pre \o <<EllC>> \o suf : pre \in {x \in Prod(G, 1, a) : NLists(x) = 0},
                                                       suf \in {x \in Prod(G, m - b + 1, m) : NLists(x) <= 1}} :
                              b \in 0..(m - a)} : a \in 0..m}
      fullK == Prod(K, 1, m)
      longT == {Append(cs, cs[m]) : cs \in fullK} \cup {[x \in 1..(m + 1) |-> SliceC]}
               \cup {Append(cs, EllC) \o <<cs[m]>> : cs \in fullK} \cup {<<EllC, EllC>>, <<EllC, KeyC(Atom(FA))>>}
      twoL  == IF m >= 2 /\ Len(ds[2]) >= 1 THEN {<<ListC(Rev(ds[1])), ListC(<<ds[2][1]>>)>>} ELSE {}
  IN IF m = 0 THEN {}
     ELSE {KeyS(a) : a \in oa \cup {Atom(FA)} \cup SetsOf(ds[1], W)}
          \cup {SliceS, EllS, PSliceS, TupS(<<>>)}
          \cup {ListS(c.vs) : c \in {x \in G[1] \cup O[1] : x.k = "list"}}
          \cup {SelOfVal(x) : x \in tv}
          \cup {TupS(cs) : cs \in goodT \cup oddT \cup ellT \cup longT \cup twoL}

\* ---------------------------------------------------------------- per-selector evaluation (shared)
NoD == [doms |-> <<>>, cells |-> {}]
\* everything that is known about one transition: oracle result, machine result, denotation of the machine's view
Eval(T, v, D, sel) ==
  LET r == RSel(T, v, sel) IN
  [sel |-> sel, o |-> OSel(D, sel), r |-> r, rd |-> IF r.st = "ok" THEN Denote(T, r.view) ELSE NoD]
\* (P) per transition ---------------------------------------------------------------------------
\* R and O agree wherever the statement fixes the meaning
RefinesAt(D, e) == Strict(D, e.sel) => (e.o.st = e.r.st /\ (e.o.st = "ok" => e.rd = e.o.d))
\* a key that is an element of the outermost domain selects that element, whatever else it could mean
OuterWinsAt(D, e) == IsOuterElem(D, e.sel) =>
   (e.o.st = "ok" /\ e.o.d = FixVal(D, AsVal(e.sel)) /\ e.r.st = "ok" /\ e.rd = e.o.d)
\* a list of outer keys gives the sub-table restricted to those keys in the given order
ListAt(D, e) ==
  (e.sel.k = "list" /\ NoDup(e.sel.vs) /\ ~IsOuterElem(D, e.sel) /\ \A x \in Range(e.sel.vs) : x \in Range(D.doms[1])) =>
     /\ e.r.st = "ok"
     /\ e.rd.doms = <<e.sel.vs>> \o Tail(D.doms)
     /\ \A x \in Range(e.sel.vs) : FixVal(e.rd, x) = FixVal(D, x)
\* a key outside the domain is an error, never a value
ForeignAt(D, e) == Foreign(D, e.sel) => (e.o.st = "err" /\ e.r.st = "err")
Props(D, e) == [refines |-> RefinesAt(D, e), outer |-> OuterWinsAt(D, e), list |-> ListAt(D, e), foreign |-> ForeignAt(D, e)]

\* ---------------------------------------------------------------- machine
T0 == Batch[tid]
Init == /\ tid \in 1..Len(Batch)
        /\ view = RootView(Batch[tid])
        /\ hist = <<>>
\* one __getitem__ call that returns a new table (or a cell); identities and errors leave the object as it is
GetItem(sel) ==
  /\ Len(hist) < T0.L
  /\ LET r == RSel(T0, view, sel) IN
     /\ r.st = "ok" /\ r.view # view /\ ~r.garbled
     /\ view' = r.view
  /\ hist' = Append(hist, sel)
  /\ tid' = tid
Next == \E sel \in Menu(T0, view) : GetItem(sel)
Spec == Init /\ [][Next]_vars

\* ---------------------------------------------------------------- emission (pipeline A)
TransRec(T, D, e) ==
  LET same == (e.o.st = e.r.st) /\ (e.o.st = "ok" => e.rd = e.o.d) IN
  [sel |-> e.sel, strict |-> Strict(D, e.sel), foreign |-> Foreign(D, e.sel), outer |-> IsOuterElem(D, e.sel),
   cls |-> Classes(D, e.sel),
   ost |-> e.o.st, odoms |-> e.o.d.doms, ocells |-> IF e.o.st = "ok" THEN CellSeq(e.o.d) ELSE <<>>,
   rst |-> e.r.st, rfam |-> e.r.fam, rfamMdp |-> WrapMDP(e.r.fam),
   rget |-> GetOutcome(e.r.st, e.r.fam), rgetMdp |-> GetOutcome(e.r.st, WrapMDP(e.r.fam)), same |-> same, garbled |-> e.r.garbled,
   \* surviving (open) fields of the result; is it a row: every field but the last one fixed
   names |-> IF e.r.st = "ok" THEN OpenSeq(e.r.view) ELSE <<>>,
   row |-> e.r.st = "ok" /\ OpenSeq(e.r.view) = <<NF(T)>> /\ NF(T) >= 2,
   rdoms |-> IF same \/ e.r.st = "err" THEN <<>> ELSE e.rd.doms,
   rcells |-> IF same \/ e.r.st = "err" THEN <<>> ELSE CellSeq(e.rd),
   props |-> Props(D, e)]
\* one record per reachable view: its denotation and every outgoing transition; TRUE iff the per-transition
\* properties hold for all of them (their values are in the record, so a failure names the property)
Judge ==
  LET D  == Denote(T0, view)
      sq == SetToSeq(Menu(T0, view))
      tr == [i \in 1..Len(sq) |-> TransRec(T0, D, Eval(T0, view, D, sq[i]))]
  IN /\ PrintT(ToJson([tid |-> tid, hist |-> hist, doms |-> D.doms, cells |-> CellSeq(D), trans |-> tr]))
     /\ \A i \in 1..Len(tr) : tr[i].props.refines /\ tr[i].props.outer /\ tr[i].props.list /\ tr[i].props.foreign

\* ---------------------------------------------------------------- (P) properties, one by one
D0 == Denote(T0, view)
RefinesOracle    == \A sel \in Menu(T0, view) : RefinesAt(D0, Eval(T0, view, D0, sel))
OuterElementWins == \A sel \in Menu(T0, view) : OuterWinsAt(D0, Eval(T0, view, D0, sel))
ListRestricts    == \A sel \in Menu(T0, view) : ListAt(D0, Eval(T0, view, D0, sel))
ForeignIsError   == \A sel \in Menu(T0, view) : ForeignAt(D0, Eval(T0, view, D0, sel))
\* the batch is well formed: 1-3 fields, duplicate-free non-empty domains
TypeOK ==
  /\ NF(T0) \in 1..3
  /\ \A f \in 1..NF(T0) : Len(T0.doms[f]) \in 1..MAXD /\ NoDup(T0.doms[f])
  /\ \A f \in 1..Len(view) : Range(view[f].ps) \subseteq 1..Len(T0.doms[f]) /\ (view[f].fx => Len(view[f].ps) = 1)
\* a view always denotes original cells: the cell under a key tuple is the array cell at the positions of the keys
ViewDenotesCells ==
  \A c \in D0.cells :
     LET of == OpenSeq(view)
         p  == [f \in 1..Len(view) |-> IF view[f].fx THEN view[f].ps[1]
                                       ELSE IndexIn(T0.doms[f], c[1][CHOOSE j \in 1..Len(of) : of[j] = f])]
     IN c[2] = Code(T0, p)
FullSel(kt) == IF Len(kt) = 1 THEN SelOfVal(kt[1]) ELSE TupS([j \in 1..Len(kt) |-> KeyC(kt[j])])
RECURSIVE Chain(_, _, _)
\* nested single-field indexing t[k1][k2]...[kn]
Chain(T, v, kt) == IF Len(kt) = 0 THEN [st |-> "ok", view |-> v]
                   ELSE LET r == RSel(T, v, SelOfVal(Head(kt))) IN
                        IF r.st = "err" THEN [st |-> "err", view |-> v] ELSE Chain(T, r.view, Tail(kt))
\* one key per field returns exactly the cell, unless the whole key is itself an outer element
FullKeyIsCell ==
  \A c \in D0.cells : Len(c[1]) > 0 =>
     LET sel == FullSel(c[1]) IN
     (IsOuterElem(D0, sel) /\ Len(c[1]) > 1) \/
       (LET o == OSel(D0, sel) r == RSel(T0, view, sel) IN
        /\ o.st = "ok" /\ o.d = [doms |-> <<>>, cells |-> {<<<<>>, c[2]>>}]
        /\ r.st = "ok" /\ OpenSeq(r.view) = <<>> /\ Denote(T0, r.view) = o.d)
\* nested single-field indexing always gives that cell (every key is an element of the then-outermost domain)
NestedIsCell ==
  \A c \in D0.cells :
     LET r == Chain(T0, view, c[1]) IN
     r.st = "ok" /\ Denote(T0, r.view) = [doms |-> <<>>, cells |-> {<<<<>>, c[2]>>}]
\* slices and ellipses are the identity
SliceIsIdentity ==
  \A sel \in {SliceS, EllS, TupS(<<SliceC>>), TupS(<<EllC>>)} :
     (OpenSeq(view) # <<>> /\ ~IsOuterElem(D0, sel)) => (RSel(T0, view, sel).view = view /\ OSel(D0, sel).d = D0)
=============================================================================
