--------------------------- MODULE C13_Seeding ---------------------------
(* Property C13: given the same problem, parameters and seed (or an equally seeded       *)
(* generator) every randomised component of msdm returns identical results on every     *)
(* run; the results do not depend on the state of the process-global generators          *)
(* (`random`, numpy, torch), the run does not disturb them, and the results are the      *)
(* same in every process whatever the interpreter's hash randomisation.                  *)
(*                                                                                      *)
(* (M) abstract state                                                                   *)
(*     glob[p][g]  abstract state of global generator g of interpreter process p         *)
(*     memo[s]     the runs of the current key seen so far for seed s: entries            *)
(*                 [hs, pid, pert, dig, cdig, adig] = hash seed of the process, number   *)
(*                 and identity (= recorded state) of the prior state of the globals,    *)
(*                 exact / coarse / by-product digests of the result                     *)
(*     out         verdict of the last action (decided here, only compared in Python)    *)
(*     acc         failing (seed, clause) pairs of the current trace                     *)
(* (R) actions                                                                          *)
(*     Perturb(p)  user code re-seeds / draws from the global generators of process p    *)
(*     Run(p, ...) one seeded execution of a component; Judge decides the four clauses   *)
(*         isolated  pre = post for the three global generators                          *)
(*         rerun     same process, same prior global state    => same digest             *)
(*         global    same process, other prior global state   => same digest             *)
(*         hash      other hash seed, same prior global state => same digest             *)
(*         reuse     second call on the same object (reuse = 1), same process and prior   *)
(*                   state as a fresh-object run           => same digest               *)
(* (P) invariants Isolated, Repeatable, GlobalIndependent, HashIndependent, Reusable     *)
(*     on `out`.                                                                        *)
(*                                                                                      *)
(* MODE = "mc"    (IOEnv.IDIOM selects one idiom, a group, or "all")                      *)
(*     The seeding idioms are alternative definitions of Exec.  Sound ones, which the     *)
(*     current code follows (the driver maps every component to one of them):            *)
(*       private                generator created inside the call from the seed alone    *)
(*                              (LAO*, LRTDP, A*, BFS, TD learners, R-MAX, implicit      *)
(*                              distributions; bounded policy iteration and gradient     *)
(*                              ascent since `seed if seed is not None else ...`)        *)
(*       threaded               caller's generator passed to every sampling call         *)
(*                              (Policy.run_on / evaluate_on, POMDPPolicy.run_on)        *)
(*       stable_obj_seed        per-(state, option) seed from a textual rendering that   *)
(*                              does not involve the builtin hash (semi-MDP simulation)  *)
(*     Defective ones, kept as model-level demonstrations of why they are wrong (msdm     *)
(*     used them before the repairs; no component is mapped to them any more, so a        *)
(*     recurrence in the code is an ordinary violation of the trace invariants):         *)
(*       seed_or_draw_numpy     `seed or np.random.randint(..)`  (seed 0 = no seed)      *)
(*       seed_or_draw_torch     `seed or torch.randint(..)`                              *)
(*       unthreaded_first_draw  roll-out whose initial-state draw omits rng=             *)
(*       obj_hash               per-(state, option) seed from builtin hash((s, o, seed)) *)
(*       obj_identity           the same with an object that keeps the identity hash     *)
(*       generator_in_init      random.Random(seed) built once in __init__ and used by   *)
(*                              every call: a second call continues the stream           *)
(*       memo_per_object        results memoised per query on the object, ignoring its   *)
(*                              seed / parameters, and the cached object handed out      *)
(*     A run returns the worst case "result = the stream it consumed".  TLC explores      *)
(*     every idiom x seed (0 included) x label kind x initial-support size x two          *)
(*     processes with different hash seeds x all prior global states, checks              *)
(*     PredictionSound (a clause fails only where Breaks says so) and emits every         *)
(*     witnessed failure, so that Breaks is exact.  With the four property invariants     *)
(*     switched on TLC yields the shortest counterexample per defective idiom.            *)
(* MODE = "trace"                                                                       *)
(*     Batch[tid] is the merged log of one key family (component, problem, parameters)   *)
(*     over all worker processes: "P" events carry the generator states after the        *)
(*     perturbation, "R" events the states before / after the run and the digests.       *)
(*     Every event must be explained (TraceWellFormed: the logged pre-state is the        *)
(*     state the model holds for that process) and is judged by the same Judge as in     *)
(*     the MC.  The last action emits the summary of the trace.                          *)
EXTENDS Integers, Sequences, FiniteSets, TLC, Json, IOUtils

Mode  == IOEnv.MODE
Batch == IF Mode = "trace" THEN JsonDeserialize(IOEnv.BATCH_FILE) ELSE <<>>

VARIABLES tid, l, glob, memo, out, acc
vars == <<tid, l, glob, memo, out, acc>>

Range(sq) == {sq[i] : i \in 1..Len(sq)}
Gens    == {"random", "numpy", "torch"}
Clauses == {"isolated", "rerun", "global", "hash", "reuse"}
Idioms  == {"private", "threaded", "stable_obj_seed", "seed_or_draw_numpy", "seed_or_draw_torch",
            "unthreaded_first_draw", "obj_hash", "obj_identity", "generator_in_init",
            "memo_per_object"}
GoodIdioms == {"private", "threaded", "stable_obj_seed"}

\* ------------------------------------------------------------------ judging one run
Prev(mm, s) == IF s \in DOMAIN mm THEN mm[s] ELSE {}
Entry(e) == [hs |-> e.hs, pid |-> e.pid, pert |-> e.pert, reuse |-> e.reuse, dig |-> e.dig, cdig |-> e.cdig, adig |-> e.adig]
Touched(e) == {g \in Gens : e.pre[g] # e.post[g]}

\* earlier runs of the same key that the statement requires to agree with e, per clause
Peers(prev, e, c) ==
  \* runs on a fresh object are compared with each other ...
  CASE c = "rerun"  -> {m \in prev : e.reuse = 0 /\ m.reuse = 0 /\ m.hs = e.hs /\ m.pert = e.pert}
    [] c = "global" -> {m \in prev : e.reuse = 0 /\ m.reuse = 0 /\ m.hs = e.hs /\ m.pert # e.pert}
    [] c = "hash"   -> {m \in prev : e.reuse = 0 /\ m.reuse = 0 /\ m.hs # e.hs /\ m.pert = e.pert}
  \* ... and a second call on the same object with the fresh runs of its process under the same
  \* prior state (only logged for objects that take a seed parameter and re-seed on every call)
    [] c = "reuse"  -> {m \in prev : e.reuse = 1 /\ m.reuse = 0 /\ m.hs = e.hs /\ m.pert = e.pert}
    [] OTHER        -> {}
Differ(prev, e, c) == {m \in Peers(prev, e, c) : m.dig # e.dig}

Judge(prev, e) ==
  LET t    == Touched(e)
      bad  == {c \in {"rerun", "global", "hash", "reuse"} : Differ(prev, e, c) # {}}
      fail == bad \cup (IF t # {} THEN {"isolated"} ELSE {})
      \* a failing comparison is "ulp only" when all differing peers agree on the coarse digest
      ulp  == {c \in bad : \A m \in Differ(prev, e, c) : m.cdig = e.cdig}
      \* same principal result, different by-products (implementation-shaped: DRIFT)
      aux  == \E m \in prev : m.dig = e.dig /\ m.adig # e.adig
  IN [touched |-> t, fail |-> fail, ulp |-> ulp, aux |-> aux]

NoVerdict == [kind |-> "none"]

\* the property, as state predicates on the verdict of the last run
Isolated          == out.kind = "run" => out.touched = {}
Repeatable        == out.kind = "run" => "rerun"  \notin out.fail
GlobalIndependent == out.kind = "run" => "global" \notin out.fail
HashIndependent   == out.kind = "run" => "hash"   \notin out.fail
Reusable          == out.kind = "run" => "reuse"  \notin out.fail

\* ------------------------------------------------------------------ the idioms (MC)
\* which clauses an idiom can break, as a function of the input shape:
\*   z = 1 iff seed = 0, lk = label kind ("int": hash does not depend on PYTHONHASHSEED,
\*   "str": it does), multi = 1 iff the initial-state distribution has more than one state
Breaks(idiom, z, lk, multi) ==
  CASE idiom \in GoodIdioms              -> {}
    [] idiom = "seed_or_draw_numpy"      -> IF z = 1 THEN {"isolated", "global"} ELSE {}
    [] idiom = "seed_or_draw_torch"      -> IF z = 1 THEN {"isolated", "global"} ELSE {}
    [] idiom = "unthreaded_first_draw"   -> IF multi = 1 THEN {"isolated", "global"} ELSE {}
    [] idiom = "obj_hash"                -> IF lk = "str" THEN {"hash"} ELSE {}
    [] idiom = "obj_identity"            -> {"rerun", "global", "hash"}
    [] idiom = "generator_in_init"       -> {"reuse"}
    [] idiom = "memo_per_object"         -> {"reuse"}
    [] OTHER                             -> Clauses

Procs  == {1, 2}
HSof(p) == p * 11                         \* two interpreters with different hash seeds
Seeds  == {0, 1, 2}
Flip(x) == 1 - x                          \* a draw moves a generator to another state
Joint(v) == [g \in Gens |-> v]

\* Exec: stream consumed (= worst-case result) and global state after the run
Draw(pre, g) == [pre EXCEPT ![g] = Flip(pre[g])]
Exec(idiom, seed, lk, multi, p, pre, addr) ==
  CASE idiom \in {"private", "threaded"} ->
         [eff |-> <<"seed", seed>>, post |-> pre]
    [] idiom = "stable_obj_seed" ->
         [eff |-> <<"text", seed, lk>>, post |-> pre]
    [] idiom = "seed_or_draw_numpy" ->
         IF seed # 0 THEN [eff |-> <<"seed", seed>>, post |-> pre]
         ELSE [eff |-> <<"drawn", pre["numpy"]>>, post |-> Draw(pre, "numpy")]
    [] idiom = "seed_or_draw_torch" ->
         IF seed # 0 THEN [eff |-> <<"seed", seed>>, post |-> pre]
         ELSE [eff |-> <<"drawn", pre["torch"]>>, post |-> Draw(pre, "torch")]
    [] idiom = "unthreaded_first_draw" ->
         IF multi = 0 THEN [eff |-> <<"seed", seed>>, post |-> pre]
         ELSE [eff |-> <<"seed+global", seed, pre["random"]>>, post |-> Draw(pre, "random")]
    [] idiom = "obj_hash" ->
         [eff |-> <<"hash", seed, IF lk = "str" THEN HSof(p) ELSE 0>>, post |-> pre]
    [] idiom = "obj_identity" ->
         [eff |-> <<"addr", addr>>, post |-> pre]
    [] idiom \in {"generator_in_init", "memo_per_object"} ->   \* first call on a new object
         [eff |-> <<"seed", seed>>, post |-> pre]

\* a second call on the object whose first call was the last fresh run of process p (MC: l = p).
\* Modelled for the idioms of objects that take a seed parameter; an object that built its
\* generator once in __init__ continues the stream instead of restarting it
\* A reuse run also stands for a long-lived object with a history (its earlier results were
\* modified by the caller, it was used with other parameters before): an object that memoises
\* results per query without regard to its parameters hands out a stale / shared result
ReuseIdioms == GoodIdioms \cup {"generator_in_init", "memo_per_object"}
ExecReuse(idiom, seed, lk, multi, p, pre) ==
  IF idiom = "generator_in_init" THEN [eff |-> <<"seed", seed, "continued">>, post |-> pre]
  ELSE IF idiom = "memo_per_object" THEN [eff |-> <<"stale">>, post |-> pre]
  ELSE Exec(idiom, seed, lk, multi, p, pre, 0)

IdiomSel == IOEnv.IDIOM
Selected == IF IdiomSel = "all" THEN Idioms
            ELSE IF IdiomSel = "good" THEN GoodIdioms
            ELSE {IdiomSel}

MCInit ==
  /\ tid \in [idiom : Selected, seed : Seeds, lk : {"int", "str"}, multi : {0, 1}]
  /\ l = 0
  /\ glob = [p \in Procs |-> Joint(0)]
  /\ memo = <<>>
  /\ out = NoVerdict
  /\ acc = {}

MCPerturb(p) ==
  /\ \E v \in {0, 1} : glob' = [glob EXCEPT ![p] = Joint(v)]
  /\ glob'[p] # glob[p]
  /\ out' = NoVerdict
  /\ UNCHANGED <<tid, l, memo, acc>>

MCRun(p) ==
  \E addr \in (IF tid.idiom = "obj_identity" THEN {0, 1} ELSE {0}) :
    LET pre == glob[p]
        x   == Exec(tid.idiom, tid.seed, tid.lk, tid.multi, p, pre, addr)
        e   == [hs |-> HSof(p), pid |-> 0, pert |-> pre, reuse |-> 0, dig |-> x.eff, cdig |-> x.eff, adig |-> 0,
                pre |-> pre, post |-> x.post]
        v   == Judge(Prev(memo, tid.seed), e)
    IN /\ out' = [kind |-> "run", touched |-> v.touched, fail |-> v.fail]
       \* every pair of runs occurs as (first run, later run): remembering the first is enough
       /\ memo' = IF tid.seed \in DOMAIN memo THEN memo ELSE (tid.seed :> {Entry(e)})
       /\ glob' = [glob EXCEPT ![p] = x.post]
       /\ l' = p                                   \* the live object belongs to process p
       /\ UNCHANGED <<tid, acc>>

MCReuse(p) ==
  /\ l = p /\ tid.idiom \in ReuseIdioms
  /\ LET pre == glob[p]
         x   == ExecReuse(tid.idiom, tid.seed, tid.lk, tid.multi, p, pre)
         e   == [hs |-> HSof(p), pid |-> 0, pert |-> pre, reuse |-> 1, dig |-> x.eff, cdig |-> x.eff, adig |-> 0,
                 pre |-> pre, post |-> x.post]
         v   == Judge(Prev(memo, tid.seed), e)
     IN /\ out' = [kind |-> "run", touched |-> v.touched, fail |-> v.fail]
        /\ glob' = [glob EXCEPT ![p] = x.post]
        /\ UNCHANGED <<tid, l, memo, acc>>

MCNext == \E p \in Procs : MCPerturb(p) \/ MCRun(p) \/ MCReuse(p)

Z(seed) == IF seed = 0 THEN 1 ELSE 0
\* design invariant: the characterisation Breaks is sound (exactness = every predicted clause
\* is witnessed by an emitted record, checked by the driver)
PredictionSound ==
  (Mode = "mc" /\ out.kind = "run") => out.fail \subseteq Breaks(tid.idiom, Z(tid.seed), tid.lk, tid.multi)

\* ------------------------------------------------------------------ trace validation
Tr == Batch[tid]
Ev == Tr.ev[l]
NP(t) == Len(t.procs)
Unknown == [g \in Gens |-> "?"]
GenState(r) == [g \in Gens |-> r[g]]

TrInit ==
  /\ tid \in 1..Len(Batch)
  /\ l = 1
  /\ glob = [p \in 1..NP(Batch[tid]) |-> Unknown]
  /\ memo = <<>>
  /\ out = NoVerdict
  /\ acc = {}

TrPerturb ==
  /\ l <= Len(Tr.ev) /\ Ev.k = "P"
  /\ glob' = [glob EXCEPT ![Ev.proc] = GenState(Ev.g)]
  /\ out' = [kind |-> "perturb"]
  /\ l' = l + 1
  /\ UNCHANGED <<tid, memo, acc>>

TrRun ==
  /\ l <= Len(Tr.ev) /\ Ev.k = "R"
  /\ LET \* the identity of the prior state of the globals is the recorded state itself; pid is the
         \* number of the perturbation that the worker applied (used for coverage and wf only)
         e == [hs |-> Tr.procs[Ev.proc].hs, pid |-> Ev.pert, pert |-> GenState(Ev.pre), reuse |-> Ev.reuse, dig |-> Ev.dig,
               cdig |-> Ev.cdig, adig |-> Ev.adig, pre |-> GenState(Ev.pre), post |-> GenState(Ev.post)]
         v == Judge(Prev(memo, Ev.seed), e)
         \* explained by the model: the run starts in the state the last Perturb left, and the same
         \* perturbation number led to the same state in every earlier run (in any process)
         wf == /\ e.pre = glob[Ev.proc]
               /\ \A s \in DOMAIN memo : \A m \in memo[s] : (m.pid = e.pid) <=> (m.pert = e.pert)
     IN /\ out' = [kind |-> "run", tid |-> tid, l |-> l, seed |-> Ev.seed, proc |-> Ev.proc,
                   touched |-> v.touched, fail |-> v.fail, ulp |-> v.ulp, aux |-> v.aux, wf |-> wf]
        /\ memo' = IF Ev.seed \in DOMAIN memo
                   THEN [memo EXCEPT ![Ev.seed] = @ \cup {Entry(e)}]
                   ELSE memo @@ (Ev.seed :> {Entry(e)})
        /\ glob' = [glob EXCEPT ![Ev.proc] = e.post]
        /\ acc' = acc \cup {[seed |-> Ev.seed, clause |-> c, ulp |-> (c \in v.ulp), gens |-> IF c = "isolated" THEN v.touched ELSE {}] : c \in v.fail}
                      \cup (IF v.aux THEN {[seed |-> Ev.seed, clause |-> "aux", ulp |-> FALSE, gens |-> {}]} ELSE {})
                      \cup (IF wf THEN {} ELSE {[seed |-> Ev.seed, clause |-> "malformed", ulp |-> FALSE, gens |-> {}]})
  /\ l' = l + 1
  /\ UNCHANGED tid

\* clauses observed to fail for a seed; a component that is not even repeatable makes the
\* comparisons across prior states and processes meaningless, so "rerun" masks them
RawObs(s) == {a.clause : a \in {b \in acc : b.seed = s}} \cap Clauses
Masked(b) == IF "rerun" \in b THEN b \ {"global", "hash", "reuse"} ELSE b
Obs(s) == Masked(RawObs(s))
UlpOnly(s, c) == \A a \in acc : (a.seed = s /\ a.clause = c) => a.ulp
GensTouched(s) == UNION {a.gens : a \in {b \in acc : b.seed = s}}

Summary ==
  LET seeds == DOMAIN memo
      runs  == [s \in seeds |-> {<<m.hs, m.pid>> : m \in memo[s]}]
      digs  == {m.dig : m \in UNION {memo[s] : s \in seeds}}
      errs  == {s \in seeds : \A m \in memo[s] : m.cdig = "error"}
  IN [kind |-> "summary", tid |-> tid, case |-> Tr.case,
      observed |-> [s \in seeds |-> Obs(s)],
      ulponly |-> [s \in seeds |-> {c \in Obs(s) : UlpOnly(s, c)}],
      gens |-> [s \in seeds |-> GensTouched(s)],
      predicted |-> [s \in seeds |-> Masked(Breaks(Tr.idiom, IF s = "0" THEN 1 ELSE 0, Tr.lk, Tr.multi))],
      aux |-> {a.seed : a \in {b \in acc : b.clause = "aux"}},
      malformed |-> {a.seed : a \in {b \in acc : b.clause = "malformed"}},
      \* the result depends on the random stream: some two seeds gave different results
      seedsensitive |-> Cardinality(digs) > 1,
      errors |-> errs,
      \* every planned run is in the log: seeds x processes x prior states (a rerun shares its pair)
      covered |-> /\ seeds = Range(Tr.seeds)
                  /\ \A s \in seeds : runs[s] = {<<Tr.procs[p].hs, q>> : p \in 1..NP(Tr), q \in Range(Tr.perts)}
                  /\ Cardinality({i \in 1..Len(Tr.ev) : Tr.ev[i].k = "R"}) = Len(Tr.seeds) * NP(Tr) * (Len(Tr.perts) + Tr.reuse),
      listorder |-> Cardinality({Tr.procs[p].lo : p \in 1..NP(Tr)}) > 1,
      nruns |-> Cardinality({i \in 1..Len(Tr.ev) : Tr.ev[i].k = "R"})]

TrEnd ==
  /\ l = Len(Tr.ev) + 1
  /\ out' = Summary
  /\ l' = l + 1
  /\ UNCHANGED <<tid, glob, memo, acc>>

\* one violation (with the whole merged log as counterexample) per key family that breaks a clause
TraceClean == out.kind = "summary" => \A s \in DOMAIN out.observed : out.observed[s] = {}
\* the log is explained by the model: pre-state of every run = state the model holds for the process
TraceWellFormed == out.kind = "summary" => (out.malformed = {} /\ out.covered)

\* ------------------------------------------------------------------ specification
Init == IF Mode = "mc" THEN MCInit ELSE TrInit
Next == IF Mode = "mc" THEN MCNext ELSE (TrPerturb \/ TrRun \/ TrEnd)
Spec == Init /\ [][Next]_vars

\* emission of the verdicts (always true)
Emit ==
  IF Mode = "mc"
  THEN (out.kind = "run" /\ out.fail # {}) =>
         PrintT(ToJson([idiom |-> tid.idiom, z |-> Z(tid.seed), lk |-> tid.lk, multi |-> tid.multi, fail |-> out.fail]))
  ELSE IF out.kind = "summary" THEN PrintT(ToJson(out))
  ELSE IF out.kind = "run" /\ (out.fail # {} \/ out.aux \/ ~out.wf) THEN PrintT(ToJson(out))
  ELSE TRUE
=============================================================================
