--------------------------- MODULE C03_LAOStar ---------------------------
(* Property C03: LAO* with an admissible heuristic returns an optimal closed policy.    *)
(*                                                                                      *)
(* (M) instance: a record of spec/lib/MDP.tla plus the *listed* supports the code sees:  *)
(*       zl[s][a][t] = 1  the distribution of (s, a) lists t with probability 0          *)
(*       z0[s]       = 1  the initial distribution lists s with probability 0            *)
(*     (msdm's DictDistribution.support is the key set, zero entries included, and LAO*  *)
(*     creates a node for every listed successor).                                       *)
(*     Optional fields: lev, B (large-magnitude family: the real rewards are shaped by     *)
(*     potentials B*lev[s], see Lev below), rare (rare-transition family, see Exactable);  *)
(*     the discount GN/GD may be 0.                                                      *)
(* (O) oracle: MDP!OptimalValue (= V* ), MDP!PolicyValue (exact return of a policy),        *)
(*     MDP!Proper (instance filter when undiscounted).                                   *)
(* (R) reference machine = msdm/algorithms/laostar.py, one action per step of the code:  *)
(*       Start     ExplicitStateGraph.__init__: the initial support in a seeded random   *)
(*                 order, one node per initial state (value = heuristic, action order =  *)
(*                 mdp.actions(s) or any permutation of it when randomize_action_order)  *)
(*       Expand    best_breadth_first_tip_state (highest value, earliest visit order     *)
(*                 among the unexpanded nodes of the solution graph) + expand_at: for    *)
(*                 every action in the node's order, the listed successors in support    *)
(*                 order (or any permutation when randomize_nextstate_order) become      *)
(*                 nodes / get the parent added                                          *)
(*       Revise    revise_value_from: Z = the expanded node and, transitively, every     *)
(*                 parent whose *current best action* lists the member as a successor;   *)
(*                 the values on Z become the optimal values of the sub-MDP on Z in      *)
(*                 which every other node is a pseudo-terminal worth its current value   *)
(*                 and absorbing states are worth 0 (exact rationals: policy iteration   *)
(*                 with adjugate solves, ending with the optimality certificate          *)
(*                 V >= Q on Z); best action = first maximiser in the node's own order   *)
(*       Terminate the solution graph has no unexpanded node                             *)
(*     Absorbing states are ordinary nodes, exactly as in the code: they start with the  *)
(*     heuristic value, are tips until expanded through their ghost dynamics, and only a *)
(*     revision that contains them sets them to 0; as successors they always count 0.    *)
(* (P) invariants at the bottom: admissibility of every held value in every reachable    *)
(*     state, greedy consistency, Bellman optimality on the revised set, and in every    *)
(*     terminal state: optimal initial value, closed best-action graph, optimal exact    *)
(*     return of the extracted policy.                                                   *)
(*                                                                                      *)
(* Modes (IOEnv.MODE):                                                                  *)
(*   "chain"   ladders of a few hundred rungs given structurally (see LadderValues): emits *)
(*             the exact optimal value of every rung and the exact return of the policy  *)
(*             the real code returned.                                                  *)
(*   "oracle"  one step per instance: emits V*, the optimal initial value, the filter.   *)
(*   "mc"      explores *every* behaviour of (R): all initial orders, and all action /   *)
(*             successor permutations when the flags are on (= all seeds), for every     *)
(*             heuristic of the instance's menu.  Behaviours with both flags off are     *)
(*             emitted with their history (pipeline A: replayed into the real code).     *)
(*   "trace"   pipeline B: each batch entry carries the choices logged from one run of   *)
(*             the real LAOStar (initial order, action orders, successor orders, the     *)
(*             expanded state and the best actions after every iteration) and the policy *)
(*             it returned.  The same actions run with the choices bound to the log,     *)
(*             each logged choice must be one the machine allows; (P) is evaluated in    *)
(*             every state; the exact expected state after every iteration, the exact    *)
(*             return of the returned policy and the verdict bits are emitted.           *)
EXTENDS MDP, Json, IOUtils

Batch == JsonDeserialize(IOEnv.BATCH_FILE)
Mode  == IOEnv.MODE

VARIABLES iid,     \* index of the instance / trace in the batch
          cfg,     \* [hk, H, rao, rno]: heuristic kind + table, the two ordering flags
          phase,   \* "init" | "loop" | "revise" | "done" | "cut" | "reject"
          inits,   \* initial states in the order of ExplicitStateGraph.initial_states
          nodes,   \* the explicit graph: St -> node record (vo = 0: not visited yet)
          cur,     \* the node expanded in the current iteration
          lastZ,   \* the ancestor set of the last revision
          l,       \* completed iterations of the main loop
          vstar,   \* V* of the instance (oracle, constant along a behaviour)
          hist,    \* per-iteration expected states (trace mode and flag-free mc behaviours)
          note     \* why a trace was rejected / flags about float-level choices
vars == <<iid, cfg, phase, inits, nodes, cur, lastZ, l, vstar, hist, note>>

M == Batch[iid]

\* ------------------------------------------------------------------ instance helpers
IsAbs(m, s)     == m.abs[s] = 1
ActSeq(m, s)    == SelectSeq([a \in 1..m.K |-> a], LAMBDA a : m.avail[s][a] = 1)         \* mdp.actions(s)
\* dist.support; field `eg` (empty ghosts): next_state_dist of an absorbing state is the EMPTY distribution
Listed(m, s, a) == IF "eg" \in DOMAIN m /\ m.abs[s] = 1 THEN {}
                   ELSE {t \in St(m) : m.P[s][a][t] > 0 \/ m.zl[s][a][t] = 1}
ListSeq(m, s, a) == SeqOfSet(Listed(m, s, a), m.N)                                        \* ... in its own order
InitListed(m)   == {s \in St(m) : m.p0[s] > 0 \/ m.z0[s] = 1}
NNonAbs(m)      == Cardinality(NonAbs(m))
E(m)            == m.PD * m.GD
MaxAbsR(m)      == MaxSet({0} \cup {AbsI(m.R[s][a][t]) : s \in St(m), a \in Ac(m), t \in St(m)})
\* the exact machine runs only where its integers provably stay below 2^30 (see Fits)
\* rare-transition instances (field `rare`): the record is the epsilon -> 0 limit of the real MDP (the driver
\* derives the perturbation bound); the step-by-step machine is not compared there
Exactable(m)    == E(m) <= 8 /\ NNonAbs(m) <= 3 /\ ~("rare" \in DOMAIN m)
\* well-formedness with a discount that may be 0 (discount_rate = 0 is a legal - falsy - discounted MDP)
WF(m) ==
  /\ \A s \in St(m) : \A a \in Avail(m, s) : SumTo([t \in St(m) |-> m.P[s][a][t]], m.N) = m.PD
  /\ \A s \in St(m), a \in Ac(m), t \in St(m) : m.P[s][a][t] >= 0
  /\ SumTo([s \in St(m) |-> m.p0[s]], m.N) = m.ID
  /\ m.GN >= 0 /\ m.GN <= m.GD
\* large-magnitude family (fields lev, B): the real MDP pays R(s,a,t) - B*lev[s] + gamma*B*lev[t] with a huge B
\* (potential-based shaping, lev = 0 at absorbing states): every policy value, Q value, heuristic and held value of
\* state s is shifted by exactly -B*lev[s], so optimal actions, ancestor sets and revised values (in model units,
\* i.e. with the shift added back) are those of the record.  Only comparisons of values of *different* states see
\* the shift: tips are ranked by lev first (B exceeds every difference of held model values, |val| <= 60).
Lev(m, s) == IF "lev" \in DOMAIN m THEN m.lev[s] ELSE 0
LevOK(m)  == "lev" \in DOMAIN m => (m.B >= 1000 /\ \A s \in St(m) : m.lev[s] >= 0 /\ (IsAbs(m, s) => m.lev[s] = 0))

IsPermOf(sq, S) == Len(sq) = Cardinality(S) /\ Range(sq) = S
PermSeqs(S)     == LET n == Cardinality(S) IN
                   {f \in [1..n -> S] : \A i \in 1..n : \A j \in 1..n : i # j => f[i] # f[j]}
\* all functions g with DOMAIN g = D and g[x] \in fam[x]
RECURSIVE ProdF(_, _)
ProdF(fam, D) ==
  IF D = {} THEN {[x \in {} |-> 0]}
  ELSE LET a == CHOOSE x \in D : TRUE IN
       {[x \in D |-> IF x = a THEN v ELSE g[x]] : g \in ProdF(fam, D \ {a}), v \in fam[a]}

\* orders the code may produce
AoLegal(m, c, t, sq)    == IF c.rao = 1 THEN IsPermOf(sq, Avail(m, t)) ELSE sq = ActSeq(m, t)
AoChoices(m, c, t)      == IF c.rao = 1 THEN PermSeqs(Avail(m, t)) ELSE {ActSeq(m, t)}
NsLegal(m, c, s, a, sq) == IF c.rno = 1 THEN IsPermOf(sq, Listed(m, s, a)) ELSE sq = ListSeq(m, s, a)
NsChoices(m, c, s, a)   == IF c.rno = 1 THEN PermSeqs(Listed(m, s, a)) ELSE {ListSeq(m, s, a)}

\* ------------------------------------------------------------------ explicit graph
Absent(m) == [val |-> UNAV, exp |-> FALSE, vo |-> 0, opt |-> 0, par |-> {}, ao |-> <<>>,
              ns |-> [a \in Ac(m) |-> <<>>]]
NodeSet(nd) == {s \in DOMAIN nd : nd[s].vo > 0}
NewNode(m, H, t, vo, par, ao) ==
  [val |-> RNorm(H[t]), exp |-> FALSE, vo |-> vo, opt |-> ao[1], par |-> par, ao |-> ao,
   ns |-> [a \in Ac(m) |-> <<>>]]

RECURSIVE InitNodes(_, _, _, _, _)
InitNodes(m, H, nd, ord, aoF) ==
  IF ord = <<>> THEN nd
  ELSE LET s == Head(ord) IN
       InitNodes(m, H, [nd EXCEPT ![s] = NewNode(m, H, s, Cardinality(NodeSet(nd)) + 1, {}, aoF[s])], Tail(ord), aoF)

\* expand_at: actions in the node's order, successors in the chosen order
RECURSIVE AddSucc(_, _, _, _, _, _)
AddSucc(m, H, nd, s, succs, aoF) ==
  IF succs = <<>> THEN nd
  ELSE LET t   == Head(succs)
           nd1 == IF nd[t].vo > 0 THEN [nd EXCEPT ![t].par = @ \cup {s}]
                  ELSE [nd EXCEPT ![t] = NewNode(m, H, t, Cardinality(NodeSet(nd)) + 1, {s}, aoF[t])]
       IN AddSucc(m, H, nd1, s, Tail(succs), aoF)
RECURSIVE ExpandActs(_, _, _, _, _, _, _)
ExpandActs(m, H, nd, s, acts, nsF, aoF) ==
  IF acts = <<>> THEN nd
  ELSE LET a   == Head(acts)
           nd1 == AddSucc(m, H, nd, s, nsF[a], aoF)
           nd2 == [nd1 EXCEPT ![s].ns[a] = nsF[a]]
       IN ExpandActs(m, H, nd2, s, Tail(acts), nsF, aoF)
ExpandNode(m, H, nd, s, nsF, aoF) ==
  ExpandActs(m, H, [nd EXCEPT ![s].exp = TRUE], s, nd[s].ao, nsF, aoF)

\* SolutionGraph: closure of the initial states under "successors listed by the best action of an
\* expanded node"; its unexpanded members are the tips
RECURSIVE SGC(_, _, _)
SGC(nd, S, k) ==
  IF k = 0 THEN S
  ELSE LET nxt == S \cup UNION {Range(nd[s].ns[nd[s].opt]) : s \in {x \in S : nd[x].exp}} IN
       IF nxt = S THEN S ELSE SGC(nd, nxt, k - 1)
SolGraph(m, nd, ord) == SGC(nd, Range(ord), m.N)
Tips(m, nd, ord)     == {s \in SolGraph(m, nd, ord) : ~nd[s].exp}
\* best_breadth_first_tip_state: highest value (real value = val - B*lev), then earliest visit order
BestTip(m, nd, tips) ==
  CHOOSE s \in tips : \A t \in tips \ {s} :
     \/ Lev(m, s) < Lev(m, t)
     \/ /\ Lev(m, s) = Lev(m, t)
        /\ RLess(nd[t].val, nd[s].val) \/ (~RLess(nd[s].val, nd[t].val) /\ nd[s].vo < nd[t].vo)

\* update_ancestors_of: parents whose current best action lists the member
RECURSIVE Anc(_, _, _)
Anc(nd, frontier, acc) ==
  IF frontier = {} THEN acc
  ELSE LET n    == CHOOSE x \in frontier : TRUE
           acc1 == acc \cup {n}
           ps   == {p \in nd[n].par : p \notin acc1 /\ n \in Range(nd[p].ns[nd[p].opt])}
       IN Anc(nd, (frontier \ {n}) \cup ps, acc1)

\* ------------------------------------------------------------------ exact dynamic programming on Z
VCeil(x) == (AbsI(x[1]) \div x[2]) + 1
Boundary(m, nd, Z) == {t \in NodeSet(nd) : t \notin Z /\ ~IsAbs(m, t)}
RECURSIVE LcmSet(_)
LcmSet(S) == IF S = {} THEN 1 ELSE LET d == CHOOSE x \in S : TRUE IN LCM(d, LcmSet(S \ {d}))
\* every held value is small enough for exact comparisons (RLess) against any other value and V*
ValuesSmall(nd) == \A s \in NodeSet(nd) : nd[s].val[2] <= 4096 /\ VCeil(nd[s].val) <= 60
\* A revision of Z with k non-absorbing members stays below 2^30: with e = PD*GD, det <= dm(k),
\* cofactors <= cf(k), L = lcm of the boundary denominators, VM = bound on |boundary value|:
\*   rhs   <= PD * L * (Rmax*GD + GN*VM)                x <= k * cf * rhs
\*   V num  = x * e                                     Q num <= PD * (Rmax*GD*det*L + GN*max(x, VM*L*det))
Fits(m, nd, Z) ==
  LET k  == Cardinality({s \in Z : ~IsAbs(m, s)})
      B  == Boundary(m, nd, Z)
      e  == E(m)
      dm == IF k <= 1 THEN e ELSE IF k = 2 THEN 2 * e * e ELSE 6 * e * e * e
      cf == IF k <= 1 THEN 1 ELSE IF k = 2 THEN e ELSE 2 * e * e
      VM == MaxSet({1} \cup {VCeil(nd[t].val) : t \in B})
      u  == MaxAbsR(m) * m.GD + m.GN * VM
      x1 == k * cf * m.PD * u
      W  == MaxI(MaxI(dm, x1 * e), m.PD * (MaxAbsR(m) * m.GD * dm + m.GN * MaxI(x1, VM * dm)))
  IN /\ ValuesSmall(nd)
     /\ k <= 3
     /\ (k = 0 \/ (Cardinality(B) <= 2 /\ LcmSet({nd[t].val[2] : t \in B}) <= LIM \div W))

\* value of policy pi (function on the non-absorbing members of Z) in the sub-MDP: <<det, x>> with
\* V(zna[i]) = x[i] / (det * L), det > 0
SubSolve(m, nd, Z, zna, L, pi) ==
  LET k   == Len(zna)
      bn(t) == nd[t].val[1] * (L \div nd[t].val[2])
      A   == TLCEval([i \in 1..k |-> [j \in 1..k |->
                (IF i = j THEN m.PD * m.GD ELSE 0) - m.GN * m.P[zna[i]][pi[zna[i]]][zna[j]]]])
      b   == TLCEval([i \in 1..k |-> SumTo([t \in St(m) |->
                LET p == m.P[zna[i]][pi[zna[i]]][t] IN
                IF p = 0 THEN 0
                ELSE p * (m.R[zna[i]][pi[zna[i]]][t] * m.GD * L
                          + (IF t \in Z \/ IsAbs(m, t) THEN 0 ELSE m.GN * bn(t)))], m.N)])
      sol == Solve(A, b, k)
      sg  == IF sol[1] < 0 THEN -1 ELSE 1
  IN <<sg * sol[1], [i \in 1..k |-> sg * sol[2][i]]>>
\* numerator of Q(s, a) over the denominator PD*GD*det*L, given the values x on zna
QNum(m, nd, Z, zna, L, det, x, s, a) ==
  SumTo([t \in St(m) |->
     LET p == m.P[s][a][t] IN
     IF p = 0 THEN 0
     ELSE p * (m.R[s][a][t] * m.GD * det * L
               + m.GN * (IF IsAbs(m, t) THEN 0
                         ELSE IF t \in Z THEN x[IndexOf(zna, t)]
                         ELSE nd[t].val[1] * (L \div nd[t].val[2]) * det))], m.N)
\* exact evaluation of one policy of the sub-MDP: [ok (non-singular), det, x, q (Q numerators per member / action)]
EvalPol(m, nd, Z, zna, L, pi) ==
  LET k  == Len(zna)
      sv == SubSolve(m, nd, Z, zna, L, pi)
  IN IF sv[1] = 0 THEN [ok |-> FALSE, det |-> 0, x |-> <<>>, q |-> <<>>]
     ELSE [ok |-> TRUE, det |-> sv[1], x |-> sv[2],
           q |-> TLCEval([i \in 1..k |-> [a \in Avail(m, zna[i]) |-> QNum(m, nd, Z, zna, L, sv[1], sv[2], zna[i], a)]])]
\* policy iteration on the ancestor sub-MDP, in exact arithmetic: switch only to strictly better actions, so it
\* stops (after at most |policies| evaluations) exactly at a policy whose own values satisfy the optimality
\* equation of the sub-MDP: V(s) >= Q(s, a) for every member s and available a.  `optimal` is that certificate.
RECURSIVE PIter(_, _, _, _, _, _, _)
PIter(m, nd, Z, zna, L, pi, fuel) ==
  LET k == Len(zna)
      r == TLCEval(EvalPol(m, nd, Z, zna, L, pi))
  IN IF ~r.ok \/ fuel = 0 THEN [r EXCEPT !.ok = FALSE]
     ELSE LET better(i) == {a \in Avail(m, zna[i]) : r.q[i][a] > r.x[i] * m.PD * m.GD}
              pi2 == [s \in Range(zna) |->
                        LET i == IndexOf(zna, s) IN
                        IF better(i) = {} THEN pi[s]
                        ELSE CHOOSE a \in better(i) : \A c \in better(i) : r.q[i][a] >= r.q[i][c]]
          IN IF pi2 = pi THEN r ELSE PIter(m, nd, Z, zna, L, pi2, fuel - 1)
\* the revision: [ok, val (Z -> new value), mx (Z -> set of exactly maximising actions)]
DP(m, nd, Z) ==
  LET zna  == SeqOfSet({s \in Z : ~IsAbs(m, s)}, m.N)
      k    == Len(zna)
      L    == IF k = 0 THEN 1 ELSE LcmSet({nd[t].val[2] : t \in Boundary(m, nd, Z)})
      r    == PIter(m, nd, Z, zna, L, [s \in Range(zna) |-> nd[s].opt], 40)
      optimal == \A i \in 1..k : \A a \in Avail(m, zna[i]) : r.x[i] * m.PD * m.GD >= r.q[i][a]
  IN IF k = 0 THEN [ok |-> TRUE, val |-> [s \in Z |-> <<0, 1>>], mx |-> [s \in Z |-> Avail(m, s)]]
     ELSE IF ~r.ok \/ ~optimal THEN [ok |-> FALSE, val |-> <<>>, mx |-> <<>>]
     ELSE [ok  |-> TRUE,
           val |-> [s \in Z |-> IF IsAbs(m, s) THEN <<0, 1>> ELSE Norm(r.x[IndexOf(zna, s)], r.det * L)],
           mx  |-> [s \in Z |-> IF IsAbs(m, s) THEN Avail(m, s)
                                ELSE LET i == IndexOf(zna, s)
                                         top == MaxSet({r.q[i][a] : a \in Avail(m, s)})
                                     IN {a \in Avail(m, s) : r.q[i][a] = top}]]
\* max(node.action_order, key=action_vals): the first maximiser in the node's own order
FirstIn(ao, S) == ao[CHOOSE i \in 1..Len(ao) : ao[i] \in S /\ \A j \in 1..(i - 1) : ao[j] \notin S]
Revised(m, nd, Z, dp, optF) ==
  [s \in St(m) |-> IF s \in Z THEN [nd[s] EXCEPT !.val = dp.val[s], !.opt = optF[s]] ELSE nd[s]]

\* ------------------------------------------------------------------ projections
ValArr(m, nd) == [s \in St(m) |-> nd[s].val]
OptArr(m, nd) == [s \in St(m) |-> nd[s].opt]
NodeArr(m, nd) == [s \in St(m) |-> [val |-> nd[s].val, exp |-> IF nd[s].exp THEN 1 ELSE 0, vo |-> nd[s].vo,
                                    opt |-> nd[s].opt, par |-> nd[s].par, ao |-> nd[s].ao, ns |-> nd[s].ns]]
KeepHist == Mode = "trace" \/ (cfg.rao = 0 /\ cfg.rno = 0)

\* ------------------------------------------------------------------ machine
CfgSet(m) ==
  IF Mode = "mc" THEN {[hk |-> h.hk, H |-> h.H, rao |-> f[1], rno |-> f[2]] : h \in Range(m.hs), f \in Range(m.flags)}
  ELSE IF Mode = "trace" THEN {[hk |-> m.hk, H |-> m.H, rao |-> m.rao, rno |-> m.rno]}
  ELSE {[hk |-> "none", H |-> <<>>, rao |-> 0, rno |-> 0]}

Init ==
  /\ iid \in 1..Len(Batch)
  /\ cfg \in CfgSet(Batch[iid])
  /\ phase = "init"
  /\ inits = <<>>
  /\ nodes = IF Mode = "chain" THEN <<>> ELSE [s \in St(Batch[iid]) |-> Absent(Batch[iid])]
  /\ cur = 0 /\ lastZ = {} /\ l = 0 /\ hist = <<>> /\ note = <<>>
  \* trace mode: V* was computed by the oracle run of this module on the same instance; it is re-certified
  \* by the optimality equation (InstanceOK) instead of being enumerated again for every recorded run
  /\ vstar = IF Mode = "trace" THEN [s \in St(Batch[iid]) |-> RNorm(Batch[iid].vs[s])]
             ELSE IF Mode = "chain" THEN [i \in 1..Len(Batch[iid].gs) |-> OptimalValue(Batch[iid].gs[i])]
             ELSE OptimalValue(Batch[iid])

OracleStep ==
  /\ Mode = "oracle" /\ phase = "init" /\ phase' = "done"
  /\ UNCHANGED <<iid, cfg, inits, nodes, cur, lastZ, l, vstar, hist, note>>

\* ------------------------------------------------------------------ ladders (mode "chain")
\* A ladder is a LARGE undiscounted MDP given structurally: n copies ("rungs") of small gadget MDPs m.gs (copy k uses
\* gadget ((k-1) mod Len(gs)) + 1); a gadget has one non-absorbing state (the rung, its only initial state) and one
\* absorbing exit, which in the ladder is the next rung (the exit of rung n is the absorbing goal).  Every step
\* either stays on the rung or climbs, so the value of rung k is the gadget value of rung k plus the value of rung
\* k+1: optimal values and the exact return of any stationary policy are sums over the rungs of the gadget oracles.
\* The step-by-step machine is not run (a revision covers hundreds of states); these runs are judged on the clauses.
Gad(m, k)   == m.gs[((k - 1) % Len(m.gs)) + 1]
GIdx(m, k)  == ((k - 1) % Len(m.gs)) + 1
Entry(g)    == CHOOSE s \in St(g) : g.p0[s] = g.ID
\* number of rungs j <= x that use gadget g (rungs g, g + G, g + 2G, ...)
UpTo(m, x, g) == IF x < g THEN 0 ELSE ((x - g) \div Len(m.gs)) + 1
\* <<value of rung 1, ..., value of rung n>>: rung k is worth the gadget values of the rungs k..n
LadderValues(m, gv) ==
  LET e == [g \in 1..Len(m.gs) |-> gv[g][Entry(m.gs[g])]] IN
  [k \in 1..m.n |-> RSumTo([g \in 1..Len(m.gs) |-> RScale(UpTo(m, m.n, g) - UpTo(m, k - 1, g), e[g])], Len(m.gs))]
\* the policy the real code returned: m.pols = <<[g, pol, cnt]>>: cnt rungs of gadget g play support pol (uniformly)
LW(g, sp) == [s \in NonAbs(g) |-> [a \in Ac(g) |-> IF a \in sp[s] THEN 6 \div Cardinality(sp[s]) ELSE 0]]
RECURSIVE LadderReturn(_, _)
LadderReturn(m, i) ==
  IF i = 0 THEN <<0, 1>>
  ELSE LET e  == m.pols[i]
           g  == m.gs[e.g]
           pv == PolicyValue(g, LW(g, [s \in NonAbs(g) |-> {a \in Ac(g) : e.pol[s][a] = 1}]), 6)
       IN RAdd(RScale(e.cnt, pv[Entry(g)]), LadderReturn(m, i - 1))
\* optional field q < 0: every rung also has a "quit" action that moves to the goal at once and pays q; LadderOK
\* demands q < value of rung 1 <= value of every rung, so quitting is strictly worse everywhere, the optimal values
\* are unchanged and a policy that quits on some rung (m.quits > 0) is not optimal.  Revising such a ladder as a
\* whole, policy iteration from the uniform policy prefers quitting wherever the rungs above still mix in quitting:
\* "climb" becomes attractive about one rung further from the top per improvement round.
Quit(m) == IF "q" \in DOMAIN m THEN m.q ELSE 0
\* signature predicate: the revision of the whole ladder needs more improvement rounds than the budget
NeedsMoreRoundsThan(m, budget) == Quit(m) < 0 /\ m.n > budget
LadderOK(m) ==
  /\ Quit(m) <= 0 /\ (Quit(m) < 0 => RLess(<<Quit(m), 1>>, LadderValues(m, vstar)[1]))
  /\ m.n >= 1 /\ Len(m.gs) >= 1 /\ m.hc >= 0                   \* the constant heuristic hc bounds values that are <= 0
  /\ \A i \in 1..Len(m.gs) : LET g == m.gs[i] IN
        /\ WF(g) /\ g.GN = g.GD /\ Cardinality(NonAbs(g)) = 1 /\ Cardinality(ExplAbs(g)) = 1
        /\ \E s \in NonAbs(g) : g.p0[s] = g.ID
        /\ \A s \in St(g) : Avail(g, s) # {}
        /\ Proper(g)
        /\ \A s \in NonAbs(g) : \A a \in Avail(g, s) : \A t \in St(g) : g.P[s][a][t] > 0 => g.R[s][a][t] <= 0
  /\ m.polok = 1 => /\ \A i \in 1..Len(m.pols) : m.pols[i].g \in 1..Len(m.gs) /\ m.pols[i].cnt >= 1
                    /\ (m.quits = 0 => SumTo([i \in 1..Len(m.pols) |-> m.pols[i].cnt], Len(m.pols)) = m.n)
ChainStep ==
  /\ Mode = "chain" /\ phase = "init" /\ phase' = "done"
  /\ UNCHANGED <<iid, cfg, inits, nodes, cur, lastZ, l, vstar, hist, note>>

Note(w, x) == [w |-> w, i |-> l + 1, x |-> x]
Stop(ph, why) ==
  /\ phase' = ph /\ note' = Append(note, Note(why, 0))
  /\ UNCHANGED <<iid, cfg, inits, nodes, cur, lastZ, l, vstar, hist>>

\* ExplicitStateGraph.__init__
StartWith(ord, aoF) ==
  /\ inits' = ord
  /\ nodes' = InitNodes(M, cfg.H, nodes, ord, aoF)
  /\ phase' = "loop"
  /\ UNCHANGED <<iid, cfg, cur, lastZ, l, vstar, hist, note>>
StartMC ==
  /\ Mode = "mc" /\ phase = "init"
  /\ IF ~Exactable(M) THEN Stop("cut", "family")
     ELSE \E ord \in PermSeqs(InitListed(M)) :
          \E aoF \in ProdF([t \in InitListed(M) |-> AoChoices(M, cfg, t)], InitListed(M)) :
             StartWith(ord, aoF)
StartTrace ==
  /\ Mode = "trace" /\ phase = "init"
  /\ IF ~Exactable(M) THEN Stop("cut", "family")
     ELSE IF ~IsPermOf(M.log.init, InitListed(M)) THEN Stop("reject", "initial-order")
     ELSE IF \E t \in InitListed(M) : ~AoLegal(M, cfg, t, M.log.ao[t]) THEN Stop("reject", "action-order")
     ELSE StartWith(M.log.init, M.log.ao)

\* best_breadth_first_tip_state + expand_at
ExpandWith(s, nsF, aoF) ==
  /\ nodes' = ExpandNode(M, cfg.H, nodes, s, nsF, aoF)
  /\ cur' = s
  /\ phase' = "revise"
  /\ UNCHANGED <<iid, cfg, inits, lastZ, l, vstar, hist>>
NewSucc(s) == (UNION {Listed(M, s, a) : a \in Avail(M, s)}) \ NodeSet(nodes)
ExpandMC ==
  /\ Mode = "mc" /\ phase = "loop"
  /\ Tips(M, nodes, inits) # {}
  /\ IF ~ValuesSmall(nodes) THEN Stop("cut", "magnitude")
     ELSE LET s == BestTip(M, nodes, Tips(M, nodes, inits)) IN
          \E nsF \in ProdF([a \in Avail(M, s) |-> NsChoices(M, cfg, s, a)], Avail(M, s)) :
          \E aoF \in ProdF([t \in NewSucc(s) |-> AoChoices(M, cfg, t)], NewSucc(s)) :
             ExpandWith(s, nsF, aoF) /\ note' = note
ExpandTrace ==
  /\ Mode = "trace" /\ phase = "loop"
  /\ Tips(M, nodes, inits) # {}
  /\ IF ~ValuesSmall(nodes) THEN Stop("cut", "magnitude")
     ELSE IF l >= Len(M.log.iters) THEN Stop("reject", "log-ends-with-tips-left")
     ELSE LET s == M.log.iters[l + 1].s IN
          IF s \notin Tips(M, nodes, inits) THEN Stop("reject", "expanded-state-not-a-tip")
          ELSE IF \E a \in Avail(M, s) : ~NsLegal(M, cfg, s, a, M.log.ns[s][a]) THEN Stop("reject", "successor-order")
          ELSE IF \E t \in NewSucc(s) : ~AoLegal(M, cfg, t, M.log.ao[t]) THEN Stop("reject", "action-order")
          ELSE /\ ExpandWith(s, M.log.ns[s], M.log.ao)
               \* the code compares floats: a tip that is not the exact best one is only flagged
               /\ note' = LET b == BestTip(M, nodes, Tips(M, nodes, inits)) IN
                          IF s = b THEN note ELSE Append(note, Note("tip-not-exact-best", b))

\* revise_value_from
Revise ==
  /\ phase = "revise"
  /\ LET Z == Anc(nodes, {cur}, {}) IN
     IF ~Fits(M, nodes, Z) THEN Stop("cut", "magnitude")
     ELSE LET dp == DP(M, nodes, Z) IN
          IF ~dp.ok THEN Stop("reject", "no-optimal-policy-on-Z")
          ELSE LET first == [s \in Z |-> FirstIn(nodes[s].ao, dp.mx[s])]
                   lg    == IF Mode = "trace" THEN M.log.iters[l + 1].opt ELSE <<>>
                   \* the code's argmax works on floats rounded to 10 decimals: any exact maximiser is accepted
                   optF  == [s \in Z |-> IF Mode = "trace" /\ lg[s] \in dp.mx[s] THEN lg[s] ELSE first[s]]
                   nd2   == Revised(M, nodes, Z, dp, optF)
               IN /\ nodes' = nd2
                  /\ lastZ' = Z
                  /\ l' = l + 1
                  /\ phase' = "loop"
                  /\ hist' = IF KeepHist
                             THEN Append(hist, [s |-> cur, Z |-> Z, val |-> ValArr(M, nd2), opt |-> OptArr(M, nd2),
                                                first |-> [s \in St(M) |-> IF s \in Z THEN first[s] ELSE 0],
                                                mx |-> [s \in St(M) |-> IF s \in Z THEN dp.mx[s] ELSE {}]])
                             ELSE hist
                  /\ note' = IF Mode = "trace" /\ \E s \in Z : lg[s] \notin dp.mx[s]
                             THEN Append(note, Note("best-action-not-a-maximiser", CHOOSE s \in Z : lg[s] \notin dp.mx[s]))
                             ELSE note
                  /\ UNCHANGED <<iid, cfg, inits, cur, vstar>>

Terminate ==
  /\ phase = "loop"
  /\ Tips(M, nodes, inits) = {}
  /\ phase' = "done"
  /\ UNCHANGED <<iid, cfg, inits, nodes, cur, lastZ, l, vstar, hist, note>>

\* terminal states stutter, so that a deadlock is a stuck non-terminal state of the algorithm
Halt == phase \in {"done", "cut", "reject"} /\ UNCHANGED vars

Next == OracleStep \/ ChainStep \/ StartMC \/ StartTrace \/ ExpandMC \/ ExpandTrace \/ Revise \/ Terminate \/ Halt
Spec == Init /\ [][Next]_vars

\* ------------------------------------------------------------------ the extracted policy, judged exactly
\* _create_policy restricted to the solution graph: best action of every node; elsewhere (never reached
\* when the graph is closed) the first available action
PolicyOf(m, nd) == [s \in NonAbs(m) |-> IF nd[s].vo > 0 THEN nd[s].opt ELSE ActSeq(m, s)[1]]
\* states the policy reaches from the initial states with positive probability (absorbing states end a run)
RECURSIVE PolReachK(_, _, _, _)
PolReachK(m, pi, S, k) ==
  IF k = 0 THEN S
  ELSE LET nxt == S \cup UNION {Succ(m, s, pi[s]) : s \in (S \ ExplAbs(m))} IN
       IF nxt = S THEN S ELSE PolReachK(m, pi, nxt, k - 1)
PolReach(m, pi) == PolReachK(m, pi, InitSupp(m), m.N)
InitOf(m, nd) == InitialValue(m, ValArr(m, nd))

\* policy returned by the real code (trace mode): pol[s][a] = 1 iff a is in the support at s (uniform weights)
UniformW(m, sp) == [s \in NonAbs(m) |-> [a \in Ac(m) |-> IF a \in sp[s] THEN 6 \div Cardinality(sp[s]) ELSE 0]]
RealSupport(m)  == [s \in NonAbs(m) |-> {a \in Ac(m) : m.pol[s][a] = 1}]
JudgeValue(m)   == PolicyValue(m, UniformW(m, RealSupport(m)), 6)

\* ------------------------------------------------------------------ emission
VInit == InitialValue(M, vstar)
Filter(m) == [wf |-> WF(m), few |-> NNonAbs(m) <= 3,
              acts |-> \A s \in St(m) : Avail(m, s) # {},
              proper |-> Discounted(m) \/ Proper(m)]
Emit ==
  phase \in {"done", "cut", "reject"} =>
    IF Mode = "oracle" THEN
      PrintT(ToJson([kind |-> "oracle", iid |-> iid, v |-> vstar, vinit |-> VInit, filter |-> Filter(M)]))
    ELSE IF Mode = "chain" THEN
      LET lv  == LadderValues(M, vstar)
          ret == IF M.polok = 1 /\ M.quits = 0 THEN LadderReturn(M, Len(M.pols)) ELSE UNAV
      IN PrintT(ToJson([kind |-> "chain", iid |-> iid, tag |-> M.tag, lv |-> lv, gv |-> vstar, ret |-> ret,
                        over100 |-> IF NeedsMoreRoundsThan(M, 100) THEN 1 ELSE 0,
                        polopt |-> IF M.polok = 1 /\ M.quits = 0 /\ ret = lv[1] THEN 1 ELSE 0]))
    ELSE IF Mode = "mc" THEN
      (IF phase = "done" /\ KeepHist THEN
         PrintT(ToJson([kind |-> "mc", iid |-> iid, hk |-> cfg.hk, inits |-> inits, its |-> l, hist |-> hist,
                        nodes |-> NodeArr(M, nodes), vinit |-> VInit]))
       ELSE IF phase = "cut" THEN
         PrintT(ToJson([kind |-> "cut", iid |-> iid, hk |-> cfg.hk, rao |-> cfg.rao, rno |-> cfg.rno, inits |-> inits, note |-> note]))
       ELSE TRUE)
    ELSE
      LET pv == IF M.polok = 1 THEN JudgeValue(M) ELSE <<>>
          pinit == IF M.polok = 1 THEN InitialValue(M, pv) ELSE UNAV
      IN PrintT(ToJson([kind |-> "trace", iid |-> iid, tag |-> M.tag, phase |-> phase, note |-> note, its |-> l,
                        hist |-> hist, nodes |-> NodeArr(M, nodes), inits |-> inits,
                        v |-> vstar, vinit |-> VInit, pv |-> pv, pinit |-> pinit,
                        polopt |-> IF M.polok = 1 /\ pinit = VInit THEN 1 ELSE 0]))

\* ------------------------------------------------------------------ (P) properties
Machine == Mode \in {"mc", "trace"}
Running == Machine /\ phase \in {"loop", "revise", "done"}
\* instance filter: preconditions of the statement, checked by TLC so a generator bug is never a verdict
\* V is the solution of the optimality equation (unique when discounted or proper)
BellmanCertified(m, V) ==
  \A s \in St(m) : IF s \in ExplAbs(m) THEN V[s] = <<0, 1>>
                    ELSE IsFin(V[s]) /\ V[s] = RMaxSet({QFromV(m, V, s, a) : a \in Avail(m, s)})
InstanceOK ==
  phase = "init" =>
   IF Mode = "chain" THEN LadderOK(M) ELSE
     /\ WF(M) /\ LevOK(M) /\ NNonAbs(M) <= 3
     /\ \A s \in St(M) : Avail(M, s) # {}
     /\ IF Mode = "trace" THEN BellmanCertified(M, vstar) ELSE (Discounted(M) \/ Proper(M))
     /\ Machine => \A s \in St(M) : IsFin(cfg.H[s]) /\ ~RLess(RNorm(cfg.H[s]), vstar[s])     \* admissible heuristic
\* (P1) every value held for an explored state is an upper bound on that state's optimal value
Admissible == Running => \A s \in NodeSet(nodes) : ~RLess(nodes[s].val, vstar[s])
\* (P2) an expanded node's value is the value of its best action under the current values (what makes
\*      the values on a closed best-action graph the exact return of that policy)
\*      (evaluated with the library rationals where their common denominator stays small)
RECURSIVE BLcm(_, _)
BLcm(S, cap) == IF S = {} THEN 1
                ELSE LET d == CHOOSE x \in S : TRUE
                         r == BLcm(S \ {d}, cap)
                     IN IF r > cap THEN r ELSE LCM(d, r)
QGuard(m, nd, s, a) == BLcm({nd[t].val[2] : t \in {u \in Succ(m, s, a) : ~IsAbs(m, u)}}, 100000 \div E(m)) <= 100000 \div E(m)
NodeQ(m, nd, s, a) ==
  RSumTo([t \in St(m) |->
     IF m.P[s][a][t] = 0 THEN <<0, 1>>
     ELSE LET v == IF IsAbs(m, t) THEN <<0, 1>> ELSE nd[t].val IN
          Norm(m.P[s][a][t] * (m.R[s][a][t] * m.GD * v[2] + m.GN * v[1]), m.PD * m.GD * v[2])], m.N)
GreedyConsistent ==
  (Machine /\ phase \in {"loop", "done"}) =>
     \A s \in NodeSet(nodes) :
        (nodes[s].exp /\ ~IsAbs(M, s) /\ QGuard(M, nodes, s, nodes[s].opt)) => nodes[s].val = NodeQ(M, nodes, s, nodes[s].opt)
\* (P3) after a revision the members of Z satisfy the optimality equation against the current values
ReviseOptimal ==
  (Machine /\ phase = "loop") =>
     \A s \in lastZ :
        IF IsAbs(M, s) THEN nodes[s].val = <<0, 1>>
        ELSE (\A a \in Avail(M, s) : QGuard(M, nodes, s, a)) =>
                \A a \in Avail(M, s) : ~RLess(nodes[s].val, NodeQ(M, nodes, s, a))
\* (P4) structure: listed successors of expanded nodes are nodes that know their parent; visit orders are distinct
GraphWellFormed ==
  Running =>
     /\ \A s \in NodeSet(nodes) : nodes[s].exp =>
           \A a \in Avail(M, s) : /\ Range(nodes[s].ns[a]) = Listed(M, s, a)
                                  /\ \A t \in Listed(M, s, a) : nodes[t].vo > 0 /\ s \in nodes[t].par
     /\ \A s \in NodeSet(nodes) : nodes[s].opt \in Avail(M, s) /\ IsPermOf(nodes[s].ao, Avail(M, s))
     /\ \A s \in NodeSet(nodes) : \A t \in NodeSet(nodes) : s # t => nodes[s].vo # nodes[t].vo
     /\ Range(inits) \subseteq NodeSet(nodes)
\* (P5) terminal states: convergence means a tip-free solution graph; the initial value is optimal; the
\*      policy is defined on (= the graph contains, expanded) everything it reaches; its exact return is optimal;
\*      the values along the policy are the optimal values
TerminalOptimal ==
  (Machine /\ phase = "done") =>
     LET pi == PolicyOf(M, nodes)
         rc == PolReach(M, pi)
         pv == PolicyValue(M, AsWeights(M, pi), 1)
     IN /\ Tips(M, nodes, inits) = {}
        /\ InitOf(M, nodes) = VInit
        /\ \A s \in rc : nodes[s].vo > 0 /\ (IsAbs(M, s) \/ nodes[s].exp)
        /\ InitialValue(M, pv) = VInit
        /\ \A s \in rc : IF IsAbs(M, s) THEN nodes[s].exp => nodes[s].val = <<0, 1>> ELSE nodes[s].val = vstar[s]
\* (P6) every node is expanded at most once and the loop is bounded by the number of states
Bounded == Running => l <= M.N /\ l = Cardinality({s \in NodeSet(nodes) : nodes[s].exp}) - (IF phase = "revise" THEN 1 ELSE 0)
\* (P7) in mc mode the machine never rejects (rejection is a verdict about a *log*)
NoRejectInMC == Mode = "mc" => phase # "reject"
=============================================================================
