------------------------------ MODULE C09_Tiny ------------------------------
(* Property C09, controllers with TINY probabilities (entries like 1e-9 in the action rows   *)
(* or in the initial node distribution).  The tiny entries are multiples of a symbolic small  *)
(* parameter e > 0 (spec/lib/FSC.tla, "tiny probabilities, symbolically"): all node-side       *)
(* weights are polynomials in e with small integer coefficients, so every invariant below is   *)
(* an identity in e and the emitted expectations can be evaluated exactly at any concrete e.   *)
(*                                                                                        *)
(* Why a separate family: after an action of total probability ~1e-9 the node posterior is     *)
(* O(1) (a ratio of two tiny numbers), and so are the conditional action probabilities of the  *)
(* rest of the episode - an implementation that treats "nearly impossible" like "impossible"   *)
(* is wrong by O(1) there although every absolute history probability is off by only ~1e-10.   *)
(*                                                                                        *)
(* (R) the machine of C09_FSC ("hist") on polynomial node weights, one action per step of       *)
(*     run_on: Init = initial_agentstate, Act(a) = draw from action_dist (possible iff the      *)
(*     mixture is positive for small e > 0), Observe(o) = world step (marginalised, integer     *)
(*     state weights gw as in C09_FSC) + next_agentstate (Bayes update, canonical form).        *)
(* (O2) FSC!JointAlphaP: joint forward weights over (node, state) by the definition.            *)
(* Batch record: POMDP + controller fields + psie, iotae (coefficients of e) + D.               *)
EXTENDS FSC, Json, IOUtils

Batch == JsonDeserialize(IOEnv.BATCH_FILE)

VARIABLES iid,    \* instance
          agp,    \* node weights of the controller object: polynomials in e, canonical
          gw,     \* unnormalised integer state weights of the running episode
          pa,     \* pending action (0 = none)
          hist    \* sequence of [a, o]
vars == <<iid, agp, gw, pa, hist>>

M == Batch[iid]

Init ==
  /\ iid \in 1..Len(Batch)
  /\ agp = InitNodesP(Batch[iid])
  /\ gw = InitStates(Batch[iid])
  /\ pa = 0
  /\ hist = <<>>

Act(a) ==
  /\ pa = 0 /\ Len(hist) < M.D
  /\ LiveMass(M, gw) > 0
  /\ PSign(ActP(M, agp, a)) > 0
  /\ pa' = a
  /\ UNCHANGED <<iid, agp, gw, hist>>

Observe(o) ==
  /\ pa # 0
  /\ BSum(M, EnvPost(M, gw, pa, o)) > 0
  /\ gw' = EnvPost(M, gw, pa, o)
  /\ agp' = NodeStepP(M, agp, pa, o)
  /\ hist' = Append(hist, [a |-> pa, o |-> o])
  /\ pa' = 0
  /\ UNCHANGED iid

ActStep == \E a \in Ac(M) : Act(a)
ObserveStep == \E o \in Ob(M) : Observe(o)
Next == ActStep \/ ObserveStep
Spec == Init /\ [][Next]_vars

\* ------------------------------------------------------------------ emission (pipeline A)
\* Pr(a | history) = actp[a](e) / den(e);  node posterior = agp[n](e) / sum_n agp[n](e);
\* Pr(history) = ptrue(e) / (ND * ID * CD^Len(hist))
Emit ==
  pa = 0 =>
    PrintT(ToJson([iid |-> iid, hist |-> hist,
                   rec |-> [agp   |-> agp,
                            actp  |-> ActRowP(M, agp),
                            den   |-> PScale(M.QD, PVecSum(M, agp)),
                            ptrue |-> JSumP(M, JointAlphaP(M, hist)),
                            live  |-> LiveMass(M, gw) > 0]]))

\* ------------------------------------------------------------------ properties (identities in e)
\* (T1) node and state are independent given the history: joint = node-side x world-side forward weights
TinyFactorises ==
  pa = 0 =>
     LET al == JointAlphaP(M, hist) f == NodeForwardP(M, hist) IN
     \A n \in Nd(M) : \A s \in St(M) : al[n][s] = PScale(gw[s], f[n])
\* (T2) the agent state is the node posterior given the history (canonical representative)
TinyAgentStateIsPosterior ==
  pa = 0 =>
     LET f == NodeForwardP(M, hist) IN
     /\ PSign(PVecSum(M, f)) > 0
     /\ agp = PVecReduce(M, f)
\* (T3) action_dist is a distribution; every node weight is non-negative for small e
TinyActionDistNormalised ==
  /\ PSumTo(ActRowP(M, agp), M.K) = PScale(M.QD, PVecSum(M, agp))
  /\ \A n \in Nd(M) : PSign(agp[n]) >= 0
  /\ \A a \in Ac(M) : PSign(ActP(M, agp, a)) >= 0
  /\ PSign(PVecSum(M, agp)) > 0
\* (T4) the machine explores exactly the histories of positive probability (for small e > 0)
TinyExploresPossibleHistories ==
  pa = 0 =>
     /\ PSign(JSumP(M, JointAlphaP(M, hist))) > 0
     /\ Len(hist) < M.D =>
          \A a \in Ac(M) : \A o \in Ob(M) :
             (PSign(JSumP(M, JointPostP(M, JointAlphaP(M, hist), a, o))) > 0)
               <=> (LiveMass(M, gw) > 0 /\ PSign(ActP(M, agp, a)) > 0 /\ BSum(M, EnvPost(M, gw, a, o)) > 0)
InstancesWellFormed == PWellFormed(M) /\ CWellFormed(M) /\ TinyWellFormed(M)
=============================================================================
