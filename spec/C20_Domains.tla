---------------------------- MODULE C20_Domains ----------------------------
(* Property C20: reference dynamics of the five other built-in domains.                  *)
(*                                                                                      *)
(* The statement asks of WindyGridWorld, CliffWalking, Tiger, LoadUnload and HeavenOrHell *)
(* only that the model they define is well formed (decided by C20_WellFormed on the       *)
(* extracted system).  This module says what their dynamics ARE, step for step as the     *)
(* code computes them, so that a change of behaviour that keeps the model well formed is   *)
(* still noticed (reported as DRIFT, not as a violation).                                 *)
(*                                                                                      *)
(* Instance records (d.dom selects the domain; all probabilities are numerators over      *)
(* Den(d), rewards are rationals <<n, dd>>):                                              *)
(*   "tiger"       CN, CD            coherence CN/CD                                      *)
(*   "loadunload"  n                 number of locations                                  *)
(*   "cliff"       W, H, rows        the fixed 12 x 4 layout (s start, x cliff, g goal)    *)
(*   "windy"       W, H, rows, start, goal, wall (feature sequences), fr (feature rewards),*)
(*                 SC step cost, BC wall bump cost, WN/WD wind probability                 *)
(*   "hoh"         W, H, rows, CN/CD coherence, SC step cost, HR / LR heaven / hell reward *)
(* States are tuples: <<"left">>, <<location, loaded>>, <<x, y>>, <<x, y, heaven>>.        *)
(* (R) The machine walks from the support of the initial distribution through successors   *)
(*     of positive probability and does not leave absorbing states - the set of states it   *)
(*     visits is the state list msdm derives by reachability.  In every visited state TLC   *)
(*     prints the outgoing table (pipeline A: the harness replays every (state, action)     *)
(*     into the real domain object and compares distributions, rewards and observations).   *)
(* (P) Model-level invariants: rows are normalised, the agent stays on the grid, etc.      *)
EXTENDS Num, Json, IOUtils

Batch == JsonDeserialize(IOEnv.BATCH_FILE)

VARIABLES d, cur
vars == <<d, cur>>

\* ------------------------------------------------------------------ grids
InGrid(i, c) == c[1] >= 0 /\ c[1] < i.W /\ c[2] >= 0 /\ c[2] < i.H
\* y upwards, y = 0 is the last text row (GridMDP); "none" outside (feature_at returns None)
TileUp(i, c)   == IF InGrid(i, c) THEN i.rows[i.H - c[2]][c[1] + 1] ELSE "none"
\* y downwards, y = 0 is the first text row (HeavenOrHell)
TileDown(i, c) == IF InGrid(i, c) THEN i.rows[c[2] + 1][c[1] + 1] ELSE "none"
\* locations carrying one of the features, ordered by y then x (the order of the location dictionary)
LocSeq(i) == [k \in 1..(i.W * i.H) |-> <<(k - 1) % i.W, (k - 1) \div i.W>>]
LocsUp(i, fs)   == SelectSeq(LocSeq(i), LAMBDA c : TileUp(i, c) \in fs)
LocsDown(i, fs) == SelectSeq(LocSeq(i), LAMBDA c : TileDown(i, c) \in fs)
FRw(i, f) == IF \E k \in 1..Len(i.fr) : i.fr[k][1] = f
             THEN i.fr[CHOOSE k \in 1..Len(i.fr) : i.fr[k][1] = f][2] ELSE 0
ClampI(x, lo, hi) == IF x < lo THEN lo ELSE IF x > hi THEN hi ELSE x

\* merge outcomes <<t, w, r>> (weight w, integer reward r) that end in the same state:
\* probability = sum of the weights, reward = conditional expectation (a rational)
Merge(outs) ==
  LET ts == {outs[k][1] : k \in 1..Len(outs)}
      wsum(t) == SumTo([k \in 1..Len(outs) |-> IF outs[k][1] = t THEN outs[k][2] ELSE 0], Len(outs))
      rsum(t) == SumTo([k \in 1..Len(outs) |-> IF outs[k][1] = t THEN outs[k][2] * outs[k][3] ELSE 0], Len(outs))
  IN {<<t, wsum(t), IF wsum(t) = 0 THEN <<0, 0>> ELSE Norm(rsum(t), wsum(t))>> : t \in ts}

\* ------------------------------------------------------------------ Tiger
TgActs == << <<"left">>, <<"right">>, <<"listen">> >>
TgDyn(i, s, a) ==
  IF a = <<"listen">> THEN {<<s, 2 * i.CD, <<-1, 1>>>>}
  ELSE LET r == IF s = a THEN -100 ELSE 10 IN
       {<< <<"left">>, i.CD, <<r, 1>> >>, << <<"right">>, i.CD, <<r, 1>> >>}
TgObs(i, a, t) ==
  IF a # <<"listen">> THEN {<<"left", i.CD>>, <<"right", i.CD>>}
  ELSE LET pl == IF t = <<"left">> THEN i.CN ELSE i.CD - i.CN IN
       {<<"left", 2 * pl>>, <<"right", 2 * (i.CD - pl)>>}

\* ------------------------------------------------------------------ LoadUnload
LuActs == << <<-1>>, <<1>> >>
LuNext(i, s, a) ==
  LET loc == ClampI(s[1] + a[1], 0, i.n - 1)
      l1  == IF loc = 0 THEN 0 ELSE s[2]
      l2  == IF loc = i.n - 1 THEN 1 ELSE l1
  IN <<loc, l2>>
LuDyn(i, s, a) == LET t == LuNext(i, s, a) IN {<<t, 1, <<(IF s[2] = 1 /\ t[2] = 0 THEN 1 ELSE 0), 1>>>>}
LuObs(i, a, t) == {<<(IF t[1] = 0 THEN "unload" ELSE IF t[1] = i.n - 1 THEN "load" ELSE "other"), 1>>}

\* ------------------------------------------------------------------ grid actions (GridMDP.actions order)
GrActs == << <<0, -1>>, <<0, 1>>, <<1, 0>>, <<-1, 0>> >>

\* ------------------------------------------------------------------ CliffWalking
ClApply(i, s, a) == <<ClampI(s[1] + a[1], 0, i.W - 1), ClampI(s[2] + a[2], 0, i.H - 1)>>
ClDyn(i, s, a) ==
  LET t == ClApply(i, s, a)
      st == LocsUp(i, {"s"})
  IN IF TileUp(i, t) = "x"
     THEN {<<st[k], 1, <<-100, 1>>>> : k \in 1..Len(st)}
     ELSE {<<t, Len(st), <<-1, 1>>>>}          \* denominators are Len(st) throughout

\* ------------------------------------------------------------------ WindyGridWorld
WgPush(s, f) == IF f = ">" THEN <<s[1] + 1, s[2]>> ELSE IF f = "<" THEN <<s[1] - 1, s[2]>>
                ELSE IF f = "^" THEN <<s[1], s[2] + 1>> ELSE <<s[1], s[2] - 1>>
\* after the wind: sequence of <<location, weight>>
WgWind(i, s) ==
  LET f == TileUp(i, s) IN
  IF f \notin {"^", "v", "<", ">"} THEN << <<s, i.WD>> >>
  ELSE << <<s, i.WD - i.WN>>, <<WgPush(s, f), i.WN>> >>
\* walls: s0 is the state the step started from (not the wind-displaced one)
WgWalls(i, s0, ns, r) ==
  IF TileUp(i, ns) \in Range(i.wall) THEN <<s0, r + i.BC>>
  ELSE LET xout == ns[1] < 0 \/ ns[1] > i.W - 1
           yout == ns[2] < 0 \/ ns[2] > i.H - 1
       IN << <<(IF xout THEN s0[1] ELSE ns[1]), (IF yout THEN s0[2] ELSE ns[2])>>,
             r + (IF xout THEN i.BC ELSE 0) + (IF yout THEN i.BC ELSE 0) >>
WgBranch(i, s0, s1, a) ==
  LET ns == <<s1[1] + a[1], s1[2] + a[2]>>
      w  == WgWalls(i, s0, ns, i.SC)
  IN <<w[1], w[2] + FRw(i, TileUp(i, w[1]))>>
WgDyn(i, s, a) ==
  LET wd == WgWind(i, s) IN
  Merge([k \in 1..Len(wd) |-> LET b == WgBranch(i, s, wd[k][1], a) IN <<b[1], wd[k][2], b[2]>>])

\* ------------------------------------------------------------------ HeavenOrHell
HhActs == << <<0, -1, 0>>, <<0, 1, 0>>, <<-1, 0, 0>>, <<1, 0, 0>>, <<0, 0, 1>> >>
Other(h) == IF h = "g" THEN "h" ELSE "g"
HhNext(i, s, a) ==
  LET n == <<s[1] + a[1], s[2] + a[2]>> IN
  IF TileDown(i, n) = "none" \/ TileDown(i, n) = "#" THEN s ELSE <<n[1], n[2], s[3]>>
HhRew(i, t) == i.SC + (IF TileDown(i, <<t[1], t[2]>>) = t[3] THEN i.HR
                       ELSE IF TileDown(i, <<t[1], t[2]>>) = Other(t[3]) THEN i.LR ELSE 0)
HhDyn(i, s, a) == LET t == HhNext(i, s, a) IN {<<t, i.CD, <<HhRew(i, t), 1>>>>}
HhObs(i, a, t) ==
  IF a[3] = 1 /\ TileDown(i, <<t[1], t[2]>>) = "c"
  THEN {<< <<t[1], t[2], t[3]>>, i.CN >>, << <<t[1], t[2], Other(t[3])>>, i.CD - i.CN >>}
  ELSE {<< <<t[1], t[2], " ">>, i.CD >>}

\* ------------------------------------------------------------------ the common interface
Den(i) == IF i.dom = "tiger" THEN 2 * i.CD ELSE IF i.dom = "loadunload" THEN 1
          ELSE IF i.dom = "cliff" THEN Len(LocsUp(i, {"s"})) ELSE IF i.dom = "windy" THEN i.WD ELSE i.CD
Acts(i) == IF i.dom = "tiger" THEN TgActs ELSE IF i.dom = "loadunload" THEN LuActs
           ELSE IF i.dom = "hoh" THEN HhActs ELSE GrActs
Dyn(i, s, a) == IF i.dom = "tiger" THEN TgDyn(i, s, a) ELSE IF i.dom = "loadunload" THEN LuDyn(i, s, a)
                ELSE IF i.dom = "cliff" THEN ClDyn(i, s, a) ELSE IF i.dom = "windy" THEN WgDyn(i, s, a)
                ELSE HhDyn(i, s, a)
IsPomdp(i) == i.dom \in {"tiger", "loadunload", "hoh"}
Obs(i, a, t) == IF i.dom = "tiger" THEN TgObs(i, a, t) ELSE IF i.dom = "loadunload" THEN LuObs(i, a, t)
                ELSE HhObs(i, a, t)
Absorbing(i, s) ==
  IF i.dom = "cliff" THEN TileUp(i, s) = "g"
  ELSE IF i.dom = "windy" THEN TileUp(i, s) \in Range(i.goal)
  ELSE IF i.dom = "hoh" THEN TileDown(i, <<s[1], s[2]>>) \in {"g", "h"}
  ELSE FALSE
\* initial distribution: set of <<state, weight>> (uniform: weight 1 each)
InitD(i) ==
  IF i.dom = "tiger" THEN {<< <<"left">>, 1 >>, << <<"right">>, 1 >>}
  ELSE IF i.dom = "loadunload" THEN {<< <<0, 0>>, 1 >>}
  ELSE IF i.dom = "cliff" THEN LET st == LocsUp(i, {"s"}) IN {<<st[k], 1>> : k \in 1..Len(st)}
  ELSE IF i.dom = "windy" THEN LET st == LocsUp(i, Range(i.start)) IN {<<st[k], 1>> : k \in 1..Len(st)}
  ELSE LET s0 == LocsDown(i, {"s"})[1] IN {<< <<s0[1], s0[2], "g">>, 1 >>, << <<s0[1], s0[2], "h">>, 1 >>}

\* (R) ownership: the queries whose result is a new object on every call, so that a caller editing a
\* returned container in place does not edit the model.  LoadUnload.actions hands out the class-level
\* action list (the same object every time).  Implementation-shaped: differences are DRIFT.
Fresh(i) == {"initial_state_dist", "next_state_dist", "observation_dist"}
            \cup (IF i.dom = "loadunload" THEN {} ELSE {"actions"})

\* ------------------------------------------------------------------ machine
Init ==
  /\ d \in {[Batch[k] EXCEPT !.iid = k] : k \in 1..Len(Batch)}
  /\ cur \in {e[1] : e \in InitD(d)}

Step(a) ==
  /\ ~Absorbing(d, cur)
  /\ \E o \in Dyn(d, cur, a) : o[2] > 0 /\ cur' = o[1]
  /\ UNCHANGED d

Next == \E k \in 1..Len(Acts(d)) : Step(Acts(d)[k])
Spec == Init /\ [][Next]_vars

\* ------------------------------------------------------------------ emission (pipeline A)
Emit ==
  PrintT(ToJson([iid |-> d.iid, s |-> cur, abs |-> IF Absorbing(d, cur) THEN 1 ELSE 0, den |-> Den(d),
                 rows |-> [k \in 1..Len(Acts(d)) |-> [a |-> Acts(d)[k], outs |-> Dyn(d, cur, Acts(d)[k])]],
                 obs |-> IF IsPomdp(d) THEN [k \in 1..Len(Acts(d)) |-> Obs(d, Acts(d)[k], cur)] ELSE <<>>,
                 init |-> InitD(d), fresh |-> Fresh(d)]))

\* ------------------------------------------------------------------ (P) model-level properties
SumW(S) == LET RECURSIVE Go(_)
               Go(R) == IF R = {} THEN 0 ELSE LET x == CHOOSE y \in R : TRUE IN x[2] + Go(R \ {x})
           IN Go(S)
\* every row of the model is a distribution over Den(d)
ModelNormalised ==
  \A k \in 1..Len(Acts(d)) :
    LET o == Dyn(d, cur, Acts(d)[k]) IN
    /\ SumW({<<x[1], x[2]>> : x \in o}) = Den(d)
    /\ \A x \in o : x[2] >= 0
ModelObsNormalised ==
  IsPomdp(d) => \A k \in 1..Len(Acts(d)) : SumW(Obs(d, Acts(d)[k], cur)) = Den(d) /\ \A x \in Obs(d, Acts(d)[k], cur) : x[2] >= 0
\* the agent stays on the grid
OnGrid ==
  /\ d.dom \in {"cliff", "windy", "hoh"} => InGrid(d, <<cur[1], cur[2]>>)
  /\ d.dom = "loadunload" => (cur[1] >= 0 /\ cur[1] <= d.n - 1)
\* a load is carried exactly between the two ends (more than one location)
LoadDiscipline ==
  (d.dom = "loadunload" /\ d.n > 1) => /\ (cur[1] = 0 => cur[2] = 0)
                                        /\ (cur[1] = d.n - 1 => cur[2] = 1)
Dist(c, e) == AbsI(c[1] - e[1]) + AbsI(c[2] - e[2])
\* heaven and hell never swap during an episode; the cliff resets to a start cell
HeavenFixed == [][d.dom = "hoh" => cur'[3] = cur[3]]_vars
CliffResets == [][(d.dom = "cliff" /\ Dist(cur, cur') > 1) => TileUp(d, cur') = "s"]_vars
\* in a windy grid one step moves the agent at most two cells (wind + action)
WindBounded == [][d.dom = "windy" => Dist(cur, cur') <= 2]_vars
=============================================================================
