----------------------------- MODULE C04_LRTDP -----------------------------
(* Property C04: LRTDP stays an upper bound and ends within the error margin of optimal. *)
(*                                                                                      *)
(* (M) abstract problem: an MDP instance record as in lib/MDP.tla plus the run           *)
(*     configuration of msdm.algorithms.lrtdp.LRTDP:                                     *)
(*       KB      values live in units of 1/2^KB (exact dyadic fixed point, DESIGN 4.1)   *)
(*       EPS     bellman_error_margin in those units                                     *)
(*       L       max_trial_length                                                        *)
(*       h[s]    heuristic in units (deliberately non-zero at absorbing states)          *)
(*       aord[s] the order in which mdp.actions(s) lists the available actions           *)
(*       rand    1 iff randomize_action_order (the order of a state is then any          *)
(*               permutation, fixed once = every seed of the private shuffle)            *)
(*       i0[s]   1 iff s is listed in initial_state_dist().support (p0[s] may be 0;      *)
(*               such entries take no part in the stop test or the initial value)        *)
(*       zl,lst  zl = 1: successor distributions list zero-probability entries for the   *)
(*               states with lst[s] = 1 (DictDistribution with explicit zeros)           *)
(* (O) oracle: MDP!OptimalValue, PolicyValue, StepsValue (exact rationals), extended to  *)
(*     four non-absorbing states by a 4x4 Cramer solve (OptimalValueX ...).               *)
(* (R) reference machine, one action per step of lrtdp.py:                               *)
(*       StartTrial  lrtdp(): stop test over the initial states of positive probability, *)
(*                   sample s0                                                           *)
(*       TrialStep   lrtdp_trial(): Bellman update, greedy action = first maximiser in   *)
(*                   the state's fixed order, sampled successor, absorbing => solved,    *)
(*                   length cap                                                          *)
(*       EndTrial    the listener point end_of_lrtdp_trial                               *)
(*       CheckStep   one visited.pop() + _check_solved (open/closed labelling, residual  *)
(*                   test, label all or update in reverse)                               *)
(*       Finish      _tear_down_plan_on: the planner's own greedy action (first          *)
(*                   maximiser in the stored order) at every state with a stored action  *)
(*                   order (seen: updated states and everything _check_solved looked     *)
(*                   at); at states the run never saw, uniform over the maximisers of    *)
(*                   the look-ahead on the final values (absorbing successors worth 0);  *)
(*                   initial value with absorbing initial states worth 0                 *)
(*     Sampling with the seeded generator = nondeterministic choice (every seed = every  *)
(*     history).  V is total (defaultdict2: where nothing is stored it reads 0 at an      *)
(*     absorbing state and the heuristic elsewhere - so an absorbing state met by the     *)
(*     labelling procedure passes the residual test without ever being stored), upd       *)
(*     is the set of stored keys.                                                        *)
(* (P) properties: bottom of the module.                                                 *)
(* Modes (per batch record, field mode):                                                 *)
(*   "mc"    explore every history of the machine, check (P), emit one record per        *)
(*           terminal state with the history that led there (replayed into msdm)         *)
(*   "trace" the choices come from a trace recorded from the real code (script), the     *)
(*           recorded snapshots of V / solved must equal the machine's after every trial *)
(*   "judge" no machine: exact evaluation of a policy returned by the real code (pol)    *)
(*   "judge2" the same for two-scale rewards r = 2^ka * RA + 2^kb * RB (ka - kb >= 19:    *)
(*           step costs of 5e5 next to costs of 2e-4, or unit costs next to 1e-9): the    *)
(*           32-bit arithmetic cannot hold such numbers, so the scale stays symbolic: the *)
(*           oracle is the lexicographic optimum over (RA, RB) and values are pairs       *)
(* The discount may be 0 (GN = 0): a legal, myopic discounted criterion.                  *)
(* oracle = 0 in a record skips the optimal-value oracle (the driver then takes it from   *)
(* another record of the same instance).                                                 *)
EXTENDS MDP, Json, IOUtils

Batch == JsonDeserialize(IOEnv.BATCH_FILE)

VARIABLES iid, V, upd, solved, seen, lact, ord, stack, pc, inexact, hist, ntr, mism, orc, term
vars == <<iid, V, upd, solved, seen, lact, ord, stack, pc, inexact, hist, ntr, mism, orc, term>>

M == Batch[iid]
ModeOf(m) == m.mode

\* ------------------------------------------------------------------ fixed point arithmetic
SC(m) == 2^(m.KB)
DQ(m) == m.PD * m.GD
IsAbs(m, s) == m.abs[s] = 1
\* numerator over PD*GD of Q(s, a): zero at absorbing s, zero future value at absorbing successors
QNum(m, v, s, a) ==
  IF IsAbs(m, s) THEN 0
  ELSE SumTo([t \in St(m) |-> IF m.P[s][a][t] = 0 THEN 0
                              ELSE m.P[s][a][t] * (m.R[s][a][t] * SC(m) * m.GD
                                                   + m.GN * (IF IsAbs(m, t) THEN 0 ELSE v[t]))], m.N)
QExact(m, v, s, a) == QNum(m, v, s, a) % DQ(m) = 0
Qv(m, v, s, a) == QNum(m, v, s, a) \div DQ(m)
AllExact(m, v, s) == \A a \in Avail(m, s) : QExact(m, v, s, a)
MaxQ(m, v, s) == MaxSet({Qv(m, v, s, a) : a \in Avail(m, s)})
\* python max(action_list, key=Q): the first maximiser in the state's order
Greedy(m, v, o, s) ==
  LET sq == o[s]
      mx == MaxQ(m, v, s)
      i  == CHOOSE i \in 1..Len(sq) : Qv(m, v, s, sq[i]) = mx /\ \A j \in 1..(i - 1) : Qv(m, v, s, sq[j]) # mx
  IN sq[i]
Upd(m, v, s) == [v EXCEPT ![s] = MaxQ(m, v, s)]
\* successors that can be sampled / entries listed in the support (ascending, zero entries if zl)
PosSucc(m, s, a) == {t \in St(m) : m.P[s][a][t] > 0}
SuppSeq(m, s, a) == SeqOfSet({t \in St(m) : m.P[s][a][t] > 0 \/ (m.zl = 1 /\ m.lst[t] = 1)}, m.N)
InitPos(m)    == {s \in St(m) : m.p0[s] > 0}
InitListed(m) == {s \in St(m) : m.i0[s] = 1}

\* ------------------------------------------------------------------ _check_solved as one macro step
RECURSIVE CS(_, _, _, _, _, _, _)
CS(m, v, o, slv, open, closed, flag) ==
  IF open = <<>> THEN <<closed, flag>>
  ELSE LET s       == open[Len(open)]
           open1   == SubSeq(open, 1, Len(open) - 1)
           closed1 == Append(closed, s)
           a       == Greedy(m, v, o, s)
           res     == v[s] - Qv(m, v, s, a)
       IN IF AbsI(res) > m.EPS THEN CS(m, v, o, slv, open1, closed1, FALSE)
          ELSE LET new == SelectSeq(SuppSeq(m, s, a),
                                    LAMBDA t : t \notin slv /\ t \notin Range(open1) /\ t \notin Range(closed1))
               IN CS(m, v, o, slv, open1 \o new, closed1, flag)
\* exactness of everything CS looked at
RECURSIVE CSExact(_, _, _)
CSExact(m, v, closed) == \A i \in 1..Len(closed) : AllExact(m, v, closed[i])
RECURSIVE UpdRev(_, _, _)
UpdRev(m, v, closed) ==
  IF closed = <<>> THEN v ELSE UpdRev(m, Upd(m, v, closed[Len(closed)]), SubSeq(closed, 1, Len(closed) - 1))
RECURSIVE ExactRev(_, _, _)
ExactRev(m, v, closed) ==
  IF closed = <<>> THEN TRUE
  ELSE AllExact(m, v, closed[Len(closed)])
       /\ ExactRev(m, Upd(m, v, closed[Len(closed)]), SubSeq(closed, 1, Len(closed) - 1))

\* ------------------------------------------------------------------ guarded rational comparisons
\* <<ok, n, d>>: ok = FALSE when a product would leave 30 bits; comparisons then answer "unk"
\* (counted, never a verdict, never an evaluation error)
Fits(a, b) == b = 0 \/ AbsI(a) <= LIM \div AbsI(b)
GR(x) == IF IsFin(x) THEN <<TRUE, x[1], x[2]>> ELSE <<FALSE, 0, 1>>
GInt(n, d) == LET r == Norm(n, d) IN <<TRUE, r[1], r[2]>>
GMul(x, y) ==
  IF ~x[1] \/ ~y[1] THEN <<FALSE, 0, 1>>
  ELSE LET g1 == GCD(x[2], y[3]) g2 == GCD(y[2], x[3])
           a == x[2] \div (IF g1 = 0 THEN 1 ELSE g1)  d == y[3] \div (IF g1 = 0 THEN 1 ELSE g1)
           b == y[2] \div (IF g2 = 0 THEN 1 ELSE g2)  c == x[3] \div (IF g2 = 0 THEN 1 ELSE g2)
       IN IF Fits(a, b) /\ Fits(c, d) THEN <<TRUE, a * b, c * d>> ELSE <<FALSE, 0, 1>>
GSub(x, y) ==
  IF ~x[1] \/ ~y[1] THEN <<FALSE, 0, 1>>
  ELSE LET g == GCD(x[3], y[3])
           fx == y[3] \div g fy == x[3] \div g
       IN IF Fits(x[2], fx) /\ Fits(y[2], fy) /\ Fits(x[3], fx)
          THEN LET n == x[2] * fx - y[2] * fy IN
               IF AbsI(n) <= LIM THEN LET r == Norm(n, x[3] * fx) IN <<TRUE, r[1], r[2]>> ELSE <<FALSE, 0, 1>>
          ELSE <<FALSE, 0, 1>>
\* x <= y ?  "ok" | "bad" | "unk"
GLeq(x, y) == LET dlt == GSub(x, y) IN IF ~dlt[1] THEN "unk" ELSE IF dlt[2] <= 0 THEN "ok" ELSE "bad"
AllOf(S) == IF "bad" \in S THEN "bad" ELSE IF "unk" \in S THEN "unk" ELSE "ok"

\* ------------------------------------------------------------------ oracle bundle (computed once per behaviour)
CeilDiv(n, d) == -((-n) \div d)       \* d > 0
HBackup(m, s) == MaxSet({QNum(m, m.h, s, a) : a \in Avail(m, s)})
\* ---- oracle for four non-absorbing states (MDP!Solve stops at 3): Cramer with a 4x4 determinant by Laplace
\* expansion over the closed 3x3 form.  Only for proper MDPs (every non-absorbing state is transient under
\* every policy: no classification needed; a singular system = an improper policy).
Minor4(mt, i, j) == [r \in 1..3 |-> [c \in 1..3 |-> mt[IF r < i THEN r ELSE r + 1][IF c < j THEN c ELSE c + 1]]]
Det4(mt) == SumTo([j \in 1..4 |-> Sign(1, j) * mt[1][j] * Det(Minor4(mt, 1, j), 3)], 4)
ReplCol(mt, j, b) == [r \in 1..4 |-> [c \in 1..4 |-> IF c = j THEN b[r] ELSE mt[r][c]]]
Big(m) == Cardinality(NonAbs(m)) = 4
Lin4(m, w, QD, gn, gd, rhs) ==        \* solves (gd*PD*QD*I - gn*Ppi) x = rhs on the non-absorbing states
  LET ts  == SeqOfSet(NonAbs(m), m.N)
      mt  == TLCEval([i \in 1..4 |-> [j \in 1..4 |-> (IF i = j THEN gd * m.PD * QD ELSE 0) - gn * PPi(m, w, ts[i], ts[j])]])
      b   == TLCEval([i \in 1..4 |-> rhs[ts[i]]])
      det == Det4(mt)
  IN [s \in St(m) |-> IF s \in ExplAbs(m) THEN <<0, 1>>
                       ELSE IF det = 0 THEN POS
                       ELSE Norm(Det4(ReplCol(mt, IndexOf(ts, s), b)), det)]
PolicyValueX(m, w, QD) ==
  IF ~Big(m) THEN PolicyValue(m, w, QD)
  ELSE Lin4(m, w, QD, m.GN, m.GD, [s \in St(m) |-> IF s \in ExplAbs(m) THEN 0 ELSE m.GD * RPi(m, w, s)])
StepsValueX(m, w, QD) ==
  IF ~Big(m) THEN StepsValue(m, w, QD)
  ELSE Lin4(m, w, QD, 1, 1, [s \in St(m) |-> m.PD * QD])
OptimalValueX(m) ==
  IF ~Big(m) THEN OptimalValue(m)
  ELSE LET vals == TLCEval({TLCEval(PolicyValueX(m, AsWeights(m, pi), 1)) : pi \in DetPols(m)})
       IN IF Discounted(m)
          THEN LET good == {v \in vals : SatisfiesOptimality(m, v)} IN
               IF good = {} THEN Assert(FALSE, "no optimal deterministic policy found") ELSE CHOOSE v \in good : TRUE
          ELSE [s \in St(m) |-> RMaxSet({v[s] : v \in vals})]

Oracle(m) ==
  LET vs == TLCEval(OptimalValueX(m)) IN
  [vstar  |-> vs,
   \* lo[s] = the smallest value in units that is >= V*(s) (-LIM when it cannot be computed in 30 bits)
   lo     |-> [s \in St(m) |-> IF IsFin(vs[s]) /\ Fits(vs[s][1], SC(m)) THEN CeilDiv(vs[s][1] * SC(m), vs[s][2]) ELSE -LIM],
   vinit  |-> InitialValue(m, vs),
   proper |-> \A pi \in DetPols(m) : LET st == TLCEval(StepsValueX(m, AsWeights(m, pi), 1)) IN \A s \in NonAbs(m) : st[s] # POS,
   \* admissible: h >= V* everywhere (0 at absorbing states)
   adm    |-> AllOf({GLeq(GR(vs[s]), GInt(m.h[s], SC(m))) : s \in St(m)}),
   \* monotone (consistent): one backup of h does not exceed h at any non-absorbing state
   mono   |-> \A s \in NonAbs(m) : HBackup(m, s) <= m.h[s] * DQ(m)]
NoOracle == [vstar |-> <<>>, lo |-> <<>>, vinit |-> <<0, 1>>, proper |-> TRUE, adm |-> "ok", mono |-> TRUE]

\* ------------------------------------------------------------------ the returned policy and its exact evaluation
\* support of the returned policy at the non-absorbing states: at every state the planner has fixed an
\* action order for (sn = keys of res.action_orders: the updated states and every state _check_solved
\* looked at) it is the planner's own greedy action - the first maximiser in that order, the one the labels
\* certify; only at states the run never saw it is uniform over all maximisers of the same look-ahead
\* (final values, heuristic where nothing is stored, absorbing successors worth 0).
\* (m.repair = 0 gives the behaviour before that repair: deterministic only where a value is stored.)
\* (m.repair = 2: a proposed further repair - a labelled state plays the action its label certified, la[s],
\*  instead of the arg-max recomputed from the final values)
RetSup(m, v, u, sn, o, la) ==
  [s \in NonAbs(m) |->
     IF m.repair = 2 /\ la[s] # 0 THEN {la[s]}
     ELSE IF s \in u \/ (m.repair >= 1 /\ s \in sn) THEN {Greedy(m, v, o, s)}
     ELSE LET mx == MaxSet({QNum(m, v, s, a) : a \in Avail(m, s)}) IN {a \in Avail(m, s) : QNum(m, v, s, a) = mx}]
QDof(m, sup) == IF \A s \in NonAbs(m) : Cardinality(sup[s]) = 1 THEN 1
                ELSE IF \A s \in NonAbs(m) : Cardinality(sup[s]) \in {1, 2} THEN 2 ELSE 6
Weights(m, sup, qd) == [s \in NonAbs(m) |-> [a \in Ac(m) |-> IF a \in sup[s] THEN qd \div Cardinality(sup[s]) ELSE 0]]
\* exact evaluation bundle of a policy given by its support sets
Evaluate(m, sup) ==
  LET qd == QDof(m, sup)
      w  == TLCEval(Weights(m, sup, qd))
      pv == PolicyValueX(m, w, qd)
      st == StepsValueX(m, w, qd)
  IN [pv |-> pv, steps |-> st, pinit |-> InitialValue(m, pv), ninit |-> InitialValue(m, st)]

\* clause: V(s0) - V*(s0) <= margin * N^pi(s0) at the non-absorbing initial states
GapClause(m, v, vstar, ev) ==
  AllOf({ GLeq(GSub(GSub(GInt(v[s], SC(m)), GR(vstar[s])), GMul(GInt(m.EPS, SC(m)), GR(ev.steps[s]))), <<TRUE, 0, 1>>)
          : s \in InitPos(m) \ ExplAbs(m) } \cup {"ok"})
\* clause: V*(p0) - V^pi(p0) <= margin * N^pi(p0)
ReturnClause(m, vinit, ev) ==
  GLeq(GSub(GSub(GR(vinit), GR(ev.pinit)), GMul(GInt(m.EPS, SC(m)), GR(ev.ninit))), <<TRUE, 0, 1>>)
\* clause: values never below the optimum
UpperClause(m, v, vstar) == AllOf({GLeq(GR(vstar[s]), GInt(v[s], SC(m))) : s \in St(m)})
\* the initial value the code reports: sum p0 * V over the initial states of positive probability, absorbing
\* ones worth 0 (numerator over ID * SC)
InitValNum(m, v) == SumTo([s \in St(m) |-> IF IsAbs(m, s) THEN 0 ELSE m.p0[s] * v[s]], m.N)
\* clause: absorbing states are worth 0 wherever the result can be read: the value table (stored or
\* defaulted) at every absorbing state, and the initial value is the expectation over the non-absorbing
\* initial states only
AbsZeroClause(m, v, u) ==
  /\ \A s \in ExplAbs(m) : v[s] = 0
  /\ InitValNum(m, v) = SumTo([s \in St(m) |-> IF s \in ExplAbs(m) THEN 0 ELSE m.p0[s] * v[s]], m.N)

\* ------------------------------------------------------------------ histories / scripts
\* a choice is a record [k, s, a, t]: k = 0 initial sample t; k = 1 successor t of (s, a)
Choice(k, s, a, t) == [k |-> k, s |-> s, a |-> a, t |-> t]
Scripted(m) == ModeOf(m) = "trace"
HasNext(m) == Len(hist.ch) < Len(m.script)
NextCh(m) == m.script[Len(hist.ch) + 1]
\* snapshot comparison (trace mode): the recorded keys / values / labels equal the machine's
SnapOK(m, k, v, u, slv) ==
  /\ k <= Len(m.snaps)
  /\ LET sn == m.snaps[k] IN
     /\ Range(sn.keys) = u
     /\ \A s \in u : sn.vals[s] = v[s]
     /\ Range(sn.solved) = slv
Mark(m, k, v, u, slv) == IF mism = 0 /\ Scripted(m) /\ ~SnapOK(m, k, v, u, slv) THEN k ELSE mism

\* ------------------------------------------------------------------ machine
PermSeqs(sq) == {p \in [1..Len(sq) -> Range(sq)] : Range(p) = Range(sq)}
Orders(m) == IF m.rand = 1 /\ ModeOf(m) = "mc"
             THEN [St(m) -> UNION {PermSeqs(m.aord[t]) : t \in St(m)}]
             ELSE {[s \in St(m) |-> m.aord[s]]}

Init ==
  /\ iid \in 1..Len(Batch)
  /\ ord \in {o \in Orders(Batch[iid]) : \A s \in St(Batch[iid]) : o[s] \in PermSeqs(Batch[iid].aord[s])}
  /\ V = [s \in St(Batch[iid]) |-> IF IsAbs(Batch[iid], s) THEN 0 ELSE Batch[iid].h[s]]
  /\ upd = {} /\ solved = {} /\ seen = {} /\ stack = <<>> /\ inexact = FALSE
  /\ lact = [s \in St(Batch[iid]) |-> 0]
  /\ pc = IF ModeOf(Batch[iid]) \in {"judge", "judge2"} THEN ModeOf(Batch[iid]) ELSE "idle"
  /\ hist = [ch |-> <<>>, fail |-> 0, succ |-> 0]
  /\ ntr = 0 /\ mism = 0
  /\ orc = IF Batch[iid].oracle = 0 THEN NoOracle ELSE Oracle(Batch[iid])
  /\ term = <<>>

AllInitSolved == \A s \in InitListed(M) : M.p0[s] > 0 => s \in solved

\* lrtdp(): stop test (entries of probability 0 in the listed support do not count), then sample the
\* start of a trial
StartTrial ==
  /\ pc = "idle" /\ ~AllInitSolved
  /\ IF Scripted(M) /\ (~HasNext(M) \/ NextCh(M).k # 0 \/ NextCh(M).t \notin InitPos(M))
     THEN pc' = "diverged" /\ UNCHANGED <<stack, hist, ntr, mism>>
     ELSE \E s0 \in InitPos(M) :
            /\ Scripted(M) => s0 = NextCh(M).t
            /\ stack' = <<s0>>
            /\ pc' = IF s0 \in solved THEN "eot" ELSE "trial"
            /\ hist' = [hist EXCEPT !.ch = Append(@, Choice(0, 0, 0, s0))]
            /\ ntr' = IF Scripted(M) THEN ntr + 1 ELSE ntr
            /\ mism' = Mark(M, ntr + 1, V, upd, solved)
  /\ UNCHANGED <<iid, V, upd, solved, seen, lact, ord, inexact, orc, term>>

\* one pass of the while loop of lrtdp_trial (the top of the stack is not solved)
TrialStep ==
  /\ pc = "trial"
  /\ LET s  == stack[Len(stack)]
         v1 == Upd(M, V, s)
         a  == Greedy(M, v1, ord, s)
     IN /\ V' = v1 /\ upd' = upd \cup {s} /\ seen' = seen \cup {s}
        /\ inexact' = (inexact \/ ~AllExact(M, V, s) \/ ~AllExact(M, v1, s))
        /\ IF Scripted(M) /\ (~HasNext(M) \/ NextCh(M).k # 1 \/ NextCh(M).s # s \/ NextCh(M).a # a
                              \/ NextCh(M).t \notin PosSucc(M, s, a))
           THEN pc' = "diverged" /\ UNCHANGED <<stack, solved, hist>>
           ELSE \E t \in PosSucc(M, s, a) :
                  /\ Scripted(M) => t = NextCh(M).t
                  /\ stack' = Append(stack, t)
                  /\ solved' = IF IsAbs(M, t) THEN solved \cup {t} ELSE solved
                  /\ pc' = IF Len(stack) + 1 > M.L \/ t \in solved \/ IsAbs(M, t) THEN "eot" ELSE "trial"
                  /\ hist' = [hist EXCEPT !.ch = Append(@, Choice(1, s, a, t))]
  /\ UNCHANGED <<iid, lact, ord, ntr, mism, orc, term>>

\* listener point end_of_lrtdp_trial (between the trial loop and the labelling loop)
EndTrial ==
  /\ pc = "eot" /\ pc' = "check"
  /\ ntr' = IF Scripted(M) THEN ntr + 1 ELSE ntr
  /\ mism' = Mark(M, ntr + 1, V, upd, solved)
  /\ UNCHANGED <<iid, V, upd, solved, seen, lact, ord, stack, inexact, hist, orc, term>>

\* s = visited.pop(); _check_solved(s); continue popping while it succeeds
CheckStep ==
  /\ pc = "check"
  /\ LET s      == stack[Len(stack)]
         rest   == SubSeq(stack, 1, Len(stack) - 1)
         r      == CS(M, V, ord, solved, IF s \in solved THEN <<>> ELSE <<s>>, <<>>, TRUE)
         closed == r[1]
         flag   == r[2]
     IN /\ seen' = seen \cup Range(closed)         \* policy() is called on every state that enters `closed`
        \* ghost: the action the residual test certified when the state was labelled (the code does not keep it)
        /\ lact' = IF flag THEN [t \in St(M) |-> IF t \in Range(closed) THEN Greedy(M, V, ord, t) ELSE lact[t]] ELSE lact
        /\ IF flag
           THEN /\ solved' = solved \cup Range(closed) /\ V' = V /\ upd' = upd
                /\ inexact' = (inexact \/ ~CSExact(M, V, closed))
                /\ hist' = IF closed # <<>> THEN [hist EXCEPT !.succ = 1] ELSE hist
           ELSE /\ solved' = solved /\ V' = UpdRev(M, V, closed) /\ upd' = upd \cup Range(closed)
                /\ inexact' = (inexact \/ ~CSExact(M, V, closed) \/ ~ExactRev(M, V, closed))
                /\ hist' = [hist EXCEPT !.fail = 1]
        /\ IF flag /\ rest # <<>> THEN pc' = "check" /\ stack' = rest ELSE pc' = "idle" /\ stack' = <<>>
  /\ UNCHANGED <<iid, ord, ntr, mism, orc, term>>

\* the result bundle of a terminal state: the returned policy, its exact evaluation and the verdicts of
\* the end-of-run clauses (computed once, when lrtdp() returns)
\* "label-consistent" policy: the greedy action of the final values at every state (what the labelling
\* procedure certified); differs from the returned policy only at states without a stored value
TermBundle(m, v, u, sn, o, la, oc) ==
  LET sup  == TLCEval(RetSup(m, v, u, sn, o, la))
      sup2 == TLCEval([s \in NonAbs(m) |-> {Greedy(m, v, o, s)}])
      ev   == Evaluate(m, sup)
      ev2  == IF sup2 = sup THEN ev ELSE Evaluate(m, sup2)
      has  == oc.vstar # <<>>
  IN [sup |-> sup, pv |-> ev.pv, steps |-> ev.steps, pinit |-> ev.pinit, ninit |-> ev.ninit,
      ivn |-> InitValNum(m, v),
      gap |-> IF has THEN GapClause(m, v, oc.vstar, ev) ELSE "unk",
      ret |-> IF has THEN ReturnClause(m, oc.vinit, ev) ELSE "unk",
      fallback |-> sup2 # sup,
      \* signature predicate "greedy flip": some labelled state's arg-max on the final values is no longer the
      \* action its label certified (possible only when values can rise, i.e. the heuristic is not monotone)
      flip |-> {s \in NonAbs(m) : la[s] # 0 /\ Greedy(m, v, o, s) # la[s]},
      gap2 |-> IF has THEN GapClause(m, v, oc.vstar, ev2) ELSE "unk",
      ret2 |-> IF has THEN ReturnClause(m, oc.vinit, ev2) ELSE "unk",
      abszero |-> AbsZeroClause(m, v, u)]

\* lrtdp() returns, _tear_down_plan_on assembles the result
Finish ==
  /\ pc = "idle" /\ AllInitSolved
  /\ pc' = IF Scripted(M) /\ HasNext(M) THEN "diverged" ELSE "done"
  /\ ntr' = IF Scripted(M) THEN ntr + 1 ELSE ntr
  /\ mism' = Mark(M, ntr + 1, V, upd, solved)
  /\ term' = IF inexact THEN <<>> ELSE TermBundle(M, V, upd, seen, ord, lact, orc)
  /\ UNCHANGED <<iid, V, upd, solved, seen, lact, ord, stack, inexact, hist, orc>>

JudgeStep == pc \in {"judge", "judge2"} /\ pc' = (IF pc = "judge" THEN "judged" ELSE "judged2") /\ UNCHANGED <<iid, V, upd, solved, seen, lact, ord, stack, inexact, hist, ntr, mism, orc, term>>

Next == StartTrial \/ TrialStep \/ EndTrial \/ CheckStep \/ Finish \/ JudgeStep
Spec == Init /\ [][Next]_vars

\* behaviours that left the exact dyadic grid are cut (counted by the driver through the real runs)
Exactness == ~inexact
\* the history is not part of the explored state in mc mode; in trace mode the position is
View == <<iid, V, upd, solved, seen, lact, ord, stack, pc, inexact, ntr, mism, IF ModeOf(M) = "mc" THEN 0 ELSE Len(hist.ch)>>

\* ------------------------------------------------------------------ (P) properties
Done == pc = "done" /\ term # <<>>
Machine == pc \notin {"judge", "judged", "judge2", "judged2"} /\ ~inexact
\* (P1) the stored and the defaulted values never fall below the optimum (integer form of UpperClause:
\*      orc.lo[s] is the smallest representable value >= V*(s))
Upper == (Machine /\ orc.vstar # <<>>) => \A s \in St(M) : V[s] >= orc.lo[s]
\* (P2) labels are only put on states that pass the residual test together with everything their greedy
\*      action leads to, and labelled states never change value again: whenever the machine is between
\*      trials every labelled non-absorbing state has an action whose residual is within the margin and
\*      whose listed successors are all labelled
SolvedClosed ==
  (Machine /\ pc \in {"idle", "done"}) =>
     \A s \in solved \ ExplAbs(M) :
        \E a \in Avail(M, s) : AbsI(V[s] - Qv(M, V, s, a)) <= M.EPS /\ PosSucc(M, s, a) \subseteq solved
\* (P3) "terminates with all initial states labelled": between trials, while the run goes on, there is
\*      an initial state that can be sampled and is not labelled yet (so every trial can make progress;
\*      entries of probability 0 in the listed support can never starve the loop)
Starved == pc = "idle" /\ ~AllInitSolved /\ InitPos(M) \subseteq solved
CanProgress == Machine => ~Starved
\* (P4) at the end the initial states are within margin * N^pi of the optimum (pi = the returned policy)
GapBound == (Machine /\ Done) => term.gap # "bad"
\* (P5) ... and so is the exact return of the returned policy
ReturnBound == (Machine /\ Done) => term.ret # "bad"
\* (P6) absorbing states are worth 0 in what the result reads, whatever the heuristic says about them:
\*      the value table reads 0 at every absorbing state at all times (stored or not), and at the end
\*      the initial value counts them as 0
AbsorbingZero == /\ Machine => \A s \in ExplAbs(M) : V[s] = 0
                 /\ (Machine /\ Done) => term.abszero
\* design lemma behind (P4)/(P5): the same bounds for the label-consistent policy (first maximiser of the
\* final values everywhere) when the heuristic is monotone - then values only decrease, a labelled state
\* keeps its greedy action and the bounds are theorems (Bonet & Geffner)
\* a labelled state's value never changes, so with a monotone heuristic (values only decrease elsewhere) its
\* certified action stays the arg-max: flips need an admissible heuristic that is not monotone
NoFlipIfMonotone == (Machine /\ Done /\ orc.mono) => term.flip = {}
\* and without a flip the end-of-run bounds are theorems for every admissible heuristic
GapBoundNoFlip    == (Machine /\ Done /\ term.flip = {}) => term.gap # "bad"
ReturnBoundNoFlip == (Machine /\ Done /\ term.flip = {}) => term.ret # "bad"
GapBoundLC    == (Machine /\ Done /\ orc.mono) => term.gap2 # "bad"
ReturnBoundLC == (Machine /\ Done /\ orc.mono) => term.ret2 # "bad"
\* instance filters (evaluated in the initial states): a generator bug must not turn into a verdict
\* MDP!WellFormed with the discount 0 admitted
WellFormed0(m) ==
  /\ \A s \in St(m) : \A a \in Avail(m, s) : SumTo([t \in St(m) |-> m.P[s][a][t]], m.N) = m.PD
  /\ \A s \in St(m) : \A a \in Ac(m) : \A t \in St(m) : m.P[s][a][t] >= 0
  /\ SumTo([s \in St(m) |-> m.p0[s]], m.N) = m.ID
  /\ m.GN >= 0 /\ m.GN <= m.GD
InstancesOK ==
  (upd = {} /\ solved = {} /\ stack = <<>> /\ ntr = 0) =>
     /\ WellFormed0(M) /\ orc.proper /\ orc.adm # "bad"
     /\ \A s \in St(M) : Range(M.aord[s]) = Avail(M, s) /\ Len(M.aord[s]) = Cardinality(Avail(M, s))
     /\ InitPos(M) \subseteq InitListed(M) /\ InitPos(M) # {}

\* ------------------------------------------------------------------ emission
\* mc / trace: one record per terminal state of the machine (the history is replayed into msdm)
TermRecord ==
  [iid |-> iid, tag |-> M.tag, kind |-> ModeOf(M), pc |-> pc,
   v |-> V, upd |-> upd, solved |-> solved, seen |-> seen, ord |-> ord, ch |-> hist.ch, fail |-> hist.fail, succ |-> hist.succ,
   ntr |-> ntr, mism |-> mism, term |-> term,
   vstar |-> orc.vstar, vinit |-> orc.vinit, adm |-> orc.adm, mono |-> orc.mono, proper |-> orc.proper]
DivergedRecord ==
  [iid |-> iid, tag |-> M.tag, kind |-> ModeOf(M), pc |-> pc, inexact |-> inexact, ntr |-> ntr, mism |-> mism,
   at |-> Len(hist.ch), v |-> V, upd |-> upd, solved |-> solved, top |-> IF stack = <<>> THEN 0 ELSE stack[Len(stack)],
   vstar |-> orc.vstar, vinit |-> orc.vinit, adm |-> orc.adm, proper |-> orc.proper, mono |-> orc.mono]
\* judge: exact evaluation of the policy the real code returned (support sets M.pol[s][a] in {0,1})
JudgeRecord ==
  LET sup  == TLCEval([s \in NonAbs(M) |-> {a \in Ac(M) : M.pol[s][a] = 1}])
      ev   == Evaluate(M, sup)
  IN [iid |-> iid, tag |-> M.tag, kind |-> "judge", vstar |-> orc.vstar, vinit |-> orc.vinit, adm |-> orc.adm,
      mono |-> orc.mono, proper |-> orc.proper,
      pv |-> ev.pv, steps |-> ev.steps, pinit |-> ev.pinit, ninit |-> ev.ninit]
\* ---- two-scale rewards (mode "judge2"): values are pairs (A, B) standing for 2^ka * A + 2^kb * B
MA(m) == [m EXCEPT !.R = m.RA]
MB(m) == [m EXCEPT !.R = m.RB]
LexVals(m, w, qd) == <<TLCEval(PolicyValue(MA(m), w, qd)), TLCEval(PolicyValue(MB(m), w, qd))>>
LexGeq(a1, b1, a2, b2) == RLess(a2, a1) \/ (a1 = a2 /\ ~RLess(b1, b2))
\* the lexicographic optimum: a deterministic policy that is lexicographically best at every state at once
LexOracle(m) ==
  LET vals == TLCEval({LexVals(m, AsWeights(m, pi), 1) : pi \in DetPols(m)})
      best == {x \in vals : \A y \in vals : \A s \in NonAbs(m) : LexGeq(x[1][s], x[2][s], y[1][s], y[2][s])}
  IN IF best = {} THEN [ok |-> FALSE, a |-> <<>>, b |-> <<>>]
     ELSE LET x == CHOOSE x \in best : TRUE IN [ok |-> TRUE, a |-> x[1], b |-> x[2]]
Judge2Record ==
  LET sup == TLCEval([s \in NonAbs(M) |-> {a \in Ac(M) : M.pol[s][a] = 1}])
      qd  == QDof(M, sup)
      w   == TLCEval(Weights(M, sup, qd))
      pv  == LexVals(M, w, qd)
      lo  == LexOracle(M)
  IN [iid |-> iid, tag |-> M.tag, kind |-> "judge2", ok |-> lo.ok, astar |-> lo.a, bstar |-> lo.b,
      \* admissible: (hA, hB) lexicographically >= (A*, B*) at every non-absorbing state
      adm |-> lo.ok /\ \A s \in NonAbs(M) : LexGeq(<<M.hA[s][1], M.hA[s][2]>>, <<M.hB[s][1], M.hB[s][2]>>, lo.a[s], lo.b[s]),
      proper |-> \A pi \in DetPols(M) : LET st == TLCEval(StepsValue(M, AsWeights(M, pi), 1)) IN \A s \in NonAbs(M) : st[s] # POS,
      \* consistent (monotone) in the lexicographic sense: no backup of (hA, hB) exceeds it
      mono |-> LET fa == [t \in St(M) |-> <<M.hA[t][1], M.hA[t][2]>>]
                   fb == [t \in St(M) |-> <<M.hB[t][1], M.hB[t][2]>>]
               IN \A s \in NonAbs(M) : \A a \in Avail(M, s) :
                     LexGeq(fa[s], fb[s], QFromV(MA(M), fa, s, a), QFromV(MB(M), fb, s, a)),
      apv |-> pv[1], bpv |-> pv[2], steps |-> StepsValue(M, w, qd)]
Emit ==
  /\ (pc = "done" /\ term # <<>>) => PrintT(ToJson(TermRecord))
  /\ (pc = "diverged" \/ (pc = "done" /\ term = <<>>)) => PrintT(ToJson(DivergedRecord))
  /\ (pc = "judged") => PrintT(ToJson(JudgeRecord))
  /\ (pc = "judged2") => PrintT(ToJson(Judge2Record))
=============================================================================
