------------------------------ MODULE Chain ------------------------------
(* Exact analysis of the Markov chain that a stationary (possibly randomised) policy     *)
(* induces on a finite MDP instance (spec/lib/MDP.tla): closed communicating classes,    *)
(* stationary weights (Markov chain tree theorem: the stationary probability of a state  *)
(* of an irreducible class is proportional to the diagonal cofactor of I - P_C),         *)
(* absorption probabilities of the transient states, long-run average reward (gain),     *)
(* relative values, and the optimal gain by enumeration of the deterministic policies.   *)
(*                                                                                      *)
(* A policy is given by integer weights w[s][a] >= 0 for the states outside `ab`; the    *)
(* probability of a in s is w[s][a] / RowQ(s).  Every row keeps its OWN denominator      *)
(*       RowD(s) = PD * RowQ(s)                                                         *)
(* (MDP!PPi / MDP!RPi are the numerators of the chain row and of the expected reward     *)
(* over RowD(s)), which keeps all determinants small.  The states in `ab` are treated as *)
(* absorbing: their row is zero, their gain and value are 0, whatever ghost dynamics     *)
(* the instance lists for them.                                                         *)
(* All operators are constant-level (data as arguments) so results can be forced with    *)
(* TLCEval.  Sizes: classes of <= 4 states, <= 3 transient states, <= 3 non-absorbing    *)
(* states for the value systems (closed-form determinants of Num.tla).                   *)
EXTENDS MDP

RowQ(m, w, s) == SumTo([a \in Ac(m) |-> w[s][a]], m.K)
RowD(m, w, s) == m.PD * RowQ(m, w, s)
\* one-hot weights of a deterministic decision rule p : states -> actions
OneHot(m, p) == [s \in DOMAIN p |-> [a \in Ac(m) |-> IF p[s] = a THEN 1 ELSE 0]]
\* uniform weights over the support sets sp[s]
UniformOn(m, sp) == [s \in DOMAIN sp |-> [a \in Ac(m) |-> IF a \in sp[s] THEN 1 ELSE 0]]
\* a weight table only uses available actions outside `ab`, and every such row is non-empty
WeightsOK(m, w, ab) ==
  \A s \in St(m) \ ab : /\ RowQ(m, w, s) > 0
                        /\ \A a \in Ac(m) : w[s][a] >= 0 /\ (w[s][a] > 0 => a \in Avail(m, s))

\* ---------------------------------------------------------------- graph of the chain
ChSucc(m, w, ab, s) == IF s \in ab THEN {} ELSE {t \in St(m) : PPi(m, w, s, t) > 0}
RECURSIVE ChReachK(_, _, _, _, _)
ChReachK(m, w, ab, cur, k) ==
  IF k = 0 THEN cur
  ELSE LET nxt == cur \cup UNION {ChSucc(m, w, ab, t) : t \in cur} IN
       IF nxt = cur THEN cur ELSE ChReachK(m, w, ab, nxt, k - 1)
\* states reachable from s in >= 1 steps (absorbing states are not expanded)
ChReach(m, w, ab, s) == ChReachK(m, w, ab, ChSucc(m, w, ab, s), m.N)
ReachTab(m, w, ab) == TLCEval([s \in St(m) |-> ChReach(m, w, ab, s)])
\* recurrent states outside `ab`: everything they reach leads back (so no absorbing state is reachable);
\* the closed communicating class of such a state s is rch[s]
RecStates(m, ab, rch) == {s \in St(m) \ ab : rch[s] # {} /\ \A t \in rch[s] : t \notin ab /\ s \in rch[t]}
\* representatives (smallest member) of the closed classes, ascending
ClassReps(m, ab, rch) == SeqOfSet({MinSet(rch[s]) : s \in RecStates(m, ab, rch)}, m.N)

\* ---------------------------------------------------------------- one closed class
\* A = diag(RowD) - numerators of P restricted to the class cs (ascending sequence of its states)
ClassMat(m, w, cs) ==
  LET k == Len(cs) IN
  TLCEval([i \in 1..k |-> [j \in 1..k |-> (IF i = j THEN RowD(m, w, cs[i]) ELSE 0) - PPi(m, w, cs[i], cs[j])]])
\* principal minor: determinant of A without row i and column i (k <= 4)
PrincipalMinor(A, k, i) ==
  LET idx == SelectSeq([p \in 1..k |-> p], LAMBDA p : p # i)
      sub == [p \in 1..(k - 1) |-> [q \in 1..(k - 1) |-> A[idx[p]][idx[q]]]]
  IN Det(sub, k - 1)
\* tree weights: the stationary probability of cs[i] is TreeW[i] * RowD(cs[i]) / sum_j TreeW[j] * RowD(cs[j])
\* (row i of A is RowD(cs[i]) times row i of I - P, so a principal minor of A is the cofactor of I - P
\*  times the product of the other rows' denominators)
TreeW(m, w, cs) ==
  LET k == Len(cs) A == ClassMat(m, w, cs) IN TLCEval([i \in 1..k |-> PrincipalMinor(A, k, i)])
Stationary(m, w, cs) ==
  LET k == Len(cs) tw == TreeW(m, w, cs)
      tot == SumTo([i \in 1..k |-> tw[i] * RowD(m, w, cs[i])], k)
  IN [i \in 1..k |-> Norm(Safe(tw[i] * RowD(m, w, cs[i])), Safe(tot))]
\* gain of the class = sum_i pi_i r_i = sum_i TreeW[i] * RPi(cs[i]) / sum_i TreeW[i] * RowD(cs[i])
ClassGain(m, w, cs) ==
  LET k == Len(cs) tw == TreeW(m, w, cs) IN
  Norm(Safe(SumTo([i \in 1..k |-> Safe(tw[i] * RPi(m, w, cs[i]))], k)),
       Safe(SumTo([i \in 1..k |-> Safe(tw[i] * RowD(m, w, cs[i]))], k)))

\* ---------------------------------------------------------------- the whole chain
\* record: g (gain per state), ncls (number of closed classes outside ab), rec, trans, reps,
\*         absorb[c][s] = probability that the chain started in s ends in class number c
ChainInfo(m, w, ab) ==
  LET rch  == ReachTab(m, w, ab)
      rec  == RecStates(m, ab, rch)
      reps == ClassReps(m, ab, rch)
      nc   == Len(reps)
      cg   == TLCEval([c \in 1..nc |-> ClassGain(m, w, SeqOfSet(rch[reps[c]], m.N))])
      T    == St(m) \ (ab \cup rec)
      ts   == SeqOfSet(T, m.N)
      k    == Len(ts)
      Mt   == TLCEval([i \in 1..k |-> [j \in 1..k |->
                 (IF i = j THEN RowD(m, w, ts[i]) ELSE 0) - PPi(m, w, ts[i], ts[j])]])
      \* absorption probabilities into class c: (I - P_TT) x = P_T,C 1
      ap   == TLCEval([c \in 1..nc |->
                 LET sol == Solve(Mt, [i \in 1..k |-> SumSet([t \in St(m) |-> PPi(m, w, ts[i], t)], rch[reps[c]])], k)
                 IN IF sol[1] = 0 THEN Assert(FALSE, <<"singular transient block", w>>)
                    ELSE [i \in 1..k |-> Norm(sol[2][i], sol[1])]])
      absorb == [c \in 1..nc |-> [s \in St(m) |->
                   IF s \in T THEN ap[c][IndexOf(ts, s)]
                   ELSE IF s \in rch[reps[c]] THEN <<1, 1>> ELSE <<0, 1>>]]
  IN [g |-> [s \in St(m) |->
               IF s \in ab THEN <<0, 1>>
               ELSE IF s \in rec THEN cg[IndexOf(reps, MinSet(rch[s]))]
               ELSE RSumTo([c \in 1..nc |-> RMul(absorb[c][s], cg[c])], nc)],
      ncls |-> nc, rec |-> rec, trans |-> T, reps |-> reps, absorb |-> absorb, cgain |-> cg]

PolicyGain(m, w, ab) == ChainInfo(m, w, ab).g

\* ---------------------------------------------------------------- relative values (undiscounted)
\* the solution of   h(s) = r(s) - g(s) + sum_t P(s,t) h(t)   outside ab,  h = 0 on ab,
\* normalised by h = 0 at the smallest state of every closed class (the reference states);
\* gg must be the gain of the same policy.
RelValue(m, w, ab, gg) ==
  LET rch  == ReachTab(m, w, ab)
      refs == Range(ClassReps(m, ab, rch))
      xs   == SeqOfSet(St(m) \ ab, m.N)
      k    == Len(xs)
      Mx   == TLCEval([i \in 1..k |-> [j \in 1..k |->
                 IF xs[i] \in refs THEN (IF i = j THEN 1 ELSE 0)
                 ELSE (IF i = j THEN RowD(m, w, xs[i]) ELSE 0) - PPi(m, w, xs[i], xs[j])]])
      b    == TLCEval([i \in 1..k |->
                 IF xs[i] \in refs THEN <<0, 1>>
                 ELSE RSub(<<RPi(m, w, xs[i]), 1>>, RScale(RowD(m, w, xs[i]), gg[xs[i]]))])
      det  == Det(Mx, k)
  IN IF det = 0 THEN Assert(FALSE, <<"singular relative-value system", w>>)
     ELSE [s \in St(m) |->
            IF s \in ab THEN <<0, 1>>
            ELSE LET i == IndexOf(xs, s) IN
                 RMul(RSumTo([j \in 1..k |-> RScale(Cof(Mx, k, j, i), b[j])], k), <<1, det>>)]

\* ---------------------------------------------------------------- discounted value of a policy
\* (GD * RowD(s) * I - GN * PPi) V = GD * RPi outside ab, 0 on ab   (<= 3 states outside ab)
DiscValue(m, w, ab) ==
  LET xs  == SeqOfSet(St(m) \ ab, m.N)
      k   == Len(xs)
      Mx  == TLCEval([i \in 1..k |-> [j \in 1..k |->
                (IF i = j THEN m.GD * RowD(m, w, xs[i]) ELSE 0) - m.GN * PPi(m, w, xs[i], xs[j])]])
      b   == TLCEval([i \in 1..k |-> m.GD * RPi(m, w, xs[i])])
      sol == Solve(Mx, b, k)
  IN IF sol[1] = 0 THEN Assert(FALSE, <<"singular discounted system", w>>)
     ELSE [s \in St(m) |-> IF s \in ab THEN <<0, 1>> ELSE Norm(Safe(sol[2][IndexOf(xs, s)]), sol[1])]

\* ---------------------------------------------------------------- optimal gain
\* g*(s) = max over the deterministic stationary policies of g^pi(s); one deterministic policy attains
\* the maximum at every state simultaneously (`attained`, checked by the specs as a design invariant).
\* Absorbing = explicitly absorbing (a zero-reward self-loop state has gain 0 in any case).
GainOracle(m) ==
  LET ab    == ExplAbs(m)
      infos == TLCEval({ChainInfo(m, OneHot(m, pi), ab) : pi \in DetPols(m)})
      gs    == {x.g : x \in infos}
      gstar == [s \in St(m) |-> RMaxSet({G[s] : G \in gs})]
  IN [g |-> gstar, attained |-> gstar \in gs, ngains |-> Cardinality(gs),
      maxcls |-> MaxSet({x.ncls : x \in infos}), mincls |-> MinSet({x.ncls : x \in infos})]
OptimalGain(m) == GainOracle(m).g

\* one-step look-ahead on gains: sum_t P(t | s, a) g(t), UNAV for unavailable actions (ghost rows of
\* absorbing states included: the caller decides whether they matter)
GainQ(m, gg) ==
  TLCEval([s \in St(m) |-> [a \in Ac(m) |->
     IF a \notin Avail(m, s) THEN UNAV
     ELSE RSumTo([t \in St(m) |-> IF m.P[s][a][t] = 0 THEN <<0, 1>> ELSE RMul(<<m.P[s][a][t], m.PD>>, gg[t])], m.N)]])
\* first multichain optimality equation: max_a sum_t P(t|s,a) g(t) = g(s) outside ab
Harmonic(m, gg, ab) ==
  LET q == GainQ(m, gg) IN
  \A s \in St(m) \ ab : RMaxSet({q[s][a] : a \in Avail(m, s)}) = gg[s]
=============================================================================
