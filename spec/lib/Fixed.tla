------------------------------ MODULE Fixed ------------------------------
(* Fixed-point helpers for specifications that validate floating-point observations in  *)
(* units of 1/2^20 inside TLC's 32-bit integers.  Every operator is an EXACT floor of   *)
(* the real-valued expression it names (no intermediate exceeds 31 bits when the stated *)
(* preconditions hold; TLC itself aborts on integer overflow, which the harness reports *)
(* as a machinery failure, never as a verdict).                                         *)
(*                                                                                      *)
(* TLC's \div is the floor division and % the non-negative remainder (positive divisor).*)
EXTENDS Num

U20 == 1048576                \* 2^20: the unit of every logged quantity is 1/U20
K10 == 1024

\* floor(x * n / d)       for d > 0, any sign of x and n, |x \div d| * |n| < 2^31, d * |n| < 2^31
MulDiv(x, n, d) == (x \div d) * n + ((x % d) * n) \div d

\* floor(x * y / 2^20)    for 0 <= x <= 2^20, |y| < 2^29
Mul20(x, y) ==
  LET xh == x \div K10   xl == x % K10
      yh == y \div K10   yl == y % K10
      m  == xh * yl + xl * yh
      mh == m \div K10   ml == m % K10
  IN xh * yh + mh + (ml * K10 + xl * yl) \div U20

\* floor(n / d * 2^20)    for a rational <<n, d>>, 0 < d < 2^21, |n / d| < 1023
ScaleRat(r) ==
  LET n == r[1]  d == r[2] IN
  IF d <= 0 \/ d >= 2097152 THEN Assert(FALSE, <<"ScaleRat: denominator out of range", r>>)
  ELSE LET q0 == n \div d   r0 == n % d
           r1 == r0 * K10   q1 == r1 \div d   r2 == r1 % d
           q2 == (r2 * K10) \div d
       IN IF q0 > 1022 \/ q0 < -1023 THEN Assert(FALSE, <<"ScaleRat: value out of range", r>>)
          ELSE q0 * U20 + q1 * K10 + q2

\* saturating floor(x * n / d) for a positive rational n/d and |x| <= LIM: exact when the result stays
\* below 2^30 in magnitude (always, when n <= d), otherwise +-LIM.  The callers only compare the result
\* with quantities below 2^30 in magnitude, so a saturated product decides a comparison the same way as
\* the exact one.
MulDivSat(x, n, d) ==
  IF n <= d THEN MulDiv(x, n, d)
  ELSE LET c == LIM \div ((n \div d) + 1) IN
       IF x > c THEN LIM ELSE IF x < -c THEN -LIM ELSE MulDiv(x, n, d)

\* rational bounds of the natural logarithm of 1..16 in units of 1/10000 (LogLB[n] <= 10^4 ln n <= LogUB[n]);
\* the harness re-derives them with the same trusted elementary function it uses for the logged logarithms
LogLB == <<0, 6931, 10986, 13862, 16094, 17917, 19459, 20794, 21972, 23025, 23978, 24849, 25649, 26390, 27080, 27725>>
LogUB == <<0, 6932, 10987, 13863, 16095, 17918, 19460, 20795, 21973, 23026, 23979, 24850, 25650, 26391, 27081, 27726>>
=============================================================================
