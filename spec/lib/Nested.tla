------------------------------ MODULE Nested ------------------------------
(* Nested assignments (the keys of msdm's AssignmentMap / AssignmentSet and the rows of  *)
(* dict_match / dict_merge / natural_join) as exact, structurally comparable TLA+ values. *)
(*                                                                                      *)
(* A value is a non-empty set of entries <<path, leaf>>:                                 *)
(*   path  sequence of dictionary keys (strings) from the root to the entry              *)
(*   leaf  a string naming an opaque leaf:  "i:1" int, "s:a" str, "l:[1, 2]" list,       *)
(*         "t:[1, 2]" tuple (the text after the prefix is JSON) or "{}" = "an empty       *)
(*         dictionary sits here"                                                         *)
(* so      {"a": 1, "b": {"x": 2}}  is  { <<<<"a">>, "i:1">>, <<<<"b","x">>, "i:2">> }   *)
(*         {}                        is  { <<<<>>, "{}">> }                              *)
(*         {"a": {}}                 is  { <<<<"a">>, "{}">> }                           *)
(*         the atom 1 / the list [1, 2] (as a key)  is  { <<<<>>, "i:1">> } / { <<<<>>, "l:[1, 2]">> } *)
(* Lists and tuples are leaves: the containers and the dict helpers never look inside.   *)
(* Every component is a string or a sequence of strings, so TLC can compare any two       *)
(* values; set equality of two values IS structural equality of the nested objects.      *)
(*                                                                                      *)
(* Two layers for the dictionary helpers:                                                *)
(*   (O) relational oracle on entries: Agree / MergeO / JoinO ("r U s is a function")    *)
(*   (R) the recursion of the code on top-level keys: MatchRec / MergeRec / JoinSeq      *)
(* All operators are constant-level.                                                     *)
EXTENDS Naturals, Sequences, FiniteSets, TLC

EMPTY == "{}"
Entry(p, l) == <<p, l>>
Atom(l) == {Entry(<<>>, l)}
EmptyDict == Atom(EMPTY)

IsAtom(v) == \E e \in v : e[1] = <<>> /\ e[2] # EMPTY
IsDict(v) == ~IsAtom(v)

IsPrefix(p, q) == Len(p) <= Len(q) /\ SubSeq(q, 1, Len(p)) = p
ProperPrefix(p, q) == Len(p) < Len(q) /\ SubSeq(q, 1, Len(p)) = p

\* drop "empty dictionary here" markers of dictionaries that turned out not to be empty
NNorm(S) == {e \in S : ~(e[2] = EMPTY /\ \E f \in S : ProperPrefix(e[1], f[1]))}

\* well-formed value: a function on paths, no entry below a leaf, an atom is a single root entry
WellFormed(v) ==
  /\ v # {}
  /\ \A e \in v : \A f \in v : (e[1] = f[1] => e = f) /\ ~ProperPrefix(e[1], f[1])

\* the value v stored under key k / the dictionary with the given keys (val(k) = value under k)
Under(k, v) == {Entry(<<k>> \o e[1], e[2]) : e \in v}
MkDict(keys, val(_)) == IF keys = {} THEN EmptyDict ELSE UNION {Under(k, val(k)) : k \in keys}
\* dictionary from a TLA+ record / function whose values are nested values
Dict(rec) == MkDict(DOMAIN rec, LAMBDA k : rec[k])

TopKeys(v) == {e[1][1] : e \in {f \in v : f[1] # <<>>}}
Sub(v, k) == {Entry(Tail(e[1]), e[2]) : e \in {f \in v : f[1] # <<>> /\ f[1][1] = k}}
Depth(v) == LET L == {Len(e[1]) + (IF e[2] = EMPTY THEN 1 ELSE 0) : e \in v} IN
            CHOOSE d \in L : \A x \in L : d >= x

\* ------------------------------------------------------------------ universes
\* all dictionaries over the keys K whose values are drawn from the set of values V
DictsOver(K, V) ==
  {EmptyDict} \cup UNION {{MkDict(S, LAMBDA k : g[k]) : g \in [S -> V]} : S \in (SUBSET K) \ {{}}}
\* depth <= 1 and depth <= 2 dictionaries
D1(KSub, Leaves) == DictsOver(KSub, {Atom(l) : l \in Leaves})
D2(KTop, KSub, Leaves) == DictsOver(KTop, {Atom(l) : l \in Leaves} \cup D1(KSub, Leaves))

\* ------------------------------------------------------------------ (O) relational oracle
\* l and r disagree on a shared nested key: the same path carries two different things, or one side
\* has a leaf where the other has a (non-empty) dictionary
Conflict(l, r) ==
  \E e \in l : \E f \in r :
     \/ e[1] = f[1] /\ e[2] # f[2]
     \/ e[2] # EMPTY /\ ProperPrefix(e[1], f[1])
     \/ f[2] # EMPTY /\ ProperPrefix(f[1], e[1])
Agree(l, r) == ~Conflict(l, r)

\* recursive union, right wins: an entry of l survives unless r puts a leaf at or above it, or it is
\* a leaf and r has anything at or below it
Survives(e, r) ==
  ~\E f \in r : (f[2] # EMPTY /\ IsPrefix(f[1], e[1])) \/ (e[2] # EMPTY /\ IsPrefix(e[1], f[1]))
MergeO(l, r) == NNorm({e \in l : Survives(e, r)} \cup r)

\* ------------------------------------------------------------------ (R) the recursion of the code
RECURSIVE MatchRec(_, _)
MatchRec(l, r) ==
  \A k \in TopKeys(r) :
     k \in TopKeys(l) =>
        LET a == Sub(l, k)  b == Sub(r, k) IN
        IF IsDict(a) /\ IsDict(b) THEN MatchRec(a, b) ELSE a = b

RECURSIVE MergeRec(_, _)
MergeRec(l, r) ==
  LET val(k) ==
        IF k \notin TopKeys(r) THEN Sub(l, k)
        ELSE IF k \in TopKeys(l) /\ IsDict(Sub(l, k)) /\ IsDict(Sub(r, k))
             THEN MergeRec(Sub(l, k), Sub(r, k))
             ELSE Sub(r, k)
  IN MkDict(TopKeys(l) \cup TopKeys(r), val)

\* ------------------------------------------------------------------ natural join
\* a relation is a sequence (python list) of dictionaries
RangeOf(sq) == {sq[i] : i \in 1..Len(sq)}
RECURSIVE Flatten(_)
Flatten(ss) == IF ss = <<>> THEN <<>> ELSE Head(ss) \o Flatten(Tail(ss))

\* (R) binary join in the order of itertools.product: for r in R: for s in S: if match: merge
JoinSeq(R, S) ==
  Flatten([i \in 1..Len(R) |->
     LET ok == SelectSeq(S, LAMBDA s : MatchRec(R[i], s)) IN
     [j \in 1..Len(ok) |-> MergeRec(R[i], ok[j])]])

\* (R) the n-ary generator of the code: every combination of rows (leftmost relation slowest),
\* kept iff every PAIR of its rows matches, merged left to right starting from {}
RECURSIVE Combos(_)
Combos(Rs) ==
  IF Rs = <<>> THEN << <<>> >>
  ELSE LET rest == Combos(Tail(Rs)) IN
       Flatten([i \in 1..Len(Head(Rs)) |-> [j \in 1..Len(rest) |-> <<Head(Rs)[i]>> \o rest[j]]])
PairwiseMatch(rows) == \A i \in 1..Len(rows) : \A j \in 1..Len(rows) : i < j => MatchRec(rows[i], rows[j])
RECURSIVE FoldMerge(_, _)
FoldMerge(acc, rows) == IF rows = <<>> THEN acc ELSE FoldMerge(MergeRec(acc, Head(rows)), Tail(rows))
JoinN(Rs) ==
  LET ok == SelectSeq(Combos(Rs), PairwiseMatch) IN [i \in 1..Len(ok) |-> FoldMerge(EmptyDict, ok[i])]

\* (O) relational definition: { r U s : r in R, s in S, r U s is a function }
JoinO(RS, SS) == {NNorm(p[1] \cup p[2]) : p \in {q \in RS \X SS : Agree(q[1], q[2])}}
=============================================================================
