------------------------------- MODULE POMDP -------------------------------
(* Finite tabular POMDP instances, the exact Bayes filter and the derived belief MDP.     *)
(* Shared by C07 (filter / belief MDP), C08 (PBVI / QMDP bounds), C09 (controllers),      *)
(* C14 (roll-outs).                                                                       *)
(*                                                                                        *)
(* A POMDP instance is an MDP instance record (all fields of spec/lib/MDP.tla:            *)
(*   N, K, PD, GN, GD, ID, abs[s], avail[s][a], P[s][a][t], R[s][a][t], p0[s])            *)
(* extended with                                                                          *)
(*   NO            number of observations 1..NO                                           *)
(*   OD            denominator of the observation probabilities                           *)
(*   O[a][n][o]    numerator of Pr(o | action a, NEXT state n); rows sum to OD            *)
(* Every action is available in every state (avail[s][a] = 1): the agent does not see the *)
(* state, so a state-dependent action set has no POMDP semantics.                         *)
(* JSON batches give all of these as arrays (1-based sequences in TLA+).                  *)
(*                                                                                        *)
(* Beliefs are *unnormalised integer weight vectors* w \in [1..N -> Nat]: the belief is   *)
(* w[s] / BSum(m, w).  No rationals are needed:                                           *)
(*   Predict(m,w,a)[n]   = Sum_s w[s] P[s][a][n]               over BSum * PD             *)
(*   Post(m,w,a,o)[n]    = Predict[n] * O[a][n][o]             over BSum * PD * OD        *)
(*                         (joint Pr(n, o | w, a))                                        *)
(*   Lik(m,w,a,o)        = Sum_n Post[n]                       over BSum * PD * OD        *)
(*                         (Pr(o | w, a), the predictive observation distribution)        *)
(*   Filter(m,w,a,o)     = Post reduced by its gcd (canonical representative of the       *)
(*                         posterior belief); defined when Lik > 0                        *)
(* All operators are constant-level and force their tables with TLCEval.                  *)
EXTENDS MDP

Ob(m) == 1..m.NO

PWellFormed(m) ==
  /\ WellFormed(m)
  /\ m.NO >= 1 /\ m.OD >= 1
  /\ \A s \in St(m) : \A a \in Ac(m) : m.avail[s][a] = 1
  /\ \A a \in Ac(m) : \A n \in St(m) :
        /\ SumTo([o \in Ob(m) |-> m.O[a][n][o]], m.NO) = m.OD
        /\ \A o \in Ob(m) : m.O[a][n][o] >= 0

\* ---------------------------------------------------------------- integer weight vectors
BSum(m, w)  == SumTo(w, m.N)
BSupp(m, w) == {s \in St(m) : w[s] > 0}
ZeroVec(m)  == [s \in St(m) |-> 0]
Vertex(m, s) == [t \in St(m) |-> IF t = s THEN 1 ELSE 0]

RECURSIVE GCDTo(_, _)
GCDTo(f, k) == IF k = 0 THEN 0 ELSE GCD(f[k], GCDTo(f, k - 1))
\* canonical representative of the ray through w (w itself when w = 0)
Reduce(m, w) ==
  LET g == GCDTo(w, m.N) IN
  IF g = 0 THEN w ELSE TLCEval([s \in St(m) |-> w[s] \div g])
IsReduced(m, w) == GCDTo(w, m.N) = 1

\* ---------------------------------------------------------------- Bayes filter
\* one-step state prediction, numerators over BSum(w) * PD
Predict(m, w, a) ==
  TLCEval([n \in St(m) |-> SumTo([s \in St(m) |-> IF w[s] = 0 THEN 0 ELSE Safe(w[s] * m.P[s][a][n])], m.N)])
\* joint weight of (next state n, observation o), numerators over BSum(w) * PD * OD
Post(m, w, a, o) ==
  LET pr == Predict(m, w, a) IN
  TLCEval([n \in St(m) |-> Safe(pr[n] * m.O[a][n][o])])
\* predictive probability of observation o, numerator over ObsDen(m, w)
Lik(m, w, a, o) == BSum(m, Post(m, w, a, o))
ObsDen(m, w) == Safe(BSum(m, w) * m.PD * m.OD)
ObsDist(m, w, a) == TLCEval([o \in Ob(m) |-> Lik(m, w, a, o)])
Possible(m, w, a, o) == Lik(m, w, a, o) > 0
PossibleObs(m, w, a) == {o \in Ob(m) : Possible(m, w, a, o)}
\* posterior belief (canonical weights); the zero vector for an impossible observation
Filter(m, w, a, o) == Reduce(m, Post(m, w, a, o))

\* joint weight of (final state, whole observation history) given the actions: the forward
\* algorithm without any intermediate normalisation.  h is a sequence of records with fields a, o.
\* numerators over BSum(w0) * (PD * OD)^Len(h)
RECURSIVE Joint(_, _, _)
Joint(m, w0, h) ==
  IF Len(h) = 0 THEN w0
  ELSE LET e == h[Len(h)] IN Post(m, Joint(m, w0, SubSeq(h, 1, Len(h) - 1)), e.a, e.o)

\* ---------------------------------------------------------------- belief MDP (Kaelbling, Littman, Cassandra 1998)
\* successor beliefs of (w, a): one per possible observation, equal posteriors merged
BSucc(m, w, a) == {Filter(m, w, a, o) : o \in PossibleObs(m, w, a)}
\* probability of moving to belief nb, numerator over ObsDen(m, w)
BWeight(m, w, a, nb) ==
  LET os == {o \in PossibleObs(m, w, a) : Filter(m, w, a, o) = nb}
  IN SumSet([o \in os |-> Lik(m, w, a, o)], os)
\* belief-expected immediate reward, numerator over BSum(w) * PD
BReward(m, w, a) ==
  SumTo([s \in St(m) |->
           IF w[s] = 0 THEN 0
           ELSE Safe(w[s] * SumTo([n \in St(m) |-> m.P[s][a][n] * m.R[s][a][n]], m.N))], m.N)
RewDen(m, w) == Safe(BSum(m, w) * m.PD)
\* a belief is absorbing iff all its mass is on (explicitly) absorbing states
BAbsorbing(m, w) == BSupp(m, w) \subseteq ExplAbs(m)

\* ---------------------------------------------------------------- everything about (w, a) in one forced table
\* (the operators above re-derive Predict / Post for every call; specs that need the whole look-ahead
\*  of a belief evaluate it once with BeliefTable and keep it, e.g. in a state variable)
\*   pred[n]  state prediction (over BSum*PD)      lik[o]   Pr(o | w, a) (over ObsDen)
\*   filt[o]  canonical posterior (zero vector if impossible)
\*   succ     set of successor beliefs             wt[nb]   Pr(nb | w, a) (over ObsDen)
\*   rw       belief-expected reward (over RewDen)
ActTable(m, w, a) ==
  LET pr   == Predict(m, w, a)
      post == TLCEval([o \in Ob(m) |-> TLCEval([n \in St(m) |-> Safe(pr[n] * m.O[a][n][o])])])
      lik  == TLCEval([o \in Ob(m) |-> SumTo(post[o], m.N)])
      filt == TLCEval([o \in Ob(m) |-> Reduce(m, post[o])])
      poss == {o \in Ob(m) : lik[o] > 0}
      succ == {filt[o] : o \in poss}
      wt   == TLCEval([nb \in succ |-> SumSet([o \in poss |-> IF filt[o] = nb THEN lik[o] ELSE 0], poss)])
  IN [pred |-> pr, lik |-> lik, filt |-> filt, succ |-> succ, wt |-> wt, rw |-> BReward(m, w, a)]
BeliefTable(m, w) ==
  [den |-> ObsDen(m, w), rden |-> RewDen(m, w), absb |-> BAbsorbing(m, w),
   act |-> TLCEval([a \in Ac(m) |-> ActTable(m, w, a)])]

\* ---------------------------------------------------------------- state-dependent action sets (added for C07)
\* Some states (typically terminal ones) offer only a subset of the actions (avail[s][a] = 0) while the
\* observation kernel O[a][n][.] is defined for EVERY (a, n), also when a is not available in the arrival
\* state n.  The filter / belief MDP are only defined for actions available in every supported state.
PWellFormedSD(m) ==
  /\ WellFormed(m)
  /\ m.NO >= 1 /\ m.OD >= 1
  /\ \A s \in St(m) : \A a \in Ac(m) : m.avail[s][a] \in {0, 1}
  /\ \A a \in Ac(m) : \A n \in St(m) :
        /\ SumTo([o \in Ob(m) |-> m.O[a][n][o]], m.NO) = m.OD
        /\ \A o \in Ob(m) : m.O[a][n][o] >= 0
Allowed(m, w) == {a \in Ac(m) : \A s \in BSupp(m, w) : m.avail[s][a] = 1}
\* value of a belief under one alpha vector (integers), numerator over BSum(w)
AlphaValue(m, w, alpha) == SumTo([s \in St(m) |-> Safe(w[s] * alpha[s])], m.N)
=============================================================================
