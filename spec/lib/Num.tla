------------------------------- MODULE Num -------------------------------
(* Exact arithmetic helpers shared by all msdm specifications.                          *)
(*                                                                                      *)
(* TLC integers are 32-bit and there are no reals.  Quantities are exact scaled         *)
(* integers or rationals <<n, d>> with d > 0.  Two improper values:                     *)
(*   NEG  = <<-1, 0>>   minus infinity                                                  *)
(*   POS  = << 1, 0>>   plus infinity                                                   *)
(*   UNAV = << 0, 0>>   "not applicable" (e.g. value of an unavailable action)          *)
(* All operators are constant-level and take their data as arguments, so their results  *)
(* can be forced with TLCEval (function constructors are lazy in TLC).                  *)
EXTENDS Integers, Sequences, FiniteSets, TLC

NEG  == <<-1, 0>>
POS  == << 1, 0>>
UNAV == << 0, 0>>

AbsI(x) == IF x < 0 THEN -x ELSE x
MaxI(a, b) == IF a >= b THEN a ELSE b
MinI(a, b) == IF a <= b THEN a ELSE b

(* overflow guard: every generator is sized so that this never trips; if it does the    *)
(* run is a machinery failure (TLC evaluation error), never a verdict                   *)
LIM == 1073741823
Safe(x) == IF x > LIM \/ x < -LIM THEN Assert(FALSE, <<"overflow guard", x>>) ELSE x

RECURSIVE GCD(_, _)
GCD(a, b) == IF b = 0 THEN AbsI(a) ELSE GCD(b, a % b)
LCM(a, b) == IF a = 0 \/ b = 0 THEN 0 ELSE (AbsI(a) \div GCD(a, b)) * AbsI(b)

RECURSIVE SumTo(_, _)
SumTo(f, k) == IF k = 0 THEN 0 ELSE f[k] + SumTo(f, k - 1)

RECURSIVE SumSet(_, _)
SumSet(f, S) == IF S = {} THEN 0 ELSE LET x == CHOOSE y \in S : TRUE IN f[x] + SumSet(f, S \ {x})

RECURSIVE MaxSet(_)
MaxSet(S) == CHOOSE x \in S : \A y \in S : x >= y
MinSet(S) == CHOOSE x \in S : \A y \in S : x <= y

Range(sq) == {sq[i] : i \in 1..Len(sq)}
SeqOfSet(S, n) == SelectSeq([i \in 1..n |-> i], LAMBDA i : i \in S)   \* ascending sequence of a subset of 1..n
IndexOf(sq, x) == CHOOSE i \in 1..Len(sq) : sq[i] = x

\* ---------------------------------------------------------------- rationals
IsFin(x) == x[2] # 0
Norm(n, d) ==
  IF d = 0 THEN (IF n < 0 THEN NEG ELSE IF n > 0 THEN POS ELSE UNAV)
  ELSE IF n = 0 THEN <<0, 1>>
  ELSE LET g == GCD(n, d) s == IF d < 0 THEN -1 ELSE 1 IN <<s * (n \div g), s * (d \div g)>>
RNorm(x) == Norm(x[1], x[2])
\* strict order on finite rationals and NEG / POS
RLess(x, y) ==
  IF x = NEG THEN y # NEG
  ELSE IF y = NEG THEN FALSE
  ELSE IF y = POS THEN x # POS
  ELSE IF x = POS THEN FALSE
  ELSE LET L == LCM(x[2], y[2]) IN Safe(x[1] * (L \div x[2])) < Safe(y[1] * (L \div y[2]))
REq(x, y) == ~RLess(x, y) /\ ~RLess(y, x)
RLeq(x, y) == ~RLess(y, x)
RAdd(x, y) ==
  IF x = NEG \/ y = NEG THEN NEG
  ELSE IF x = POS \/ y = POS THEN POS
  ELSE LET L == LCM(x[2], y[2]) IN
       Norm(Safe(x[1] * (L \div x[2])) + Safe(y[1] * (L \div y[2])), Safe(L))
RSub(x, y) == RAdd(x, <<-y[1], y[2]>>)
RMul(x, y) ==
  IF ~IsFin(x) \/ ~IsFin(y) THEN
     (IF x[1] = 0 \/ y[1] = 0 THEN <<0, 1>>
      ELSE IF (x[1] < 0) = (y[1] < 0) THEN POS ELSE NEG)
  ELSE Norm(Safe(x[1] * y[1]), Safe(x[2] * y[2]))
RScale(k, x) == RMul(<<k, 1>>, x)
RMaxSet(S) == CHOOSE x \in S : \A y \in S : ~RLess(x, y)
RMinSet(S) == CHOOSE x \in S : \A y \in S : ~RLess(y, x)
RAbs(x) == IF x[1] < 0 /\ IsFin(x) THEN <<-x[1], x[2]>> ELSE x

RECURSIVE RSumTo(_, _)
RSumTo(f, k) == IF k = 0 THEN <<0, 1>> ELSE RAdd(f[k], RSumTo(f, k - 1))

\* ---------------------------------------------------------------- determinants (closed forms, k <= 3)
Det2(a, b, c, d) == a * d - b * c
Det(m, k) ==
  IF k = 0 THEN 1
  ELSE IF k = 1 THEN m[1][1]
  ELSE IF k = 2 THEN Det2(m[1][1], m[1][2], m[2][1], m[2][2])
  ELSE IF k = 3 THEN
         m[1][1] * Det2(m[2][2], m[2][3], m[3][2], m[3][3])
       - m[1][2] * Det2(m[2][1], m[2][3], m[3][1], m[3][3])
       + m[1][3] * Det2(m[2][1], m[2][2], m[3][1], m[3][2])
  ELSE Assert(FALSE, "Det: k > 3")
Others(i) == IF i = 1 THEN <<2, 3>> ELSE IF i = 2 THEN <<1, 3>> ELSE <<1, 2>>
Sign(i, j) == IF (i + j) % 2 = 0 THEN 1 ELSE -1
\* cofactor C_ij of a k x k matrix
Cof(m, k, i, j) ==
  IF k = 1 THEN 1
  ELSE IF k = 2 THEN Sign(i, j) * m[3 - i][3 - j]
  ELSE LET r == Others(i) c == Others(j) IN
       Sign(i, j) * Det2(m[r[1]][c[1]], m[r[1]][c[2]], m[r[2]][c[1]], m[r[2]][c[2]])
\* solve M x = b by Cramer: returns <<det, xn>> with x[i] = xn[i] / det
Solve(M, b, k) ==
  <<Det(M, k), [i \in 1..k |-> SumTo([j \in 1..k |-> Cof(M, k, j, i) * b[j]], k)]>>
=============================================================================
