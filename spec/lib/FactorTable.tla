---------------------------- MODULE FactorTable ----------------------------
(* Factor tables over (nested) variables with exact integer weights - the abstract      *)
(* model of msdm.core.distributions.DiscreteFactorTable shared by C18_Factor and         *)
(* C18_GridGame (the grid game builds its transition distribution out of these ops).     *)
(*                                                                                      *)
(* A table is a record                                                                  *)
(*   vars   sequence of distinct variable ids: the *key order* of the rows (a            *)
(*          representation detail: semantically a table is over the set Range(vars))     *)
(*   rows   sequence of [vals |-> sequence aligned with vars, w |-> integer >= 0]        *)
(*   den    integer > 0: the weight of row r is rows[r].w / den                          *)
(* Values are arbitrary TLA+ values (only equality is used).  A variable id stands for   *)
(* a leaf path of the nested dictionaries ("c.x"), so that a join on nested keys is a    *)
(* natural join on leaf paths.                                                           *)
(*                                                                                      *)
(* Two layers:                                                                           *)
(*   (O) declarative oracle: JoinAsgs / JoinWeight / MixAsgs / MixWeight / MargWeight    *)
(*       (a table as a function from assignments to weights)                             *)
(*   (R) implementation-shaped operators: RefJoin / RefMix / RefScale / RefMarg,         *)
(*       the nested loops of product() / mix() with their first-wins de-duplication,     *)
(*       dropped zero rows, matched / unmatched bookkeeping and resulting row order      *)
(* All operators are constant-level (data passed as arguments).                          *)
EXTENDS Num

Tab(vars, rows, den) == [vars |-> vars, rows |-> rows, den |-> den]
Row(vals, w) == [vals |-> vals, w |-> w]
EmptyTab == Tab(<<>>, <<>>, 1)

NRows(t) == Len(t.rows)
VarSet(t) == Range(t.vars)
PosIn(sq, x) == CHOOSE i \in 1..Len(sq) : sq[i] = x
AsgOf(vars, vals) == [v \in Range(vars) |-> vals[PosIn(vars, v)]]
RowAsg(t, i) == AsgOf(t.vars, t.rows[i].vals)
Asgs(t) == {RowAsg(t, i) : i \in 1..NRows(t)}
ValsOf(vars, f) == [i \in 1..Len(vars) |-> f[vars[i]]]
NoDupSeq(sq) == \A i, j \in 1..Len(sq) : sq[i] = sq[j] => i = j

WellFormedTab(t) ==
  /\ t.den > 0
  /\ NoDupSeq(t.vars)
  /\ \A i \in 1..NRows(t) : Len(t.rows[i].vals) = Len(t.vars) /\ t.rows[i].w >= 0
\* a table that is a function: no assignment listed twice
DupFree(t) == \A i, j \in 1..NRows(t) : t.rows[i].vals = t.rows[j].vals => i = j

\* weight lookup as the code does it (support.index -> first occurrence wins, absent -> 0)
WOf(t, f) ==
  LET S == {i \in 1..NRows(t) : RowAsg(t, i) = f} IN
  IF S = {} THEN 0 ELSE t.rows[MinSet(S)].w
Total(t) == SumTo([i \in 1..NRows(t) |-> t.rows[i].w], NRows(t))
\* the table as a function over its listed assignments
AsFn(t) == [f \in Asgs(t) |-> WOf(t, f)]
\* positive part of the function (zero rows and absent rows are the same thing)
PosFn(t) == LET S == {f \in Asgs(t) : WOf(t, f) > 0} IN [f \in S |-> WOf(t, f)]

\* dict_match / dict_merge on leaf paths
Compat(f, g) == \A v \in (DOMAIN f) \cap (DOMAIN g) : f[v] = g[v]
Merge(f, g) == [v \in (DOMAIN f) \cup (DOMAIN g) |-> IF v \in DOMAIN g THEN g[v] ELSE f[v]]
MergedVars(v1, v2) == v1 \o SelectSeq(v2, LAMBDA v : v \notin Range(v1))

\* ------------------------------------------------------------------ (O) declarative oracle
JoinPairs(t1, t2) == {p \in (1..NRows(t1)) \X (1..NRows(t2)) : Compat(RowAsg(t1, p[1]), RowAsg(t2, p[2]))}
JoinAsgs(t1, t2) == {Merge(RowAsg(t1, p[1]), RowAsg(t2, p[2])) : p \in JoinPairs(t1, t2)}
\* weight numerator (over t1.den * t2.den) of a merged assignment: product of the weights of the
\* rows it restricts to (tables that are functions: exactly one pair per merged assignment)
Restrict(m, V) == [v \in V |-> m[v]]
JoinWeight(t1, t2, m) == Safe(WOf(t1, Restrict(m, VarSet(t1))) * WOf(t2, Restrict(m, VarSet(t2))))
JoinFn(t1, t2) ==
  LET S == {m \in JoinAsgs(t1, t2) : JoinWeight(t1, t2, m) > 0} IN [m \in S |-> JoinWeight(t1, t2, m)]

\* mixture of two tables over the same variable *set*: weights add row by row
\* (numerators over t1.den * t2.den)
MixAsgs(t1, t2) == Asgs(t1) \cup Asgs(t2)
MixWeight(t1, t2, m) == Safe(WOf(t1, m) * t2.den) + Safe(WOf(t2, m) * t1.den)
MixFn(t1, t2) ==
  LET S == {m \in MixAsgs(t1, t2) : MixWeight(t1, t2, m) > 0} IN [m \in S |-> MixWeight(t1, t2, m)]

MargAsgs(t, keep) == {Restrict(f, keep) : f \in Asgs(t)}
MargWeight(t, keep, g) ==
  LET S == {i \in 1..NRows(t) : Restrict(RowAsg(t, i), keep) = g} IN SumSet([i \in S |-> t.rows[i].w], S)

\* ------------------------------------------------------------------ (R) implementation shaped
HasVals(acc, vals) == \E r \in 1..Len(acc) : acc[r].vals = vals

\* product(): for si, oi in product(self.support, other.support): if dict_match: merge; skip if
\* already in jsupport; logit = self.logit(si) + other.logit(oi); skip if -inf; append
RECURSIVE JoinLoop(_, _, _, _, _)
JoinLoop(t1, t2, mv, k, acc) ==
  IF k > NRows(t1) * NRows(t2) THEN acc
  ELSE LET i == ((k - 1) \div NRows(t2)) + 1
           j == ((k - 1) % NRows(t2)) + 1
           f == RowAsg(t1, i)
           g == RowAsg(t2, j)
       IN IF ~Compat(f, g) THEN JoinLoop(t1, t2, mv, k + 1, acc)
          ELSE LET vals == ValsOf(mv, Merge(f, g))
                   w == Safe(WOf(t1, f) * WOf(t2, g))
               IN IF HasVals(acc, vals) \/ w = 0 THEN JoinLoop(t1, t2, mv, k + 1, acc)
                  ELSE JoinLoop(t1, t2, mv, k + 1, Append(acc, Row(vals, w)))
RefJoin(t1, t2) ==
  IF NRows(t1) = 0 \/ NRows(t2) = 0 THEN EmptyTab
  ELSE LET mv == MergedVars(t1.vars, t2.vars)
           rows == JoinLoop(t1, t2, mv, 1, <<>>)
       IN IF rows = <<>> THEN EmptyTab ELSE Tab(mv, rows, Safe(t1.den * t2.den))

\* mix() over the same variable set.  First the matched pairs in loop order (weights add, zero
\* sums dropped), then the rows that never matched, in the order in which they first failed to
\* match, each with self.weight + other.weight (absent = 0).
RECURSIVE MixMatched(_, _, _, _)
MixMatched(t1, t2, k, acc) ==
  IF k > NRows(t1) * NRows(t2) THEN acc
  ELSE LET i == ((k - 1) \div NRows(t2)) + 1
           j == ((k - 1) % NRows(t2)) + 1
           f == RowAsg(t1, i)
           g == RowAsg(t2, j)
       IN IF f # g THEN MixMatched(t1, t2, k + 1, acc)
          ELSE LET vals == ValsOf(t1.vars, f)
                   w == MixWeight(t1, t2, f)
               IN IF HasVals(acc, vals) \/ w = 0 THEN MixMatched(t1, t2, k + 1, acc)
                  ELSE MixMatched(t1, t2, k + 1, Append(acc, Row(vals, w)))
\* assignments that took part in some matching pair
MatchedAsgs(t1, t2) == Asgs(t1) \cap Asgs(t2)
RECURSIVE MixUnmatched(_, _, _, _)
MixUnmatched(t1, t2, k, acc) ==
  IF k > 2 * NRows(t1) * NRows(t2) THEN acc
  ELSE LET kk == ((k - 1) \div 2) + 1
           i == ((kk - 1) \div NRows(t2)) + 1
           j == ((kk - 1) % NRows(t2)) + 1
           f == RowAsg(t1, i)
           g == RowAsg(t2, j)
           c == IF k % 2 = 1 THEN f ELSE g          \* unmatchedrows.extend([si, oi])
       IN IF f = g \/ c \in MatchedAsgs(t1, t2) THEN MixUnmatched(t1, t2, k + 1, acc)
          ELSE LET vals == ValsOf(t1.vars, c)
                   w == MixWeight(t1, t2, c)
               IN IF HasVals(acc, vals) \/ w = 0 THEN MixUnmatched(t1, t2, k + 1, acc)
                  ELSE MixUnmatched(t1, t2, k + 1, Append(acc, Row(vals, w)))
RefMix(t1, t2) ==
  IF NRows(t1) = 0 THEN t2
  ELSE IF NRows(t2) = 0 THEN t1
  ELSE LET rows == MixUnmatched(t1, t2, 1, MixMatched(t1, t2, 1, <<>>))
       IN IF rows = <<>> THEN EmptyTab ELSE Tab(t1.vars, rows, Safe(t1.den * t2.den))

\* __mul__: every logit + log(n/d); rows are kept even when the factor is 0
RefScale(t, n, d) == Tab(t.vars, [i \in 1..NRows(t) |-> Row(t.rows[i].vals, Safe(t.rows[i].w * n))], Safe(t.den * d))

\* marginalize(projection onto the sub-sequence `keep` of variables): groups in order of first
\* appearance, weights summed
RECURSIVE MargLoop(_, _, _, _)
MargLoop(t, keep, k, acc) ==
  IF k > NRows(t) THEN acc
  ELSE LET g == Restrict(RowAsg(t, k), Range(keep))
           vals == ValsOf(keep, g)
       IN IF HasVals(acc, vals) THEN MargLoop(t, keep, k + 1, acc)
          ELSE MargLoop(t, keep, k + 1, Append(acc, Row(vals, MargWeight(t, Range(keep), g))))
RefMarg(t, keep) == Tab(keep, MargLoop(t, keep, 1, <<>>), t.den)

\* ------------------------------------------------------------------ comparing (R) with (O)
\* the positive part of a table equals a given function from assignments to weights
SameFn(t, fn) == PosFn(t) = fn
=============================================================================
