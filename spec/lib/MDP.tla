------------------------------- MODULE MDP -------------------------------
(* Finite MDP instances and the exact oracles (ground truth) used by the msdm specs.    *)
(*                                                                                      *)
(* An instance is a record (read from a JSON batch or built by Init):                   *)
(*   N, K          number of states 1..N and actions 1..K                               *)
(*   PD, GN, GD, ID  probabilities are P/PD, discount is GN/GD, initial weights p0/ID   *)
(*   abs[s]        1 iff is_absorbing(s) (explicitly absorbing)                         *)
(*   avail[s][a]   1 iff a is available in s                                            *)
(*   P[s][a][t]    numerator of the transition probability (rows sum to PD when avail)  *)
(*   R[s][a][t]    integer reward of the step (s, a, t)                                 *)
(*   p0[s]         numerator of the initial probability (sums to ID)                    *)
(* Explicitly absorbing states keep arbitrary "ghost" rows P, R, avail: nothing in the  *)
(* semantics may depend on them.                                                        *)
EXTENDS Num

St(m)   == 1..m.N
Ac(m)   == 1..m.K
Avail(m, s) == {a \in Ac(m) : m.avail[s][a] = 1}
ExplAbs(m)  == {s \in St(m) : m.abs[s] = 1}
\* implicitly absorbing (tabular definition): has an action, every available action
\* self-loops with probability 1 and pays 0
ImplAbs(m)  == {s \in St(m) \ ExplAbs(m) :
                  /\ Avail(m, s) # {}
                  /\ \A a \in Avail(m, s) : m.P[s][a][s] = m.PD /\ m.R[s][a][s] = 0}
AbsAll(m)   == ExplAbs(m) \cup ImplAbs(m)
NonAbs(m)   == St(m) \ ExplAbs(m)
DeadEnd(m)  == {s \in St(m) : Avail(m, s) = {}}
Discounted(m) == m.GN < m.GD
Succ(m, s, a) == {t \in St(m) : m.P[s][a][t] > 0}
Edges(m, s)   == UNION {Succ(m, s, a) : a \in Avail(m, s)}
InitSupp(m)   == {s \in St(m) : m.p0[s] > 0}

\* well-formedness of an instance (checked as an instance filter / ASSUME-like invariant)
WellFormed(m) ==
  /\ \A s \in St(m) : \A a \in Avail(m, s) : SumTo([t \in St(m) |-> m.P[s][a][t]], m.N) = m.PD
  /\ \A s \in St(m), a \in Ac(m), t \in St(m) : m.P[s][a][t] >= 0
  /\ SumTo([s \in St(m) |-> m.p0[s]], m.N) = m.ID
  /\ m.GN > 0 /\ m.GN <= m.GD

\* ---------------------------------------------------------------- reachability
RECURSIVE Closure(_, _, _, _)
\* least set containing cur and closed under successors of its members outside `stop`
Closure(m, cur, stop, k) ==
  IF k = 0 THEN cur
  ELSE LET nxt == cur \cup UNION {Edges(m, t) : t \in (cur \ stop)} IN
       IF nxt = cur THEN cur ELSE Closure(m, nxt, stop, k - 1)
\* states reachable from the initial support; successors of absorbing states not expanded
Reach(m) == Closure(m, InitSupp(m), ExplAbs(m), m.N)
\* states from which some (explicitly or implicitly) absorbing state is reachable (in >= 0 steps)
CanReachAbs(m) == {s \in St(m) : Closure(m, {s}, AbsAll(m), m.N) \cap AbsAll(m) # {}}
\* msdm's "unable to reach absorbing": only defined (non-empty) when undiscounted
CannotReach(m) == IF Discounted(m) THEN {} ELSE St(m) \ CanReachAbs(m)

\* ---------------------------------------------------------------- policies
\* a (stochastic) policy is w[s][a] = numerator over QD, for s in NonAbs(m), zero on unavailable actions
DetPols(m) == {pi \in [NonAbs(m) -> Ac(m)] : \A s \in NonAbs(m) : pi[s] \in Avail(m, s)}
AsWeights(m, pi) == [s \in NonAbs(m) |-> [a \in Ac(m) |-> IF pi[s] = a THEN 1 ELSE 0]]
\* numerators over PD*QD of the policy's transition row and expected reward
PPi(m, w, s, t) == SumTo([a \in Ac(m) |-> w[s][a] * m.P[s][a][t]], m.K)
RPi(m, w, s) == SumTo([a \in Ac(m) |->
                  IF w[s][a] = 0 THEN 0 ELSE w[s][a] * SumTo([t \in St(m) |-> m.P[s][a][t] * m.R[s][a][t]], m.N)], m.K)
SuccPi(m, w, s) == {t \in St(m) : PPi(m, w, s, t) > 0}

RECURSIVE ReachPiK(_, _, _, _)
ReachPiK(m, w, cur, k) ==
  IF k = 0 THEN cur
  ELSE LET nxt == cur \cup UNION {SuccPi(m, w, t) : t \in (cur \ ExplAbs(m))} IN
       IF nxt = cur THEN cur ELSE ReachPiK(m, w, nxt, k - 1)
\* states reachable from s in >= 1 steps under the policy
ReachPi(m, w, s) == ReachPiK(m, w, SuccPi(m, w, s), m.N)

\* classification of the non-absorbing states under a policy (total-reward criterion, rewards <= 0):
\*   rec   recurrent: cannot reach an absorbing state and every reachable state reaches back
\*   ninf  value -infinity: can reach a recurrent class that pays a negative expected reward
\*   zero  recurrent classes paying 0 everywhere: worth 0
\*   trans the rest: finite values from the transient linear system
\* When discounted every non-absorbing state is in `trans`.
Classify(m, w) ==
  IF Discounted(m) THEN [ninf |-> {}, zero |-> {}, trans |-> NonAbs(m), rec |-> {}]
  ELSE
  LET na  == NonAbs(m)
      rch == TLCEval([s \in na |-> ReachPi(m, w, s)])
      rec == {s \in na : rch[s] \cap ExplAbs(m) = {} /\ \A t \in rch[s] : s \in rch[t]}
      neg == {s \in rec : \E t \in rch[s] \cup {s} : RPi(m, w, t) < 0}
      ninf == {s \in na : s \in neg \/ rch[s] \cap neg # {}}
      zero == rec \ neg
  IN [ninf |-> ninf, zero |-> zero, trans |-> na \ (ninf \cup zero), rec |-> rec]

\* exact value of a policy: function St(m) -> rational / NEG.  QD = common denominator of w.
\* (GD*PD*QD*I - GN*Ppi) V = GD*Rpi on the transient states, 0 at absorbing and zero-class states.
PolicyValue(m, w, QD) ==
  LET c   == Classify(m, w)
      ts  == SeqOfSet(c.trans, m.N)
      k   == Len(ts)
      M   == TLCEval([i \in 1..k |-> [j \in 1..k |->
                (IF i = j THEN m.GD * m.PD * QD ELSE 0) - m.GN * PPi(m, w, ts[i], ts[j])]])
      b   == TLCEval([i \in 1..k |-> m.GD * RPi(m, w, ts[i])])
      sol == Solve(M, b, k)
      det == sol[1]
  IN [s \in St(m) |->
        IF s \in ExplAbs(m) \/ s \in c.zero THEN <<0, 1>>
        ELSE IF s \in c.ninf THEN NEG
        ELSE IF det = 0 THEN Assert(FALSE, <<"singular transient system", w>>)
        ELSE Norm(sol[2][IndexOf(ts, s)], det)]

\* expected number of steps before absorption (undiscounted count) under a policy; POS if the policy
\* can get trapped in a non-absorbing recurrent class from s.  (I - Ppi) N = 1 on the states that are
\* transient for the *undiscounted* chain.
StepsValue(m, w, QD) ==
  LET na  == NonAbs(m)
      rch == TLCEval([s \in na |-> ReachPi(m, w, s)])
      rec == {s \in na : rch[s] \cap ExplAbs(m) = {} /\ \A t \in rch[s] : s \in rch[t]}
      inf == {s \in na : s \in rec \/ rch[s] \cap rec # {}}
      ts  == SeqOfSet(na \ inf, m.N)
      k   == Len(ts)
      M   == TLCEval([i \in 1..k |-> [j \in 1..k |->
                (IF i = j THEN m.PD * QD ELSE 0) - PPi(m, w, ts[i], ts[j])]])
      b   == [i \in 1..k |-> m.PD * QD]
      sol == Solve(M, b, k)
  IN [s \in St(m) |->
        IF s \in ExplAbs(m) THEN <<0, 1>>
        ELSE IF s \in inf THEN POS
        ELSE Norm(sol[2][IndexOf(ts, s)], sol[1])]

\* ---------------------------------------------------------------- one-step look-ahead
\* Q(s, a) from state values V (rationals / NEG), absorbing successors worth 0; UNAV if unavailable
QFromV(m, V, s, a) ==
  IF a \notin Avail(m, s) THEN UNAV
  ELSE IF \E t \in Succ(m, s, a) : t \notin ExplAbs(m) /\ V[t] = NEG THEN NEG
  ELSE LET term(t) ==
             IF m.P[s][a][t] = 0 THEN <<0, 1>>
             ELSE LET v == IF t \in ExplAbs(m) THEN <<0, 1>> ELSE V[t] IN
                  Norm(m.P[s][a][t] * (m.R[s][a][t] * m.GD * v[2] + m.GN * v[1]), m.PD * m.GD * v[2])
       IN RSumTo([t \in St(m) |-> term(t)], m.N)

\* ---------------------------------------------------------------- optimal values
\* V*(s) = max over deterministic stationary policies of V^pi(s).  For discounted MDPs and for
\* undiscounted MDPs with rewards <= 0 a single deterministic policy attains the maximum at every
\* state simultaneously, so the state-wise maximum is the optimal value function.
\* To stay inside 32-bit integers the discounted case does not compare values of *different*
\* policies: it looks for a policy whose own values satisfy the optimality equation
\* (Howard: pi is optimal iff V^pi >= Q^pi(., a) for all available a), at pi's common denominator.
SatisfiesOptimality(m, V) ==
  \A s \in NonAbs(m) : \A a \in Avail(m, s) : ~RLess(V[s], QFromV(m, V, s, a))

OptimalValue(m) ==
  IF Discounted(m) THEN
     LET vals == TLCEval({PolicyValue(m, AsWeights(m, pi), 1) : pi \in DetPols(m)})
         good == {V \in vals : SatisfiesOptimality(m, V)}
     IN IF good = {} THEN Assert(FALSE, "no optimal deterministic policy found") ELSE CHOOSE V \in good : TRUE
  ELSE
     LET vals == TLCEval({PolicyValue(m, AsWeights(m, pi), 1) : pi \in DetPols(m)})
     IN [s \in St(m) |-> RMaxSet({V[s] : V \in vals})]

OptimalQ(m, V) == [s \in St(m) |-> [a \in Ac(m) |-> IF s \in ExplAbs(m) THEN UNAV ELSE QFromV(m, V, s, a)]]

\* expectation over the initial distribution (numerator over ID); NEG if any supported state is NEG
InitialValue(m, V) ==
  IF \E s \in InitSupp(m) : V[s] = NEG THEN NEG
  ELSE LET r == RSumTo([s \in St(m) |-> IF m.p0[s] = 0 THEN <<0, 1>> ELSE RMul(<<m.p0[s], 1>>, V[s])], m.N)
       IN RMul(r, <<1, m.ID>>)

\* all deterministic policies are proper: from every non-absorbing state an (explicitly) absorbing
\* state is reached with probability 1 (needed by C03 / C04 / C10 / C17)
Proper(m) == \A pi \in DetPols(m) :
               LET w == AsWeights(m, pi) IN
               \A s \in NonAbs(m) : StepsValue(m, w, 1)[s] # POS
=============================================================================
