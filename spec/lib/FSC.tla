-------------------------------- MODULE FSC --------------------------------
(* Stochastic finite-state controllers for tabular POMDPs: exact semantics.               *)
(* Shared by the C09 specifications (C09_FSC, C09_Run; C09_Learn needs no model).          *)
(*                                                                                        *)
(* An instance is a POMDP instance record (spec/lib/POMDP.tla) extended with a controller  *)
(*   NN                 number of controller nodes 1..NN                                  *)
(*   QD, psi[n][a]      action strategy: Pr(a | node n) = psi[n][a] / QD                   *)
(*   ED, eta[n][a][o][k] node strategy: Pr(next node k | n, a, o) = eta[n][a][o][k] / ED   *)
(*   ND, iota[n]        initial node distribution iota[n] / ND                             *)
(*   lst[s]             1 iff s is in the state list the implementation works on (all       *)
(*                      states, or the reachable ones); used by the value oracle only        *)
(* Definition of the controller (Meuleau et al. 1999; Poupart & Boutilier 2003): the       *)
(* controller is in ONE hidden node n; it draws a ~ psi[n]; the world moves s -> t, emits   *)
(* o ~ O[a][t]; the controller moves to k ~ eta[n][a][o].  An episode ends on entering an   *)
(* (explicitly) absorbing state: no action is taken there.                                 *)
(*                                                                                        *)
(* All quantities are unnormalised integer weights (no rationals inside the recursions):   *)
(*   node weights   ag[n]     (a distribution over nodes is ag / NSum(ag))                 *)
(*   state weights  g[s]                                                                  *)
(*   joint weights  al[n][s]                                                              *)
(* All operators are constant-level and force their tables with TLCEval.                   *)
EXTENDS POMDP

Nd(m) == 1..m.NN

CWellFormed(m) ==
  /\ m.NN >= 1 /\ m.QD >= 1 /\ m.ED >= 1 /\ m.ND >= 1
  /\ \A n \in Nd(m) :
        /\ SumTo(m.psi[n], m.K) = m.QD
        /\ \A a \in Ac(m) : m.psi[n][a] >= 0
        /\ \A a \in Ac(m) : \A o \in Ob(m) :
              /\ SumTo(m.eta[n][a][o], m.NN) = m.ED
              /\ \A k \in Nd(m) : m.eta[n][a][o][k] >= 0
  /\ SumTo(m.iota, m.NN) = m.ND
  /\ \A n \in Nd(m) : m.iota[n] >= 0

\* ---------------------------------------------------------------- node weight vectors
NSum(m, ag) == SumTo(ag, m.NN)
NReduce(m, ag) ==
  LET g == GCDTo(ag, m.NN) IN
  IF g = 0 THEN ag ELSE TLCEval([n \in Nd(m) |-> ag[n] \div g])
NZero(m) == [n \in Nd(m) |-> 0]
InitNodes(m) == NReduce(m, [n \in Nd(m) |-> m.iota[n]])

\* ---------------------------------------------------------------- the controller object (R)
\* Pr(a | node weights ag) = ActW / ActDen : the mixture of the action rows
ActW(m, ag, a) == SumTo([n \in Nd(m) |-> IF ag[n] = 0 THEN 0 ELSE Safe(ag[n] * m.psi[n][a])], m.NN)
ActDen(m, ag) == Safe(NSum(m, ag) * m.QD)
ActRow(m, ag) == TLCEval([a \in Ac(m) |-> ActW(m, ag, a)])
\* node weights after taking a and seeing o: the node that acted is re-weighted by the probability
\* with which it would have chosen a (Bayes), then moves by its node-transition row.
\* Unnormalised over NSum(ag) * QD * ED; the entries sum to ActW(ag, a) * ED.
NodePost(m, ag, a, o) ==
  TLCEval([k \in Nd(m) |->
     SumTo([n \in Nd(m) |-> IF ag[n] = 0 \/ m.psi[n][a] = 0 THEN 0
                            ELSE Safe(Safe(ag[n] * m.psi[n][a]) * m.eta[n][a][o][k])], m.NN)])
NodeStep(m, ag, a, o) == NReduce(m, NodePost(m, ag, a, o))
\* the same update WITHOUT conditioning on the action taken (every node moves by its row for (a, o),
\* whatever the probability with which it would have chosen a).  Not the controller's semantics: kept
\* as a named alternative so that a divergence of an implementation can be classified.
NodeNaive(m, ag, a, o) ==
  NReduce(m, TLCEval([k \in Nd(m) |->
     SumTo([n \in Nd(m) |-> IF ag[n] = 0 THEN 0 ELSE Safe(ag[n] * m.eta[n][a][o][k])], m.NN)]))

\* ---------------------------------------------------------------- the world, episode semantics
\* state weights after (a, o) given that the episode was still running: absorbing states emit nothing.
\* Unnormalised over (previous denominator) * PD * OD.
EnvPost(m, g, a, o) ==
  TLCEval([t \in St(m) |->
     Safe(SumTo([s \in St(m) |-> IF g[s] = 0 \/ s \in ExplAbs(m) THEN 0 ELSE Safe(g[s] * m.P[s][a][t])], m.N)
          * m.O[a][t][o])])
LiveMass(m, g) == SumTo([s \in St(m) |-> IF s \in ExplAbs(m) THEN 0 ELSE g[s]], m.N)
InitStates(m) == TLCEval([s \in St(m) |-> m.p0[s]])

\* ---------------------------------------------------------------- history semantics (O2)
\* joint forward weights over (node, state) for a whole action/observation history, by the
\* definition of the controller (no factorisation, no normalisation):
\*   al_0[n][s] = iota[n] * p0[s]
\*   al'[k][t]  = Sum_{n} Sum_{s not absorbing} al[n][s] psi[n][a] P[s][a][t] O[a][t][o] eta[n][a][o][k]
\* Pr(the first Len(h) action/observation pairs of an episode are h) = JSum(al) / JDen(m, Len(h)).
CD(m) == Safe(Safe(m.QD * m.PD) * Safe(m.OD * m.ED))
JointInit(m) == TLCEval([n \in Nd(m) |-> [s \in St(m) |-> m.iota[n] * m.p0[s]]])
JointPost(m, al, a, o) ==
  TLCEval([k \in Nd(m) |-> TLCEval([t \in St(m) |->
     IF m.O[a][t][o] = 0 THEN 0
     ELSE SumTo([n \in Nd(m) |->
            IF m.psi[n][a] = 0 \/ m.eta[n][a][o][k] = 0 THEN 0
            ELSE Safe(Safe(m.psi[n][a] * m.eta[n][a][o][k]) *
                      SumTo([s \in St(m) |-> IF al[n][s] = 0 \/ s \in ExplAbs(m) THEN 0
                                             ELSE Safe(al[n][s] * m.P[s][a][t])], m.N))], m.NN)
          * m.O[a][t][o]])])
RECURSIVE JointAlpha(_, _)
JointAlpha(m, h) ==
  IF Len(h) = 0 THEN JointInit(m)
  ELSE LET e == h[Len(h)] IN JointPost(m, JointAlpha(m, SubSeq(h, 1, Len(h) - 1)), e.a, e.o)
JSum(m, al) == SumTo([n \in Nd(m) |-> SumTo(al[n], m.N)], m.NN)
JLive(m, al) == SumTo([n \in Nd(m) |-> LiveMass(m, al[n])], m.NN)
RECURSIVE Pow(_, _)
Pow(b, k) == IF k = 0 THEN 1 ELSE Safe(b * Pow(b, k - 1))
JDen(m, k) == Safe(Safe(m.ND * m.ID) * Pow(CD(m), k))
\* node-side and world-side forward weights of the same history (the joint factorises, see C09_FSC)
RECURSIVE NodeForward(_, _)
NodeForward(m, h) ==
  IF Len(h) = 0 THEN TLCEval([n \in Nd(m) |-> m.iota[n]])
  ELSE LET e == h[Len(h)] IN NodePost(m, NodeForward(m, SubSeq(h, 1, Len(h) - 1)), e.a, e.o)
NDen(m, k) == Safe(m.ND * Pow(Safe(m.QD * m.ED), k))
EDen(m, k) == Safe(m.ID * Pow(Safe(m.PD * m.OD), k))

\* ---------------------------------------------------------------- exact value of a controller (O1)
\* Markov chain on (node, state).  cut = TRUE: episodes end on entering an absorbing state, so the
\* unknowns are the pairs with a non-absorbing state and absorbing states are worth 0 (the semantics
\* of the property).  cut = FALSE: absorbing states are treated like any other state and keep their
\* declared outgoing rows (NOT the semantics; a named alternative used only to classify divergences).
\*   V[n][s] = rew(n, s) / (QD PD) + (GN / GD) Sum_{k, t} coef(n, s, k, t) / CD * V[k][t]
\* Both chains live on the listed states: the list contains the initial support and is closed under the
\* successors of its non-absorbing members (ListClosed), so for cut = TRUE nothing is lost; for
\* cut = FALSE the mass an absorbing state's declared row sends outside the list is dropped, which is what
\* an array-based implementation that "does not expand absorbing states" does.
Lst(m) == {s \in St(m) : m.lst[s] = 1}
ListClosed(m) ==
  /\ InitSupp(m) \subseteq Lst(m)
  /\ \A s \in Lst(m) \ ExplAbs(m) : \A a \in Ac(m) : Succ(m, s, a) \subseteq Lst(m)
VStates(m, cut) == IF cut THEN Lst(m) \ ExplAbs(m) ELSE Lst(m)
PairSeq(m, cut) ==
  LET ss == SeqOfSet(VStates(m, cut), m.N)
  IN [i \in 1..(m.NN * Len(ss)) |-> <<((i - 1) \div Len(ss)) + 1, ss[((i - 1) % Len(ss)) + 1]>>]
\* numerator over CD of Pr(next node k, next state t | node n, state s)
Coef(m, n, s, k, t) ==
  SumTo([a \in Ac(m) |->
     IF m.psi[n][a] = 0 \/ m.P[s][a][t] = 0 THEN 0
     ELSE Safe(Safe(m.psi[n][a] * m.P[s][a][t]) *
               SumTo([o \in Ob(m) |-> m.O[a][t][o] * m.eta[n][a][o][k]], m.NO))], m.K)
\* numerator over QD * PD of the expected immediate reward at (node n, state s), over listed successors
RewN(m, n, s) ==
  SumTo([a \in Ac(m) |->
     IF m.psi[n][a] = 0 THEN 0
     ELSE Safe(m.psi[n][a] * SumTo([t \in St(m) |-> IF m.lst[t] = 1 THEN m.P[s][a][t] * m.R[s][a][t] ELSE 0], m.N))], m.K)

\* the linear system (GD CD I - GN C) x = GD OD ED rew, each equation divided by the gcd of its entries
RawRow(m, pr, k, i) ==
  [j \in 1..(k + 1) |->
     IF j = k + 1 THEN Safe(Safe(m.GD * m.OD * m.ED) * RewN(m, pr[i][1], pr[i][2]))
     ELSE (IF i = j THEN Safe(m.GD * CD(m)) ELSE 0)
          - Safe(m.GN * Coef(m, pr[i][1], pr[i][2], pr[j][1], pr[j][2]))]
RowGcd(r, k) == GCDTo(r, k + 1)
System(m, cut) ==
  LET pr == PairSeq(m, cut)
      k  == Len(pr)
  IN TLCEval([i \in 1..k |->
        LET r == TLCEval(RawRow(m, pr, k, i))
            g == RowGcd(r, k)
        IN TLCEval([j \in 1..(k + 1) |-> r[j] \div g])])

\* determinants of any order by Laplace expansion along the first row (closed forms up to 3)
Minor1(mat, k, c) ==
  TLCEval([i \in 1..(k - 1) |-> [j \in 1..(k - 1) |-> mat[i + 1][IF j < c THEN j ELSE j + 1]]])
RECURSIVE DetR(_, _)
DetR(mat, k) ==
  IF k <= 3 THEN Det(mat, k)
  ELSE SumTo([c \in 1..k |->
         IF mat[1][c] = 0 THEN 0
         ELSE Safe(Sign(1, c) * mat[1][c] * DetR(Minor1(mat, k, c), k - 1))], k)
WithCol(sys, k, c) ==
  TLCEval([i \in 1..k |-> [j \in 1..k |-> IF j = c THEN sys[i][k + 1] ELSE sys[i][j]]])
\* Cramer: <<det, num>> with x[i] = num[i] / det
SolveSys(sys, k) ==
  <<DetR(TLCEval([i \in 1..k |-> [j \in 1..k |-> sys[i][j]]]), k),
    TLCEval([c \in 1..k |-> DetR(WithCol(sys, k, c), k)])>>

\* value table: [det, num (per pair), pairs, sys]; V[n][s] = num[index of (n, s)] / det
ValueSolve(m, cut) ==
  LET pr  == PairSeq(m, cut)
      k   == Len(pr)
      sys == System(m, cut)
      sol == SolveSys(sys, k)
  IN [det |-> sol[1], num |-> sol[2], pairs |-> pr, sys |-> sys, k |-> k]
\* numerator (over vs.det) of V[n][s]
VNum(m, vs, n, s) ==
  IF \E i \in 1..vs.k : vs.pairs[i] = <<n, s>>
  THEN vs.num[CHOOSE i \in 1..vs.k : vs.pairs[i] = <<n, s>>]
  ELSE 0
VTable(m, vs) == TLCEval([n \in Nd(m) |-> [s \in St(m) |-> Norm(VNum(m, vs, n, s), vs.det)]])
\* value of starting in state s with the initial node distribution: numerator over ND * det
SVNum(m, vs, s) == SumTo([n \in Nd(m) |-> Safe(m.iota[n] * VNum(m, vs, n, s))], m.NN)
\* value at the initial state distribution: numerator over ID * ND * det
EVNum(m, vs) == SumTo([s \in St(m) |-> Safe(m.p0[s] * SVNum(m, vs, s))], m.N)

\* the solution satisfies every (reduced) equation of the system exactly
SolvesSystem(vs) ==
  /\ vs.det # 0
  /\ \A i \in 1..vs.k :
        SumTo([j \in 1..vs.k |-> Safe(vs.sys[i][j] * vs.num[j])], vs.k) = Safe(vs.sys[i][vs.k + 1] * vs.det)

\* some explicitly absorbing state declares outgoing dynamics other than a zero-reward self-loop
GhostMatters(m) ==
  \E s \in ExplAbs(m) \cap Lst(m) : \E a \in Ac(m) :
     m.P[s][a][s] # m.PD \/ \E t \in St(m) : m.P[s][a][t] > 0 /\ m.R[s][a][t] # 0

\* ---------------------------------------------------------------- tiny probabilities, symbolically
\* Controllers whose rows contain entries like 1e-9 cannot be written as integers over a common
\* denominator inside 32 bits.  They are modelled with a SYMBOLIC small parameter e > 0:
\*   Pr(a | node n)     = (psi[n][a] + psie[n][a] * e) / QD      (row: sum psi = QD, sum psie = 0)
\*   Pr(initial node n) = (iota[n]   + iotae[n]   * e) / ND      (sum iota = ND, sum iotae = 0)
\* (an entry whose constant part is 0 must have a coefficient >= 0; eta stays constant).  All node-side
\* weights become polynomials in e with small integer coefficients: a polynomial is a function
\* 1..LP -> Int, index i holding the coefficient of e^(i-1).  Every identity below holds for ALL e, the
\* harness evaluates the emitted polynomials at concrete values (1e-5, 1e-9, 1e-12) with exact rationals.
LP == 7
PZero == [i \in 1..LP |-> 0]
PLin(c, d) == [i \in 1..LP |-> IF i = 1 THEN c ELSE IF i = 2 THEN d ELSE 0]
PAdd(p, q) == [i \in 1..LP |-> p[i] + q[i]]
PScale(k, p) == [i \in 1..LP |-> Safe(k * p[i])]
PDeg(p) == IF \A i \in 1..LP : p[i] = 0 THEN 0 ELSE CHOOSE i \in 1..LP : p[i] # 0 /\ \A j \in (i + 1)..LP : p[j] = 0
PMul(p, q) ==
  IF PDeg(p) + PDeg(q) > LP + 1 THEN Assert(FALSE, <<"polynomial degree guard", p, q>>)
  ELSE TLCEval([i \in 1..LP |-> SumTo([j \in 1..i |-> IF p[j] = 0 \/ q[i - j + 1] = 0 THEN 0 ELSE Safe(p[j] * q[i - j + 1])], i)])
\* sign for all sufficiently small e > 0 = sign of the lowest non-zero coefficient
PLow(p) == IF \A i \in 1..LP : p[i] = 0 THEN 0 ELSE CHOOSE i \in 1..LP : p[i] # 0 /\ \A j \in 1..(i - 1) : p[j] = 0
PSign(p) == IF PLow(p) = 0 THEN 0 ELSE IF p[PLow(p)] > 0 THEN 1 ELSE -1
RECURSIVE PSumTo(_, _)
PSumTo(f, k) == IF k = 0 THEN PZero ELSE PAdd(f[k], PSumTo(f, k - 1))

PsiP(m, n, a) == PLin(m.psi[n][a], m.psie[n][a])
IotaP(m, n) == PLin(m.iota[n], m.iotae[n])
TinyWellFormed(m) ==
  /\ \A n \in Nd(m) :
        /\ SumTo(m.psie[n], m.K) = 0
        /\ \A a \in Ac(m) : PSign(PsiP(m, n, a)) >= 0
  /\ SumTo(m.iotae, m.NN) = 0
  /\ \A n \in Nd(m) : PSign(IotaP(m, n)) >= 0

\* node weight vectors of polynomials; canonical form: divided by the gcd of all coefficients and by the
\* largest common power of e (both are positive scalars, so the distribution is unchanged)
PVecGcd(m, w) == GCDTo([n \in Nd(m) |-> GCDTo(w[n], LP)], m.NN)
PVecLow(m, w) ==
  LET lows == {PLow(w[n]) : n \in {k \in Nd(m) : PLow(w[k]) # 0}} IN
  IF lows = {} THEN 0 ELSE MinSet(lows)
PVecReduce(m, w) ==
  LET g == PVecGcd(m, w) sh == PVecLow(m, w) IN
  IF g = 0 THEN w
  ELSE TLCEval([n \in Nd(m) |-> [i \in 1..LP |-> IF i + sh - 1 <= LP THEN w[n][i + sh - 1] \div g ELSE 0]])
PVecSum(m, w) == PSumTo(w, m.NN)
InitNodesP(m) == PVecReduce(m, TLCEval([n \in Nd(m) |-> IotaP(m, n)]))
\* action mixture (over QD * PVecSum) and Bayes update of the node weights, as in ActW / NodePost
ActP(m, w, a) == PSumTo(TLCEval([n \in Nd(m) |-> PMul(w[n], PsiP(m, n, a))]), m.NN)
ActRowP(m, w) == TLCEval([a \in Ac(m) |-> ActP(m, w, a)])
NodePostP(m, w, a, o) ==
  TLCEval([k \in Nd(m) |->
     PSumTo(TLCEval([n \in Nd(m) |-> IF m.eta[n][a][o][k] = 0 THEN PZero
                                      ELSE PScale(m.eta[n][a][o][k], PMul(w[n], PsiP(m, n, a)))]), m.NN)])
NodeStepP(m, w, a, o) == PVecReduce(m, NodePostP(m, w, a, o))
RECURSIVE NodeForwardP(_, _)
NodeForwardP(m, h) ==
  IF Len(h) = 0 THEN TLCEval([n \in Nd(m) |-> IotaP(m, n)])
  ELSE LET e == h[Len(h)] IN NodePostP(m, NodeForwardP(m, SubSeq(h, 1, Len(h) - 1)), e.a, e.o)
\* joint forward weights over (node, state) by the definition of the controller (as JointAlpha)
JointInitP(m) == TLCEval([n \in Nd(m) |-> [s \in St(m) |-> PScale(m.p0[s], IotaP(m, n))]])
JointPostP(m, al, a, o) ==
  TLCEval([k \in Nd(m) |-> TLCEval([t \in St(m) |->
     IF m.O[a][t][o] = 0 THEN PZero
     ELSE PScale(m.O[a][t][o],
            PSumTo(TLCEval([n \in Nd(m) |->
               IF m.eta[n][a][o][k] = 0 THEN PZero
               ELSE PScale(m.eta[n][a][o][k],
                      PMul(PsiP(m, n, a),
                           PSumTo(TLCEval([s \in St(m) |->
                              IF s \in ExplAbs(m) \/ m.P[s][a][t] = 0 THEN PZero
                              ELSE PScale(m.P[s][a][t], al[n][s])]), m.N)))]), m.NN))])])
RECURSIVE JointAlphaP(_, _)
JointAlphaP(m, h) ==
  IF Len(h) = 0 THEN JointInitP(m)
  ELSE LET e == h[Len(h)] IN JointPostP(m, JointAlphaP(m, SubSeq(h, 1, Len(h) - 1)), e.a, e.o)
JSumP(m, al) == PSumTo(TLCEval([n \in Nd(m) |-> PSumTo(al[n], m.N)]), m.NN)

\* ---------------------------------------------------------------- values for a discount close to 1, symbolically
\* Discounts such as 0.99995 make Cramer's integers leave 32 bits.  The discount is written 1 - d with a SYMBOLIC
\* d, and the evaluation equations (episodes end at absorbing states, chain on the listed non-absorbing states)
\*   CD x[n,s] - (1 - d) Sum_{k,t} coef(n,s,k,t) x[k,t] = OD ED rew(n,s)
\* are solved by Cramer on polynomials in d (entries (CD [i=j] - c_ij) + c_ij d): x_i = num_i(d) / det(d) for
\* EVERY d.  The harness evaluates the emitted polynomials exactly at d = 1/20000, 1/100000, ...
PNeg(p) == [i \in 1..LP |-> -p[i]]
SystemP(m) ==
  LET pr == PairSeq(m, TRUE)
      k  == Len(pr)
  IN TLCEval([i \in 1..k |-> [j \in 1..(k + 1) |->
        IF j = k + 1 THEN PLin(Safe(Safe(m.OD * m.ED) * RewN(m, pr[i][1], pr[i][2])), 0)
        ELSE LET c == Coef(m, pr[i][1], pr[i][2], pr[j][1], pr[j][2])
             IN PLin((IF i = j THEN CD(m) ELSE 0) - c, c)]])
RECURSIVE DetP(_, _)
DetP(mat, k) ==
  IF k = 0 THEN PLin(1, 0)
  ELSE IF k = 1 THEN mat[1][1]
  ELSE PSumTo(TLCEval([c \in 1..k |->
         IF PSign(mat[1][c]) = 0 THEN PZero
         ELSE LET t == PMul(mat[1][c], DetP(Minor1(mat, k, c), k - 1))
              IN IF Sign(1, c) = 1 THEN t ELSE PNeg(t)]), k)
ValueSolveP(m) ==
  LET pr  == PairSeq(m, TRUE)
      k   == Len(pr)
      sys == SystemP(m)
      sq  == TLCEval([i \in 1..k |-> [j \in 1..k |-> sys[i][j]]])
  IN [det |-> DetP(sq, k), num |-> TLCEval([c \in 1..k |-> DetP(WithCol(sys, k, c), k)]),
      pairs |-> pr, sys |-> sys, k |-> k]
\* the solution satisfies every equation as an identity in d, and the determinant is not the zero polynomial
SolvesSystemP(vs) ==
  /\ PSign(vs.det) # 0
  /\ \A i \in 1..vs.k :
        PSumTo(TLCEval([j \in 1..vs.k |-> PMul(vs.sys[i][j], vs.num[j])]), vs.k) = PMul(vs.sys[i][vs.k + 1], vs.det)
=============================================================================
