----------------------------- MODULE StochGame -----------------------------
(* Finite tabular stochastic games (msdm.core.stochasticgame) and the exact oracles     *)
(* used by the X04 specifications.                                                      *)
(*                                                                                      *)
(* An instance g is a record (read from a JSON batch):                                  *)
(*   N, G            states 1..N, agents 1..G                                           *)
(*   K[i]            number of actions 1..K[i] of agent i                               *)
(*   J, comp[j][i]   joint actions 1..J; comp[j][i] = the action agent i plays in j     *)
(*                   (CompOk: comp is a bijection onto the product of the action sets)  *)
(*   avail[s][i][a]  1 iff joint_actions(s)[i] contains a (per-agent availability)      *)
(*   term[s]         1 iff is_terminal(s)                                               *)
(*   PD, P[s][j][t]  next_state_dist(s, j) gives t the probability P/PD.  PD = 0 marks   *)
(*                   an instance extracted from a real game whose probabilities are not *)
(*                   small fractions: P then holds value identifiers (0 = probability   *)
(*                   zero, equal ids = equal floats) and nothing is summed in TLA+      *)
(*   Z[s][j][t]      1 iff the distribution lists t with probability 0                  *)
(*   R[s][j][t][i]   integer reward of agent i for the step (s, j, t)                   *)
(*   ID, p0[s], Z0[s]  initial distribution p0/ID and its zero-probability entries      *)
(*   pos[s]          position identifiers of the agents in s (grid games; else empty)   *)
(* Terminal states and unavailable joint actions keep arbitrary "ghost" rows P, Z, R:   *)
(* the functional interface answers there too, and nothing reachable may depend on it.  *)
(* A joint policy (pol = 1) is given per agent:                                         *)
(*   QD, W[i][s][a]  agent i plays a in s with probability W/QD                         *)
(*   WL[i][s][a]     1 iff agent i's policy dictionary at s has the key a               *)
(* All operators are constant level (data as arguments) so that tables can be forced    *)
(* with TLCEval.                                                                        *)
EXTENDS Num

GSt(g)  == 1..g.N
GAg(g)  == 1..g.G
GJA(g)  == 1..g.J
GActs(g, i) == 1..g.K[i]
Opaque(g) == g.PD = 0

RECURSIVE ProdTo(_, _)
ProdTo(f, k) == IF k = 0 THEN 1 ELSE f[k] * ProdTo(f, k - 1)
RECURSIVE PowI(_, _)
PowI(b, k) == IF k = 0 THEN 1 ELSE b * PowI(b, k - 1)

\* ------------------------------------------------------------------ joint-action structure
\* comp enumerates the product of the agents' action sets exactly once
CompOk(g) ==
  /\ g.J = ProdTo(g.K, g.G)
  /\ \A j \in GJA(g) : Len(g.comp[j]) = g.G /\ \A i \in GAg(g) : g.comp[j][i] \in GActs(g, i)
  /\ \A j1 \in GJA(g) : \A j2 \in GJA(g) : j1 # j2 => g.comp[j1] # g.comp[j2]

AgentAvail(g, s, i) == {a \in GActs(g, i) : g.avail[s][i][a] = 1}
\* the joint actions of a state are the product of what joint_actions(s) lists per agent
JAvail(g, s) == {j \in GJA(g) : \A i \in GAg(g) : g.avail[s][i][g.comp[j][i]] = 1}
\* product structure, stated independently: as many joint actions as the product of the list lengths,
\* and every combination of available components occurs
ProductOk(g, s) ==
  /\ Cardinality(JAvail(g, s)) = ProdTo([i \in GAg(g) |-> Cardinality(AgentAvail(g, s, i))], g.G)
  /\ \A i \in GAg(g) : {g.comp[j][i] : j \in JAvail(g, s)} =
                       (IF JAvail(g, s) = {} THEN {} ELSE AgentAvail(g, s, i))

\* ------------------------------------------------------------------ dynamics
GTerm(g) == {s \in GSt(g) : g.term[s] = 1}
GSucc(g, s, j)   == {t \in GSt(g) : g.P[s][j][t] > 0}
GListed(g, s, j) == {t \in GSt(g) : g.P[s][j][t] > 0 \/ g.Z[s][j][t] = 1}
\* v = 0: the statement (positive probability); v = 1: every listed entry (`.support` of the real
\* distributions contains zero-probability entries)
GOut(g, v, s, j) == IF v = 0 THEN GSucc(g, s, j) ELSE GListed(g, s, j)
GEdges(g, v, s) == UNION {GOut(g, v, s, j) : j \in JAvail(g, s)}
GInit(g, v) == {s \in GSt(g) : g.p0[s] > 0 \/ (v = 1 /\ g.Z0[s] = 1)}
GAdj(g, v) == TLCEval([s \in GSt(g) |-> GEdges(g, v, s)])

RECURSIVE GClosure(_, _, _, _)
\* least superset of cur closed under adj at members outside `stop`
GClosure(adj, stop, cur, k) ==
  IF k = 0 THEN cur
  ELSE LET nxt == cur \cup UNION {adj[t] : t \in (cur \ stop)} IN
       IF nxt = cur THEN cur ELSE GClosure(adj, stop, nxt, k - 1)
\* states reachable from the initial support; terminal states are not expanded
GReach(g, v) == GClosure(GAdj(g, v), GTerm(g), GInit(g, v), g.N)
GClosed(g, v, X) == \A s \in X \ GTerm(g) : GEdges(g, v, s) \subseteq X

\* ------------------------------------------------------------------ keyed views (the statement)
OT(g, s, j, t) == IF j \in JAvail(g, s) THEN g.P[s][j][t] ELSE 0
OR(g, s, j, t, i) == IF j \in JAvail(g, s) /\ g.P[s][j][t] > 0 THEN g.R[s][j][t][i] ELSE 0
OA(g, s, j) == IF j \in JAvail(g, s) THEN 1 ELSE 0
\* absorbingstatevec: every outcome of every available joint action is terminal
OAbs(g, v, s) == \A j \in JAvail(g, s) : \A t \in GOut(g, v, s, j) : g.term[t] = 1
\* expected one-step reward of agent i, numerator over PD, summed over the listed states L
OSAR(g, L, s, j, i) == SumSet([t \in GSt(g) |-> OT(g, s, j, t) * OR(g, s, j, t, i)], L)
Positions(g, L) == UNION {Range(g.pos[s]) : s \in L}

WellFormedGame(g) ==
  /\ CompOk(g)
  /\ \A s \in GSt(g) : \A j \in GJA(g) :
        /\ \A t \in GSt(g) : g.P[s][j][t] >= 0 /\ (g.Z[s][j][t] = 1 => g.P[s][j][t] = 0)
        /\ ~Opaque(g) => SumTo([t \in GSt(g) |-> g.P[s][j][t]], g.N) = g.PD
        /\ GSucc(g, s, j) # {}
  /\ \A s \in GSt(g) : g.p0[s] >= 0 /\ (g.Z0[s] = 1 => g.p0[s] = 0)
  /\ SumTo([s \in GSt(g) |-> g.p0[s]], g.N) = g.ID

\* ------------------------------------------------------------------ joint policies
\* probability of joint action j in s, numerator over QD^G: the product of the agents' own policies
JointProb(g, s, j) == ProdTo([i \in GAg(g) |-> g.W[i][s][g.comp[j][i]]], g.G)
JointSupport(g, s) == {j \in GJA(g) : JointProb(g, s, j) > 0}
\* some agent's policy dictionary at s has no entry for its component of j
PolMissing(g, s, j) == \E i \in GAg(g) : g.WL[i][s][g.comp[j][i]] = 0
WellFormedPolicy(g) ==
  \A i \in GAg(g) : \A s \in GSt(g) :
     /\ SumTo([a \in GActs(g, i) |-> g.W[i][s][a]], g.K[i]) = g.QD
     /\ \A a \in GActs(g, i) : /\ g.W[i][s][a] >= 0
                               /\ (g.W[i][s][a] > 0 => g.WL[i][s][a] = 1 /\ g.avail[s][i][a] = 1)

\* ------------------------------------------------------------------ roll-outs (MultiAgentPolicy.run_on)
\* A recorded roll-out is a sequence of events [s, j, r]: state, joint action, joint rewards.  The state
\* after the last event is not returned by run_on.  JudgeEvent names every clause of "the trajectory
\* is valid" that event l breaks; mx = maxSteps, init = the initial state handed to run_on (0: sampled).
JudgeEvent(g, mx, init, ev, l) ==
  LET e == ev[l]
      n == Len(ev)
  IN  (IF l = 1 /\ init = 0 /\ g.p0[e.s] = 0 THEN {"initial-state-outside-initial-support"} ELSE {})
 \cup (IF l = 1 /\ init # 0 /\ e.s # init THEN {"initial-state-not-the-given-one"} ELSE {})
 \cup (IF l = 1 /\ g.term[e.s] = 1 THEN {"step-from-terminal-initial-state"} ELSE {})
 \cup (IF l > mx THEN {"longer-than-max-steps"} ELSE {})
 \cup (IF e.j \notin JAvail(g, e.s) THEN {"joint-action-unavailable"} ELSE {})
 \cup (IF JointProb(g, e.s, e.j) = 0 THEN {"joint-action-has-zero-policy-probability"} ELSE {})
 \cup (IF l < n
       THEN LET t == ev[l + 1].s IN
               (IF g.P[e.s][e.j][t] = 0 THEN {"successor-has-zero-probability"} ELSE {})
          \cup (IF g.R[e.s][e.j][t] # e.r THEN {"reward"} ELSE {})
          \cup (IF g.term[t] = 1 THEN {"continued-after-terminal-state"} ELSE {})
       ELSE LET cands == {t \in GSucc(g, e.s, e.j) : g.R[e.s][e.j][t] = e.r} IN
               (IF cands = {} THEN {"reward"} ELSE {})
          \cup (IF n < mx /\ cands # {} /\ cands \cap GTerm(g) = {} THEN {"stopped-before-terminal-state"} ELSE {}))
JudgeRun(g, mx, init, ev) == UNION {JudgeEvent(g, mx, init, ev, l) : l \in 1..Len(ev)}
=============================================================================
