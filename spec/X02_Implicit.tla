---------------------------- MODULE X02_Implicit ----------------------------
(* Extension X02: implicit (Monte-Carlo) distributions are their seeded sample streams.  *)
(*                                                                                      *)
(* (M) abstract model.  Events are integers 1..KE.  A *stream* is the finite sequence of *)
(*     events that the stochastic function returns on successive calls with one         *)
(*     generator; a generator is (seed id, position).  Generators that were seeded      *)
(*     equally read the same stream: streams[sd].  An ImplicitDistribution object is    *)
(*        [ch |-> chain of <<"m", j>> (marginalize by projection F[j]) and              *)
(*                         <<"c", j>> (condition on predicate P[j]) applied to the root, *)
(*         sd |-> seed id, pos |-> how far its OWN generator has been read,             *)
(*         ss |-> 1 while only sample() calls have read it]                             *)
(*     every object has the sample count n of the case.  External generators (the       *)
(*     argument of sample(rng=...)) are exts[x] = [sd, pos].                            *)
(*     In mode "mc" TLC chooses the streams: ALL sequences over 1..K of the lengths     *)
(*     the case names; in "script"/"trace" mode the case carries them.                  *)
(* (R) implementation-shaped reference machine - one action per step of the code:      *)
(*        New(sd)            ImplicitDistribution(f, n, seed)                            *)
(*        Marg(o, j)         o.marginalize(F[j])   -> NEW object, same seed, own fresh   *)
(*        Cond(o, j)         o.condition(P[j])        generator (position 0)             *)
(*        Sample(o)          o.sample()            one call of o's sampler on its own    *)
(*                                                 cached generator (continues)          *)
(*        SampleX(o, x)      o.sample(rng=g_x)     the same on the given generator; the  *)
(*                                                 own generator is not touched          *)
(*        ICall(o)           it = o.items()        a python generator: reads NOTHING     *)
(*        IIter(o)           list(it)              begins the Monte-Carlo loop ...       *)
(*        Expect(o, j)       o.expectation(G[j])   ... as does expectation               *)
(*        McDraw             one pass of `for _ in range(n_samples)`: one call of the    *)
(*                           sampler on the own generator, counts[e] += 1 / val += g(e)  *)
(*        McEnd              divide by n_samples, return                                 *)
(*     A sampler call is the operator Draw: the root reads one stream element; "m"       *)
(*     applies the projection; "c" is the loop `for _ in range(n_samples)` of            *)
(*     rejection_sampler (Try), which raises after n rejected tries; an inner raise      *)
(*     propagates.  The cached `_rng` is never re-seeded: every call CONTINUES the       *)
(*     stream of the object (items() twice gives two different tables).                  *)
(* (O) exact oracle, written independently of Draw/Try: Lift (map / filter of the        *)
(*     consumed stream segment), Count, the bounded-existential characterisation of      *)
(*     rejection sampling over the parent's successive results (PRuns).                  *)
(* (P) the clauses of the statement as invariants over the last completed call (bottom). *)
(* Every completed call is classified by the machine (field cls): "fresh" (first read of *)
(* the generator used: a clause of the statement), "chain" (only sample() calls read it  *)
(* before: required by the repository's own test), "cont" / "lazy" (continuation of the  *)
(* cached generator after items/expectation, deferred items(): implementation shaped).   *)
(* Modes (IOEnv.MODE): "mc" explores every call sequence over every stream of the family *)
(* (bounded by the stream lengths: every reading call consumes the stream) and emits the  *)
(* expected result of every call (pipeline A); "script" runs the call sequence a sampled *)
(* case names and emits the same; "trace" runs the recorded call sequence of a real      *)
(* seeded run and compares every recorded result inside TLC (pipeline B).                *)
(* A case (one element of the batch file): n (n_samples >= 1), K (stream alphabet), KE    *)
(* (event alphabet, images of projections included), menus F (projections, tables over   *)
(* 1..KE), P (predicates, 0/1 tables), G (real functions, integers; the real value is    *)
(* G/GD), xsd (seed id of every external generator), enum/Ls (mc: enumerate all streams  *)
(* of these lengths) or streams, ops/depth/maxobj/maxchain/lazy (mc: which calls, how    *)
(* many, how many objects, chain length, whether a call may separate items() from its    *)
(* iteration), script (the calls, script/trace), obs (the recorded results, trace).      *)
(* Findings about the real class that the machine makes explicit (all DRIFT-level, none   *)
(* contradicts a docstring or test of msdm): the cached generator is never restarted, so  *)
(* items() / expectation() are not idempotent; items() is deferred until iterated; a      *)
(* derived object re-reads the seeded stream from its beginning whatever the parent has   *)
(* read (parent and child are functions of the SAME draws, not independent samples);      *)
(* condition needs up to n tries per sample (n*n reads per items()) and an inner raise     *)
(* leaves the loop of an outer condition.                                                 *)
EXTENDS Num, Json, IOUtils

Batch ==JsonDeserialize(IOEnv.BATCH_FILE)
Mode  == IOEnv.MODE
QS    == 1024        \* trace mode: recorded floats are round(x * QS) after scaling to integers

VARIABLES cid, streams, objs, exts, pend, run, out, hist, l, phase
vars == <<cid, streams, objs, exts, pend, run, out, hist, l, phase>>
B == Batch[cid]
\* hist (the calls that led here) is history only; where a family bounds the number of calls (depth < 99) that
\* number is part of the view, so that the explored set does not depend on the order in which TLC finds paths
View == <<cid, streams, objs, exts, pend, run, out, l, phase, IF Mode = "mc" /\ B.depth < 99 THEN Len(hist) ELSE 0>>

\* ------------------------------------------------------------------ frequency tables (insertion ordered)
EmptyTab == [ev |-> <<>>, c |-> <<>>]
Has(sq, x) == \E i \in 1..Len(sq) : sq[i] = x
PosIn(sq, x) == CHOOSE i \in 1..Len(sq) : sq[i] = x
\* counts[e] += 1 on a defaultdict
Acc(T, e) == IF Has(T.ev, e) THEN [ev |-> T.ev, c |-> [T.c EXCEPT ![PosIn(T.ev, e)] = @ + 1]]
             ELSE [ev |-> Append(T.ev, e), c |-> Append(T.c, 1)]
TabAt(T, e) == IF Has(T.ev, e) THEN T.c[PosIn(T.ev, e)] ELSE 0

\* ------------------------------------------------------------------ (R) one call of an object's sampler
Res(st, ev, pos) == [st |-> st, ev |-> ev, pos |-> pos]
RECURSIVE Draw(_, _, _, _, _), Try(_, _, _, _, _, _)
\* the sampler of the chain prefix ch[1..k] reading stream str from position pos
Draw(m, ch, k, str, pos) ==
  IF k = 0 THEN (IF pos < Len(str) THEN Res("ok", str[pos + 1], pos + 1) ELSE Res("exh", 0, pos))
  ELSE IF ch[k].op = "m" THEN
         LET r == Draw(m, ch, k - 1, str, pos) IN
         IF r.st = "ok" THEN Res("ok", m.F[ch[k].j][r.ev], r.pos) ELSE r
  ELSE Try(m, ch, k, str, pos, m.n)
\* rejection_sampler: t tries left
Try(m, ch, k, str, pos, t) ==
  IF t = 0 THEN Res("raise", 0, pos)
  ELSE LET r == Draw(m, ch, k - 1, str, pos) IN
       IF r.st # "ok" THEN r
       ELSE IF m.P[ch[k].j][r.ev] = 1 THEN r
       ELSE Try(m, ch, k, str, r.pos, t - 1)

\* ------------------------------------------------------------------ completed calls
Entry(op, o, j, x, cls, st, ev, tab, sum, gsd, p0, p1) ==
  [op |-> op, o |-> o, j |-> j, x |-> x, cls |-> cls, st |-> st, ev |-> ev, tab |-> tab, sum |-> sum,
   gsd |-> gsd, p0 |-> p0, p1 |-> p1]
NoOut  == Entry("init", 0, 0, 0, "", "none", 0, EmptyTab, 0, 0, 0, 0)
Idle   == [kind |-> "idle", o |-> 0, j |-> 0, k |-> 0, p0 |-> 0, tab |-> EmptyTab, sum |-> 0, cls |-> ""]
NoPend == [o |-> 0, dirty |-> 0]

\* ------------------------------------------------------------------ trace mode: recorded result vs expected
NoDup(sq) == \A a \in 1..Len(sq) : \A b \in 1..Len(sq) : sq[a] = sq[b] => a = b
SameTab(T, ob) ==
  /\ Len(ob.tabev) = Len(ob.tabc) /\ NoDup(ob.tabev)
  /\ Range(ob.tabev) = Range(T.ev)
  /\ \A i \in 1..Len(ob.tabev) : ob.tabc[i] = QS * TabAt(T, ob.tabev[i])
Diff(e, ob) ==
  IF e.st = "none" THEN ""
  ELSE IF e.st # ob.st THEN "st"
  ELSE IF e.st = "raise" THEN ""
  ELSE IF e.op \in {"sample", "samplex"} THEN (IF e.ev # ob.ev THEN "ev" ELSE "")
  ELSE IF e.op = "iiter" THEN (IF SameTab(e.tab, ob) THEN "" ELSE "tab")
  ELSE (IF e.sum * QS # ob.sum THEN "sum" ELSE "")
\* implementation-shaped differences of an accepted call: never a rejection
Note(e, ob) ==
  IF e.st \in {"none"} THEN ""
  ELSE IF e.op = "iiter" /\ e.st = "ok" /\ ob.tabev # e.tab.ev THEN "order"
  ELSE IF ob.nd # e.p1 - e.p0 THEN "draws"
  ELSE ""

\* ------------------------------------------------------------------ machine
StreamSets(b) ==
  IF b.enum = 1
  THEN {<<s1, s2>> : s1 \in [1..b.Ls[1] -> 1..b.K], s2 \in [1..b.Ls[2] -> 1..b.K]}
  ELSE {b.streams}

Init ==
  /\ cid \in 1..Len(Batch)
  /\ streams \in StreamSets(Batch[cid])
  /\ objs = <<[ch |-> <<>>, sd |-> 1, pos |-> 0, ss |-> 1]>>
  /\ exts = [x \in 1..Len(Batch[cid].xsd) |-> [sd |-> Batch[cid].xsd[x], pos |-> 0]]
  /\ pend = NoPend /\ run = Idle /\ out = NoOut /\ hist = <<>>
  /\ l = 1 /\ phase = "run"

Idling == phase = "run" /\ run.kind = "idle"
\* a case with lazy = 0 iterates every items() generator at once (no call between items() and list(it))
Ready == Idling /\ (B.lazy = 1 \/ pend.o = 0) /\ (Mode = "mc" => Len(hist) < B.depth)
\* which call comes next: any (mc) / the one the script names
Pick(op, o, j, x) ==
  IF Mode = "mc" THEN op \in Range(B.ops)
  ELSE l <= Len(B.script) /\ B.script[l] = [op |-> op, o |-> o, j |-> j, x |-> x]
Adv == l' = IF Mode = "mc" THEN l ELSE l + 1

Complete(e) ==
  /\ out' = e
  /\ hist' = Append(hist, e)
  /\ phase' = IF Mode = "trace" /\ Diff(e, B.obs[Len(hist) + 1]) # "" THEN "rejected" ELSE phase
\* the stream the case supplies is too short for this call: the behaviour is cut (never judged)
Cut == phase' = "cut" /\ UNCHANGED <<cid, streams, objs, exts, pend, run, out, hist, l>>

Derive(o, kind, j) ==
  /\ Len(objs) < B.maxobj /\ Len(objs[o].ch) < B.maxchain
  /\ objs' = Append(objs, [ch |-> Append(objs[o].ch, [op |-> kind, j |-> j]), sd |-> objs[o].sd, pos |-> 0, ss |-> 1])

ANew(sd) ==
  /\ Ready /\ Pick("new", 0, sd, 0) /\ Adv
  /\ Len(objs) < B.maxobj
  /\ objs' = Append(objs, [ch |-> <<>>, sd |-> sd, pos |-> 0, ss |-> 1])
  /\ Complete(Entry("new", Len(objs) + 1, sd, 0, "", "none", 0, EmptyTab, 0, sd, 0, 0))
  /\ UNCHANGED <<cid, streams, exts, pend, run>>
AMarg(o, j) ==
  /\ Ready /\ Pick("marg", o, j, 0) /\ Adv
  /\ Derive(o, "m", j)
  /\ Complete(Entry("marg", o, j, 0, "", "none", 0, EmptyTab, 0, objs[o].sd, 0, 0))
  /\ UNCHANGED <<cid, streams, exts, pend, run>>
ACond(o, j) ==
  /\ Ready /\ Pick("cond", o, j, 0) /\ Adv
  /\ Derive(o, "c", j)
  /\ Complete(Entry("cond", o, j, 0, "", "none", 0, EmptyTab, 0, objs[o].sd, 0, 0))
  /\ UNCHANGED <<cid, streams, exts, pend, run>>

ASample(o) ==
  /\ Ready /\ Pick("sample", o, 0, 0)
  /\ LET ob == objs[o]
         r  == Draw(B, ob.ch, Len(ob.ch), streams[ob.sd], ob.pos)
         cls == IF ob.pos = 0 THEN "fresh" ELSE IF ob.ss = 1 THEN "chain" ELSE "cont" IN
     IF r.st = "exh" THEN Cut
     ELSE /\ Adv
          /\ objs' = [objs EXCEPT ![o].pos = r.pos]
          /\ pend' = IF pend.o = o THEN [pend EXCEPT !.dirty = 1] ELSE pend
          /\ Complete(Entry("sample", o, 0, 0, cls, r.st, r.ev, EmptyTab, 0, ob.sd, ob.pos, r.pos))
          /\ UNCHANGED <<cid, streams, exts, run>>
ASampleX(o, x) ==
  /\ Ready /\ Pick("samplex", o, 0, x)
  /\ LET ob == objs[o]
         g  == exts[x]
         r  == Draw(B, ob.ch, Len(ob.ch), streams[g.sd], g.pos)
         cls == IF g.pos = 0 THEN "fresh" ELSE "chain" IN
     IF r.st = "exh" THEN Cut
     ELSE /\ Adv
          /\ exts' = [exts EXCEPT ![x].pos = r.pos]
          /\ Complete(Entry("samplex", o, 0, x, cls, r.st, r.ev, EmptyTab, 0, g.sd, g.pos, r.pos))
          /\ UNCHANGED <<cid, streams, objs, pend, run>>

\* items() is a python generator function: the call itself reads nothing
AICall(o) ==
  /\ Ready /\ Pick("icall", o, 0, 0) /\ Adv
  /\ pend.o = 0
  /\ pend' = [o |-> o, dirty |-> 0]
  /\ Complete(Entry("icall", o, 0, 0, "", "none", 0, EmptyTab, 0, objs[o].sd, 0, 0))
  /\ UNCHANGED <<cid, streams, objs, exts, run>>
McCls(o, dirty) == IF dirty = 1 THEN "lazy" ELSE IF objs[o].pos = 0 THEN "fresh" ELSE "cont"
AIIter(o) ==
  /\ Idling /\ Pick("iiter", o, 0, 0) /\ Adv
  /\ pend.o = o
  /\ pend' = NoPend
  /\ run' = [kind |-> "items", o |-> o, j |-> 0, k |-> 0, p0 |-> objs[o].pos, tab |-> EmptyTab, sum |-> 0,
             cls |-> McCls(o, pend.dirty)]
  /\ UNCHANGED <<cid, streams, objs, exts, out, hist, phase>>
AExpect(o, j) ==
  /\ Ready /\ Pick("expect", o, j, 0) /\ Adv
  /\ run' = [kind |-> "expect", o |-> o, j |-> j, k |-> 0, p0 |-> objs[o].pos, tab |-> EmptyTab, sum |-> 0,
             cls |-> McCls(o, 0)]
  /\ UNCHANGED <<cid, streams, objs, exts, pend, out, hist, phase>>

RunOp == IF run.kind = "items" THEN "iiter" ELSE "expect"
\* one pass of the Monte-Carlo loop
McDraw ==
  /\ phase = "run" /\ run.kind # "idle" /\ run.k < B.n
  /\ LET ob == objs[run.o]
         r  == Draw(B, ob.ch, Len(ob.ch), streams[ob.sd], ob.pos) IN
     IF r.st = "exh" THEN Cut
     ELSE /\ objs' = [objs EXCEPT ![run.o].pos = r.pos, ![run.o].ss = 0]
          /\ pend' = IF pend.o = run.o THEN [pend EXCEPT !.dirty = 1] ELSE pend
          /\ IF r.st = "raise"
             THEN /\ run' = Idle
                  /\ Complete(Entry(RunOp, run.o, run.j, 0, run.cls, "raise", 0, EmptyTab, 0, ob.sd, run.p0, r.pos))
             ELSE /\ run' = [run EXCEPT !.k = @ + 1,
                                        !.tab = IF run.kind = "items" THEN Acc(@, r.ev) ELSE @,
                                        !.sum = IF run.kind = "expect" THEN @ + B.G[run.j][r.ev] ELSE @]
                  /\ UNCHANGED <<out, hist, phase>>
          /\ UNCHANGED <<cid, streams, exts, l>>
\* the loop is over: normalise by n_samples and return
McEnd ==
  /\ phase = "run" /\ run.kind # "idle" /\ run.k = B.n
  /\ run' = Idle
  /\ Complete(Entry(RunOp, run.o, run.j, 0, run.cls, "ok", 0, run.tab, run.sum, objs[run.o].sd, run.p0, objs[run.o].pos))
  /\ UNCHANGED <<cid, streams, objs, exts, pend, l>>

Finish ==
  /\ Mode # "mc" /\ Idling /\ l = Len(B.script) + 1
  /\ phase' = "done"
  /\ UNCHANGED <<cid, streams, objs, exts, pend, run, out, hist, l>>

Next ==
  \/ \E sd \in 1..Len(streams) : ANew(sd)
  \/ \E o \in 1..Len(objs) :
       \/ \E j \in 1..Len(B.F) : AMarg(o, j)
       \/ \E j \in 1..Len(B.P) : ACond(o, j)
       \/ ASample(o)
       \/ \E x \in 1..Len(exts) : ASampleX(o, x)
       \/ AICall(o) \/ AIIter(o)
       \/ \E j \in 1..Len(B.G) : AExpect(o, j)
  \/ McDraw \/ McEnd \/ Finish
Spec == Init /\ [][Next]_vars

\* ------------------------------------------------------------------ emission
IsRes(e) == e.op \in {"sample", "samplex", "iiter", "expect"}
\* exact rationals of a completed call: probabilities count/n, mean sum/(n*GD)
Exact(e) == [pr |-> [i \in 1..Len(e.tab.c) |-> Norm(e.tab.c[i], B.n)], mean |-> Norm(e.sum, B.n * B.GD)]
Emit ==
  IF Mode = "mc" THEN
    (phase = "run" /\ run.kind = "idle" /\ IsRes(out)) =>
       PrintT(ToJson([cid |-> cid, streams |-> streams, hist |-> hist,
                      exact |-> [i \in 1..Len(hist) |-> Exact(hist[i])]]))
  ELSE IF Mode = "script" THEN
    (phase \in {"done", "cut"}) =>
       PrintT(ToJson([cid |-> cid, verdict |-> phase, hist |-> hist,
                      exact |-> [i \in 1..Len(hist) |-> Exact(hist[i])]]))
  ELSE
    (phase \in {"done", "cut", "rejected"}) =>
       PrintT(ToJson([cid |-> cid, tag |-> B.tag, verdict |-> phase, at |-> Len(hist),
                      why |-> IF phase = "rejected" THEN Diff(out, B.obs[Len(hist)]) ELSE "",
                      exp |-> out, cls |-> out.cls,
                      notes |-> {<<i, Note(hist[i], B.obs[i])>> : i \in {k \in 1..Len(hist) : Note(hist[k], B.obs[k]) # ""}}]))

\* ------------------------------------------------------------------ (O) oracle
Count(sq, e) == Cardinality({i \in 1..Len(sq) : sq[i] = e})
FirstIdx(sq, e) == CHOOSE i \in 1..Len(sq) : sq[i] = e /\ \A k \in 1..(i - 1) : sq[k] # e
\* the denotation of a chain on a consumed stream segment: map for "m", filter for "c"
RECURSIVE Lift(_, _, _, _)
Lift(m, ch, k, seg) ==
  IF k = 0 THEN seg
  ELSE LET s == Lift(m, ch, k - 1, seg) IN
       IF ch[k].op = "m" THEN [i \in 1..Len(s) |-> m.F[ch[k].j][s[i]]]
       ELSE SelectSeq(s, LAMBDA e : m.P[ch[k].j][e] = 1)
\* successive results of the sampler of ch[1..k]: up to t of them, stopping after the first that is not "ok"
RECURSIVE PRuns(_, _, _, _, _, _)
PRuns(m, ch, k, str, pos, t) ==
  IF t = 0 THEN <<>>
  ELSE LET r == Draw(m, ch, k, str, pos) IN
       IF r.st # "ok" THEN <<r>> ELSE <<r>> \o PRuns(m, ch, k, str, r.pos, t - 1)

ChainOf(e) == objs[e.o].ch
Seg(e) == SubSeq(streams[e.gsd], e.p0 + 1, e.p1)
Lifted(e) == Lift(B, ChainOf(e), Len(ChainOf(e)), Seg(e))
LiftedButLast(e) == Lift(B, ChainOf(e), Len(ChainOf(e)), SubSeq(streams[e.gsd], e.p0 + 1, e.p1 - 1))

\* ------------------------------------------------------------------ (P) clauses on the last completed call
\* items() is the frequency table of n samples: of the map/filter image of exactly the stream segment read
LawItems ==
  (out.op = "iiter" /\ out.st = "ok") =>
    LET L == Lifted(out) IN
    /\ Len(L) = B.n
    /\ SumTo(out.tab.c, Len(out.tab.c)) = B.n
    /\ Range(out.tab.ev) = Range(L) /\ NoDup(out.tab.ev)
    /\ \A e \in Range(L) : TabAt(out.tab, e) = Count(L, e)
    /\ \A a \in 1..Len(out.tab.ev) : \A b \in 1..Len(out.tab.ev) :
          a < b => FirstIdx(L, out.tab.ev[a]) < FirstIdx(L, out.tab.ev[b])
    /\ out.p1 > out.p0 /\ Len(LiftedButLast(out)) = B.n - 1          \* nothing is read beyond the last sample
\* ... and on a fresh root it is the table of the FIRST n elements of the seeded stream
LawFreshRoot ==
  (out.op \in {"iiter", "expect"} /\ out.st = "ok" /\ out.cls = "fresh" /\ ChainOf(out) = <<>>) =>
    /\ out.p0 = 0 /\ out.p1 = B.n
    /\ out.op = "iiter" => \A e \in 1..B.KE : TabAt(out.tab, e) = Count(SubSeq(streams[out.gsd], 1, B.n), e)
\* expectation is the sample mean of the same n samples
LawExpect ==
  (out.op = "expect" /\ out.st = "ok") =>
    LET L == Lifted(out) IN
    /\ Len(L) = B.n
    /\ out.sum = SumTo([i \in 1..Len(L) |-> B.G[out.j][L[i]]], Len(L))
    /\ out.p1 > out.p0 /\ Len(LiftedButLast(out)) = B.n - 1
\* one sample() is one element of the map/filter image, reading no further than needed
LawSample ==
  (out.op \in {"sample", "samplex"} /\ out.st = "ok") =>
    /\ Lifted(out) = <<out.ev>>
    /\ LiftedButLast(out) = <<>>
\* marginalize(f): the child's sampler is f applied to the parent's sampler on the same generator
LawMarg ==
  (out.op \in {"sample", "samplex"} /\ Len(ChainOf(out)) > 0 /\ ChainOf(out)[Len(ChainOf(out))].op = "m") =>
    LET ch == ChainOf(out)
        r  == Draw(B, ch, Len(ch) - 1, streams[out.gsd], out.p0) IN
    /\ out.st = r.st /\ out.p1 = r.pos
    /\ r.st = "ok" => out.ev = B.F[ch[Len(ch)].j][r.ev]
\* condition(p): rejection sampling over the parent's successive samples; raises after n rejected tries
LawCond ==
  (out.op \in {"sample", "samplex"} /\ Len(ChainOf(out)) > 0 /\ ChainOf(out)[Len(ChainOf(out))].op = "c") =>
    LET ch == ChainOf(out)
        pj == B.P[ch[Len(ch)].j]
        PR == PRuns(B, ch, Len(ch) - 1, streams[out.gsd], out.p0, B.n)
        Rej(i) == PR[i].st = "ok" /\ pj[PR[i].ev] = 0 IN
    /\ out.st = "ok" =>
         \E k \in 1..Len(PR) : /\ PR[k].st = "ok" /\ pj[PR[k].ev] = 1 /\ \A i \in 1..(k - 1) : Rej(i)
                               /\ out.ev = PR[k].ev /\ out.p1 = PR[k].pos
    /\ out.st = "raise" =>
         \/ Len(PR) = B.n /\ (\A i \in 1..B.n : Rej(i)) /\ out.p1 = PR[B.n].pos
         \/ \E k \in 1..Len(PR) : PR[k].st = "raise" /\ (\A i \in 1..(k - 1) : Rej(i)) /\ out.p1 = PR[k].pos
    /\ out.st = "ok" => pj[out.ev] = 1
\* a root never raises; a raise needs a condition in the chain
LawRaise ==
  (IsRes(out) /\ out.st = "raise") => \E k \in 1..Len(ChainOf(out)) : ChainOf(out)[k].op = "c"
\* equally seeded generators agree: a call is a function of (chain, call, seed, position)
Key(e) == <<ChainOf(e), IF e.op = "samplex" THEN "sample" ELSE e.op, e.j, e.gsd, e.p0>>
LawSeeded ==
  \A a \in 1..Len(hist) : \A b \in 1..Len(hist) :
    (IsRes(hist[a]) /\ IsRes(hist[b]) /\ hist[a].cls # "lazy" /\ hist[b].cls # "lazy" /\ Key(hist[a]) = Key(hist[b])) =>
       (hist[a].st = hist[b].st /\ hist[a].ev = hist[b].ev /\ hist[a].tab = hist[b].tab
        /\ hist[a].sum = hist[b].sum /\ hist[a].p1 = hist[b].p1)
\* every read generator position lies inside its stream; the loop state is consistent
WellFormed ==
  /\ \A o \in 1..Len(objs) : objs[o].pos <= Len(streams[objs[o].sd]) /\ (objs[o].pos = 0 => objs[o].ss = 1)
  /\ \A x \in 1..Len(exts) : exts[x].pos <= Len(streams[exts[x].sd])
  /\ run.kind # "idle" => (run.k <= B.n /\ SumTo(run.tab.c, Len(run.tab.c)) = (IF run.kind = "items" THEN run.k ELSE 0))
  /\ Len(objs) <= B.maxobj

\* frame conditions: a call reads exactly one generator - the own one, or the given one and then NOT the own one
Grew == Len(hist') = Len(hist) + 1
FrameOK ==
  /\ (Grew /\ out'.op = "samplex") => (objs' = objs /\ \A x \in 1..Len(exts) : x # out'.x => exts'[x] = exts[x])
  /\ (Grew /\ out'.op \in {"sample", "iiter", "expect"}) =>
        (exts' = exts /\ \A o \in 1..Len(objs) : o # out'.o => objs'[o] = objs[o])
  /\ (Grew /\ out'.op \in {"new", "marg", "cond"}) =>
        (exts' = exts /\ Len(objs') = Len(objs) + 1 /\ (\A o \in 1..Len(objs) : objs'[o] = objs[o])
         /\ objs'[Len(objs')].pos = 0)
  /\ \A o \in 1..Len(objs) : objs'[o].pos >= objs[o].pos /\ objs'[o].ch = objs[o].ch /\ objs'[o].sd = objs[o].sd
  /\ streams' = streams
Frame == [][FrameOK]_vars
=============================================================================
