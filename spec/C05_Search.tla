--------------------------- MODULE C05_Search ---------------------------
(* Property C05: A* and breadth-first search return valid minimum-cost / minimum-step   *)
(* paths (msdm/algorithms/search.py, msdm/core/mdp/deterministic_shortest_path.py).      *)
(*                                                                                      *)
(* (M) abstract problem: a finite directed graph given as a deterministic MDP            *)
(*       N, K            states 1..N, actions 1..K                                      *)
(*       avail[s][a]     1 iff action a exists in s (a state may have no action)        *)
(*       nxt[s][a]       the single successor, cost[s][a] >= 0 its integer cost         *)
(*       goal[s]         1 iff s is absorbing (goals keep "ghost" out-edges: nothing    *)
(*                       may depend on them), start                                     *)
(*       hc[s]           a custom heuristic (cost-to-go estimate) in HALF units          *)
(*       cbase, cbig     0, or B > 0: the real costs are (c div B) * cbig + (c mod B)    *)
(*                       with cbig a huge integer (2^53 .. 10^30) - see InstanceWellFormed *)
(*       cfgs            the configurations to explore: alg in {astar,bfs},             *)
(*                       tie in {lifo,fifo,random}, rnd in {0,1} (randomize_action_     *)
(*                       order), hk in {zero,exact,half,custom,relaxed}                 *)
(*     All heuristics are in half units (so that exact/2 is an integer); INF stands for  *)
(*     float('inf').  f-values of the machine are 2*g + h, or INF when h = INF (IEEE:    *)
(*     g + inf = inf, so all such nodes tie on f).                                       *)
(* (O) exact oracle: ToGo (Bellman-Ford fixpoint of the cost-to-go to the nearest goal,  *)
(*     absorbing states have no real out-transitions), Hops (same with unit costs),      *)
(*     FromStart (cheapest cost from the start).                                         *)
(* (R) reference machines, one action per step of the code:                              *)
(*     LoadOracle, Configure (plan_on up to the first push: one configuration of the    *)
(*     instance), PlanNext (the same planner object plans the instance named by `then`   *)
(*     after the first search returned: every planner variable starts afresh)            *)
(*     A*  : APop (heappop; stale / superseded node skipped | goal -> return | visit +   *)
(*           action order)                                                               *)
(*           APush (one iteration of `for a in shuffled(actions)`: skip visited, skip    *)
(*           not-improving, else push + best_in_queue_by_state + camefrom)               *)
(*     BFS : BPop (popleft; goal -> return | visit + action order), BPush (append if     *)
(*           neither visited nor queued)                                                 *)
(*     ReturnNone (queue exhausted).  The seeded RNG is nondeterminism: any permutation  *)
(*     of the actions when rnd = 1, any minimal-f node when tie = random.  The four      *)
(*     `assert`s of the code are modelled: a failing one sends the machine to "error"    *)
(*     (invariant AssertionsNeverFire).                                                  *)
(* (P) the property: Fails(...) = {} - the clauses of the statement as one operator      *)
(*     used (i) as an invariant over the terminal states of (R) in mode "mc" and (ii) to *)
(*     judge the results returned by the real code in mode "judge" (one Return event per *)
(*     real run: path, actions of the returned policy along it, path_value | none |      *)
(*     error).  Design invariants on (R): see the bottom of the module.                  *)
(* Modes (IOEnv.MODE):                                                                  *)
(*   "mc"    explores (R) over the batch: every configuration, every history; emits the  *)
(*           oracle, the heuristic vectors (handed to the real A-star) and every outcome. *)
(*   "judge" evaluates Fails on the Return events of the real planners (pipeline B,      *)
(*           one-event traces): decides VIOLATION.                                       *)
(*   "trace" replays the visit events recorded from the real planners (state expanded +  *)
(*           order in which its actions were tried, observed through the MDP object      *)
(*           handed to plan_on) on (R): every event must be explained by an enabled      *)
(*           action and the machine must end with the same Return event; the design      *)
(*           invariants are evaluated in every state of every trace.  Decides DRIFT.     *)
EXTENDS Num, Json, IOUtils

Batch  == JsonDeserialize(IOEnv.BATCH_FILE)     \* [graphs |-> <<...>>, runs |-> <<...>>]
Mode   == IOEnv.MODE                            \* "mc" | "judge" | "trace"
Graphs == Batch.graphs
Runs   == Batch.runs

INF == 1000000

VARIABLES iid, cid, phase, heap, fifo, best, came, visited, tb, cur, todo, result, orc, verdict, l, prev
vars == <<iid, cid, phase, heap, fifo, best, came, visited, tb, cur, todo, result, orc, verdict, l, prev>>

\* ------------------------------------------------------------------ (M) the graph
Nodes(g)   == 1..g.N
Goals(g)   == {s \in Nodes(g) : g.goal[s] = 1}
Av(g, s)   == {a \in 1..g.K : g.avail[s][a] = 1}
IsGoal(g, s) == g.goal[s] = 1

\* ------------------------------------------------------------------ (O) the oracle
AddInf(c, d) == IF d >= INF THEN INF ELSE c + d
MinOver(S)   == IF S = {} THEN INF ELSE MinSet(S)
\* cost model: "cost" the real costs, "unit" every step costs 1, "relaxed" min(cost, 1)
\* len[s][a] = m >= 1: the edge stands for a corridor of m real edges of cost cost[s][a] each through m - 1
\* private states with a single action (solution paths of more than 1000 real states are modelled this
\* way: the real run is on the expanded graph, its path is collapsed structurally before it is judged)
EdgeLen(g, s, a) == g.len[s][a]
EdgeCost(g, s, a, unit) ==
  IF unit = "unit" THEN EdgeLen(g, s, a)
  ELSE IF unit = "relaxed" THEN MinI(g.cost[s][a], 1) * EdgeLen(g, s, a)
  ELSE g.cost[s][a] * EdgeLen(g, s, a)

\* one Bellman-Ford round of the cost-to-go; absorbing states are worth 0 and are never left
ToGoStep(g, d, unit) ==
  [s \in Nodes(g) |-> IF IsGoal(g, s) THEN 0
                      ELSE MinOver({AddInf(EdgeCost(g, s, a, unit), d[g.nxt[s][a]]) : a \in Av(g, s)})]
RECURSIVE ToGoFix(_, _, _, _)
ToGoFix(g, d, unit, k) ==
  LET d2 == TLCEval(ToGoStep(g, d, unit)) IN IF d2 = d \/ k = 0 THEN d2 ELSE ToGoFix(g, d2, unit, k - 1)
ToGo(g, unit) == ToGoFix(g, [s \in Nodes(g) |-> IF IsGoal(g, s) THEN 0 ELSE INF], unit, g.N)

\* cheapest cost from the start (paths do not continue through an absorbing state)
InEdges(g, t) == {e \in (Nodes(g) \ Goals(g)) \X (1..g.K) : g.avail[e[1]][e[2]] = 1 /\ g.nxt[e[1]][e[2]] = t}
FromStep(g, d, unit) ==
  [t \in Nodes(g) |-> MinI(d[t], MinOver({AddInf(EdgeCost(g, e[1], e[2], unit), d[e[1]]) : e \in InEdges(g, t)}))]
RECURSIVE FromFix(_, _, _, _)
FromFix(g, d, unit, k) ==
  LET d2 == TLCEval(FromStep(g, d, unit)) IN IF d2 = d \/ k = 0 THEN d2 ELSE FromFix(g, d2, unit, k - 1)
FromStart(g, unit) == FromFix(g, [s \in Nodes(g) |-> IF s = g.start THEN 0 ELSE INF], unit, g.N)

\* the heuristic menu, in half units
HeurMenu(g, togo) ==
  [zero   |-> [s \in Nodes(g) |-> 0],
   exact  |-> [s \in Nodes(g) |-> IF togo[s] >= INF THEN INF ELSE 2 * togo[s]],
   half   |-> [s \in Nodes(g) |-> IF togo[s] >= INF THEN INF ELSE togo[s]],
   custom |-> [s \in Nodes(g) |-> g.hc[s]],
   \* exact cost-to-go of the relaxed copy (costs min(c, 1)): the real run obtains it from a nested
   \* AStarSearch / BreadthFirstSearch on that copy, called lazily inside heuristic_value
   relaxed |-> LET r == ToGo(g, "relaxed") IN [s \in Nodes(g) |-> IF r[s] >= INF THEN INF ELSE 2 * r[s]]]

\* consistency: h(goal) = 0 and h(s) <= c(s,a) + h(s') on every real edge (instance filter)
Consistent(g, h) ==
  /\ \A s \in Goals(g) : h[s] = 0
  /\ \A s \in Nodes(g) \ Goals(g) : \A a \in Av(g, s) :
        h[s] <= (IF h[g.nxt[s][a]] >= INF THEN INF ELSE 2 * g.cost[s][a] + h[g.nxt[s][a]])
  /\ \A s \in Nodes(g) : h[s] >= 0 /\ h[s] <= INF

Oracle(g) ==
  LET togo == ToGo(g, "cost")
      hops == ToGo(g, "unit")
      from == FromStart(g, "cost")
      fh   == FromStart(g, "unit")
  IN [togo |-> togo, hops |-> hops, from |-> from, hz |-> TLCEval(HeurMenu(g, togo)),
      \* a strictly worse way of reaching a goal exists: a wrong choice would be visible
      subcost |-> \E s \in Nodes(g) \ Goals(g) : \E a \in Av(g, s) :
                    /\ from[s] < INF /\ togo[g.nxt[s][a]] < INF
                    /\ from[s] + g.cost[s][a] + togo[g.nxt[s][a]] > togo[g.start],
      subhops |-> \E s \in Nodes(g) \ Goals(g) : \E a \in Av(g, s) :
                    /\ fh[s] < INF /\ hops[g.nxt[s][a]] < INF
                    /\ fh[s] + 1 + hops[g.nxt[s][a]] > hops[g.start]]

\* ------------------------------------------------------------------ (P) the clauses of the statement
\* r = [kind |-> "path" | "none" | "error", path, acts, value]; acts[i] is the action the returned
\* policy takes in path[i]; value is the reported path_value (A* only)
\* (0 stands for "not a state of the problem" / "the policy gives no single action here")
Indexable(g, r) ==
  /\ Len(r.path) >= 1 /\ Len(r.acts) = Len(r.path) - 1
  /\ \A i \in 1..Len(r.path) : r.path[i] \in Nodes(g)
RECURSIVE PathCost(_, _, _)
PathCost(g, r, i) == IF i = 0 THEN 0 ELSE EdgeCost(g, r.path[i], r.acts[i], "cost") + PathCost(g, r, i - 1)
RECURSIVE PathSteps(_, _, _)
PathSteps(g, r, i) == IF i = 0 THEN 0 ELSE EdgeLen(g, r.path[i], r.acts[i]) + PathSteps(g, r, i - 1)

Fails(g, alg, r, o) ==
  LET reachable == o.togo[g.start] < INF
      isPath    == r.kind = "path"
      ok        == isPath /\ Indexable(g, r)
      follows   == ok /\ \A i \in 1..Len(r.acts) :
                            /\ ~IsGoal(g, r.path[i])                  \* absorbing states are not left
                            /\ r.acts[i] \in 1..g.K
                            /\ r.acts[i] \in Av(g, r.path[i])
                            /\ g.nxt[r.path[i]][r.acts[i]] = r.path[i + 1]
  IN    (IF r.kind = "error" THEN {"returns"} ELSE {})
   \cup (IF r.kind = "none" /\ reachable THEN {"none-but-reachable"} ELSE {})
   \cup (IF isPath /\ ~reachable THEN {"plan-but-unreachable"} ELSE {})
   \cup (IF isPath /\ ~ok THEN {"path-well-formed"} ELSE {})
   \cup (IF ok /\ r.path[1] # g.start THEN {"starts-at-initial-state"} ELSE {})
   \cup (IF ok /\ ~follows THEN {"follows-transitions-under-policy"} ELSE {})
   \cup (IF ok /\ ~IsGoal(g, r.path[Len(r.path)]) THEN {"ends-at-absorbing"} ELSE {})
   \cup (IF ok /\ alg = "astar" /\ r.path[1] = g.start /\ follows /\ IsGoal(g, r.path[Len(r.path)])
            /\ PathCost(g, r, Len(r.acts)) # o.togo[g.start] THEN {"minimum-cost"} ELSE {})
   \cup (IF ok /\ alg = "astar" /\ follows /\ r.value # PathCost(g, r, Len(r.acts))
            THEN {"path-value-is-path-cost"} ELSE {})
   \cup (IF ok /\ alg = "bfs" /\ r.path[1] = g.start /\ follows /\ IsGoal(g, r.path[Len(r.path)])
            /\ PathSteps(g, r, Len(r.acts)) # o.hops[g.start] THEN {"minimum-steps"} ELSE {})

\* coarse input shape (part of the violation signature)
Shape(g, o) ==
  IF IsGoal(g, g.start) THEN "absorbing-start"
  ELSE IF o.togo[g.start] >= INF THEN "no-goal-reachable"
  ELSE IF \E s \in Nodes(g) \ Goals(g) : \E a \in Av(g, s) : g.cost[s][a] = 0 THEN "zero-cost-edges"
  ELSE IF Cardinality(Goals(g)) > 1 THEN "several-goals"
  ELSE "single-goal-positive-costs"

\* ------------------------------------------------------------------ (R) the machines
G    == Graphs[iid]
Cfg  == IF Mode = "mc" THEN G.cfgs[cid] ELSE Runs[cid].cfg
Alg  == Cfg.alg
Tie  == Cfg.tie
Rnd  == Cfg.rnd
H    == orc.hz[Cfg.hk]

None == <<>>
EmptyMap(g) == [s \in Nodes(g) |-> None]
\* heap nodes are <<f, tie_break, g, state>> like AStarSearchNode
F(h, gc, s) == IF h[s] >= INF THEN INF ELSE 2 * gc + h[s]
NextTb(t, tie) == IF tie = "lifo" THEN t - 1 ELSE IF tie = "fifo" THEN t + 1 ELSE 0
\* heappop: the minimum in tuple order (tie_break values are distinct for lifo/fifo); with
\* tie_break = rnd.random() any node of minimal f can be first
PopChoices(hp, tie) ==
  IF tie = "random" THEN {n \in hp : \A m \in hp : n[1] <= m[1]}
  ELSE {n \in hp : \A m \in hp : n[1] < m[1] \/ (n[1] = m[1] /\ n[2] <= m[2])}
Perms(S) == {p \in [1..Cardinality(S) -> S] : \A i, j \in 1..Cardinality(S) : i # j => p[i] # p[j]}
Orders(g, s, rnd) == IF rnd = 1 THEN Perms(Av(g, s)) ELSE {SeqOfSet(Av(g, s), g.K)}

\* reconstruct_path + camefrom_to_policy
RECURSIVE PathBack(_, _, _, _)
PathBack(cm, start, t, k) ==
  IF t = start \/ k = 0 \/ cm[t] = None THEN <<t>> ELSE Append(PathBack(cm, start, cm[t][1], k - 1), t)
ResultPath(g, cm, t, val, vis) ==
  LET p == PathBack(cm, g.start, t, g.N) IN
  [kind |-> "path", path |-> p, acts |-> [i \in 1..(Len(p) - 1) |-> cm[p[i + 1]][2]], value |-> val, visited |-> vis]
ResultNone(vis) == [kind |-> "none", path |-> <<>>, acts |-> <<>>, value |-> -1, visited |-> vis]
ResultErr(why)  == [kind |-> "error", path |-> <<>>, acts |-> <<>>, value |-> -1, visited |-> {}, why |-> why]

\* terminal states are canonical (only the result is kept) so that one state = one outcome
Finish(ph, r) ==
  /\ phase' = ph /\ result' = r
  /\ heap' = {} /\ fifo' = <<>> /\ best' = EmptyMap(G) /\ came' = EmptyMap(G) /\ visited' = {}
  /\ tb' = 0 /\ cur' = None /\ todo' = <<>>
  /\ UNCHANGED <<iid, cid, orc, verdict, l>>

\* mode "trace": the visit events logged from the real code (state whose actions were asked for, order in
\* which its successors were asked for) resolve the nondeterminism of the machine; l = events consumed
Visits == Runs[cid].visits
VisitOK(s, ord) == Mode = "trace" => (l < Len(Visits) /\ Visits[l + 1][1] = s /\ Visits[l + 1][2] = ord)
StepL == l' = IF Mode = "trace" THEN l + 1 ELSE l

InitMC ==
  /\ iid \in 1..Len(Graphs)
  /\ cid = 0
  /\ orc = None
  /\ phase = "load"
  /\ heap = {} /\ fifo = <<>> /\ best = EmptyMap(Graphs[iid]) /\ tb = 0
  /\ came = EmptyMap(Graphs[iid]) /\ visited = {} /\ cur = None /\ todo = <<>>
  /\ result = None /\ verdict = {} /\ l = 0 /\ prev = 0

\* the oracle of the instance (a step rather than part of Init, so that TLC's workers share the work);
\* the "oracle" state is the one that is emitted, Configure then picks a configuration
LoadOracle ==
  /\ phase = "load"
  /\ orc' = Oracle(G)
  /\ phase' = "oracle"
  /\ UNCHANGED <<iid, cid, heap, fifo, best, came, visited, tb, cur, todo, result, verdict, l, prev>>

\* plan_on up to the first push: rnd = random.Random(seed); dsp = from_mdp(mdp); push(start)
Configure ==
  /\ phase = "oracle"
  /\ \E c \in 1..Len(G.cfgs) :
       LET cf == G.cfgs[c]
           t1 == NextTb(0, cf.tie)
           n0 == <<F(orc.hz[cf.hk], 0, G.start), t1, 0, G.start>>
       IN /\ cid' = c
          /\ phase' = "pop"
          /\ heap' = IF cf.alg = "astar" THEN {n0} ELSE {}
          /\ fifo' = IF cf.alg = "bfs" THEN <<G.start>> ELSE <<>>
          /\ best' = IF cf.alg = "astar" THEN [EmptyMap(G) EXCEPT ![G.start] = n0] ELSE EmptyMap(G)
          /\ tb' = IF cf.alg = "astar" THEN t1 ELSE 0
  /\ UNCHANGED <<iid, came, visited, cur, todo, result, orc, verdict, l, prev>>

\* call history: the SAME planner object plans the next problem (instance field `then`, a graph over the
\* same labels) after this search has returned, possibly with nodes still queued.  plan_on allocates its
\* queue, best_in_queue_by_state, visited and camefrom per call, so the second call starts exactly like a
\* fresh search: every planner variable is re-initialised, only `prev` remembers the history.
PlanNext ==
  /\ phase = "done" /\ Mode = "mc" /\ prev = 0 /\ G.then # 0
  /\ LET g2 == Graphs[G.then]
         cf == g2.cfgs[cid]
         o2 == Oracle(g2)
         t1 == NextTb(0, cf.tie)
         n0 == <<F(o2.hz[cf.hk], 0, g2.start), t1, 0, g2.start>>
     IN /\ iid' = G.then /\ prev' = iid /\ orc' = o2
        /\ phase' = "pop"
        /\ heap' = IF cf.alg = "astar" THEN {n0} ELSE {}
        /\ fifo' = IF cf.alg = "bfs" THEN <<g2.start>> ELSE <<>>
        /\ best' = IF cf.alg = "astar" THEN [EmptyMap(g2) EXCEPT ![g2.start] = n0] ELSE EmptyMap(g2)
        /\ tb' = IF cf.alg = "astar" THEN t1 ELSE 0
        /\ came' = EmptyMap(g2) /\ visited' = {} /\ cur' = None /\ todo' = <<>> /\ result' = None
  /\ UNCHANGED <<cid, verdict, l>>

\* ---- A*
APop ==
  /\ phase = "pop" /\ Alg = "astar" /\ heap # {}
  /\ prev' = prev
  /\ \E n \in PopChoices(heap, Tie) :
       LET s == n[4] IN
       IF s \in visited THEN
         \* a worse node of an already visited state: skipped
         IF best[s] # None THEN Finish("error", ResultErr("assert: previously visited node should not be best node"))
         ELSE /\ heap' = heap \ {n}
              /\ UNCHANGED <<iid, cid, phase, fifo, best, came, visited, tb, cur, todo, result, orc, verdict, l>>
       ELSE IF best[s] # n THEN
         \* a superseded node of a not yet visited state (a cheaper node of s is still queued; the two can
         \* only be popped in this order when both f are infinite): skipped, best_in_queue_by_state kept
         /\ heap' = heap \ {n}
         /\ UNCHANGED <<iid, cid, phase, fifo, best, came, visited, tb, cur, todo, result, orc, verdict, l>>
       ELSE IF IsGoal(G, s) THEN
         IF n[1] # 2 * n[3] THEN Finish("error", ResultErr("assert: heuristic_cost == cost_from_start at the goal"))
         ELSE Finish("done", ResultPath(G, came, s, n[3], visited))
       ELSE \E ord \in Orders(G, s, Rnd) :
              /\ VisitOK(s, ord) /\ StepL
              /\ heap' = heap \ {n}
              /\ best' = [best EXCEPT ![s] = None]
              /\ visited' = visited \cup {s}
              /\ todo' = ord
              /\ IF ord = <<>> THEN cur' = None /\ phase' = "pop" ELSE cur' = n /\ phase' = "expand"
              /\ UNCHANGED <<iid, cid, fifo, came, tb, result, orc, verdict>>

APush ==
  /\ phase = "expand" /\ Alg = "astar"
  /\ prev' = prev
  /\ LET a    == Head(todo)
         s    == cur[4]
         ns   == G.nxt[s][a]
         ng   == cur[3] + G.cost[s][a]
         rest == Tail(todo)
         more == rest # <<>>
     IN IF ns \in visited \/ (best[ns] # None /\ best[ns][3] <= ng) THEN
          /\ todo' = rest
          /\ IF more THEN cur' = cur /\ phase' = "expand" ELSE cur' = None /\ phase' = "pop"
          /\ UNCHANGED <<iid, cid, heap, fifo, best, came, visited, tb, result, orc, verdict, l>>
        ELSE LET ntb  == NextTb(tb, Tie)
                 node == <<F(H, ng, ns), ntb, ng, ns>>
             IN IF cur[1] > node[1] THEN Finish("error", ResultErr("assert: heuristic is non-monotonic"))
                ELSE /\ heap' = heap \cup {node}
                     /\ best' = [best EXCEPT ![ns] = node]
                     /\ came' = [came EXCEPT ![ns] = <<s, a>>]
                     /\ tb' = ntb
                     /\ todo' = rest
                     /\ IF more THEN cur' = cur /\ phase' = "expand" ELSE cur' = None /\ phase' = "pop"
                     /\ UNCHANGED <<iid, cid, fifo, visited, result, orc, verdict, l>>

\* ---- breadth-first search
BPop ==
  /\ phase = "pop" /\ Alg = "bfs" /\ fifo # <<>>
  /\ prev' = prev
  /\ LET s == Head(fifo) IN
     IF IsGoal(G, s) THEN Finish("done", ResultPath(G, came, s, -1, visited))
     ELSE \E ord \in Orders(G, s, Rnd) :
            /\ VisitOK(s, ord) /\ StepL
            /\ fifo' = Tail(fifo)
            /\ visited' = visited \cup {s}
            /\ todo' = ord
            /\ IF ord = <<>> THEN cur' = None /\ phase' = "pop" ELSE cur' = <<0, 0, 0, s>> /\ phase' = "expand"
            /\ UNCHANGED <<iid, cid, heap, best, came, tb, result, orc, verdict>>

BPush ==
  /\ phase = "expand" /\ Alg = "bfs"
  /\ prev' = prev
  /\ LET a    == Head(todo)
         s    == cur[4]
         ns   == G.nxt[s][a]
         rest == Tail(todo)
         more == rest # <<>>
     IN /\ IF ns \notin visited /\ ns \notin Range(fifo)
           THEN fifo' = Append(fifo, ns) /\ came' = [came EXCEPT ![ns] = <<s, a>>]
           ELSE UNCHANGED <<fifo, came>>
        /\ todo' = rest
        /\ IF more THEN cur' = cur /\ phase' = "expand" ELSE cur' = None /\ phase' = "pop"
        /\ UNCHANGED <<iid, cid, heap, best, visited, tb, result, orc, verdict, l>>

\* ---- `while queue:` falls through: plan_on returns None
ReturnNone ==
  /\ phase = "pop"
  /\ prev' = prev
  /\ (Alg = "astar" /\ heap = {}) \/ (Alg = "bfs" /\ fifo = <<>>)
  /\ Finish("done", ResultNone(visited))

\* ---- judge mode: one Return event of the real code per run
InitJudge ==
  /\ cid \in 1..Len(Runs)
  /\ iid = Runs[cid].gid
  /\ orc = None
  /\ phase = "judge"
  /\ result = Runs[cid].res
  /\ heap = {} /\ fifo = <<>> /\ best = EmptyMap(Graphs[iid]) /\ came = EmptyMap(Graphs[iid])
  /\ visited = {} /\ tb = 0 /\ cur = None /\ todo = <<>> /\ verdict = {} /\ l = 0 /\ prev = 0

\* the clauses need the cost-to-go and the hops only (relaxation fixpoints: fine for graphs of 40 states,
\* which are judged here without being explored by the machines)
JudgeOracle(g) == [togo |-> ToGo(g, "cost"), hops |-> ToGo(g, "unit")]
JudgeStep ==
  /\ phase = "judge"
  /\ phase' = "judged"
  /\ LET o == JudgeOracle(G) IN orc' = o /\ verdict' = Fails(G, Runs[cid].alg, result, o)
  /\ UNCHANGED <<iid, cid, heap, fifo, best, came, visited, tb, cur, todo, result, l, prev>>

\* ---- trace mode: one recorded execution of the real code per run, replayed on the machine
InitTrace ==
  /\ cid \in 1..Len(Runs)
  /\ iid = Runs[cid].gid
  /\ orc = Oracle(Graphs[iid])
  /\ LET g  == Graphs[iid]
         cf == Runs[cid].cfg
         t1 == NextTb(0, cf.tie)
         n0 == <<F(orc.hz[cf.hk], 0, g.start), t1, 0, g.start>>
     IN /\ phase = "pop"
        /\ heap = IF cf.alg = "astar" THEN {n0} ELSE {}
        /\ fifo = IF cf.alg = "bfs" THEN <<g.start>> ELSE <<>>
        /\ best = IF cf.alg = "astar" THEN [EmptyMap(g) EXCEPT ![g.start] = n0] ELSE EmptyMap(g)
        /\ tb = IF cf.alg = "astar" THEN t1 ELSE 0
        /\ came = EmptyMap(g)
  /\ visited = {} /\ cur = None /\ todo = <<>> /\ result = None /\ verdict = {} /\ l = 0 /\ prev = 0

\* the machine ended like the real run: every event consumed, same Return event
SameResult(r, logged) ==
  /\ r.kind = logged.kind
  /\ r.kind = "path" => /\ r.path = logged.path /\ r.acts = logged.acts /\ r.value = logged.value
                        /\ r.visited = Range(logged.visited)
TraceAccepted == l = Len(Visits) /\ SameResult(result, Runs[cid].res)

Init == IF Mode = "judge" THEN InitJudge ELSE IF Mode = "trace" THEN InitTrace ELSE InitMC
Next == LoadOracle \/ Configure \/ PlanNext \/ APop \/ APush \/ BPop \/ BPush \/ ReturnNone \/ JudgeStep
Spec == Init /\ [][Next]_vars

\* ------------------------------------------------------------------ emission
Emit ==
  /\ phase = "oracle" =>
       PrintT(ToJson([kind |-> "oracle", iid |-> iid, togo |-> orc.togo, hops |-> orc.hops, from |-> orc.from,
                      hz |-> orc.hz, subcost |-> orc.subcost, subhops |-> orc.subhops, shape |-> Shape(G, orc)]))
  /\ (phase \in {"done", "error"} /\ Mode = "mc") =>
       PrintT(ToJson([kind |-> "outcome", iid |-> iid, cid |-> cid, prev |-> prev, phase |-> phase, res |-> result]))
  /\ (phase \in {"done", "error"} /\ Mode = "trace") =>
       PrintT(ToJson([kind |-> "trace", tid |-> cid, accepted |-> TraceAccepted, consumed |-> l]))
  /\ phase = "judged" =>
       PrintT(ToJson([kind |-> "verdict", jid |-> cid, fails |-> verdict, shape |-> Shape(G, orc)]))

\* ------------------------------------------------------------------ (P) invariants
\* the statement, on every terminal state of the reference machines
MachineSatisfiesC05 == phase = "done" => Fails(G, Alg, result, orc) = {}
\* the statement, on every result returned by the real code (mode "judge")
RealRunSatisfiesC05 == phase = "judged" => verdict = {}
\* none of the three assertions of the code (stale node is not the stored best node, f = g at the goal,
\* monotone f along an edge) can fire on a consistent heuristic.  (An earlier version of the code also
\* asserted that a popped node of an unvisited state is the stored best one; TLC showed that this fails
\* when the heuristic is infinite at states that cannot reach a goal - all their nodes tie on f = inf, so
\* under fifo / random tie-breaking a superseded node is popped first.  The code now skips such a node,
\* and so does APop.)
AssertionsNeverFire == phase # "error"
\* a superseded node is only ever popped before the better one among infinite-f ties
SupersededOnlyAmongInfiniteTies ==
  (phase = "pop" /\ Alg = "astar") =>
     \A n \in PopChoices(heap, Tie) : (n[4] \notin visited /\ best[n[4]] # n) => (n[1] >= INF /\ Tie # "lifo")
\* instance filters
InstanceWellFormed == phase = "oracle" =>
  /\ G.start \in Nodes(G)
  /\ \A s \in Nodes(G) : \A a \in 1..G.K : G.nxt[s][a] \in Nodes(G) /\ G.cost[s][a] >= 0 /\ G.cost[s][a] < 100000
  \* huge integer costs (beyond 2^53, far beyond TLC's integers) are modelled structurally: with
  \* cbase = B > 0 the instance stands for the real problem with costs (c div B) * M + (c mod B), M = cbig.
  \* That embedding is additive and order preserving on all sums a search can form (at most N edges plus
  \* a heuristic that is itself such a sum) when the residues cannot carry into the next digit:
  \* the machines explore plain graphs only (corridor edges are judged, not explored)
  /\ \A s \in Nodes(G) : \A a \in 1..G.K : G.len[s][a] = 1
  \* a planner object is re-used on a problem with the same configuration menu
  /\ G.then # 0 => (G.then \in 1..Len(Graphs) /\ G.then # iid /\ Graphs[G.then].cfgs = G.cfgs)
  /\ G.cbase > 0 => \A s \in Nodes(G) : \A a \in 1..G.K : (G.cost[s][a] % G.cbase) * 2 * G.N < G.cbase
HeuristicsConsistent == phase = "oracle" => \A k \in {"zero", "exact", "half", "custom", "relaxed"} : Consistent(G, orc.hz[k])
\* A*: a state is visited with its optimal cost from the start (consistent heuristic).  States with an
\* infinite heuristic cannot reach a goal; they all tie on f = inf and are visited in tie-break order.
VisitedWithOptimalCost ==
  (phase = "expand" /\ Alg = "astar" /\ H[cur[4]] < INF) => cur[3] = orc.from[cur[4]]
\* bookkeeping of the queue revision: best_in_queue_by_state is the cheapest queued node of a not yet
\* visited state, camefrom is the edge that produced it, visited states are never absorbing
QueueRevisionSound ==
  (phase \in {"pop", "expand"} /\ Alg = "astar") =>
     /\ \A s \in Nodes(G) : best[s] # None =>
           /\ best[s] \in heap /\ s \notin visited /\ best[s][4] = s
           /\ \A n \in heap : n[4] = s => best[s][3] <= n[3]
           /\ (s # G.start => /\ came[s] # None /\ came[s][1] \in visited
                              /\ G.nxt[came[s][1]][came[s][2]] = s
                              /\ (H[came[s][1]] < INF =>
                                    best[s][3] = orc.from[came[s][1]] + G.cost[came[s][1]][came[s][2]]))
     /\ \A n \in heap : best[n[4]] = None => n[4] \in visited
     /\ visited \cap Goals(G) = {}
\* BFS: the frontier holds each state at most once, never a visited one, in non-decreasing depth
RECURSIVE Depth(_, _, _, _)
Depth(cm, start, t, k) == IF t = start \/ k = 0 \/ cm[t] = None THEN 0 ELSE 1 + Depth(cm, start, cm[t][1], k - 1)
FrontierSound ==
  (phase \in {"pop", "expand"} /\ Alg = "bfs") =>
     /\ \A i, j \in 1..Len(fifo) : i < j =>
           /\ fifo[i] # fifo[j]
           /\ Depth(came, G.start, fifo[i], G.N) <= Depth(came, G.start, fifo[j], G.N)
     /\ Range(fifo) \cap visited = {}
     /\ visited \cap Goals(G) = {}
\* every behaviour ends: a non-terminal state always has a successor
NoStuckState == phase \in {"load", "oracle", "pop", "expand", "judge"} => ENABLED Next
=============================================================================
