----------------------------- MODULE X01_Cache -----------------------------
(* Extension X01: caches never change what a method returns.                             *)
(* msdm/core/utils/funcutils.py: method_cache(fn) and cached_property(fn); used by        *)
(* MarkovDecisionProcess.reachable_states, TabularMarkovDecisionProcess._cached_*,        *)
(* state_list / action_list / the array properties, TabularPOMDP, GridMDP, TableIndex ... *)
(*                                                                                      *)
(* (M) abstract problem.  A WORLD (one record of the batch) is a family of classes with  *)
(*     decorated functions, objects of these classes and a universe of arguments:        *)
(*       cls[o]     class of object o (objects of one class share the decorated function   *)
(*                  objects; deps and result kinds are per class)                          *)
(*       atoms[a] = [ec, h]  ec  equality class (python ==/hash: 1, 1.0 and True are one   *)
(*                               class - "twins"),  h  1 iff hashable                      *)
(*       meths[m] = [params, sps]                                                         *)
(*            params[j].d   default atom of the j-th parameter (0 = required)             *)
(*            sps[s]        a SPELLING of a call: pos (atoms passed positionally), kw     *)
(*                          (sequence of [n, a]: parameter number n passed by keyword, in *)
(*                          the order written; n outside 1..#params = unknown keyword),   *)
(*                          top (1 = explored as a top-level call), k[c] = what the       *)
(*                          undecorated function does for these arguments on class c:     *)
(*                          "val" a fresh object | "none" None | "zero" a falsy value |   *)
(*                          "raise" raises;  deps[c] = what the undecorated function      *)
(*                          itself does for these arguments before returning: a sequence  *)
(*                          of [t, m, s] - calls of other cached methods / reads of       *)
(*                          cached properties of the same object                          *)
(*       props[p] = [k[c], deps[c], top]  (top: 1 = read at top level, 2 = also written    *)
(*                          and deleted at top level)                                     *)
(*       NO objects can exist, N0 exist initially, L = number of top-level operations     *)
(*     An abstract result is [k, o, f, b]: kind, object, function (m, or -p for a         *)
(*     property) and bound argument atoms - i.e. results of different objects, functions  *)
(*     and arguments are all different, so that ANY sharing is visible in the value.      *)
(* (O) oracle = the undecorated semantics UOp: bind the arguments (python's rules), run   *)
(*     the deps undecorated, return F(o, f, bound) or raise.  No state.                   *)
(* (R) reference machine = the decorators step by step, with a call stack because a       *)
(*     decorated function may call decorated functions (state_list -> reachable_states,   *)
(*     transition_matrix -> state_list, action_list, _cached_actions, ...):               *)
(*       method_cache.wrapped:  MInit (hasattr/setattr of store and counters)             *)
(*                              MUnhashable | MHit | MMiss  (key = (args, frozenset(kw    *)
(*                                     items) or None); `key not in cache`)               *)
(*                              MBindFail | MEnter (python binds the arguments of fn)     *)
(*                              Deps (nested decorated calls, one at a time)              *)
(*                              MRaise | MEval, MStore (cache[key] = ..; misses += 1),    *)
(*                              MCount (hits += 1; return cache[key])                     *)
(*       cached_property.wrapped: PHit | PMiss (hasattr), Deps, PRaise | PEval,           *)
(*                              PSet (setattr), PGet (return getattr)                     *)
(*       top level: Begin(call | read | write | del | new object)                        *)
(*     variables: nobj, cache[o][m] = [init, hits, misses, store], pv[o][p] = [set, v],   *)
(*     stack (frames), last (outcome of the last top-level operation, incl. the number of *)
(*     times each UNDERLYING function body ran during it: du, dp), hist (history only).   *)
(*     An exception unwinds the whole stack: no frame of the decorators catches anything. *)
(* (P) invariants / action properties at the bottom: Transparent (R returns what O        *)
(*     returns; the only licensed differences are the TypeError for unhashable arguments  *)
(*     and twins: after f(1), f(1.0) gets the entry of f(1) - even where the undecorated  *)
(*     f(1.0) would raise, e.g. tuples vs the namedtuples they equal), StoreSound,        *)
(*     PropSound, CountersConsistent, FreshObjects, ReadOnly, HitRunsNothing,             *)
(*     MissRunsBody and the action properties Isolation, CachedNeverChanges,              *)
(*     ComputeOnlyWhenAbsent.                                                             *)
(*                                                                                      *)
(* Two uses (per world): trace = <<>>  -> MC + pipeline A: TLC explores every sequence of *)
(*     <= L top-level operations; one record per quiescent state (view includes `last`,   *)
(*     so every transition of the quiescent graph is emitted once) with the history that  *)
(*     reached it; the harness replays it on real decorated classes.                      *)
(*   trace # <<>> -> pipeline B: a sequence of operations recorded from the real code with *)
(*     the observed outcome after each; TLC runs the machine along it and judges every     *)
(*     event clause by clause (fv value/exception, fo underlying-call counts, fc counters, *)
(*     fp which properties are set).                                                      *)
EXTENDS Integers, Sequences, FiniteSets, TLC, Json, IOUtils, SequencesExt

Batch == JsonDeserialize(IOEnv.BATCH_FILE)

VARIABLES tid, nobj, cache, pv, stack, last, hist
vars == <<tid, nobj, cache, pv, stack, last, hist>>
\* hist is history only (its length is the chain bound)
StateView == <<tid, nobj, cache, pv, stack, last, Len(hist)>>

W  == Batch[tid]
NMw(w) == Len(w.meths)
NPw(w) == Len(w.props)
NM == NMw(W)
NP == NPw(W)
IsTrace == Len(W.trace) > 0

\* ---------------------------------------------------------------- values
NoVal == [k |-> "no", o |-> 0, f |-> 0, b |-> <<>>]
Plain(k) == [k |-> k, o |-> 0, f |-> 0, b |-> <<>>]
\* what the first bound argument makes the function do
Cls(w, o) == w.cls[o]
MKind(w, o, m, s) == w.meths[m].sps[s].k[Cls(w, o)]
PKind(w, o, p) == w.props[p].k[Cls(w, o)]
MDeps(w, o, m, s) == w.meths[m].sps[s].deps[Cls(w, o)]
PDeps(w, o, p) == w.props[p].deps[Cls(w, o)]
MVal(w, o, m, s, b) == IF MKind(w, o, m, s) = "val" THEN [k |-> "val", o |-> o, f |-> m, b |-> b] ELSE Plain(MKind(w, o, m, s))
PVal(w, o, p) == IF PKind(w, o, p) = "val" THEN [k |-> "val", o |-> o, f |-> 0 - p, b |-> <<>>] ELSE Plain(PKind(w, o, p))

\* ---------------------------------------------------------------- spellings, keys, binding
Sp(w, m, s) == w.meths[m].sps[s]
\* key = (args, frozenset(kwargs.items()) if kwargs else None): dictionary keys are compared with ==, so the
\* key is made of equality classes; None and the empty frozenset cannot both occur, so the set is enough
PosKey(w, sp) == [i \in 1..Len(sp.pos) |-> w.atoms[sp.pos[i]].ec]
KwKey(w, sp)  == {<<sp.kw[i].n, w.atoms[sp.kw[i].a].ec>> : i \in 1..Len(sp.kw)}
HashableSp(w, sp) == /\ \A i \in 1..Len(sp.pos) : w.atoms[sp.pos[i]].h = 1
                     /\ \A i \in 1..Len(sp.kw) : w.atoms[sp.kw[i].a].h = 1
\* python's argument binding of fn(self, *args, **kwargs)
Bind(w, m, sp) ==
  LET ps  == w.meths[m].params
      n   == Len(ps)
      np  == Len(sp.pos)
      kwn == {sp.kw[i].n : i \in 1..Len(sp.kw)}
      bad == \/ np > n                                             \* too many positional arguments
             \/ \E x \in kwn : x < 1 \/ x > n                       \* unexpected keyword
             \/ \E x \in kwn : x <= np                              \* multiple values for a parameter
             \/ \E j \in (np + 1)..n : j \notin kwn /\ ps[j].d = 0  \* missing required argument
      val(j) == IF j <= np THEN sp.pos[j]
                ELSE IF j \in kwn THEN sp.kw[CHOOSE i \in 1..Len(sp.kw) : sp.kw[i].n = j].a
                ELSE ps[j].d
  IN IF bad THEN [ok |-> FALSE, b |-> <<>>] ELSE [ok |-> TRUE, b |-> [j \in 1..n |-> val(j)]]

Has(store, kp, kk) == \E e \in store : e.kp = kp /\ e.kk = kk
Entry(store, kp, kk) == CHOOSE e \in store : e.kp = kp /\ e.kk = kk
Get(store, kp, kk) == Entry(store, kp, kk).v
\* dict assignment cache[key] = v   (b: the bound arguments of the call that computed v - history only)
Put(store, kp, kk, v, b) == {e \in store : ~(e.kp = kp /\ e.kk = kk)} \cup {[kp |-> kp, kk |-> kk, v |-> v, b |-> b]}

\* ---------------------------------------------------------------- (O) the undecorated semantics
UErr(e) == [st |-> "err", err |-> e, v |-> NoVal]
UOk(v)  == [st |-> "ok", err |-> "", v |-> v]
RECURSIVE UOp(_, _, _, _, _), UDeps(_, _, _, _)
UOp(w, o, t, m, s) ==
  IF t = "call"
  THEN LET bd == Bind(w, m, Sp(w, m, s)) IN
       IF ~bd.ok THEN UErr("Bind")
       ELSE LET d == UDeps(w, o, MDeps(w, o, m, s), 1) IN
            IF d # "" THEN UErr(d)
            ELSE IF MKind(w, o, m, s) = "raise" THEN UErr("Raise") ELSE UOk(MVal(w, o, m, s, bd.b))
  ELSE LET d == UDeps(w, o, PDeps(w, o, m), 1) IN
       IF d # "" THEN UErr(d)
       ELSE IF PKind(w, o, m) = "raise" THEN UErr("Raise") ELSE UOk(PVal(w, o, m))
UDeps(w, o, deps, i) ==
  IF i > Len(deps) THEN ""
  ELSE LET r == UOp(w, o, deps[i].t, deps[i].m, deps[i].s) IN
       IF r.st = "err" THEN r.err ELSE UDeps(w, o, deps, i + 1)
\* does the operation (or something it calls) pass an unhashable argument to a decorated method
RECURSIVE Unh(_, _, _, _, _), UnhDeps(_, _, _, _)
Unh(w, o, t, m, s) ==
  IF t = "call" THEN ~HashableSp(w, Sp(w, m, s)) \/ UnhDeps(w, o, MDeps(w, o, m, s), 1)
  ELSE UnhDeps(w, o, PDeps(w, o, m), 1)
UnhDeps(w, o, deps, i) == i <= Len(deps) /\ (Unh(w, o, deps[i].t, deps[i].m, deps[i].s) \/ UnhDeps(w, o, deps, i + 1))

\* ---------------------------------------------------------------- (R) machine: helpers
OBJ == 1..W.NO
Cache0 == [o \in OBJ |-> [m \in 1..NM |-> [init |-> 0, hits |-> 0, misses |-> 0, store |-> {}]]]
Pv0    == [o \in OBJ |-> [p \in 1..NP |-> [set |-> 0, v |-> NoVal]]]
Op(t, o, m, s) == [t |-> t, o |-> o, m |-> m, s |-> s]
\* history entry: the operation plus the cache key TLC derived for it (the harness keys its identity map by it)
HistOp(op) == IF op.t = "call"
              THEN [t |-> op.t, o |-> op.o, m |-> op.m, s |-> op.s,
                    kp |-> PosKey(W, Sp(W, op.m, op.s)), kk |-> KwKey(W, Sp(W, op.m, op.s))]
              ELSE [t |-> op.t, o |-> op.o, m |-> op.m, s |-> op.s, kp |-> <<>>, kk |-> {}]
Blank(op, st, err) ==
  [t |-> op.t, o |-> op.o, m |-> op.m, s |-> op.s, st |-> st, err |-> err, v |-> NoVal, hit |-> "", twin |-> 0,
   du |-> [m \in 1..NM |-> 0], dp |-> [p \in 1..NP |-> 0]]
Frame(t, o, m, s) == [t |-> t, o |-> o, m |-> m, s |-> s, pc |-> IF t = "call" THEN "init" ELSE "check", di |-> 1, v |-> NoVal]
Top     == stack[Len(stack)]
TopSp   == Sp(W, Top.m, Top.s)
TopC    == cache[Top.o][Top.m]
AtTop   == Len(stack) = 1
SetTop(f) == [stack EXCEPT ![Len(stack)] = f]
Running(t, pc) == stack # <<>> /\ Top.t = t /\ Top.pc = pc
\* the frame returns v to its caller (the harness, or the function that is executing its deps)
Return(v, l) ==
  IF Len(stack) = 1
  THEN /\ stack' = <<>>
       /\ last' = [l EXCEPT !.st = "ok", !.v = v]
  ELSE /\ stack' = [SubSeq(stack, 1, Len(stack) - 1) EXCEPT ![Len(stack) - 1].di = @ + 1]
       /\ last' = l
\* an exception propagates through every frame
Unwind(e) == /\ stack' = <<>>
             /\ last' = [last EXCEPT !.st = "err", !.err = e]

\* the operations offered at the top level
Menu ==
  IF IsTrace
  THEN (IF Len(hist) < Len(W.trace) THEN {LET e == W.trace[Len(hist) + 1].op IN Op(e.t, e.o, e.m, e.s)} ELSE {})
  ELSE IF Len(hist) >= W.L THEN {}
  ELSE (IF nobj < W.NO THEN {Op("new", nobj + 1, 0, 0)} ELSE {})
       \cup UNION {UNION {{Op("call", o, m, s) : s \in {i \in 1..Len(W.meths[m].sps) : W.meths[m].sps[i].top = 1}} :
                            m \in 1..NM} : o \in 1..nobj}
       \cup {Op("read", o, p, 0) : o \in 1..nobj, p \in {i \in 1..NP : W.props[i].top >= 1}}
       \cup {Op(t, o, p, 0) : t \in {"write", "del"}, o \in 1..nobj, p \in {i \in 1..NP : W.props[i].top >= 2}}

\* ---------------------------------------------------------------- (R) actions
Init == /\ tid \in 1..Len(Batch)
        /\ nobj = Batch[tid].N0
        /\ cache = [o \in 1..Batch[tid].NO |-> [m \in 1..NMw(Batch[tid]) |-> [init |-> 0, hits |-> 0, misses |-> 0, store |-> {}]]]
        /\ pv = [o \in 1..Batch[tid].NO |-> [p \in 1..NPw(Batch[tid]) |-> [set |-> 0, v |-> NoVal]]]
        /\ stack = <<>>
        /\ last = [t |-> "init", o |-> 0, m |-> 0, s |-> 0, st |-> "ok", err |-> "", v |-> NoVal, hit |-> "", twin |-> 0,
                   du |-> [m \in 1..NMw(Batch[tid]) |-> 0], dp |-> [p \in 1..NPw(Batch[tid]) |-> 0]]
        /\ hist = <<>>

\* the harness starts an operation
BeginNew(op) ==
  /\ op.t = "new"
  /\ nobj' = nobj + 1
  /\ last' = Blank(op, "ok", "")
  /\ UNCHANGED <<cache, pv, stack>>
\* obj.p = x / del obj.p: a property without setter / deleter
BeginWrite(op) ==
  /\ op.t \in {"write", "del"}
  /\ last' = Blank(op, "err", "ReadOnly")
  /\ UNCHANGED <<nobj, cache, pv, stack>>
BeginCall(op) ==
  /\ op.t \in {"call", "read"}
  /\ stack' = <<Frame(op.t, op.o, op.m, op.s)>>
  /\ last' = Blank(op, "run", "")
  /\ UNCHANGED <<nobj, cache, pv>>
Begin == /\ stack = <<>>
         /\ \E op \in Menu : /\ (BeginNew(op) \/ BeginWrite(op) \/ BeginCall(op))
                             /\ hist' = Append(hist, HistOp(op))
         /\ tid' = tid

\* method_cache.wrapped ------------------------------------------------------------------
\* if not hasattr(self, cache_attr): setattr(self, cache_attr, {}); setattr(self, cache_info_attr, dict(hits=0, misses=0))
MInit ==
  /\ Running("call", "init")
  /\ cache' = IF TopC.init = 1 THEN cache
              ELSE [cache EXCEPT ![Top.o][Top.m] = [init |-> 1, hits |-> 0, misses |-> 0, store |-> {}]]
  /\ stack' = SetTop([Top EXCEPT !.pc = "lookup"])
  /\ UNCHANGED <<nobj, pv, last>>
\* key = (args, frozenset(kwargs.items()) ...); `key not in cache` hashes it: TypeError, fn is not called
MUnhashable ==
  /\ Running("call", "lookup")
  /\ ~HashableSp(W, TopSp)
  /\ Unwind("Unhashable")
  /\ UNCHANGED <<nobj, cache, pv>>
MHit ==
  /\ Running("call", "lookup")
  /\ HashableSp(W, TopSp)
  /\ Has(TopC.store, PosKey(W, TopSp), KwKey(W, TopSp))
  /\ LET e  == Entry(TopC.store, PosKey(W, TopSp), KwKey(W, TopSp))
         bd == Bind(W, Top.m, TopSp)
         tw == IF e.b # bd.b THEN 1 ELSE last.twin        \* the entry was computed for an equal argument of another type
     IN /\ stack' = SetTop([Top EXCEPT !.pc = "count", !.v = e.v])
        /\ last' = IF AtTop THEN [last EXCEPT !.hit = "hit", !.twin = tw] ELSE [last EXCEPT !.twin = tw]
  /\ UNCHANGED <<nobj, cache, pv>>
MMiss ==
  /\ Running("call", "lookup")
  /\ HashableSp(W, TopSp)
  /\ ~Has(TopC.store, PosKey(W, TopSp), KwKey(W, TopSp))
  /\ stack' = SetTop([Top EXCEPT !.pc = "bind"])
  /\ last' = IF AtTop THEN [last EXCEPT !.hit = "miss"] ELSE last
  /\ UNCHANGED <<nobj, cache, pv>>
\* cache[key] = fn(self, *args, **kwargs): python binds the arguments; a TypeError here leaves nothing behind
MBindFail ==
  /\ Running("call", "bind")
  /\ ~Bind(W, Top.m, TopSp).ok
  /\ Unwind("Bind")
  /\ UNCHANGED <<nobj, cache, pv>>
\* the body of the undecorated function starts running (counted by the harness's instrumentation)
MEnter ==
  /\ Running("call", "bind")
  /\ Bind(W, Top.m, TopSp).ok
  /\ stack' = SetTop([Top EXCEPT !.pc = "deps", !.di = 1])
  /\ last' = [last EXCEPT !.du[Top.m] = @ + 1]
  /\ UNCHANGED <<nobj, cache, pv>>
\* the body calls the next decorated function it depends on (same object)
TopDeps == IF Top.t = "call" THEN MDeps(W, Top.o, Top.m, Top.s) ELSE PDeps(W, Top.o, Top.m)
DepCall ==
  /\ stack # <<>> /\ Top.pc = "deps"
  /\ Top.di <= Len(TopDeps)
  /\ LET d == TopDeps[Top.di] IN stack' = Append(stack, Frame(d.t, Top.o, d.m, d.s))
  /\ UNCHANGED <<nobj, cache, pv, last>>
DepsDone ==
  /\ stack # <<>> /\ Top.pc = "deps"
  /\ Top.di > Len(TopDeps)
  /\ stack' = SetTop([Top EXCEPT !.pc = "eval"])
  /\ UNCHANGED <<nobj, cache, pv, last>>
MRaise ==
  /\ Running("call", "eval")
  /\ MKind(W, Top.o, Top.m, Top.s) = "raise"
  /\ Unwind("Raise")
  /\ UNCHANGED <<nobj, cache, pv>>
MEval ==
  /\ Running("call", "eval")
  /\ MKind(W, Top.o, Top.m, Top.s) # "raise"
  /\ stack' = SetTop([Top EXCEPT !.pc = "store", !.v = MVal(W, Top.o, Top.m, Top.s, Bind(W, Top.m, TopSp).b)])
  /\ UNCHANGED <<nobj, cache, pv, last>>
\* cache[key] = <result>; cache_info['misses'] += 1
MStore ==
  /\ Running("call", "store")
  /\ cache' = [cache EXCEPT ![Top.o][Top.m].store = Put(@, PosKey(W, TopSp), KwKey(W, TopSp), Top.v, Bind(W, Top.m, TopSp).b),
                            ![Top.o][Top.m].misses = @ + 1]
  /\ stack' = SetTop([Top EXCEPT !.pc = "count"])
  /\ UNCHANGED <<nobj, pv, last>>
\* cache_info['hits'] += 1; return cache[key]      (hits counts every call that returns, misses included)
MCount ==
  /\ Running("call", "count")
  /\ cache' = [cache EXCEPT ![Top.o][Top.m].hits = @ + 1]
  /\ Return(Get(TopC.store, PosKey(W, TopSp), KwKey(W, TopSp)), last)
  /\ UNCHANGED <<nobj, pv>>

\* cached_property.wrapped ---------------------------------------------------------------
PHit ==
  /\ Running("read", "check")
  /\ pv[Top.o][Top.m].set = 1
  /\ stack' = SetTop([Top EXCEPT !.pc = "get"])
  /\ last' = IF AtTop THEN [last EXCEPT !.hit = "hit"] ELSE last
  /\ UNCHANGED <<nobj, cache, pv>>
\* not hasattr(self, key): fn(self) starts running
PMiss ==
  /\ Running("read", "check")
  /\ pv[Top.o][Top.m].set = 0
  /\ stack' = SetTop([Top EXCEPT !.pc = "deps", !.di = 1])
  /\ LET l0 == IF AtTop THEN [last EXCEPT !.hit = "miss"] ELSE last
     IN last' = [l0 EXCEPT !.dp[Top.m] = @ + 1]
  /\ UNCHANGED <<nobj, cache, pv>>
PRaise ==
  /\ Running("read", "eval")
  /\ PKind(W, Top.o, Top.m) = "raise"
  /\ Unwind("Raise")
  /\ UNCHANGED <<nobj, cache, pv>>
PEval ==
  /\ Running("read", "eval")
  /\ PKind(W, Top.o, Top.m) # "raise"
  /\ stack' = SetTop([Top EXCEPT !.pc = "set", !.v = PVal(W, Top.o, Top.m)])
  /\ UNCHANGED <<nobj, cache, pv, last>>
\* setattr(self, key, <result>)
PSet ==
  /\ Running("read", "set")
  /\ pv' = [pv EXCEPT ![Top.o][Top.m] = [set |-> 1, v |-> Top.v]]
  /\ stack' = SetTop([Top EXCEPT !.pc = "get"])
  /\ UNCHANGED <<nobj, cache, last>>
\* return getattr(self, key)
PGet ==
  /\ Running("read", "get")
  /\ Return(pv[Top.o][Top.m].v, last)
  /\ UNCHANGED <<nobj, cache, pv>>

Step == /\ (MInit \/ MUnhashable \/ MHit \/ MMiss \/ MBindFail \/ MEnter \/ DepCall \/ DepsDone \/ MRaise \/ MEval
            \/ MStore \/ MCount \/ PHit \/ PMiss \/ PRaise \/ PEval \/ PSet \/ PGet)
        /\ UNCHANGED <<tid, hist>>
Next == Begin \/ Step
Spec == Init /\ [][Next]_vars

\* ---------------------------------------------------------------- (P) properties
Quiet == stack = <<>>
TypeOK ==
  /\ nobj \in 1..W.NO
  /\ Len(stack) <= 16
  /\ \A i \in 1..Len(stack) : stack[i].o \in 1..nobj
  /\ last.st \in {"ok", "err", "run"}
  /\ (Quiet => last.st # "run") /\ (~Quiet => last.st = "run")
\* the cached machine returns what the undecorated function returns.  Licensed differences: TypeError for an
\* unhashable argument; a twin gets the result of the first equal call.
Transparent ==
  (Quiet /\ last.t \in {"call", "read"}) =>
    LET u == UOp(W, last.o, last.t, last.m, last.s) IN
    /\ (last.st = "ok" /\ last.twin = 0) => (u.st = "ok" /\ last.v = u.v)
    /\ (last.st = "ok" /\ last.twin = 1 /\ last.t = "call" /\ last.hit = "hit") =>
          \E s2 \in 1..Len(W.meths[last.m].sps) :
             LET sp2 == Sp(W, last.m, s2) u2 == UOp(W, last.o, "call", last.m, s2) IN
             /\ PosKey(W, sp2) = PosKey(W, Sp(W, last.m, last.s)) /\ KwKey(W, sp2) = KwKey(W, Sp(W, last.m, last.s))
             /\ u2.st = "ok" /\ u2.v = last.v
    /\ last.st = "err" => \/ last.err = "Unhashable" /\ Unh(W, last.o, last.t, last.m, last.s)
                          \/ u.st = "err" /\ u.err = last.err
                          \/ last.twin = 1
    /\ u.st = "err"    => (last.st = "err" \/ last.twin = 1)
\* every stored entry is the result of THIS object's THIS method for a spelling with THIS key
StoreSound ==
  Quiet => \A o \in OBJ : \A m \in 1..NM : \A e \in cache[o][m].store :
     \E s \in 1..Len(W.meths[m].sps) :
        LET sp == Sp(W, m, s) bd == Bind(W, m, sp) IN
        /\ PosKey(W, sp) = e.kp /\ KwKey(W, sp) = e.kk /\ HashableSp(W, sp)
        /\ bd.ok /\ e.b = bd.b /\ e.v = MVal(W, o, m, s, bd.b)
PropSound ==
  \A o \in OBJ : \A p \in 1..NP : pv[o][p].set = 1 => pv[o][p].v = PVal(W, o, p)
\* one entry per key; misses = number of entries; counters exist iff the store exists; hits >= misses when quiet
CountersConsistent ==
  \A o \in OBJ : \A m \in 1..NM :
     LET c == cache[o][m] IN
     /\ (Quiet => \A e1 \in c.store : \A e2 \in c.store : (e1.kp = e2.kp /\ e1.kk = e2.kk) => e1 = e2)
     /\ c.misses = Cardinality(c.store)
     /\ (c.init = 0 => (c.hits = 0 /\ c.store = {}))
     /\ (Quiet => c.hits >= c.misses)
\* objects that do not exist yet have no state: a new object starts with empty caches
FreshObjects ==
  \A o \in OBJ : o > nobj => /\ \A m \in 1..NM : cache[o][m] = [init |-> 0, hits |-> 0, misses |-> 0, store |-> {}]
                             /\ \A p \in 1..NP : pv[o][p].set = 0
ReadOnly == (Quiet /\ last.t \in {"write", "del"}) => (last.st = "err" /\ last.err = "ReadOnly")
\* the number of times a body ran during one top-level operation: at most once per function unless it has
\* several spellings among its own deps; never when the top-level call was a hit
HitRunsNothing ==
  (Quiet /\ last.hit = "hit") => (/\ \A m \in 1..NM : last.du[m] = 0
                                  /\ \A p \in 1..NP : last.dp[p] = 0)
MissRunsBody ==
  (Quiet /\ last.hit = "miss" /\ last.st = "ok") =>
     IF last.t = "call" THEN last.du[last.m] >= 1 ELSE last.dp[last.m] = 1

\* action properties ---------------------------------------------------------------------
\* only the running frame's own (object, function) is touched
IsolationStep ==
  /\ \A o \in OBJ : \A m \in 1..NM :
        cache'[o][m] # cache[o][m] => (stack # <<>> /\ Top.t = "call" /\ Top.o = o /\ Top.m = m)
  /\ \A o \in OBJ : \A p \in 1..NP :
        pv'[o][p] # pv[o][p] => (stack # <<>> /\ Top.t = "read" /\ Top.o = o /\ Top.m = p)
Isolation == [][IsolationStep]_vars
\* a cached entry / property value never changes and never disappears
NeverChangesStep ==
  /\ \A o \in OBJ : \A m \in 1..NM : cache[o][m].store \subseteq cache'[o][m].store
  /\ \A o \in OBJ : \A p \in 1..NP : pv[o][p].set = 1 => pv'[o][p] = pv[o][p]
CachedNeverChanges == [][NeverChangesStep]_vars
\* a body starts only when its key / property is absent
ComputeStep ==
  /\ \A m \in 1..NM : last'.du[m] # last.du[m] =>
        (stack # <<>> /\ Top.t = "call" /\ Top.m = m /\ ~Has(TopC.store, PosKey(W, TopSp), KwKey(W, TopSp)))
  /\ \A p \in 1..NP : last'.dp[p] # last.dp[p] =>
        (stack # <<>> /\ Top.t = "read" /\ Top.m = p /\ pv[Top.o][p].set = 0)
ComputeOnlyWhenAbsent == [][stack # <<>> => ComputeStep]_vars

\* ---------------------------------------------------------------- emission
Info(o) == [m \in 1..NM |-> <<cache[o][m].init, cache[o][m].hits, cache[o][m].misses, Cardinality(cache[o][m].store)>>]
PSetOf(o) == [p \in 1..NP |-> pv[o][p].set]
StateRec == [info  |-> [o \in 1..nobj |-> Info(o)],
             store |-> [o \in 1..nobj |-> [m \in 1..NM |-> cache[o][m].store]],
             pset  |-> [o \in 1..nobj |-> PSetOf(o)],
             pval  |-> [o \in 1..nobj |-> [p \in 1..NP |-> pv[o][p].v]]]
\* pipeline B: the observed outcome of the event judged clause by clause
Obs == W.trace[Len(hist)].obs
FV == /\ last.st = Obs.st /\ last.err = Obs.err
      /\ (last.st = "ok" => last.v = Obs.v)
FO == last.du = Obs.du /\ last.dp = Obs.dp
FC == \A o \in 1..nobj : Info(o) = Obs.info[o]
FP == \A o \in 1..nobj : PSetOf(o) = Obs.pset[o]
Emit ==
  (Quiet /\ hist # <<>>) =>
    IF IsTrace
    THEN PrintT(ToJson([tid |-> tid, l |-> Len(hist), last |-> last, nobj |-> nobj, info |-> StateRec.info,
                        pset |-> StateRec.pset, fv |-> FV, fo |-> FO, fc |-> FC, fp |-> FP]))
    ELSE PrintT(ToJson([tid |-> tid, hist |-> hist, last |-> last, nobj |-> nobj, state |-> StateRec]))
=============================================================================
