---------------------------- MODULE C09_NearOne ----------------------------
(* Property C09, exact controller values for discounts close to 1 (e.g. 0.99995, 0.99999).    *)
(* The discount is 1 - d with a symbolic d (spec/lib/FSC.tla, "values for a discount close to  *)
(* 1, symbolically"): Cramer's determinants are polynomials in d with small integer            *)
(* coefficients, the value of (node n, state s) is num[n,s](d) / det(d) for every d, and the    *)
(* invariant below is the evaluation equation as a polynomial identity.  One state per         *)
(* instance (no steps): the module is the oracle O1 of C09_FSC for a family of discounts the    *)
(* 32-bit integers of C09_FSC cannot hold.  Absorbing and unlisted states are worth 0.          *)
EXTENDS FSC, Json, IOUtils

Batch == JsonDeserialize(IOEnv.BATCH_FILE)

VARIABLES iid, vt
vars == <<iid, vt>>
M == Batch[iid]

Init ==
  /\ iid \in 1..Len(Batch)
  /\ vt = ValueSolveP(Batch[iid])
Next == FALSE /\ UNCHANGED vars
Spec == Init /\ [][Next]_vars

Emit == PrintT(ToJson([iid |-> iid, rec |-> [det |-> vt.det, num |-> vt.num, pairs |-> vt.pairs]]))

ValueEquationHoldsForEveryDiscount == SolvesSystemP(vt)
OnlyListedRunningStates ==
  \A i \in 1..vt.k : vt.pairs[i][2] \in Lst(M) \ ExplAbs(M)
InstancesWellFormed == PWellFormed(M) /\ CWellFormed(M) /\ ListClosed(M)
=============================================================================
