------------------------------- MODULE C10_TD -------------------------------
(* Property C10: the Q-tables of msdm's temporal-difference learners (QLearning, SARSA,  *)
(* ExpectedSARSA, DoubleQLearning) are exactly their published update rule folded over    *)
(* the experience; every experienced step is a real transition of the MDP; Q-values stay  *)
(* inside the interval spanned by the initial values and the discounted reward bounds;    *)
(* the returned policy is uniform over the maximal-Q actions of visited states and over   *)
(* all available actions elsewhere.                                                       *)
(*                                                                                        *)
(* (M) abstract problem: one record T per batch entry = an MDP instance (fields of        *)
(*     lib/MDP.tla) + learner configuration: alg in {"Q","SARSA","ESARSA","DQ"}, step     *)
(*     size AN/AD, exploration rate EN/ED, temp0 (1 iff softmax temperature is 0),        *)
(*     q0[s][a] = configured initial value in quarters (constant or state-action table).  *)
(* (O) there is no closed-form oracle: ground truth is the fold of the update rule        *)
(*     (operators NewVal / Outcomes) plus the derived interval Bounds.                    *)
(* (R) reference machine, one action per step of msdm/algorithms/tdlearning.py:           *)
(*       Start  - `s = mdp.initial_state_dist().sample()` (SARSA also materialises q[s])  *)
(*       Step   - choose a, sample ns (SARSA: na), apply the TD update to one entry       *)
(*       End    - loop exit at an absorbing state, `end_of_episode`                       *)
(*       Finish - `return q` / `_create_policy`: final table and policy clauses           *)
(*     Seeded randomness (behaviour policy, environment, double-Q coin and tie-break) is  *)
(*     nondeterministic choice.  Arithmetic is fixed point in units of 1/SCALE with ONE   *)
(*     floor division per update; with dyadic parameters and depth <= 8 it is exact.      *)
(* (P) invariants at the bottom: AbsorbingZero, UnvisitedInitial, UnavailableUntouched,   *)
(*     Bounded (the boundedness clause for ALL experience histories in MC mode),          *)
(*     InstancesOK (instance filter: well formed, every policy proper).                   *)
(*                                                                                        *)
(* IOEnv.MODE = "mc":    Start/Step/End are free: TLC explores every experience history   *)
(*                       of every batch instance up to T.depth.                           *)
(* IOEnv.MODE = "trace": pipeline B.  T.ev is the experience recorded from the real       *)
(*                       learner through its event listener; each event must be explained *)
(*                       by the action of the same name with the logged arguments; the    *)
(*                       updated entry must equal the logged one within the derived       *)
(*                       tolerance; Finish judges the returned q_values and policy.       *)
(*                       Verdicts are total: a failing event yields phase "rejected" with *)
(*                       the failing clause, never a silent deadlock.                     *)
(* mode "seedbug" is the model-level reproduction of a defect of the unchanged tree:      *)
(* SARSA writes initial_q into the row of an absorbing *initial* state.  A trace that is  *)
(* only explained in that mode is reported under that defect's own signature.             *)
EXTENDS MDP, Json, IOUtils

SCALE == 65536          \* Q-values are integers in units of 1/SCALE
PUNIT == 61440          \* policy probabilities are logged as round(p * PUNIT), PUNIT = 60 * 1024
Batch == JsonDeserialize(IOEnv.BATCH_FILE)
Mode  == IOEnv.MODE

VARIABLES tid,    \* batch index (instance + configuration [+ recorded trace])
          mode,   \* "spec" | "seedbug"
          l,      \* trace mode: position of the next event; mc mode: 0
          cur,    \* current state of the running episode, 0 between episodes
          pa,     \* SARSA: action already chosen for cur (0 = not chosen / unknown)
          Q1, Q2, \* the table(s); Q2 is only used by double Q-learning
          vis,    \* states whose row has been materialised = states that occur in the experience
          nupd,   \* trace mode: number of updates so far (tolerances); mc mode: 0 (no counters in MC state)
          phase,  \* "run" | "done" | "rejected"
          fails,  \* set of failure records (clauses of the statement that failed)
          flags   \* implementation-shaped observations (drift), and "inexact" in mc mode
vars == <<tid, mode, l, cur, pa, Q1, Q2, vis, nupd, phase, fails, flags>>

Tr == Batch[tid]
Ev == Tr.ev[l]

\* ------------------------------------------------------------------ (M) configuration helpers
IsAbs(T, s)   == T.abs[s] = 1
Q0Raw(T, s, a) == IF T.avail[s][a] = 0 THEN 0 ELSE T.q0[s][a] * (SCALE \div 4)
\* configured initial values, absorbing states fixed at 0, unavailable entries do not exist (held at 0)
Q0(T, s, a)   == IF IsAbs(T, s) THEN 0 ELSE Q0Raw(T, s, a)
InitQ(T)      == TLCEval([s \in St(T) |-> [a \in Ac(T) |-> Q0(T, s, a)]])
RawRow(T, s)  == TLCEval([a \in Ac(T) |-> Q0Raw(T, s, a)])
Close(x, y, t) == AbsI(x - y) <= t

RowMax(T, q, s) == MaxSet({q[s][a] : a \in Avail(T, s)})
RowMin(T, q, s) == MinSet({q[s][a] : a \in Avail(T, s)})
ArgMaxNear(T, q, s, win) == {a \in Avail(T, s) : q[s][a] >= RowMax(T, q, s) - win}

\* every policy is proper  <=>  the greatest set X of non-absorbing states in which every state has an
\* available action whose successors all stay in X is empty
RECURSIVE TrapK(_, _, _)
TrapK(T, X, k) ==
  IF k = 0 THEN X
  ELSE LET Y == {s \in X : \E a \in Avail(T, s) : Succ(T, s, a) \subseteq X}
       IN IF Y = X THEN X ELSE TrapK(T, Y, k - 1)
NoTrap(T) == TrapK(T, NonAbs(T), T.N + 1) = {}

\* ------------------------------------------------------------------ (O) the update rule
\* Q(s,a) <- Q(s,a) + alpha * (r + gamma * target - Q(s,a)), alpha = AN/AD, gamma = GN/GD, one floor division
UpdNum(T, old, r, tgt) == T.AN * (T.GD * r * SCALE + T.GN * tgt - T.GD * old)
UpdDen(T)              == T.AD * T.GD
NewVal(T, old, r, tgt) == old + (UpdNum(T, old, r, tgt) \div UpdDen(T))
Exact(T, old, r, tgt)  == UpdNum(T, old, r, tgt) % UpdDen(T) = 0

\* expected SARSA at temperature 0: sum_a pi(a|ns) Q(ns,a) with pi = eps * uniform + (1-eps) * uniform over the
\* maximisers.  The maximisers share one value, so the greedy part is the row maximum whatever the ties are:
\* target = (EN * sum_a Q(ns,a) + (ED - EN) * |A| * max_a Q(ns,a)) / (ED * |A|)
ESNum(T, q, s) == LET A == Avail(T, s) IN
                  T.EN * SumSet([a \in A |-> q[s][a]], A) + (T.ED - T.EN) * Cardinality(A) * RowMax(T, q, s)
ESDen(T, s)    == T.ED * Cardinality(Avail(T, s))
ESTarget(T, q, s) == ESNum(T, q, s) \div ESDen(T, s)
ESExact(T, q, s)  == ESNum(T, q, s) % ESDen(T, s) = 0
\* expected SARSA with a positive softmax temperature tau: pi = eps * uniform + (1-eps) * softmax(Q/tau).  exp() is
\* outside TLC's arithmetic, so two things are decided here:
\*  (interval) softmax weights are monotone in Q, hence mean(Q) <= m_soft <= max(Q) (Chebyshev's sum inequality) and
\*             the target lies in [mean, eps * mean + (1-eps) * max] - pure integer arithmetic, always checked;
\*  (weights)  when the recorder supplies the softmax weights of the row (computed by the harness with math.exp from
\*             the row the real table held before the update - the only trusted-Python part), TLC checks that they
\*             are normalised and order-consistent with its own row, and that the written entry equals the rule with
\*             target sum_a (eps/|A| + (1-eps) w_a) Q(ns,a).  Weights are logged in units of 1/2^20, split in
\*             w = wh * 2^10 + wl so that every product stays inside 31 bits.
\* In this configuration the machine resynchronises the written entry with the logged one (it is within the
\* tolerance of the rule applied to the previous, equally resynchronised, table), so the distance between Q1 and
\* the real table is at most the logging quantisation (1/2 unit) at every entry and the tolerances below are constants.
Loose(T) == T.alg = "ESARSA" /\ T.temp0 = 0
WH == 1024
WU == 1048576
RowSum(T, q, s)  == LET A == Avail(T, s) IN SumSet([a \in A |-> q[s][a]], A)
Spread(T, q, s)  == RowMax(T, q, s) - RowMin(T, q, s)
SoftW(e, a)      == e.wh[a] * WH + e.wl[a]
\* weights usable: logged, and spread small enough for the two partial sums (sum wh <= 2^10, wl < 2^10)
SoftUsable(T, q, s, e) == e.hw = 1 /\ Spread(T, q, s) < WU \div Cardinality(Avail(T, s))   \* spread * 2^10 * |A| < 2^30
SoftNormalised(T, s, e) ==
  LET A == Avail(T, s) IN
  /\ \A a \in A : e.wh[a] >= 0 /\ e.wl[a] >= 0 /\ e.wl[a] < WH
  /\ Close(SumSet([a \in A |-> SoftW(e, a)], A), WU, Cardinality(A))
\* Q(a) > Q(b) beyond the resynchronisation error => w(a) >= w(b) up to the weight quantisation
SoftOrdered(T, q, s, e) ==
  \A a \in Avail(T, s) : \A b \in Avail(T, s) : q[s][a] > q[s][b] + 1 => SoftW(e, a) >= SoftW(e, b) - 1
SoftMean(T, q, s, e) ==
  LET A == Avail(T, s)  mn == RowMin(T, q, s) IN
  mn + (SumSet([a \in A |-> e.wh[a] * (q[s][a] - mn)], A) \div WH)
     + (SumSet([a \in A |-> e.wl[a] * (q[s][a] - mn)], A) \div WU)
SoftTarget(T, q, s, e) ==
  LET k == Cardinality(Avail(T, s)) IN
  (T.EN * RowSum(T, q, s) + (T.ED - T.EN) * k * SoftMean(T, q, s, e)) \div (T.ED * k)
\* interval of the target: [mean, eps * mean + (1-eps) * max], lower end rounded down, upper end rounded up
SoftLo(T, q, s) == RowSum(T, q, s) \div Cardinality(Avail(T, s))
SoftHi(T, q, s) == ESTarget(T, q, s) + 1
\* derived constants (units): pre-state error 1/2 per entry (non-expansive: 1/2 on any convex combination);
\* interval: 1 (floor of the bound) + 1 (floor of NewVal) + 1/2 (logging)                      -> 3 <= LTolI
\* weights : 2 floors in SoftMean + < 1/2 weight quantisation (|A| * spread / 2^21 < 1/2 by SoftUsable) + 1 floor in
\*           SoftTarget + 1 floor in NewVal + 1/2 + 1/2                                          -> 6 <= LTolW
LTolI == 4
LTolW == 8

Out(T, w, c, old, r, tgt, tex) ==
  [w |-> w, c |-> c, new |-> NewVal(T, old, r, tgt), ex |-> (tex /\ Exact(T, old, r, tgt))]
\* all results of one update allowed by the published rule: w = table that is written, c = bootstrap action
\* chosen by double Q-learning among the (near-)maximisers of the written table (win = 0: exact maximisers)
Outcomes(T, q1, q2, s, a, ns, na, win) ==
  LET r == T.R[s][a][ns] IN
  IF T.alg = "Q" THEN {Out(T, 1, 0, q1[s][a], r, RowMax(T, q1, ns), TRUE)}
  ELSE IF T.alg = "SARSA" THEN {Out(T, 1, 0, q1[s][a], r, q1[ns][na], TRUE)}
  ELSE IF T.alg = "ESARSA" THEN {Out(T, 1, 0, q1[s][a], r, ESTarget(T, q1, ns), ESExact(T, q1, ns))}
  ELSE {Out(T, 1, c, q1[s][a], r, q2[ns][c], TRUE) : c \in ArgMaxNear(T, q1, ns, win)}
       \cup {Out(T, 2, c, q2[s][a], r, q1[ns][c], TRUE) : c \in ArgMaxNear(T, q2, ns, win)}

\* sup-norm distance between the fixed-point fold and the real-valued fold after n updates: every update is a
\* sup-norm non-expansion for alpha in [0,1] ((1-alpha) e + alpha gamma e <= e) plus one rounding (two for
\* expected SARSA, whose target is rounded as well)
Err(T, n) == IF T.alg = "ESARSA" THEN 2 * n ELSE n
\* Scale factor (T.scale_exp # 0): the real MDP pays R * 10^scale_exp, the configured initial values and softmax
\* temperature are scaled alike.  NewVal is positively homogeneous in (old, r, tgt), max / mean / entry targets are
\* homogeneous and softmax(Q / tau) is invariant, so the machine below IS the model of the scaled run in units of
\* 10^scale_exp / SCALE; the harness divides every observed magnitude by the factor before quantising.
\* Call history (T.call = 2): the learner object was trained on another MDP over the same labels before.  The statement
\* has no freshness precondition, so Init is the same: every table starts from the configured initial values of THIS
\* instance (InitQ(T): 0 at T's absorbing states, T's available actions only).
\* Perturbed rewards (near-tie family, T.pert = 1): the real MDP pays R + d * 2^-40 with d in {-1,0,1} while the model
\* folds the integer R.  One update moves the real fold by at most alpha * 2^-40 <= 2^-24 units away from the model's,
\* and the update is non-expansive, so after n <= 120 updates the two differ by < 120 * 2^-24 < 10^-5 units.  Every
\* comparison below leaves at least 1/2 unit between its derived need and its tolerance (step: need Err(n+1) + 1/2,
\* allowed Err(n+1) + 1; table: need Err(n) + 1, allowed Err(n) + 2; bounds: need 1/2, allowed 1; reward: the logged
\* reward is rounded to units, |d| * 2^-24 units never changes the rounding), so the perturbation is absorbed.
\* The policy clause has NO tolerance: T.rank holds the dense ranks of the returned floats under exact comparison
\* (msdm selects the maximisers with ==), and Finish demands support = actions of maximal rank at visited states.

\* interval spanned by the initial values (0 at absorbing states) and the discounted reward bounds;
\* undiscounted: after n updates.  Returned as <<lo * d, hi * d, d>>.
StepRewards(T) ==
  {T.R[x[1]][x[2]][x[3]] : x \in {y \in NonAbs(T) \X Ac(T) \X St(T) :
                                    T.avail[y[1]][y[2]] = 1 /\ T.P[y[1]][y[2]][y[3]] > 0}}
Bounds(T, n) ==
  LET q0s == {Q0(T, x[1], x[2]) : x \in St(T) \X Ac(T)} \cup {0}
      rs  == StepRewards(T) \cup {0}
      qlo == MinSet(q0s)  qhi == MaxSet(q0s)
      rlo == MinSet(rs)   rhi == MaxSet(rs)
  IN IF T.GN < T.GD
     THEN LET d == T.GD - T.GN IN <<MinI(qlo * d, rlo * SCALE * T.GD), MaxI(qhi * d, rhi * SCALE * T.GD), d>>
     ELSE <<qlo + n * rlo * SCALE, qhi + n * rhi * SCALE, 1>>
InB(b, x, slack) == x * b[3] >= b[1] - slack * b[3] /\ x * b[3] <= b[2] + slack * b[3]

\* ------------------------------------------------------------------ (R) the machine
SeedShape(T) ==   \* the trace / instance can exhibit the SARSA seeding defect
  /\ T.alg = "SARSA"
  /\ IF Mode = "trace"
     THEN \E i \in 1..Len(T.ev) : /\ T.ev[i].k = "start" /\ T.ev[i].s \in St(T) /\ IsAbs(T, T.ev[i].s)
                                   /\ \E a \in Ac(T) : Q0Raw(T, T.ev[i].s, a) # 0
     ELSE T.seedbug = 1
Modes(T) == {"spec"} \cup (IF SeedShape(T) THEN {"seedbug"} ELSE {})

Init ==
  /\ tid \in 1..Len(Batch)
  /\ mode \in Modes(Batch[tid])
  /\ l = (IF Mode = "trace" THEN 1 ELSE 0)
  /\ cur = 0 /\ pa = 0
  /\ Q1 = InitQ(Batch[tid]) /\ Q2 = InitQ(Batch[tid])
  /\ vis = {} /\ nupd = 0 /\ phase = "run" /\ fails = {} /\ flags = {}

F(c, s, a, e, g) == [c |-> c, pos |-> l, s |-> s, a |-> a, exp |-> e, got |-> g]

\* --- Start: sample the initial state.  SARSA materialises the row of s0 *without* the absorbing mask
\*     (`q[s] = {a: self.initial_q(s, a)}`): that is the "seedbug" mode; the statement fixes absorbing rows at 0.
DoStart(s0) ==
  /\ cur' = s0 /\ pa' = 0
  /\ vis' = vis \cup {s0}
  /\ IF mode = "seedbug" /\ IsAbs(Tr, s0) /\ s0 \notin vis
     THEN /\ Q1' = [Q1 EXCEPT ![s0] = RawRow(Tr, s0)]
          /\ fails' = IF \E a \in Ac(Tr) : Q0Raw(Tr, s0, a) # 0
                      THEN fails \cup {F("sarsa-absorbing-initial-state-seeded-with-initial-q", s0, 0, 0,
                                         Q0Raw(Tr, s0, CHOOSE a \in Ac(Tr) : Q0Raw(Tr, s0, a) # 0))}
                      ELSE fails
     ELSE UNCHANGED <<Q1, fails>>
  /\ flags' = IF Tr.p0[s0] > 0 THEN flags ELSE flags \cup {"episode-starts-outside-initial-support"}
  /\ UNCHANGED <<tid, mode, Q2, phase>>

\* --- Step: the TD update of one entry
Apply(s, a, ns, na, o) ==
  /\ Q1' = IF o.w = 1 THEN [Q1 EXCEPT ![s][a] = o.new] ELSE Q1
  /\ Q2' = IF o.w = 2 THEN [Q2 EXCEPT ![s][a] = o.new] ELSE Q2
  /\ vis' = vis \cup {s, ns}
  /\ cur' = ns /\ pa' = na
  /\ flags' = IF o.ex \/ Mode # "mc" THEN flags ELSE flags \cup {"inexact"}

\* --- End: the episode loop exits (at an absorbing state)
DoEnd == cur' = 0 /\ pa' = 0 /\ UNCHANGED <<tid, mode, Q1, Q2, vis, phase, fails>>

\* ------------------------------------------------------------------ mc mode: all experience histories
MCStart ==
  /\ Mode = "mc" /\ phase = "run" /\ cur = 0
  /\ \E s0 \in InitSupp(Tr) : DoStart(s0)
  /\ UNCHANGED <<l, nupd>>
MCStep ==
  /\ Mode = "mc" /\ phase = "run" /\ cur # 0 /\ ~IsAbs(Tr, cur)
  /\ \E a \in (IF pa = 0 THEN Avail(Tr, cur) ELSE {pa}) :
     \E ns \in Succ(Tr, cur, a) :
     \E na \in (IF Tr.alg = "SARSA" THEN Avail(Tr, ns) ELSE {0}) :
     \E o \in Outcomes(Tr, Q1, Q2, cur, a, ns, na, 0) :
        Apply(cur, a, ns, na, o)
  /\ UNCHANGED <<tid, mode, l, nupd, phase, fails>>
MCEnd ==
  /\ Mode = "mc" /\ phase = "run" /\ cur # 0 /\ IsAbs(Tr, cur)
  /\ DoEnd /\ UNCHANGED <<l, nupd, flags>>

\* ------------------------------------------------------------------ trace mode: pipeline B
Reject(f) == /\ phase' = "rejected" /\ fails' = fails \cup {f}
             /\ UNCHANGED <<tid, mode, l, cur, pa, Q1, Q2, vis, nupd, flags>>

TraceStart ==
  /\ Mode = "trace" /\ phase = "run" /\ l <= Len(Tr.ev) /\ Ev.k = "start"
  /\ IF Ev.s \notin St(Tr) THEN Reject(F("step-unknown-state", Ev.s, 0, 0, 0))
     ELSE DoStart(Ev.s) /\ l' = l + 1 /\ UNCHANGED nupd

\* first clause of "each experienced step is a real transition of the MDP taken from a non-absorbing state with
\* an available action and the MDP's reward" that the logged step breaks ("ok" if none)
StepFault(T, c, p, s, a, ns, na, r) ==
  IF s \notin St(T) \/ ns \notin St(T) THEN "step-unknown-state"
  ELSE IF c # s THEN "trajectory-discontinuity"
  ELSE IF IsAbs(T, s) THEN "step-from-absorbing-state"
  ELSE IF a \notin Avail(T, s) THEN "step-unavailable-action"
  ELSE IF T.P[s][a][ns] = 0 THEN "step-zero-probability-transition"
  ELSE IF r # T.R[s][a][ns] * SCALE THEN "step-reward"
  ELSE IF T.alg = "SARSA" /\ p # 0 /\ a # p THEN "sarsa-action-differs-from-bootstrapped-action"
  ELSE IF T.alg = "SARSA" /\ na \notin Avail(T, ns) THEN "sarsa-next-action-unavailable"
  ELSE "ok"

\* outcomes of the rule that explain the logged entry (lq = written entry, for double Q: lq = q1[s][a], lq2 = q2[s][a];
\* h1 / h2 = 1 iff that entry could be observed: the entry that was written must be, the other one need not exist yet)
Matching(T, q1, q2, s, a, ns, na, n, lq, lq2, h1, h2, e) ==
  LET tol == Err(T, n + 1) + 1 IN
  IF Loose(T)
  THEN LET r  == T.R[s][a][ns]
           lo == NewVal(T, q1[s][a], r, SoftLo(T, q1, ns))
           hi == NewVal(T, q1[s][a], r, SoftHi(T, q1, ns))
           inInterval == h1 = 1 /\ lq >= lo - LTolI /\ lq <= hi + LTolI
           byWeights  == IF SoftUsable(T, q1, ns, e)
                         THEN /\ SoftNormalised(T, ns, e) /\ SoftOrdered(T, q1, ns, e)
                              /\ Close(NewVal(T, q1[s][a], r, SoftTarget(T, q1, ns, e)), lq, LTolW)
                         ELSE TRUE
       IN IF inInterval /\ byWeights
          THEN {[w |-> 1, c |-> 0, new |-> lq, ex |-> TRUE]}   \* resynchronised with the logged entry
          ELSE {}
  ELSE {o \in Outcomes(T, q1, q2, s, a, ns, na, 2 * (Err(T, n) + 1)) :
          IF T.alg = "DQ"
          THEN IF o.w = 1 THEN h1 = 1 /\ Close(o.new, lq, tol)  /\ (h2 = 1 => Close(q2[s][a], lq2, Err(T, n) + 1))
                          ELSE h2 = 1 /\ Close(o.new, lq2, tol) /\ (h1 = 1 => Close(q1[s][a], lq, Err(T, n) + 1))
          ELSE h1 = 1 /\ Close(o.new, lq, tol)}
\* which part of the softmax configuration rejected the step (for the signature)
LooseShape(T, q1, s, a, ns, lq, h1, e) ==
  LET r  == T.R[s][a][ns]
      lo == NewVal(T, q1[s][a], r, SoftLo(T, q1, ns))
      hi == NewVal(T, q1[s][a], r, SoftHi(T, q1, ns))
  IN IF ~(h1 = 1 /\ lq >= lo - LTolI /\ lq <= hi + LTolI) THEN "update-rule/softmax-target-outside-interval"
     ELSE IF ~SoftNormalised(T, ns, e) \/ ~SoftOrdered(T, q1, ns, e) THEN "update-rule/softmax-weights-inconsistent"
     ELSE "update-rule/softmax-target-differs-from-weighted-rule"
SomeExpected(T, q1, q2, s, a, ns, na, e) ==
  IF Loose(T) THEN (IF SoftUsable(T, q1, ns, e) THEN NewVal(T, q1[s][a], T.R[s][a][ns], SoftTarget(T, q1, ns, e))
                    ELSE NewVal(T, q1[s][a], T.R[s][a][ns], SoftHi(T, q1, ns)))
  ELSE (CHOOSE o \in Outcomes(T, q1, q2, s, a, ns, na, 0) : TRUE).new

TraceStep ==
  /\ Mode = "trace" /\ phase = "run" /\ l <= Len(Tr.ev) /\ Ev.k = "step"
  /\ LET s == Ev.s  a == Ev.a  ns == Ev.ns  na == Ev.na
         fault == StepFault(Tr, cur, pa, s, a, ns, na, Ev.r)
     IN IF fault # "ok"
        THEN Reject(F(fault, s, a, IF fault = "step-reward" THEN Tr.R[s][a][ns] * SCALE ELSE 0,
                                   IF fault = "step-reward" THEN Ev.r ELSE 0))
        ELSE LET outs  == Matching(Tr, Q1, Q2, s, a, ns, na, nupd, Ev.q, Ev.q2, Ev.h1, Ev.h2, Ev)
                 shape == IF Loose(Tr) THEN LooseShape(Tr, Q1, s, a, ns, Ev.q, Ev.h1, Ev)
                          ELSE IF IsAbs(Tr, ns) THEN "update-rule/next-state-absorbing"
                          ELSE "update-rule/next-state-non-absorbing"
                 b     == Bounds(Tr, nupd + 1)
             IN IF outs = {} THEN Reject(F(shape, s, a, SomeExpected(Tr, Q1, Q2, s, a, ns, na, Ev), Ev.q))
                ELSE IF mode = "spec" /\ ~(InB(b, Ev.q, 1) /\ (Tr.alg = "DQ" => InB(b, Ev.q2, 1)))
                     THEN Reject(F("bounded/step", s, a, b[2] \div b[3], Ev.q))
                ELSE /\ \E o \in outs : Apply(s, a, ns, na, o)
                     /\ l' = l + 1 /\ nupd' = nupd + 1
                     /\ UNCHANGED <<tid, mode, phase, fails>>

TraceEnd ==
  /\ Mode = "trace" /\ phase = "run" /\ l <= Len(Tr.ev) /\ Ev.k = "end"
  /\ DoEnd /\ l' = l + 1 /\ UNCHANGED nupd
  /\ flags' = flags \cup (IF cur # 0 /\ cur \in St(Tr) /\ IsAbs(Tr, cur) THEN {} ELSE {"episode-ended-before-absorbing-state"})
                    \cup (IF Ev.s = cur THEN {} ELSE {"end-of-episode-state-differs"})

\* --- Finish: `return q`, `_create_policy`.  T.rhas[s] / T.rhasa[s][a] say which rows / entries q_values has,
\*     T.rval the entries in units, T.rank their dense ranks inside the row (exact float order), T.pol the
\*     policy weights in 1/PUNIT and T.polq[s] whether the policy was queried at s.
RetExpected(T, q1, q2, s, a) == IF T.alg = "DQ" THEN (q1[s][a] + q2[s][a]) \div 2 ELSE q1[s][a]
RetArgMax(T, s) ==
  LET A == {a \in Avail(T, s) : T.rhasa[s][a] = 1} IN
  {a \in A : \A b \in A : T.rank[s][a] >= T.rank[s][b]}
RawArgMax(T, s) == {a \in Avail(T, s) : \A b \in Avail(T, s) : Q0Raw(T, s, a) >= Q0Raw(T, s, b)}
PolSupport(T, s) == {a \in Ac(T) : T.pol[s][a] > 0}

TableFails(T, md, q1, q2, v, n) ==
  LET tol == Err(T, n) + 2
      b   == Bounds(T, n)
      entry(s, a) ==
        IF T.avail[s][a] = 1 /\ T.rhasa[s][a] = 0 THEN {F("q-row-misses-available-action", s, a, 0, 0)}
        ELSE IF T.avail[s][a] = 0 /\ T.rhasa[s][a] = 1 THEN {F("q-row-has-unavailable-action", s, a, 0, 0)}
        ELSE IF T.rhasa[s][a] = 0 THEN {}
        ELSE LET e == RetExpected(T, q1, q2, s, a) IN
             (IF Close(T.rval[s][a], e, tol) THEN {}
              ELSE {F(IF IsAbs(T, s) THEN "absorbing-row-not-zero"
                      ELSE IF s \in v THEN "q-values-differ-from-fold"
                      ELSE "q-unvisited-row-differs-from-initial-values", s, a, e, T.rval[s][a])})
             \cup (IF md = "spec" /\ ~InB(b, T.rval[s][a], 1)
                   THEN {F("bounded/returned", s, a, b[2] \div b[3], T.rval[s][a])} ELSE {})
  IN UNION {UNION {entry(s, a) : a \in Ac(T)} : s \in {x \in St(T) : T.rhas[x] = 1}}
     \cup {F("q-row-missing-for-visited-state", s, 0, 0, 0) : s \in {x \in v : ~IsAbs(T, x) /\ T.rhas[x] = 0}}

PolicyFails(T, v) ==
  LET one(s) ==
        LET sup == PolSupport(T, s)
            want == IF s \in v /\ T.rhas[s] = 1 THEN RetArgMax(T, s) ELSE Avail(T, s)
            k == Cardinality(sup)
        IN (IF sup = want THEN {}
            ELSE IF s \in v THEN {F("policy-visited-state-not-uniform-over-maximal-q", s, 0, Cardinality(want), k)}
            ELSE IF ~IsAbs(T, s) /\ sup = RawArgMax(T, s)
                 THEN {F("policy-unvisited-state-is-argmax-of-initial-q", s, 0, Cardinality(want), k)}
            ELSE {F("policy-unvisited-state-not-all-available-actions", s, 0, Cardinality(want), k)})
           \cup (IF \A a \in sup : Close(T.pol[s][a] * k, PUNIT, k) THEN {}
                 ELSE {F("policy-not-uniform", s, 0, PUNIT \div MaxI(k, 1), 0)})
  IN UNION {one(s) : s \in {x \in St(T) : T.polq[x] = 1}}

Finish ==
  /\ Mode = "trace" /\ phase = "run" /\ l = Len(Tr.ev) + 1
  /\ phase' = "done"
  /\ fails' = IF Tr.truncated = 1 THEN fails
              ELSE fails \cup TableFails(Tr, mode, Q1, Q2, vis, nupd) \cup PolicyFails(Tr, vis)
  /\ flags' = flags \cup (IF Tr.truncated = 0 /\ Cardinality({i \in 1..Len(Tr.ev) : Tr.ev[i].k = "end"}) # Tr.episodes
                          THEN {"episode-count-differs-from-configured"} ELSE {})
                    \cup (IF Tr.truncated = 0 /\ cur # 0 THEN {"training-returned-inside-an-episode"} ELSE {})
  /\ UNCHANGED <<tid, mode, l, cur, pa, Q1, Q2, vis, nupd>>

Next == MCStart \/ MCStep \/ MCEnd \/ TraceStart \/ TraceStep \/ TraceEnd \/ Finish
Spec == Init /\ [][Next]_vars

\* mc mode: explore every history of at most T.depth actions (the initial state has level 1)
DepthBound == Mode # "mc" \/ ("inexact" \notin flags /\ TLCGet("level") <= Tr.depth + 1)

\* ------------------------------------------------------------------ emission
Emit ==
  IF Mode = "trace"
  THEN phase # "run" =>
         PrintT(ToJson([tid |-> tid, mode |-> mode, phase |-> phase, l |-> l, nupd |-> nupd, fails |-> fails,
                        flags |-> flags, q1 |-> Q1, q2 |-> Q2, vis |-> vis, bounds |-> Bounds(Tr, nupd)]))
  ELSE "inexact" \in flags => PrintT(ToJson([tid |-> tid, cut |-> "inexact"]))

\* ------------------------------------------------------------------ (P) properties
\* absorbing states are fixed at 0 (all histories)
AbsorbingZero == mode = "spec" => \A s \in ExplAbs(Tr) : \A a \in Ac(Tr) : Q1[s][a] = 0 /\ Q2[s][a] = 0
\* the same claim without the mode guard: violated exactly by the model of the SARSA seeding defect
AbsorbingZeroAnyMode == \A s \in ExplAbs(Tr) : \A a \in Ac(Tr) : Q1[s][a] = 0 /\ Q2[s][a] = 0
\* rows of states that do not occur in the experience keep the configured initial values
UnvisitedInitial == \A s \in St(Tr) \ vis : \A a \in Ac(Tr) : Q1[s][a] = Q0(Tr, s, a) /\ Q2[s][a] = Q0(Tr, s, a)
\* entries of unavailable actions are never written
UnavailableUntouched == \A s \in St(Tr) : \A a \in Ac(Tr) \ Avail(Tr, s) : Q1[s][a] = 0 /\ Q2[s][a] = 0
\* boundedness for step sizes in [0,1]: exact arithmetic in mc mode (n = level bounds the number of updates when
\* undiscounted), fixed point within Err of the real fold in trace mode
Bounded ==
  (mode = "spec" /\ "inexact" \notin flags) =>
    LET n == IF Mode = "mc" THEN TLCGet("level") ELSE nupd
        b == Bounds(Tr, n)
        slack == IF Mode = "mc" THEN 0 ELSE Err(Tr, nupd)
    IN \A s \in St(Tr) : \A a \in Ac(Tr) : InB(b, Q1[s][a], slack) /\ InB(b, Q2[s][a], slack)
\* typing of the machine state; only double Q-learning ever writes the second table
Shape == /\ cur \in 0..Tr.N /\ pa \in 0..Tr.K
         /\ vis \subseteq St(Tr)
         /\ (Tr.alg # "DQ" => Q2 = InitQ(Tr))
\* instance filter: well formed, step size in [0,1], every state has an action, every policy proper; on
\* instances small enough for the linear-algebra oracle of lib/MDP.tla the two notions of properness agree
InstancesOK ==
  (vis = {} /\ cur = 0) =>
    /\ WellFormed(Tr)
    /\ Tr.AN >= 0 /\ Tr.AN <= Tr.AD /\ Tr.EN >= 0 /\ Tr.EN <= Tr.ED
    /\ \A s \in St(Tr) : Avail(Tr, s) # {}
    /\ NoTrap(Tr)
    /\ (Mode = "mc" /\ Cardinality(NonAbs(Tr)) <= 3 => Proper(Tr))
=============================================================================
