---------------------------- MODULE X03_DictJoin ----------------------------
(* Extension X03, third part: the nested-dictionary helpers of msdm/core/utils/dictutils  *)
(*   dict_match(l, r)  holds iff l and r agree on every shared nested key                *)
(*   dict_merge(l, r)  is the recursive union, the right argument wins on conflicting      *)
(*                     leaves; it neither aliases nor mutates its arguments (harness)      *)
(*   natural_join(R1,..) is the relational natural join of lists of nested dictionaries    *)
(*                                                                                      *)
(* (M) nested dictionaries as sets of <<path, leaf>> entries:            lib/Nested.tla   *)
(* (O) relational oracle: Agree (r U s is a function), MergeO, JoinO                      *)
(* (R) reference machine, one action per call of the real helpers:                       *)
(*       track "pairs" / "chain":  cur := dict_merge(cur, d)  (MergeR)  or                *)
(*                                 cur := dict_merge(d, cur)  (MergeL), each call also     *)
(*                                 observing dict_match(cur, d) and dict_match(d, cur);    *)
(*       track "join":             acc := natural_join(acc, R) (JoinR) or                 *)
(*                                 acc := natural_join(R, acc) (JoinL); rels is the list   *)
(*                                 of relations joined so far, so that the n-ary call      *)
(*                                 natural_join(R1, .., Rn) can be compared with the fold. *)
(*     computed with the recursion of the code (MatchRec / MergeRec / JoinSeq / JoinN).    *)
(* (P) invariants at the bottom: the recursion decides exactly the relational notions.    *)
(*                                                                                      *)
(* IOEnv.TRACK: "pairs"  every ordered pair (cur, d) of the depth<=2 universe, one step    *)
(*              "chain"  chains of <= MAXLEN merges from {} over ChainDicts                *)
(*              "join"   chains of <= MAXLEN joins from [{}] over the relation family      *)
(* Every reached state emits the operations taken with their expected observations and    *)
(* the expected result; the harness replays them on the real functions (pipeline A).      *)
EXTENDS Nested, Json, IOUtils

Track  == IOEnv.TRACK
MaxLen == atoi(IOEnv.MAXLEN)
Size   == IOEnv.SIZE            \* "small" (quick) / "large" (thorough)
Dirs   == IOEnv.DIRS            \* "both": the current value is used as left and as right argument; "right": as left only

\* ------------------------------------------------------------------ universes
A(l) == Atom(l)
\* every dictionary of depth <= 2 over top keys a, b; inner keys a, x (the inner key "a" repeats a top
\* key on purpose); leaves 1, 2 and - in the large universe - a list (a mutable leaf)
PairLeaves == IF Size = "small" THEN {"i:1", "i:2"} ELSE {"i:1", "i:2", "l:[1]"}
PairDicts == D2({"a", "b"}, {"a", "x"}, PairLeaves)

ChainSmall == <<
  Dict([a |-> A("i:1")]),
  Dict([a |-> A("i:2"), b |-> A("i:1")]),
  Dict([a |-> Dict([x |-> A("i:1")])]),
  Dict([a |-> Dict([x |-> A("i:2"), a |-> A("l:[1, 2]")])]),
  Dict([a |-> EmptyDict, b |-> Dict([x |-> A("l:[1, 2]")])]),
  Dict([b |-> A("i:2")]),
  EmptyDict >>
ChainLarge == ChainSmall \o <<
  Dict([a |-> Dict([a |-> A("i:1")]), b |-> A("i:1")]),
  Dict([b |-> Dict([x |-> A("i:1"), a |-> A("i:2")])]),
  Dict([a |-> A("l:[1, 2]"), b |-> EmptyDict]),
  Dict([c |-> Dict([x |-> A("s:u")])]) >>
ChainDicts == IF Size = "small" THEN ChainSmall ELSE ChainLarge

\* rows of the relations: conflicts at depth 1 and 2, disjoint keys, the empty row
JoinRowsSmall == <<
  Dict([a |-> A("i:1")]),
  Dict([a |-> A("i:2"), b |-> A("i:1")]),
  Dict([b |-> A("i:1")]),
  Dict([c |-> Dict([x |-> A("i:1")])]),
  Dict([c |-> Dict([x |-> A("i:2"), y |-> A("i:1")])]),
  Dict([c |-> Dict([y |-> A("i:1")]), a |-> A("i:1")]) >>
JoinRowsLarge == JoinRowsSmall \o << EmptyDict, Dict([c |-> EmptyDict, b |-> A("i:2")]) >>
JoinRows == IF Size = "small" THEN JoinRowsSmall ELSE JoinRowsLarge
\* relations: every list of <= 2 rows (order matters, duplicates allowed) - including the empty relation
RelFamily ==
  {<<>>} \cup {<<JoinRows[i]>> : i \in 1..Len(JoinRows)}
         \cup {<<JoinRows[i], JoinRows[j]>> : i \in 1..Len(JoinRows), j \in 1..Len(JoinRows)}
\* the small family keeps the pairs that are adjacent in the list (and the reversed / doubled ones)
RelSmall ==
  {<<>>} \cup {<<JoinRows[i]>> : i \in 1..Len(JoinRows)}
         \cup {<<JoinRows[p[1]], JoinRows[p[2]]>> :
                  p \in {q \in (1..Len(JoinRows)) \X (1..Len(JoinRows)) : q[2] \in {q[1], (q[1] % Len(JoinRows)) + 1}}}
Rels == IF Size = "small" THEN RelSmall ELSE RelFamily

MergeArgs == IF Track = "pairs" THEN PairDicts ELSE RangeOf(ChainDicts)

VARIABLES cur, acc, rels, start, hist
vars == <<cur, acc, rels, start, hist>>

Init ==
  /\ hist = <<>> /\ rels = <<>> /\ acc = <<EmptyDict>>
  /\ IF Track = "pairs" THEN cur \in PairDicts ELSE cur = EmptyDict
  /\ start = cur

\* input shape of a pair of dictionaries (names the finding if the real call deviates)
PairShape(l, r) ==
  IF TopKeys(l) \cap TopKeys(r) = {} THEN "no-shared-top-key"
  ELSE IF Agree(l, r) THEN (IF \E e \in l : \E f \in r : e[1] = f[1] /\ Len(e[1]) = 2 THEN "agreeing-at-depth-2"
                           ELSE "agreeing-shared-keys")
  ELSE IF \E e \in l : \E f \in r :
            (e[2] # EMPTY /\ ProperPrefix(e[1], f[1])) \/ (f[2] # EMPTY /\ ProperPrefix(f[1], e[1]))
               \/ (e[1] = f[1] /\ e[2] # f[2] /\ EMPTY \in {e[2], f[2]})
       THEN "leaf-against-dictionary"
  ELSE IF \E e \in l : \E f \in r : e[1] = f[1] /\ e[2] # f[2] /\ Len(e[1]) = 1 THEN "conflicting-leaves-at-depth-1"
  ELSE "conflicting-leaves-at-depth-2"
Ev(op, arg, m1, m2) == [op |-> op, d |-> arg, m1 |-> m1, m2 |-> m2, shape |-> PairShape(cur, arg)]
\* input shape of an n-ary join
Adjacent(i, j) == j = i + 1
JoinShape(Rs) ==
  IF Rs = <<>> THEN "zero-relations"
  ELSE IF \E i \in 1..Len(Rs) : Rs[i] = <<>> THEN "an-empty-relation"
  ELSE IF \E c \in RangeOf(Combos(Rs)) :
            /\ \E i \in 1..Len(c) : \E j \in 1..Len(c) : i < j /\ ~Agree(c[i], c[j])
            /\ \A i \in 1..Len(c) : \A j \in 1..Len(c) : (i < j /\ ~Agree(c[i], c[j])) => ~Adjacent(i, j)
       THEN "rows-conflicting-only-between-non-adjacent-relations"
  ELSE IF \E c \in RangeOf(Combos(Rs)) : ~PairwiseMatch(c) THEN "some-rows-conflict"
  ELSE "all-rows-join"
\* cur := dict_merge(cur, d); also observed: dict_match(cur, d), dict_match(d, cur)
MergeR(d) ==
  /\ cur' = MergeRec(cur, d)
  /\ hist' = Append(hist, Ev("mergeR", d, MatchRec(cur, d), MatchRec(d, cur)))
  /\ UNCHANGED <<acc, rels, start>>
MergeL(d) ==
  /\ cur' = MergeRec(d, cur)
  /\ hist' = Append(hist, Ev("mergeL", d, MatchRec(cur, d), MatchRec(d, cur)))
  /\ UNCHANGED <<acc, rels, start>>
\* acc := list(natural_join(acc, R)) / list(natural_join(R, acc))
JoinR(R) ==
  /\ acc' = JoinSeq(acc, R) /\ rels' = Append(rels, R)
  /\ hist' = Append(hist, [op |-> "joinR", R |-> R])
  /\ UNCHANGED <<cur, start>>
JoinL(R) ==
  /\ acc' = JoinSeq(R, acc) /\ rels' = <<R>> \o rels
  /\ hist' = Append(hist, [op |-> "joinL", R |-> R])
  /\ UNCHANGED <<cur, start>>

Next ==
  /\ Len(hist) < MaxLen
  /\ IF Track = "join" THEN \E R \in Rels : JoinR(R) \/ (Dirs = "both" /\ JoinL(R))
     ELSE IF Track = "pairs" THEN \E d \in MergeArgs : MergeR(d)
     ELSE \E d \in MergeArgs : MergeR(d) \/ (Dirs = "both" /\ MergeL(d))
Spec == Init /\ [][Next]_vars

\* ------------------------------------------------------------------ emission (pipeline A)
Emit ==
  IF Track = "join"
  THEN PrintT(ToJson([track |-> Track, hist |-> hist, acc |-> acc, rels |-> rels, nary |-> JoinN(rels),
                      shape |-> JoinShape(rels)]))
  ELSE hist # <<>> => PrintT(ToJson([track |-> Track, start |-> start, hist |-> hist, cur |-> cur]))

\* ------------------------------------------------------------------ (P) properties
\* instance filter / closure: everything is a well-formed nested dictionary of bounded depth
TypeOK ==
  /\ WellFormed(cur) /\ IsDict(cur)
  /\ \A i \in 1..Len(acc) : WellFormed(acc[i]) /\ IsDict(acc[i])
  /\ hist = <<>> => \A d \in MergeArgs : WellFormed(d) /\ IsDict(d) /\ Depth(d) <= 2
\* (in the "pairs" track the 144 initial states already range over every ordered pair)
Judged == Track # "join" /\ (Track = "pairs" => hist = <<>>)
\* dict_match(l, r) holds iff l and r agree on every shared nested key; it is symmetric
MatchIsAgreement ==
  Judged => \A d \in MergeArgs :
     /\ MatchRec(cur, d) = Agree(cur, d)
     /\ MatchRec(d, cur) = MatchRec(cur, d)
\* dict_merge is the recursive union in which the right argument wins
MergeIsRecursiveUnion ==
  Judged => \A d \in MergeArgs :
     LET x == MergeRec(cur, d) IN
     /\ x = MergeO(cur, d) /\ WellFormed(x) /\ IsDict(x)
     /\ NNorm(x \cup d) = x                     \* the right argument is contained in the result
     /\ MergeRec(x, d) = x                      \* merging it again changes nothing
     /\ Agree(x, d)
     /\ \A e \in x : e \in d \/ e \in cur       \* nothing is invented
\* on matching arguments the merge is the plain union of the entries, in either order
MergeOfMatchingIsUnion ==
  Judged => \A d \in MergeArgs :
     Agree(cur, d) => /\ MergeRec(cur, d) = NNorm(cur \cup d)
                      /\ MergeRec(d, cur) = MergeRec(cur, d)
MergeIdentity == MergeRec(cur, EmptyDict) = cur /\ MergeRec(EmptyDict, cur) = cur
\* natural_join is the relational natural join: as a set of rows, in either order
\* (states at the length bound have no successors: the joins out of them are not part of the run)
JoinJudged == Track = "join" /\ Len(hist) < MaxLen
JoinIsRelational ==
  JoinJudged => \A R \in Rels :
     /\ RangeOf(JoinSeq(acc, R)) = JoinO(RangeOf(acc), RangeOf(R))
     /\ RangeOf(JoinSeq(R, acc)) = RangeOf(JoinSeq(acc, R))
     /\ Len(JoinSeq(acc, R)) = Cardinality({p \in (1..Len(acc)) \X (1..Len(R)) : Agree(acc[p[1]], R[p[2]])})
\* [{}] is the identity of the join, the empty relation annihilates
JoinIdentity ==
  JoinJudged => /\ JoinSeq(acc, <<EmptyDict>>) = acc /\ JoinSeq(<<EmptyDict>>, acc) = acc
                    /\ JoinSeq(acc, <<>>) = <<>> /\ JoinSeq(<<>>, acc) = <<>>
\* the n-ary call (all pairs of rows must match, merge left to right from {}) is the fold of binary joins,
\* row for row in the same order
NaryIsFold == Track = "join" => JoinN(rels) = acc
=============================================================================
