--------------------------- MODULE C16_Multichain ---------------------------
(* Property C16: multichain policy iteration (Puterman 9.2.2 as implemented in           *)
(* msdm/algorithms/multichainpolicyiteration.py), when it reports convergence, returns   *)
(* the optimal discounted values (discount < 1) resp. the optimal gain (discount = 1),   *)
(* and a policy over available actions whose exact evaluation attains them.              *)
(*                                                                                      *)
(* (M) instances: records of spec/lib/MDP.tla, already in the planner's own index order  *)
(*     (state i = i-th entry of mdp.state_list, action j = j-th entry of action_list),   *)
(*     plus CAP (= max_iterations) and `inits` (initial decision rules handed to         *)
(*     multichain_policy_iteration_vectorized(policy=...)).  Rewards may be numerators   *)
(*     over a reward denominator RD (field RD, default 1; the near-tie family uses       *)
(*     RD = 2500, rewards 2500 vs 2501 = 1 vs 1.0004): values, gains, relative values    *)
(*     and action tables are linear in the rewards and every argmax / tie is invariant   *)
(*     under the scaling, so all quantities below are in units of 1/RD and the emitted   *)
(*     records carry `rd` for the harness to divide by.  In the other direction a reward *)
(*     multiplier RM (field RM, default 1; the large-magnitude family uses RM = 900:     *)
(*     costs of -900, -1800, ... per step) scales everything up: real reward =           *)
(*     R * RM / RD, the records carry `rm`.  Nothing in the model depends on the         *)
(*     magnitude of the rewards - in particular an unavailable action is never chosen,   *)
(*     however bad the available ones are (RuleAvailable, Support within Avail).         *)
(*     MIXED magnitudes (rewards ~1 at some states, ~1e9 at others) do not fit 32-bit    *)
(*     arithmetic and are modelled structurally: a per-state multiplier SM[s] (field SM, *)
(*     default all 1) with the instance DECOUPLED - no transition between non-absorbing  *)
(*     states of different multipliers (Decoupled, part of the instance filter).  The    *)
(*     MDP is then a union of sub-MDPs that only share value-0 absorbing states, the     *)
(*     value / gain / relative value of a state is linear in ITS component's rewards, so *)
(*     the real quantity at s is the model's times SM[s] * RM / RD (records carry `sm`). *)
(*     RARE transitions (probability 1e-3 .. 1e-9 in the real MDP) are modelled          *)
(*     structurally: field rare = <<s, a, x, t>> says that the row of (s, a) is          *)
(*     "to x with probability 1 - eps, to t with probability eps"; the model carries it  *)
(*     as (PD-1)/PD : 1/PD.  Such an instance is only admitted if nothing judged depends *)
(*     on the value of eps > 0: RareInsensitive (instance filter) compares the optimal   *)
(*     gain with that of the variant (PD-2)/PD : 2/PD, and the judge record says whether *)
(*     the exact evaluation of a returned policy is the same on both (`rareok`).         *)
(*     A rare-but-costly branch (discounted; real row: probability 2^-30 to an absorbing *)
(*     state paying -c * 2^40, else to another absorbing state paying r) is carried by   *)
(*     the harness as ONE transition to the second absorbing state with the expected     *)
(*     one-step reward r - 1024 c (exact up to a relative 2^-30): the model sees an      *)
(*     ordinary instance, the real MDP the two-branch row.                               *)
(* (O) oracle: discounted -> MDP!OptimalValue; undiscounted -> Chain!GainOracle (closed  *)
(*     classes, tree-theorem stationary weights, absorption probabilities, max over the  *)
(*     deterministic policies).                                                          *)
(* (R) reference machine, one action per step of the code's loop body:                   *)
(*       Start        choose the initial decision rule (default: first available action) *)
(*       Evaluate     gain and relative values of the current rule on the masked chain   *)
(*                    (rows of absorbing states zeroed; reference state = first state    *)
(*                    of every recurrent class)                                          *)
(*       GainImprove  argmax of sum_t P g, ties kept on the current rule (any exact      *)
(*                    maximiser otherwise: float noise decides in the code); a change    *)
(*                    starts the next iteration                                          *)
(*       BiasImprove  argmax of r + gamma sum_t P h over ALL actions, ties kept; no      *)
(*                    change = stop ("done"), a change starts the next iteration         *)
(*     `k` is the loop index of the code and is bounded by the code's own parameter CAP. *)
(* (P) invariants / action property at the bottom.                                       *)
(* Modes (IOEnv.MODE): "mc" explores oracle + machine from every listed initial rule of  *)
(* every instance of the batch and emits what the code must produce; "judge" evaluates   *)
(* exactly the policies the real planner returned (one Plan event per record) and        *)
(* decides whether they attain the optimum.                                              *)
EXTENDS Chain, Json, IOUtils

Batch == JsonDeserialize(IOEnv.BATCH_FILE)
Mode  == IOEnv.MODE

VARIABLES iid, phase, k, pol, g, h, gq, bq, hist, opt
vars == <<iid, phase, k, pol, g, h, gq, bq, hist, opt>>

M == Batch[iid]
Zero(m)  == [s \in St(m) |-> <<0, 1>>]
\* absorbing_state_vec of the code: explicitly or implicitly absorbing
AbsM(m)  == AbsAll(m)
Unbound  == <<>>                      \* value of a local the code has not assigned yet
Unit(m)  == IF "RD" \in DOMAIN m THEN m.RD ELSE 1     \* reward denominator: all values are in units of 1/RD
Mult(m)  == IF "RM" \in DOMAIN m THEN m.RM ELSE 1     \* reward multiplier: ... times RM
Mults(m) == IF "SM" \in DOMAIN m THEN [s \in St(m) |-> m.SM[s]] ELSE [s \in St(m) |-> 1]   \* ... times SM[s] at state s
\* the rare-transition variant of an instance: the rare row with weights PD-2 : 2 instead of PD-1 : 1
HasRare(m) == "rare" \in DOMAIN m
RareVariant(m) ==
  LET s == m.rare[1] a == m.rare[2] x == m.rare[3] t == m.rare[4] IN
  [m EXCEPT !.P = [m.P EXCEPT ![s] = [m.P[s] EXCEPT ![a] =
        [u \in 1..m.N |-> IF u = x THEN m.PD - 2 ELSE IF u = t THEN 2 ELSE 0]]]]
\* states of different magnitude never feed into each other (ghost rows of absorbing states included)
Decoupled(m) ==
  \A s \in St(m) : \A a \in Avail(m, s) : \A t \in St(m) :
     (m.P[s][a][t] > 0 /\ t \notin ExplAbs(m)) => Mults(m)[s] = Mults(m)[t]

\* ------------------------------------------------------------------ oracle bundle
Oracle(m) ==
  IF Discounted(m) THEN
    LET vs == OptimalValue(m) IN
    [disc |-> TRUE, v |-> vs, init |-> InitialValue(m, vs), attained |-> TRUE,
     nvals |-> Cardinality({DiscValue(m, OneHot(m, pi), ExplAbs(m)) : pi \in DetPols(m)}),
     maxcls |-> 0, mincls |-> 0]
  ELSE
    LET o == GainOracle(m) IN
    [disc |-> FALSE, v |-> o.g, init |-> InitialValue(m, o.g), attained |-> o.attained,
     nvals |-> o.ngains, maxcls |-> o.maxcls, mincls |-> o.mincls]

\* ------------------------------------------------------------------ steps of the code (constant level)
\* policy = np.argmax(action_matrix, axis=-1)
DefaultRule(m) == [s \in St(m) |-> IF Avail(m, s) = {} THEN 1 ELSE MinSet(Avail(m, s))]
InitRules(m)   == {DefaultRule(m)} \cup {[s \in St(m) |-> m.inits[i][s]] : i \in 1..Len(m.inits)}

EvalGain(m, p) == IF Discounted(m) THEN Zero(m) ELSE PolicyGain(m, OneHot(m, p), AbsM(m))
EvalBias(m, p, gg) ==
  IF Discounted(m) THEN DiscValue(m, OneHot(m, p), AbsM(m)) ELSE RelValue(m, OneHot(m, p), AbsM(m), gg)

\* bias_q = sa_rf + discount * P h + log(action_matrix); rows of absorbing states are 0 for every action
BiasQ(m, hh) ==
  LET ab == TLCEval(AbsM(m)) IN
  TLCEval([s \in St(m) |-> [a \in Ac(m) |->
     IF s \in ab THEN <<0, 1>>
     ELSE IF a \notin Avail(m, s) THEN UNAV
     ELSE RSumTo([t \in St(m) |->
            IF m.P[s][a][t] = 0 THEN <<0, 1>>
            ELSE Norm(m.P[s][a][t] * (m.R[s][a][t] * m.GD * hh[t][2] + m.GN * hh[t][1]), m.PD * m.GD * hh[t][2])], m.N)]])

MaxOver(m, q, s) == RMaxSet({q[s][a] : a \in Avail(m, s)})
\* new = argmax, kept on the current rule wherever the current action is maximal.  Where it is not, the
\* code takes np.argmax of floating-point numbers: among EXACTLY tied maximisers rounding noise decides,
\* so the machine may take any of them (nondeterministic choice; the code's choice is a deterministic
\* function of the rule, so a behaviour that revisits a rule still repeats for ever).
Choices(m, q, p, s) ==
  IF Avail(m, s) = {} THEN {p[s]}
  ELSE LET mx == MaxOver(m, q, s) IN
       IF p[s] \in Avail(m, s) /\ q[s][p[s]] = mx THEN {p[s]}
       ELSE {a \in Avail(m, s) : q[s][a] = mx}
ImproveSet(m, q, p) ==
  LET ch == TLCEval([s \in St(m) |-> Choices(m, q, p, s)]) IN
  {n \in [St(m) -> Ac(m)] : \A s \in St(m) : n[s] \in ch[s]}
\* support of the policy assembled by plan_on (msdm 6cc37cd): the actions that maximise action_gain AND
\* action_value, each tie tested with a tolerance of 1e-10 times the magnitude of the ROW's maximum (round-off
\* scales with the row; a tolerance relative to the largest entry of the whole table - c58857c - tied really
\* different actions of a small-valued state next to a state worth 1e9); a state where no action maximises both
\* tables keeps the action the iteration stopped with (the rule p), so no row is empty.  In exact arithmetic the
\* ties are equalities, and at every state of a run that stopped by its own test the rule's action is in the set.
Support(m, gqq, bqq, p) ==
  LET ab == AbsM(m) IN
  [s \in St(m) |->
     LET both == {a \in Avail(m, s) : gqq[s][a] = MaxOver(m, gqq, s) /\ (s \in ab \/ bqq[s][a] = MaxOver(m, bqq, s))}
     IN IF both = {} THEN {p[s]} ELSE both]

\* ------------------------------------------------------------------ machine
Init ==
  /\ iid \in 1..Len(Batch)
  /\ phase = IF Mode = "judge" THEN "judge" ELSE "inst"
  /\ k = 0
  /\ pol = <<>> /\ g = <<>> /\ h = <<>> /\ gq = Unbound /\ bq = Unbound /\ hist = <<>>
  /\ opt = IF Mode = "judge" THEN <<>> ELSE Oracle(Batch[iid])

Start ==
  /\ phase = "inst"
  /\ \E p \in InitRules(M) :
       /\ pol' = p
       /\ hist' = <<[pol |-> p, by |-> "init"]>>
  /\ phase' = "eval" /\ k' = 0
  /\ UNCHANGED <<iid, g, h, gq, bq, opt>>

Evaluate ==
  /\ phase = "eval"
  /\ LET gg == EvalGain(M, pol) IN
     /\ g' = gg
     /\ h' = EvalBias(M, pol, gg)
  /\ phase' = "gain"
  /\ UNCHANGED <<iid, k, pol, gq, bq, hist, opt>>

\* a changed rule starts iteration k + 1, unless the loop `for i in range(CAP)` is exhausted ("cap").
\* What the code does next is a deterministic function of the current rule, so a behaviour that comes
\* back to a rule it has already visited repeats for ever: it is cut there ("cycle") - the code then runs
\* into its cap and reports no convergence.
Seen(new) == \E i \in 1..Len(hist) : hist[i].pol = new
NextIteration(new, by) ==
  /\ pol' = new
  /\ hist' = Append(hist, [pol |-> new, by |-> by])
  /\ IF k + 1 = M.CAP THEN phase' = "cap" /\ k' = k
     ELSE IF Seen(new) THEN phase' = "cycle" /\ k' = k
     ELSE phase' = "eval" /\ k' = k + 1

GainImprove ==
  /\ phase = "gain"
  /\ LET q == GainQ(M, g) cands == ImproveSet(M, q, pol) IN
     /\ gq' = q
     /\ IF cands = {pol} THEN phase' = "bias" /\ UNCHANGED <<pol, hist, k>>
        ELSE \E new \in cands : NextIteration(new, "gain")
  /\ UNCHANGED <<iid, g, h, bq, opt>>

BiasImprove ==
  /\ phase = "bias"
  /\ LET q == BiasQ(M, h) cands == ImproveSet(M, q, pol) IN
     /\ bq' = q
     /\ IF cands = {pol} THEN phase' = "done" /\ UNCHANGED <<pol, hist, k>>
        ELSE \E new \in cands : NextIteration(new, "bias")
  /\ UNCHANGED <<iid, g, h, gq, opt>>

Next == Start \/ Evaluate \/ GainImprove \/ BiasImprove
Spec == Init /\ [][Next]_vars

Terminal  == phase \in {"done", "cap", "cycle"}
\* converged = iterations < max_iterations - 1   (iterations = last loop index)
Converged == phase \in {"done", "cap"} /\ k < M.CAP - 1

\* ------------------------------------------------------------------ pipeline B: judge a returned policy
\* record = instance fields + w (integer weights per state and action, as returned by the real planner)
\*          + exp (the optimal quantity per state emitted by the "mc" run) + tag
\* How far the rule a returned policy rests on is from passing the code's own stopping tests, exactly:
\* per state outside the absorbing ones  gain gap  = max_a sum_t P g - (the rule's own),
\*                                       bias gap  = max_a (r + gamma sum_t P h) - (the rule's own),
\* with g, h the exact evaluation of the rule (p = first supported action per state) as in `Evaluate`.
\* A converged run can legitimately rest on a rule with non-zero gaps only if they are inside the code's
\* np.isclose window (1e-8 + 1e-5 |max|): the harness compares these exact numbers with that window to
\* tell "stopped inside msdm's own tolerance" (not judged) from "kept a worse action" (VIOLATION).
StopGaps(m, w) ==
  LET p   == [s \in St(m) |-> IF \E a \in Ac(m) : w[s][a] > 0 THEN MinSet({a \in Ac(m) : w[s][a] > 0}) ELSE 1]
      gg  == EvalGain(m, p)
      hh  == EvalBias(m, p, gg)
      gqq == GainQ(m, gg)
      bqq == BiasQ(m, hh)
      ab  == AbsM(m)
  IN [s \in St(m) |->
        IF s \in ab \/ p[s] \notin Avail(m, s)
        THEN [ggap |-> <<0, 1>>, gmax |-> <<0, 1>>, bgap |-> <<0, 1>>, bmax |-> <<0, 1>>]
        ELSE [ggap |-> RSub(MaxOver(m, gqq, s), gqq[s][p[s]]), gmax |-> MaxOver(m, gqq, s),
              bgap |-> RSub(MaxOver(m, bqq, s), bqq[s][p[s]]), bmax |-> MaxOver(m, bqq, s)]]

JudgeRecord(m) ==
  LET ab   == ExplAbs(m)
      w    == [s \in St(m) |-> [a \in Ac(m) |-> m.w[s][a]]]
      okav == [s \in St(m) |-> \A a \in Ac(m) : w[s][a] > 0 => a \in Avail(m, s)]
      ok   == WeightsOK(m, w, ab)
      pv   == IF ~ok THEN <<>> ELSE IF Discounted(m) THEN DiscValue(m, w, ab) ELSE PolicyGain(m, w, ab)
      \* rare-transition instances: is the exact evaluation of this policy independent of the rare probability?
      rok  == IF ~ok \/ ~HasRare(m) THEN TRUE ELSE PolicyGain(RareVariant(m), w, ab) = pv
  IN [iid |-> iid, kind |-> "judge", tag |-> m.tag, rd |-> Unit(m), rm |-> Mult(m), wellformed |-> ok, availok |-> okav, pv |-> pv,
      rareok |-> rok,
      attains |-> IF ~ok THEN <<>> ELSE [s \in St(m) |-> pv[s] = <<m.exp[s][1], m.exp[s][2]>>],
      stop |-> IF ~ok THEN <<>> ELSE StopGaps(m, w)]

\* ------------------------------------------------------------------ emission
Emit ==
  /\ phase = "inst" =>
       PrintT(ToJson([iid |-> iid, kind |-> "oracle", rd |-> Unit(M), rm |-> Mult(M), sm |-> Mults(M), disc |-> opt.disc, v |-> opt.v, init |-> opt.init,
                      nvals |-> opt.nvals, maxcls |-> opt.maxcls, mincls |-> opt.mincls,
                      absall |-> AbsM(M)]))
  /\ Terminal =>
       PrintT(ToJson([iid |-> iid, kind |-> "run", pol0 |-> hist[1].pol, phase |-> phase, its |-> k,
                      conv |-> Converged, pol |-> pol, g |-> g, h |-> h, gq |-> gq,
                      bqdef |-> bq # Unbound, bq |-> bq,
                      sup |-> IF bq = Unbound THEN <<>> ELSE Support(M, gq, bq, pol),
                      hist |-> hist]))
  /\ phase = "judge" => PrintT(ToJson(JudgeRecord(M)))

\* ------------------------------------------------------------------ properties
Running == phase \in {"eval", "gain", "bias", "done", "cap", "cycle"}
\* (P0) instance filter: the batch is well formed and has no action-less state.  (MDP!WellFormed with one
\*      difference: the discount 0 - a legal, fully myopic discount rate - is admitted: 0 <= GN <= GD.)
WellFormed16(m) ==
  /\ \A s \in St(m) : \A a \in Avail(m, s) :
        LET tot == SumTo([t \in St(m) |-> m.P[s][a][t]], m.N) IN
        \* ghost rows of explicitly absorbing states may be cut: msdm does not expand successors of an absorbing
        \* state that are outside the state list (nothing in the semantics depends on those rows)
        IF s \in ExplAbs(m) THEN tot <= m.PD ELSE tot = m.PD
  /\ \A s \in St(m), a \in Ac(m), t \in St(m) : m.P[s][a][t] >= 0
  /\ SumTo([s \in St(m) |-> m.p0[s]], m.N) = m.ID
  /\ m.GN >= 0 /\ m.GN <= m.GD /\ m.GD > 0
  /\ Decoupled(m)
\* a rare-transition instance is undiscounted, its rare row is x : t = PD-1 : 1, and the optimal gain does not depend
\* on the rare probability (same oracle on the variant)
RareInsensitive(m, o) ==
  HasRare(m) =>
     LET s == m.rare[1] a == m.rare[2] x == m.rare[3] t == m.rare[4] IN
     /\ ~Discounted(m) /\ x # t /\ m.PD >= 3
     /\ m.P[s][a][x] = m.PD - 1 /\ m.P[s][a][t] = 1
     /\ GainOracle(RareVariant(m)).g = o.v
InstancesWellFormed == WellFormed16(M) /\ DeadEnd(M) = {} /\ (phase = "inst" => RareInsensitive(M, opt))
\* (P1) the oracle is attained by one deterministic policy at all states simultaneously, absorbing
\*      states are worth 0, and (undiscounted) the optimal gain satisfies the first multichain
\*      optimality equation  max_a sum_t P(t|s,a) g*(t) = g*(s)
OracleSound ==
  phase = "inst" =>
     /\ opt.attained
     /\ \A s \in ExplAbs(M) : opt.v[s] = <<0, 1>>
     /\ (~opt.disc => Harmonic(M, opt.v, ExplAbs(M)))
\* (P2) the decision rule only ever uses available actions
RuleAvailable == Running => \A s \in St(M) : Avail(M, s) # {} => pol[s] \in Avail(M, s)
\* (P3) the evaluation step solves the code's linear system: P g = g, g + h = r + gamma P h outside the
\*      absorbing states, g = h = 0 on them (g = 0 everywhere when discounted)
EvalEquations ==
  phase \in {"gain", "bias", "done"} =>
     LET w == OneHot(M, pol) ab == AbsM(M) IN
     /\ \A s \in ab : g[s] = <<0, 1>> /\ h[s] = <<0, 1>>
     /\ \A s \in St(M) \ ab :
          /\ RSumTo([t \in St(M) |-> RMul(<<PPi(M, w, s, t), M.PD>>, g[t])], M.N) = g[s]
          /\ RAdd(g[s], h[s]) =
               RAdd(<<RPi(M, w, s), M.PD>>,
                    RMul(<<M.GN, M.GD>>, RSumTo([t \in St(M) |-> RMul(<<PPi(M, w, s, t), M.PD>>, h[t])], M.N)))
     /\ (Discounted(M) => g = Zero(M))
\* (P4) THE PROPERTY, at the level of the model: a run that stops by its own test ends with the optimal
\*      values (discounted) resp. the optimal gain (undiscounted), from every initial rule
StoppedOptimal ==
  phase = "done" => IF opt.disc THEN h = opt.v ELSE g = opt.v
\* (P5) ... and the policy plan_on assembles from the maximisers attains the optimum when evaluated exactly
StoppedPolicyAttains ==
  phase = "done" =>
     LET w == UniformOn(M, Support(M, gq, bq, pol)) ab == ExplAbs(M) IN
     /\ WeightsOK(M, w, ab)
     /\ IF opt.disc THEN DiscValue(M, w, ab) = opt.v ELSE PolicyGain(M, w, ab) = opt.v
\* (P6) a run that does not repeat a rule needs few iterations (never cut by a generous cap), and
\*      discounted runs never repeat a rule.  (Undiscounted runs CAN cycle: the bias step maximises over
\*      all actions, not only over the gain maximisers, and may undo a gain improvement - reported by the
\*      driver as non-converging runs, outside the statement of C16.)
Terminates == (phase = "cap" => M.CAP <= 40) /\ (phase = "cycle" => ~opt.disc)
\* (P7) no evaluated rule is better than the oracle (gain / value never exceeds the optimum)
NeverAboveOptimum ==
  phase \in {"gain", "bias", "done"} =>
     \A s \in St(M) : ~RLess(opt.v[s], IF opt.disc THEN h[s] ELSE g[s])
\* (P8, action property) discounted: the value of iteration k + 1 dominates that of iteration k;
\*      undiscounted: a rule produced by the GAIN step has a gain that dominates the previous one
Monotone ==
  [][(phase = "eval" /\ phase' = "gain" /\ k > 0) =>
        \A s \in St(M) : IF opt.disc THEN ~RLess(h'[s], h[s])
                          ELSE (hist[Len(hist)].by = "gain" => ~RLess(g'[s], g[s]))]_vars
=============================================================================
