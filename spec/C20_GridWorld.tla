--------------------------- MODULE C20_GridWorld ---------------------------
(* Property C20, second sentence: the plain grid world (msdm/domains/gridworld/mdp.py).  *)
(*                                                                                      *)
(* (M) abstract problem: a rectangular layout of one-character tiles, option sets        *)
(*     (wall / absorbing / initial features), integer feature rewards, an integer step   *)
(*     cost, a success probability SPN/SPD and a discount GN/GD.  States are the cells   *)
(*     <<x, y>> (x to the right, y upwards, y = 0 is the LAST text row) of the whole     *)
(*     rectangle - walls included - plus the terminal state T = <<-1, -1>>.              *)
(* (O) exact oracle, written from the property statement: OProb / ORew (who may go where *)
(*     with which probability and reward) and GridValue (exact optimal values of the     *)
(*     undiscounted problem by an integer Bellman-Ford on SPN * V).                      *)
(* (R) reference machine shaped like GridWorld.next_state_dist: the agent position `pos` *)
(*     and the last command `act`; Move(a) evaluates the code's case chain RDist          *)
(*     (terminal? absorbing cell? off grid? wall? no-op? slip?) and takes one outcome of  *)
(*     positive probability.                                                             *)
(* (P) invariants of every reachable position and action properties of every step.       *)
(*                                                                                      *)
(* Modes (IOEnv.MODE):                                                                   *)
(*   "mc"   TLC enumerates ALL layouts of the sizes / tile alphabets / success-probability *)
(*          menus listed in the batch file; the agent may start on any cell (also inside  *)
(*          a wall) - TLC explores every walk.                                            *)
(*   "emit" Init ranges over the instances of the batch file (layouts and options chosen  *)
(*          by the harness); besides checking the same invariants TLC prints, per         *)
(*          instance, the exact table the real code must reproduce (pipeline A).          *)
EXTENDS MDP, Json, IOUtils

Mode  == IOEnv.MODE
Batch == JsonDeserialize(IOEnv.BATCH_FILE)

VARIABLES g, pos, act
vars == <<g, pos, act>>

T     == <<-1, -1>>
NoAct == <<9, 9>>
\* msdm sorts the five commands by (dx, dy)
Acts  == << <<-1, 0>>, <<0, -1>>, <<0, 0>>, <<0, 1>>, <<1, 0>> >>
ActSet == Range(Acts)

\* ------------------------------------------------------------------ (M) the layout
Cells(i)    == (0..(i.W - 1)) \X (0..(i.H - 1))
States(i)   == Cells(i) \cup {T}
InGrid(i, c) == c[1] >= 0 /\ c[1] < i.W /\ c[2] >= 0 /\ c[2] < i.H
Tile(i, c)  == i.rows[i.H - c[2]][c[1] + 1]
\* the tile "." carries no feature (it is the element separator of the parser)
Feat(i, c)  == IF Tile(i, c) = "." THEN "" ELSE Tile(i, c)
IsWall(i, c) == InGrid(i, c) /\ Feat(i, c) \in Range(i.walls)
IsAbsCell(i, c) == InGrid(i, c) /\ Feat(i, c) \in Range(i.absf)
IsStart(i, c) == InGrid(i, c) /\ Feat(i, c) \in Range(i.initf)
StartCells(i) == {c \in Cells(i) : IsStart(i, c)}
FR(i, f) == IF \E k \in 1..Len(i.fr) : i.fr[k][1] = f
            THEN i.fr[CHOOSE k \in 1..Len(i.fr) : i.fr[k][1] = f][2] ELSE 0
CellRew(i, c) == i.SC + FR(i, Feat(i, c))
Plus(c, a) == <<c[1] + a[1], c[2] + a[2]>>
\* Manhattan distance between two cells
Dist1(c, d) == AbsI(c[1] - d[1]) + AbsI(c[2] - d[2])

\* ------------------------------------------------------------------ (O) oracle from the statement
\* a command is blocked when it is the no-op, leaves the grid or points into a wall
Blocked(i, c, a) == a = <<0, 0>> \/ ~InGrid(i, Plus(c, a)) \/ IsWall(i, Plus(c, a))
\* probability numerator over SPD of ending in t after commanding a in s
OProb(i, s, a, t) ==
  IF s = T \/ IsAbsCell(i, s) THEN (IF t = T THEN i.SPD ELSE 0)
  ELSE IF Blocked(i, s, a) THEN (IF t = s THEN i.SPD ELSE 0)
  ELSE IF t = Plus(s, a) THEN i.SPN
  ELSE IF t = s THEN i.SPD - i.SPN
  ELSE 0
\* reward of the step (s, a, t): nothing once the terminal state is involved, otherwise the step
\* cost plus the feature reward of the cell the agent is in afterwards
ORew(i, s, a, t) == IF s = T \/ t = T THEN 0 ELSE CellRew(i, t)

\* exact optimal values when undiscounted, SPN > 0 and every cell the agent can stand on costs
\* something: V(s) = max_a  r(t) + V(t) + ((SPD-SPN)/SPN) r(s) over unblocked a, V = 0 on absorbing
\* cells; U = SPN * V is an integer and is computed by Bellman-Ford from the absorbing cells.
\* NOVAL marks cells from which no absorbing cell can be reached (true value -infinity).
NOVAL == -100000000
Valued(i) == /\ i.GN = i.GD /\ i.SPN > 0
             /\ \A c \in Cells(i) : IsAbsCell(i, c) \/ CellRew(i, c) < 0
BFStep(i, U) ==
  [c \in Cells(i) |->
     IF IsAbsCell(i, c) THEN 0
     ELSE LET opts == {a \in ActSet : ~Blocked(i, c, a) /\ U[Plus(c, a)] # NOVAL}
          IN IF opts = {} THEN NOVAL
             ELSE MaxSet({Safe(i.SPN * CellRew(i, Plus(c, a)) + U[Plus(c, a)] + (i.SPD - i.SPN) * CellRew(i, c)) : a \in opts})]
RECURSIVE BF(_, _, _)
BF(i, U, k) == IF k = 0 THEN U ELSE LET U2 == TLCEval(BFStep(i, U)) IN IF U2 = U THEN U ELSE BF(i, U2, k - 1)
GridValue(i) == BF(i, [c \in Cells(i) |-> IF IsAbsCell(i, c) THEN 0 ELSE NOVAL], i.W * i.H + 1)

\* ------------------------------------------------------------------ (R) the code's case chain
\* sequence of <<successor, probability numerator>> exactly as next_state_dist lists them
RDist(i, s, a) ==
  IF s = T THEN << <<T, i.SPD>> >>                               \* is_absorbing(s)
  ELSE IF IsAbsCell(i, s) THEN << <<T, i.SPD>> >>                \* s in absorbing_states
  ELSE LET ns == Plus(s, a) IN
       IF ns \notin States(i) THEN << <<s, i.SPD>> >>            \* ns not in self._states
       ELSE IF IsWall(i, ns) THEN << <<s, i.SPD>> >>             \* ns in self.walls
       ELSE IF ns = s THEN << <<s, i.SPD>> >>
       ELSE IF i.SPN # i.SPD THEN << <<s, i.SPD - i.SPN>>, <<ns, i.SPN>> >>
       ELSE << <<ns, i.SPD>> >>
\* probability numerator of t in a listed distribution d
PIn(d, t) == SumTo([k \in 1..Len(d) |-> IF d[k][1] = t THEN d[k][2] ELSE 0], Len(d))
RProb(i, s, a, t) == PIn(RDist(i, s, a), t)
RRew(i, s, a, t) == IF s = T \/ t = T THEN 0 ELSE FR(i, Feat(i, t)) + i.SC

\* ------------------------------------------------------------------ instances
\* mc families are records [W, H, alpha (tile alphabet), sps (success-probability menu)] of the batch file;
\* the options are the defaults of the class plus a hazard tile "x" that costs 5
MkInst(w, h, alpha, sp) ==
  [iid |-> 0, W |-> w, H |-> h, rows |-> <<>>, alpha |-> alpha, walls |-> <<"#">>, absf |-> <<"g">>, initf |-> <<"s">>,
   fr |-> << <<"g", 0>>, <<"x", -5>> >>, SC |-> -1, SPN |-> sp[1], SPD |-> sp[2], GN |-> 1, GD |-> 1]
\* instances without a layout yet (mc) / the instances of the batch (emit)
Seeds ==
  IF Mode = "mc"
  THEN UNION {{MkInst(Batch[k].W, Batch[k].H, Batch[k].alpha, sp) : sp \in Range(Batch[k].sps)} : k \in 1..Len(Batch)}
  ELSE {[Batch[k] EXCEPT !.iid = k] : k \in 1..Len(Batch)}

\* ------------------------------------------------------------------ machine
\* Set-up steps (kept out of Init so that TLC's workers share the work): Layout chooses the tiles,
\* Place puts the agent down - on any cell in mc mode, on a start cell in emit mode.
Unset == <<-9, -9>>
Walking == pos # Unset
Init == g \in Seeds /\ pos = Unset /\ act = NoAct

Layout ==
  /\ pos = Unset /\ g.rows = <<>>
  /\ \E rows \in [1..g.H -> [1..g.W -> Range(g.alpha)]] : g' = [g EXCEPT !.rows = rows]
  /\ UNCHANGED <<pos, act>>

Place ==
  /\ pos = Unset /\ g.rows # <<>>
  /\ pos' \in (IF Mode = "mc" THEN Cells(g) ELSE StartCells(g))
  /\ UNCHANGED <<g, act>>

Move(a) ==
  /\ Walking
  /\ \E k \in 1..Len(RDist(g, pos, a)) :
        /\ RDist(g, pos, a)[k][2] > 0
        /\ pos' = RDist(g, pos, a)[k][1]
  /\ act' = a
  /\ UNCHANGED g

Next == Layout \/ Place \/ \E a \in ActSet : Move(a)
Spec == Init /\ [][Next]_vars

\* ------------------------------------------------------------------ emission (pipeline A)
SIdx(i, s) == IF s = T THEN 1 ELSE 2 + s[1] * i.H + s[2]     \* position in msdm's state list (sorted by (x, y))
StateSeq(i) == [k \in 1..(i.W * i.H + 1) |-> IF k = 1 THEN T ELSE <<(k - 2) \div i.H, (k - 2) % i.H>>]
\* per state and command: the outcomes <<successor index, probability numerator, reward>> of the ORACLE
Outcomes(i, s, a) ==
  LET cand == IF s = T \/ IsAbsCell(i, s) THEN <<T>> ELSE IF Blocked(i, s, a) THEN <<s>> ELSE <<s, Plus(s, a)>>
  IN [k \in 1..Len(cand) |-> <<SIdx(i, cand[k]), OProb(i, s, a, cand[k]), ORew(i, s, a, cand[k])>>]
Table(i) ==
  LET ss == StateSeq(i)
      gv == IF Valued(i) THEN GridValue(i) ELSE <<>>
  IN [iid |-> i.iid, kind |-> "table", states |-> ss,
      rows |-> [k \in 1..Len(ss) |-> [j \in 1..5 |-> Outcomes(i, ss[k], Acts[j])]],
      init |-> SeqOfSet({SIdx(i, c) : c \in StartCells(i)}, i.W * i.H + 1),
      walls |-> {SIdx(i, c) : c \in {d \in Cells(i) : IsWall(i, d)}},
      abscells |-> {SIdx(i, c) : c \in {d \in Cells(i) : IsAbsCell(i, d)}},
      valued |-> IF Valued(i) THEN 1 ELSE 0,
      \* (R) ownership: the queries whose result is a new object on every call, so that a caller editing a
      \* returned container in place does not edit the model (implementation-shaped: DRIFT level)
      fresh |-> {"actions", "initial_state_dist", "next_state_dist"},
      \* SPN * V per state index (terminal state: 0), NOVAL where the terminal state cannot be reached
      u |-> IF Valued(i) THEN [k \in 1..Len(ss) |-> IF k = 1 THEN 0 ELSE gv[ss[k]]] ELSE <<>>]
EmitCell(i) == CHOOSE c \in StartCells(i) : \A d \in StartCells(i) : SIdx(i, c) <= SIdx(i, d)
Emit == (Mode = "emit" /\ Walking /\ act = NoAct /\ pos = EmitCell(g)) => PrintT(ToJson(Table(g)))

\* ------------------------------------------------------------------ (P) properties
\* --- of every position the agent can be in (all five commands at once).  `act` is a history variable
\* (the dynamics do not depend on it); the configurations hide it with VIEW View, so every (layout,
\* position) is judged once while the action properties still see every generated step.
View == <<g, pos>>
Judged == Walking
\* the case chain of the code is the distribution the statement describes, rewards included
MachineMatchesOracle ==
  Judged =>
  \A a \in ActSet :
    LET d == RDist(g, pos, a) IN
    \* both supports lie in {pos, commanded cell, T} + the entries the code lists
    /\ \A t \in {pos, Plus(pos, a), T} \cup {d[k][1] : k \in 1..Len(d)} : PIn(d, t) = OProb(g, pos, a, t)
    /\ \A k \in 1..Len(d) : d[k][2] > 0 => RRew(g, pos, a, d[k][1]) = ORew(g, pos, a, d[k][1])
\* every distribution is normalised, has no negative entry, and only lists states of the state list
Normalised ==
  Judged =>
  \A a \in ActSet :
    LET d == RDist(g, pos, a) IN
    /\ SumTo([k \in 1..Len(d) |-> d[k][2]], Len(d)) = g.SPD
    /\ \A k \in 1..Len(d) : d[k][2] >= 0 /\ d[k][1] \in States(g)
\* at most one cell, and only where commanded
AsCommanded ==
  Judged =>
  \A a \in ActSet :
    LET d == RDist(g, pos, a) IN
    \A k \in 1..Len(d) :
      (d[k][2] > 0 /\ d[k][1] # T) => (d[k][1] = pos \/ (d[k][1] = Plus(pos, a) /\ Dist1(pos, d[k][1]) = 1))
\* succeeds with exactly the configured probability whenever the commanded cell can be entered
SuccessProbability ==
  (Judged /\ pos # T /\ ~IsAbsCell(g, pos)) =>
     \A a \in ActSet : ~Blocked(g, pos, a) => RProb(g, pos, a, Plus(pos, a)) = g.SPN
\* from a cell with an absorbing feature every command leads to the terminal state, reward 0;
\* the terminal state is left never and entered from nowhere else
AbsorbingToTerminal ==
  Judged =>
  \A a \in ActSet :
    /\ (pos = T \/ IsAbsCell(g, pos)) => (RProb(g, pos, a, T) = g.SPD /\ RRew(g, pos, a, T) = 0)
    /\ (pos # T /\ ~IsAbsCell(g, pos)) => RProb(g, pos, a, T) = 0
\* the reward of a step that does not involve the terminal state is the step cost plus the feature
\* reward of the cell the agent is in afterwards
RewardClause ==
  (Judged /\ pos # T /\ ~IsAbsCell(g, pos)) =>
  \A a \in ActSet :
    LET d == RDist(g, pos, a) IN
    \A k \in 1..Len(d) : RRew(g, pos, a, d[k][1]) = g.SC + FR(g, Feat(g, d[k][1]))
\* the exact values satisfy the optimality equation they were derived from (sanity of GridValue):
\* on a valued instance the value of the current cell is the best one-step look-ahead
Look(i, U, c, a) == i.SPN * CellRew(i, Plus(c, a)) + U[Plus(c, a)] + (i.SPD - i.SPN) * CellRew(i, c)
ValueIsFixpoint ==
  (Walking /\ Valued(g) /\ pos = <<0, 0>> /\ g.W * g.H <= 6) =>      \* once per layout: every cell
     LET U == GridValue(g) IN
     \A c \in Cells(g) :
       LET ok == {a \in ActSet : ~Blocked(g, c, a) /\ U[Plus(c, a)] # NOVAL} IN
       IF IsAbsCell(g, c) THEN U[c] = 0
       ELSE IF U[c] = NOVAL THEN ok = {}
       ELSE /\ \E a \in ok : U[c] = Look(g, U, c, a)
            /\ \A a \in ok : U[c] >= Look(g, U, c, a)
\* the grid world as an instance of the shared MDP library (cells in state-list order, T last and
\* explicitly absorbing), and agreement of GridValue with the library's policy-enumeration oracle
\* on the layouts small enough for it (at most 3 cells)
AsMDP(i) ==
  LET n == i.W * i.H + 1
      st == [k \in 1..n |-> IF k = n THEN T ELSE <<(k - 1) \div i.H, (k - 1) % i.H>>]
  IN [N |-> n, K |-> 5, PD |-> i.SPD, GN |-> i.GN, GD |-> i.GD, ID |-> 1,
      abs |-> [k \in 1..n |-> IF k = n THEN 1 ELSE 0],
      avail |-> [k \in 1..n |-> [a \in 1..5 |-> 1]],
      P |-> [k \in 1..n |-> [a \in 1..5 |-> [t \in 1..n |-> OProb(i, st[k], Acts[a], st[t])]]],
      R |-> [k \in 1..n |-> [a \in 1..5 |-> [t \in 1..n |-> ORew(i, st[k], Acts[a], st[t])]]],
      p0 |-> [k \in 1..n |-> IF k = 1 THEN 1 ELSE 0]]
ValueAgreesWithMDPOracle ==
  \* (denominators up to 5 keep the library's determinants inside 32-bit integers)
  (Walking /\ Valued(g) /\ pos = <<0, 0>> /\ g.W * g.H <= 3 /\ g.SPD <= 5) =>
     LET m == TLCEval(AsMDP(g))
         V == OptimalValue(m)
         U == GridValue(g)
     IN /\ WellFormed(m)
        /\ \A k \in 1..(g.W * g.H) :
              LET c == <<(k - 1) \div g.H, (k - 1) % g.H>> IN
              IF U[c] = NOVAL THEN V[k] = NEG ELSE V[k] = Norm(U[c], g.SPN)
\* --- of every step of every walk (action properties)
\* the agent never enters a wall and never leaves the grid
NeverEntersWall == [][(Walking /\ pos' # pos) => (pos' = T \/ (InGrid(g, pos') /\ ~IsWall(g, pos')))]_vars
\* a change of position is the commanded displacement, by exactly one cell
OnlyAsCommanded == [][(Walking /\ pos' # pos /\ pos' # T) => (pos' = Plus(pos, act') /\ Dist1(pos, pos') = 1)]_vars
\* the terminal state is entered from absorbing cells only and never left
TerminalDiscipline == [][Walking => /\ (pos' = T /\ pos # T) => IsAbsCell(g, pos)
                                    /\ (pos = T \/ IsAbsCell(g, pos)) => pos' = T]_vars
\* with success probability 0 nobody moves; with 1 nobody slips
DegenerateProbabilities ==
  [][Walking => /\ (g.SPN = 0 /\ pos' # T) => pos' = pos
                /\ (g.SPN = g.SPD /\ pos # T /\ ~IsAbsCell(g, pos) /\ ~Blocked(g, pos, act')) => pos' = Plus(pos, act')]_vars
\* the layout never changes once the agent walks
LayoutFixed == [][Walking => g' = g]_vars
TypeOK == Walking => (pos \in States(g) /\ (act = NoAct \/ act \in ActSet))
=============================================================================
