--------------------------- MODULE C02_PolicyEval ---------------------------
(* Property C02: exact evaluation of a tabular (stochastic) policy on a finite MDP       *)
(* (TabularPolicy.evaluate_on) returns the unique state values, action values,          *)
(* discounted state occupancies and initial value of the policy.                        *)
(*                                                                                      *)
(* (M) instances: records of the batch (fields of MDP.tla) plus                         *)
(*       gw[s][a]   policy row handed to the code at explicitly absorbing states        *)
(*                  (a "ghost" row: nothing may depend on it)                           *)
(*       allpols    1: TLC enumerates every policy over the weight menu                 *)
(*                  {0,1/3,1/2,2/3,1} on the available actions; 0: the policies listed  *)
(*                  in pols (numerators over QD = 6, one row per state)                 *)
(*       tinys      per listed policy: flags of RARE entries.  A rare entry stands for a  *)
(*                  weight eps > 0 of unknown, arbitrarily small size (the harness uses  *)
(*                  2^-30); pols holds a surrogate row with the same support.  What      *)
(*                  depends only on the support (the -infinity set of the values, the    *)
(*                  +infinity set of the occupancies) is decided exactly; finite entries *)
(*                  are exact only where no rare entry can influence them (VExact,      *)
(*                  QExact, OccExact, InitExact below), and only those are emitted as    *)
(*                  binding.                                                             *)
(*       near1      1: the discount handed to msdm is 1 - eps for an arbitrarily small    *)
(*                  eps > 0 (the harness uses 1 - 2^-20 or 0.999999); GN/GD is a         *)
(*                  surrogate discount < 1.  Everything is finite as for any discount    *)
(*                  below 1; finite entries bind only where they do not depend on the    *)
(*                  discount at all (GFreeV / GFreeQ / GFreeOcc), checked against a      *)
(*                  second surrogate discount.                                          *)
(*       explicit   1: the state list holds every state; 0: it is inferred (Reach), and  *)
(*                  msdm drops the successors of absorbing states that are not listed    *)
(*       chain      1: a long thin instance (6..15 states, undiscounted) on which the policy  *)
(*                  is deterministic with one successor per state (corridors into a goal,   *)
(*                  a costly pit or a free pit).  The 3x3 determinants do not reach that    *)
(*                  far; oracle and machine use the closed forms of a functional graph      *)
(*                  (sums along the path, exit states, cycles).                             *)
(*       sibofs     1: the next record of the batch is the same MDP with another discount  *)
(*                  (its "sibling").  The same policy object is then also evaluated on    *)
(*                  the MDP as it is after its discount was changed to the sibling's      *)
(*                  (round 3: the same MDP object mutated in place, or a fresh short-     *)
(*                  lived MDP object) and after it was changed back (round 4); the        *)
(*                  answer at every call is the oracle of the MDP as it is at that call.  *)
(*       hist, sp, ap   hist = 1: the same policy OBJECT is evaluated a second time, on  *)
(*                  a second presentation of the MDP whose state list / action list are  *)
(*                  permuted by sp / ap (round 2 of the machine, started by Reuse with   *)
(*                  the stale policy matrix still in pm).                                *)
(* (O) oracle: V by MDP!PolicyValue (Cramer on the transient system + chain classes),   *)
(*     Q by MDP!QFromV, occupancy by Cramer on the *transposed* system                  *)
(*     (I - gamma P^T) x = p0 over the transient states, +infinity on recurrent states  *)
(*     reachable from the initial support, initial value by MDP!InitialValue.           *)
(* (R) reference machine: after `Ground` (the oracle of the pair, computed outside Init *)
(*     so that TLC's workers share it) one action per statement of                      *)
(*     _evaluate_on_discounted /                                                        *)
(*     _evaluate_on_undiscounted (policy matrix, state rewards, mask, chain, mask,      *)
(*     [accessibility, classification, zero recurrent rows,] inverse, state value,      *)
(*     [-inf marking,] action value, occupancy, [+inf marking,] initial value).         *)
(* (P) design invariants at the bottom: the machine's final state equals the oracle;    *)
(*     the oracle satisfies the Bellman expectation equations, the flow equations of    *)
(*     the occupancy, the reward/occupancy duality, and the statement's                 *)
(*     characterisation of the -infinity set by closed negative classes.                *)
EXTENDS MDP, Json, IOUtils

Batch == JsonDeserialize(IOEnv.BATCH_FILE)
QD   == 6
Menu == {0, 2, 3, 4, 6}
NONE == <<>>

VARIABLES iid, w, tn, wa, round, orc, phase, pm, sr, mp, acc, cls, SR, V, Q, occ, ival
vars == <<iid, w, tn, wa, round, orc, phase, pm, sr, mp, acc, cls, SR, V, Q, occ, ival>>
\* orc[1]: oracle of (M, w).  wa / orc[2]: the other surrogate of a policy with rare entries and its oracle
\* (one call site of Oracle only: TLC's coverage mode expands operator bodies per call site and runs out
\* of memory with two)

M == Batch[iid]

\* ------------------------------------------------------------------ policies
RowsAt(m, s) == {r \in [Ac(m) -> Menu] : /\ SumTo(r, m.K) = QD
                                          /\ \A a \in Ac(m) : r[a] > 0 => a \in Avail(m, s)}
AllRows(m) == UNION {RowsAt(m, s) : s \in NonAbs(m)}
AllPols(m) == {p \in [NonAbs(m) -> AllRows(m)] : \A s \in NonAbs(m) : p[s] \in RowsAt(m, s)}
PolOfSeq(m, q) == [s \in NonAbs(m) |-> [a \in Ac(m) |-> q[s][a]]]
ZeroFlags(m) == [s \in NonAbs(m) |-> [a \in Ac(m) |-> 0]]
\* pairs <<policy, rare flags>>
PolChoices(m) == (IF m.allpols = 1 THEN {<<p, ZeroFlags(m)>> : p \in AllPols(m)} ELSE {})
                 \cup {<<PolOfSeq(m, m.pols[i]), PolOfSeq(m, m.tinys[i])>> : i \in 1..Len(m.pols)}
PolicyOK(m, ww) == \A s \in NonAbs(m) : /\ SumTo(ww[s], m.K) = QD
                                         /\ \A a \in Ac(m) : ww[s][a] >= 0 /\ (ww[s][a] > 0 => a \in Avail(m, s))
\* rare flags sit on supported entries and leave an ordinary supported entry in the row
FlagsOK(m, ww, t) == \A s \in NonAbs(m) : /\ \A a \in Ac(m) : t[s][a] \in {0, 1} /\ (t[s][a] = 1 => ww[s][a] > 0)
                                            /\ \E b \in Ac(m) : ww[s][b] > 0 /\ t[s][b] = 0
\* ---- rare weights: what can depend on their size
RareStates(m, t) == {s \in NonAbs(m) : \E a \in Ac(m) : t[s][a] = 1}
\* states that reach (in >= 0 steps of the policy) a state with a rare entry
Infl(m, ww, t) == LET rs == RareStates(m, t) IN
                  {s \in NonAbs(m) : s \in rs \/ ReachPi(m, ww, s) \cap rs # {}}
\* ---- discount "1 - eps": what does not depend on the discount at all
\* states worth 0 under every discount: no expected reward anywhere on the policy's way
ZeroSet(m, ww) == {s \in St(m) : s \in ExplAbs(m) \/
                      (RPi(m, ww, s) = 0 /\ \A x \in ReachPi(m, ww, s) : x \in ExplAbs(m) \/ RPi(m, ww, x) = 0)}
GFreeV(m, ww) == IF m.near1 = 0 THEN St(m)
                 ELSE LET z == ZeroSet(m, ww) IN {s \in St(m) : s \in ExplAbs(m) \/ SuccPi(m, ww, s) \subseteq z}
GFreeQ(m, ww) == IF m.near1 = 0 THEN [s \in St(m) |-> [a \in Ac(m) |-> 1]]
                 ELSE LET z == ZeroSet(m, ww) IN
                      [s \in St(m) |-> [a \in Ac(m) |-> IF a \notin Avail(m, s) \/ Succ(m, s, a) \subseteq z THEN 1 ELSE 0]]
GFreeOcc(m, ww) == IF m.near1 = 0 THEN St(m)
                   ELSE {x \in St(m) : \A s \in St(m) \ AbsAll(m) : PPi(m, ww, s, x) = 0}
VExact(m, ww, t)   == (St(m) \ Infl(m, ww, t)) \cap GFreeV(m, ww)
QExact(m, ww, t)   == LET inf == Infl(m, ww, t)
                          gf  == GFreeQ(m, ww) IN
                      [s \in St(m) |-> [a \in Ac(m) |->
                         IF gf[s][a] = 0 \/ (a \in Avail(m, s) /\ \E x \in Succ(m, s, a) : x \in inf /\ x \notin ExplAbs(m))
                         THEN 0 ELSE 1]]
\* occupancy of x: exact unless a rare state lies on a way to x (or is x)
OccExact(m, ww, t) == LET rs == RareStates(m, t) \ AbsAll(m)
                          mm == [m EXCEPT !.abs = [s \in St(m) |-> IF s \in AbsAll(m) THEN 1 ELSE 0]] IN
                      {x \in GFreeOcc(m, ww) : x \notin rs /\ \A s \in rs : x \notin ReachPi(mm, ww, s)}
InitExact(m, ww, t) == InitSupp(m) \subseteq VExact(m, ww, t)
\* another surrogate with the same support: rows of rare states get weights 1,5 / 1,2,3 in index order
AltRow(m, r) == LET sup == {a \in Ac(m) : r[a] > 0}
                    n   == Cardinality(sup)
                    rk(a) == Cardinality({b \in sup : b < a}) IN
                [a \in Ac(m) |-> IF a \notin sup THEN 0
                                  ELSE IF n = 1 THEN QD
                                  ELSE IF n = 2 THEN (IF rk(a) = 0 THEN 1 ELSE 5)
                                  ELSE rk(a) + 1]
AltPolicy(m, ww, t) == [s \in NonAbs(m) |-> IF s \in RareStates(m, t) THEN AltRow(m, ww[s]) ELSE ww[s]]
\* ---- second presentation of the instance: state i is the old sp[i], action j the old ap[j]
Present(m, sp, ap) ==
  TLCEval([m EXCEPT
     !.abs   = [i \in St(m) |-> m.abs[sp[i]]],
     !.avail = [i \in St(m) |-> [j \in Ac(m) |-> m.avail[sp[i]][ap[j]]]],
     !.P     = [i \in St(m) |-> [j \in Ac(m) |-> [k \in St(m) |-> m.P[sp[i]][ap[j]][sp[k]]]]],
     !.R     = [i \in St(m) |-> [j \in Ac(m) |-> [k \in St(m) |-> m.R[sp[i]][ap[j]][sp[k]]]]],
     !.p0    = [i \in St(m) |-> m.p0[sp[i]]],
     !.gw    = [i \in St(m) |-> [j \in Ac(m) |-> m.gw[sp[i]][ap[j]]]]])
PresentW(m, ww, sp, ap) ==
  TLCEval([i \in {x \in St(m) : m.abs[sp[x]] = 0} |-> [j \in Ac(m) |-> ww[sp[i]][ap[j]]]])
\* the other surrogate discount of a near-one instance
AltM(m) == IF m.near1 = 0 THEN m
           ELSE [m EXCEPT !.GN = (IF m.GD = 2 THEN 3 ELSE 1), !.GD = (IF m.GD = 2 THEN 4 ELSE 2)]
\* the state list msdm works on
Lst(m) == IF m.explicit = 1 THEN St(m) ELSE Reach(m)
IsPerm(f, n) == /\ Len(f) = n /\ {f[i] : i \in 1..n} = 1..n
\* the tabular view of the instance: implicitly absorbing states count as absorbing
TM(m) == [m EXCEPT !.abs = [s \in St(m) |-> IF s \in AbsAll(m) THEN 1 ELSE 0]]
Gamma(m) == Norm(m.GN, m.GD)

\* ------------------------------------------------------------------ (O) occupancy oracle
\* x = p0 + gamma P_pi^T x on the transient states (transposed Cramer), flow into absorbing states,
\* +infinity on recurrent states reachable from the initial support (undiscounted only)
OccOracle(m, ww) ==
  LET mm  == TM(m)
      c   == Classify(mm, ww)
      ts  == SeqOfSet(NonAbs(mm) \ c.rec, m.N)
      k   == Len(ts)
      D   == m.GD * m.PD * QD
      A   == TLCEval([i \in 1..k |-> [j \in 1..k |->
                (IF i = j THEN D ELSE 0) - m.GN * PPi(m, ww, ts[j], ts[i])]])
      b   == TLCEval([i \in 1..k |-> m.p0[ts[i]]])
      sol == Solve(A, b, k)
      det == sol[1]
      xn  == TLCEval(sol[2])              \* occupancy of ts[i] = D * xn[i] / (det * ID)
      from0 == InitSupp(m) \cup UNION {ReachPi(mm, ww, s) : s \in InitSupp(m) \ ExplAbs(mm)}
  IN [t \in St(m) |->
        IF t \in c.rec THEN (IF t \in from0 THEN POS ELSE <<0, 1>>)
        ELSE IF det = 0 THEN Assert(FALSE, <<"singular occupancy system", ww>>)
        ELSE IF t \in Range(ts) THEN Norm(Safe(D * xn[IndexOf(ts, t)]), Safe(det * m.ID))
        ELSE Norm(Safe(m.p0[t] * det) + Safe(m.GN * SumTo([i \in 1..k |-> Safe(xn[i] * PPi(m, ww, ts[i], t))], k)),
                  Safe(det * m.ID))]

\* ---- chain instances: the policy's graph is functional (one successor per state)
NextPi(m, ww, s) == CHOOSE t \in St(m) : PPi(m, ww, s, t) > 0
RECURSIVE WalkSum(_, _, _, _, _)
\* sum of the policy's expected rewards (numerators over PD*QD) from s until the walk leaves T
WalkSum(m, ww, T, s, k) == IF s \notin T \/ k = 0 THEN 0
                           ELSE RPi(m, ww, s) + WalkSum(m, ww, T, NextPi(m, ww, s), k - 1)
RECURSIVE WalkSet(_, _, _, _, _)
WalkSet(m, ww, T, s, k) == IF s \notin T \/ k = 0 THEN {} ELSE {s} \cup WalkSet(m, ww, T, NextPi(m, ww, s), k - 1)
RECURSIVE WalkExit(_, _, _, _, _)
WalkExit(m, ww, T, s, k) == IF s \notin T \/ k = 0 THEN s ELSE WalkExit(m, ww, T, NextPi(m, ww, s), k - 1)
ChainValue(m, ww) ==
  LET c == Classify(m, ww) IN
  [s \in St(m) |-> IF s \in ExplAbs(m) \/ s \in c.zero THEN <<0, 1>>
                    ELSE IF s \in c.ninf THEN NEG
                    ELSE Norm(WalkSum(m, ww, c.trans, s, m.N), m.PD * QD)]
ChainOcc(m, ww) ==
  LET mm == TM(m)
      c  == Classify(mm, ww)
      T  == NonAbs(mm) \ c.rec
      from0 == InitSupp(m) \cup UNION {ReachPi(mm, ww, s) : s \in InitSupp(m) \ ExplAbs(mm)}
      mass(S) == SumSet([s \in St(m) |-> m.p0[s]], S)
  IN [t \in St(m) |->
        IF t \in c.rec THEN (IF t \in from0 THEN POS ELSE <<0, 1>>)
        ELSE IF t \in T THEN Norm(mass({s \in InitSupp(m) \cap T : t \in WalkSet(m, ww, T, s, m.N)}), m.ID)
        ELSE Norm(m.p0[t] + mass({s \in InitSupp(m) \cap T : WalkExit(m, ww, T, s, m.N) = t}), m.ID)]
ChainOK(m, ww) == /\ ~Discounted(m)
                  /\ \A s \in NonAbs(m) : \E t \in St(m) : PPi(m, ww, s, t) = m.PD * QD
Oracle(m, ww) ==
  LET v == TLCEval(IF m.chain = 1 THEN ChainValue(m, ww) ELSE PolicyValue(m, ww, QD))
      q == TLCEval([s \in St(m) |-> [a \in Ac(m) |-> IF s \in ExplAbs(m) THEN UNAV ELSE QFromV(m, v, s, a)]])
      o == TLCEval(IF m.chain = 1 THEN ChainOcc(m, ww) ELSE OccOracle(m, ww))
  IN [v |-> v, q |-> q, occ |-> o, init |-> InitialValue(m, v)]

\* ------------------------------------------------------------------ (R) pieces of the reference machine
\* transition_matrix / state_action_reward_matrix: only available actions are filled
TT(m, s, a, t) == IF a \in Avail(m, s) THEN m.P[s][a][t] ELSE 0
SAR(m, s, a)   == SumTo([t \in St(m) |-> TT(m, s, a, t) * m.R[s][a][t]], m.N)          \* numerator over PD
Tabulated(m, ww) ==
  TLCEval([s \in St(m) |-> [a \in Ac(m) |-> IF s \in ExplAbs(m) THEN m.gw[s][a] ELSE ww[s][a]]])
RawRewards(m, p) == TLCEval([s \in St(m) |-> SumTo([a \in Ac(m) |-> p[s][a] * SAR(m, s, a)], m.K)])   \* over PD*QD
RawChain(m, p)   == TLCEval([s \in St(m) |-> [t \in St(m) |->
                        SumTo([a \in Ac(m) |-> p[s][a] * TT(m, s, a, t)], m.K)]])                    \* over PD*QD
MaskVec(m, x, S)  == TLCEval([s \in St(m) |-> IF s \in S THEN 0 ELSE x[s]])
MaskRows(m, x, S) == TLCEval([s \in St(m) |-> IF s \in S THEN [t \in St(m) |-> 0] ELSE x[s]])

RECURSIVE AccK(_, _, _, _)
AccK(x, N, cur, k) ==
  IF k = 0 THEN cur
  ELSE LET nxt == cur \cup {t \in 1..N : \E s \in cur : x[s][t] > 0} IN
       IF nxt = cur THEN cur ELSE AccK(x, N, nxt, k - 1)
\* floyd_warshall(chain > 0) < inf : every state accesses itself
Accessible(m, x) == TLCEval([s \in St(m) |-> AccK(x, m.N, {s}, m.N)])

ClassesOf(m, x, r, ac) ==
  LET ab   == AbsAll(m)
      tr1  == {i \in St(m) : \E j \in ac[i] : i \notin ac[j]}
      tr2  == {i \in St(m) : SumTo(x[i], m.N) < m.PD * QD}
      tr   == (tr1 \cup tr2) \ ab
      rec  == (St(m) \ tr) \ ab
      nrec == {i \in rec : r[i] < 0}
  IN [trans |-> tr, rec |-> rec, negrec |-> nrec,
      negacc  |-> {i \in St(m) : ac[i] \cap nrec # {}},
      initrec |-> {j \in rec : \E i \in InitSupp(m) : j \in ac[i]}]

\* inverse of (I - gamma X) where the rows of X outside U are zero: block form, adjugate of the U x U block
\* chain instances: x has one positive entry per row of U and no cycle inside U
RECURSIVE XWalk(_, _, _, _, _)
XWalk(x, N, U, s, k) == IF s \notin U \/ k = 0 THEN <<s>>
                        ELSE <<s>> \o XWalk(x, N, U, CHOOSE t \in 1..N : x[s][t] > 0, k - 1)
ChainInverse(m, x, U) ==
  TLCEval([i \in St(m) |->
     LET wk == XWalk(x, m.N, U, i, m.N) IN      \* the states visited from i; the last one is outside U
     [j \in St(m) |-> IF \E l \in 1..Len(wk) : wk[l] = j THEN <<1, 1>> ELSE <<0, 1>>]])
Inverse(m, x, U) ==
  IF m.chain = 1 THEN ChainInverse(m, x, U) ELSE
  LET N   == m.N
      us  == SeqOfSet(U, N)
      k   == Len(us)
      D   == m.GD * m.PD * QD
      A   == TLCEval([i \in 1..k |-> [j \in 1..k |-> (IF i = j THEN D ELSE 0) - m.GN * x[us[i]][us[j]]]])
      det == Det(A, k)
      cf  == TLCEval([i \in 1..k |-> [j \in 1..k |-> Cof(A, k, i, j)]])
      ix  == TLCEval([s \in U |-> IndexOf(us, s)])
  IN TLCEval([i \in 1..N |-> [j \in 1..N |->
        IF i \notin U THEN (IF i = j THEN <<1, 1>> ELSE <<0, 1>>)
        ELSE IF j \in U THEN Norm(Safe(D * cf[ix[j]][ix[i]]), det)
        ELSE Norm(Safe(m.GN * SumTo([l \in 1..k |-> Safe(cf[l][ix[i]] * x[us[l]][j])], k)), det)]])

MatVec(m, S, r)  == TLCEval([i \in St(m) |-> RSumTo([j \in St(m) |-> RMul(S[i][j], Norm(r[j], m.PD * QD))], m.N)])
VecMat(m, S)     == TLCEval([z \in St(m) |-> RSumTo([s \in St(m) |-> RMul(S[s][z], Norm(m.p0[s], m.ID))], m.N)])
\* rows of explicitly absorbing states: successors outside the state list are dropped by the array builders
TQ(m, lst, s, a, t) == IF s \in ExplAbs(m) /\ t \notin lst THEN 0 ELSE TT(m, s, a, t)
QCell(m, lst, v, s, a) ==
  IF a \notin Avail(m, s) THEN UNAV                                   \* log(0)
  ELSE IF \E t \in St(m) : TQ(m, lst, s, a, t) > 0 /\ v[t] = NEG THEN NEG
  ELSE RAdd(Norm(SumTo([t \in St(m) |-> TQ(m, lst, s, a, t) * m.R[s][a][t]], m.N), m.PD),
            RSumTo([t \in St(m) |-> IF TQ(m, lst, s, a, t) = 0 \/ v[t] = NEG THEN <<0, 1>>     \* 0 * -inf := 0
                                     ELSE RMul(Norm(m.GN * TQ(m, lst, s, a, t), m.GD * m.PD), v[t])], m.N))
QTab(m, v) == LET lst == TLCEval(Lst(m)) IN
              TLCEval([s \in St(m) |-> [a \in Ac(m) |-> QCell(m, lst, v, s, a)]])
\* -infinity marks unavailability: an AVAILABLE action of an absorbing state must not be worth -infinity
\* unless one of its successors is
AbsFinite(m, v) == [s \in St(m) |-> [a \in Ac(m) |->
                      IF s \in ExplAbs(m) /\ a \in Avail(m, s)
                         /\ ~\E x \in Succ(m, s, a) : x \notin ExplAbs(m) /\ v[x] = NEG THEN 1 ELSE 0]]
Dot0(m, v) ==
  IF \E s \in InitSupp(m) : v[s] = NEG THEN NEG
  ELSE RSumTo([s \in St(m) |-> IF m.p0[s] = 0 THEN <<0, 1>> ELSE RMul(Norm(m.p0[s], m.ID), v[s])], m.N)

\* ------------------------------------------------------------------ machine
\* the MDP / policy as presented to the current evaluation (round 2: permuted lists)
Sib == Batch[iid + 1]
CM == IF round = 2 THEN Present(M, M.sp, M.ap) ELSE IF round = 3 THEN Sib ELSE M
CW == IF round = 2 THEN PresentW(M, w, M.sp, M.ap) ELSE w

Init ==
  /\ iid \in 1..Len(Batch)
  /\ \E pc \in PolChoices(Batch[iid]) : w = pc[1] /\ tn = pc[2] /\ wa = AltPolicy(Batch[iid], pc[1], pc[2])
  /\ round = 1
  /\ orc = NONE
  /\ phase = "init"
  /\ pm = NONE /\ sr = NONE /\ mp = NONE /\ acc = NONE /\ cls = NONE /\ SR = NONE
  /\ V = NONE /\ Q = NONE /\ occ = NONE /\ ival = NONE

Step(from, to) == phase = from /\ phase' = to
Fixed == UNCHANGED <<iid, w, tn, wa, round>>

\* the ground truth of the pair (kept out of Init: TLC evaluates initial states in a single thread)
Ground       == Step("init", "start")
                /\ orc' = [k \in {1} \cup (IF RareStates(M, tn) = {} /\ M.near1 = 0 THEN {} ELSE {2})
                                      \cup (IF M.sibofs = 1 THEN {3} ELSE {}) |->
                             Oracle(IF k = 1 THEN M ELSE IF k = 2 THEN AltM(M) ELSE Sib, IF k = 2 THEN wa ELSE w)]
                /\ Fixed /\ UNCHANGED <<pm, sr, mp, acc, cls, SR, V, Q, occ, ival>>
\* policy_matrix = self._policy_matrix_on(mdp): rows in the order of mdp.state_list, columns in the
\* order of mdp.action_list, recomputed for the MDP at hand (also Policy.to_tabular)
Tabulate     == Step("start", "policy") /\ pm' = Tabulated(CM, CW)
                /\ Fixed /\ UNCHANGED <<orc, sr, mp, acc, cls, SR, V, Q, occ, ival>>
\* state_rewards = einsum("sa,sa->s", policy_matrix, state_action_reward_matrix)
StateRewards == Step("policy", "rewards") /\ sr' = RawRewards(CM, pm)
                /\ Fixed /\ UNCHANGED <<orc, pm, mp, acc, cls, SR, V, Q, occ, ival>>
\* state_rewards[absorbing_state_vec] = 0
MaskRewards  == Step("rewards", "rewards0") /\ sr' = MaskVec(CM, sr, AbsAll(CM))
                /\ Fixed /\ UNCHANGED <<orc, pm, mp, acc, cls, SR, V, Q, occ, ival>>
\* markov_process = einsum("san,sa->sn", transition_matrix, policy_matrix)
Chain        == Step("rewards0", "chain") /\ mp' = RawChain(CM, pm)
                /\ Fixed /\ UNCHANGED <<orc, pm, sr, acc, cls, SR, V, Q, occ, ival>>
\* markov_process[absorbing_state_vec, :] = 0
MaskChain    == Step("chain", "chain0") /\ mp' = MaskRows(CM, mp, AbsAll(CM))
                /\ Fixed /\ UNCHANGED <<orc, pm, sr, acc, cls, SR, V, Q, occ, ival>>
\* undiscounted only: accessible = floyd_warshall(markov_process > 0) < inf
Access       == ~Discounted(CM) /\ Step("chain0", "access") /\ acc' = Accessible(CM, mp)
                /\ Fixed /\ UNCHANGED <<orc, pm, sr, mp, cls, SR, V, Q, occ, ival>>
\* transient / recurrent / negative recurrent / accessible sets (a row sum that is 1 up to rounding is 1)
Classes      == Step("access", "classes") /\ cls' = ClassesOf(CM, mp, sr, acc)
                /\ Fixed /\ UNCHANGED <<orc, pm, sr, mp, acc, SR, V, Q, occ, ival>>
\* markov_process[recurrent_states] = 0
ZeroRecurrent == Step("classes", "chain1") /\ mp' = MaskRows(CM, mp, cls.rec)
                /\ Fixed /\ UNCHANGED <<orc, pm, sr, acc, cls, SR, V, Q, occ, ival>>
\* successor_representation = inv(eye - gamma * markov_process)
Invert ==
  /\ \/ Discounted(CM) /\ Step("chain0", "inverse") /\ SR' = Inverse(CM, mp, St(CM) \ AbsAll(CM))
     \/ Step("chain1", "inverse") /\ SR' = Inverse(CM, mp, St(CM) \ (AbsAll(CM) \cup cls.rec))
  /\ Fixed /\ UNCHANGED <<orc, pm, sr, mp, acc, cls, V, Q, occ, ival>>
\* state_value = einsum("sz,z->s", successor_representation, state_rewards)
StateValue   == Step("inverse", "value") /\ V' = MatVec(CM, SR, sr)
                /\ Fixed /\ UNCHANGED <<orc, pm, sr, mp, acc, cls, SR, Q, occ, ival>>
\* undiscounted only: state_value[negative_recurrent_accessible_states] = -inf
MarkNegInf   == ~Discounted(CM) /\ Step("value", "value1")
                /\ V' = [s \in St(M) |-> IF s \in cls.negacc THEN NEG ELSE V[s]]
                /\ Fixed /\ UNCHANGED <<orc, pm, sr, mp, acc, cls, SR, Q, occ, ival>>
\* action_value = state_action_reward_matrix + log(action_matrix) + gamma * transition_matrix . state_value
ActionValue ==
  /\ \/ Discounted(CM) /\ Step("value", "qvalue")
     \/ Step("value1", "qvalue")
  /\ Q' = QTab(CM, V)
  /\ Fixed /\ UNCHANGED <<orc, pm, sr, mp, acc, cls, SR, V, occ, ival>>
\* state_occupancy = einsum("sz,s->z", successor_representation, initial_state_vec)
Occupancy    == Step("qvalue", "occ") /\ occ' = VecMat(CM, SR)
                /\ Fixed /\ UNCHANGED <<orc, pm, sr, mp, acc, cls, SR, V, Q, ival>>
\* undiscounted only: state_occupancy[initial_accessible_recurrent_states] = inf
MarkPosInf   == ~Discounted(CM) /\ Step("occ", "occ1")
                /\ occ' = [s \in St(M) |-> IF s \in cls.initrec THEN POS ELSE occ[s]]
                /\ Fixed /\ UNCHANGED <<orc, pm, sr, mp, acc, cls, SR, V, Q, ival>>
\* initial_value = state_value . initial_state_vec   (0 * -inf := 0 when undiscounted)
InitialVal ==
  /\ \/ Discounted(CM) /\ Step("occ", "done")
     \/ Step("occ1", "done")
  /\ ival' = Dot0(CM, V)
  /\ Fixed /\ UNCHANGED <<orc, pm, sr, mp, acc, cls, SR, V, Q, occ>>
\* the same policy object is handed a second MDP of the same shape with permuted lists; whatever the
\* object remembers from the first evaluation (here: pm) is still there and must not be used
Reuse ==
  /\ phase = "done" /\ round = 1 /\ M.hist = 1
  /\ round' = 2 /\ phase' = "start"
  /\ sr' = NONE /\ mp' = NONE /\ acc' = NONE /\ cls' = NONE /\ SR' = NONE
  /\ V' = NONE /\ Q' = NONE /\ occ' = NONE /\ ival' = NONE
  /\ UNCHANGED <<iid, w, tn, wa, orc, pm>>

\* the final state stutters; every other state must have a successor (the configuration checks deadlock,
\* so a behaviour that stops before the last "done" is reported by TLC)
\* the MDP's discount is changed (in place, or a new short-lived MDP object takes its place) to the sibling's;
\* whatever the policy object remembers of earlier calls must not be used
LastOfFirstHistory == (round = 1 /\ M.hist = 0) \/ round = 2
Mutate ==
  /\ phase = "done" /\ LastOfFirstHistory /\ M.sibofs = 1
  /\ round' = 3 /\ phase' = "start"
  /\ sr' = NONE /\ mp' = NONE /\ acc' = NONE /\ cls' = NONE /\ SR' = NONE
  /\ V' = NONE /\ Q' = NONE /\ occ' = NONE /\ ival' = NONE
  /\ UNCHANGED <<iid, w, tn, wa, orc, pm>>
\* ... and changed back
Restore ==
  /\ phase = "done" /\ round = 3
  /\ round' = 4 /\ phase' = "start"
  /\ sr' = NONE /\ mp' = NONE /\ acc' = NONE /\ cls' = NONE /\ SR' = NONE
  /\ V' = NONE /\ Q' = NONE /\ occ' = NONE /\ ival' = NONE
  /\ UNCHANGED <<iid, w, tn, wa, orc, pm>>
Finished == phase = "done" /\ (round = 4 \/ (LastOfFirstHistory /\ M.sibofs = 0)) /\ UNCHANGED vars
Next == \/ Ground \/ Tabulate \/ StateRewards \/ MaskRewards \/ Chain \/ MaskChain \/ Access \/ Classes
        \/ ZeroRecurrent \/ Invert \/ StateValue \/ MarkNegInf \/ ActionValue \/ Occupancy
        \/ MarkPosInf \/ InitialVal \/ Reuse \/ Mutate \/ Restore \/ Finished
Spec == Init /\ [][Next]_vars

\* ------------------------------------------------------------------ emission (pipeline A)
WOut(m, ww) == [s \in St(m) |-> [a \in Ac(m) |-> IF s \in NonAbs(m) THEN ww[s][a] ELSE 0]]
SeqSet(S, n) == SeqOfSet(S, n)
Emit ==
  (phase = "done" /\ round = 1) =>
    PrintT(ToJson([iid |-> iid, w |-> WOut(M, w), tn |-> WOut(M, tn),
                   \* which finite entries bind the code (all of them unless the policy has rare entries)
                   vexact |-> SeqSet(VExact(M, w, tn), M.N), qexact |-> QExact(M, w, tn),
                   oexact |-> SeqSet(OccExact(M, w, tn), M.N),
                   iexact |-> IF InitExact(M, w, tn) THEN 1 ELSE 0,
                   absfin |-> AbsFinite(M, orc[1].v),
                   v |-> orc[1].v, q |-> orc[1].q, occ |-> orc[1].occ, init |-> orc[1].init,
                   mq |-> Q,                                   \* machine's action values (also absorbing rows)
                   absall |-> SeqSet(AbsAll(M), M.N), implabs |-> SeqSet(ImplAbs(M), M.N),
                   rec |-> IF Discounted(M) THEN <<>> ELSE SeqSet(cls.rec, M.N),
                   negacc |-> IF Discounted(M) THEN <<>> ELSE SeqSet(cls.negacc, M.N)]))

\* ------------------------------------------------------------------ (P) design invariants
Done == phase = "done" /\ round = 1

\* (P1) the implementation-shaped machine ends in the oracle's values (two independent derivations)
MachineMatchesOracle ==
  Done => /\ V = orc[1].v
          /\ occ = orc[1].occ
          /\ ival = orc[1].init
          /\ \A s \in NonAbs(M) : \A a \in Ac(M) : Q[s][a] = orc[1].q[s][a]

\* (P2) Bellman expectation equations: V = sum_a pi(a|s) Q(s,a); absorbing states are worth 0;
\*      unavailable actions are worth -infinity (UNAV)
PiQ(m, ww, q, s) ==
  IF \E a \in Ac(m) : ww[s][a] > 0 /\ q[s][a] = NEG THEN NEG
  ELSE RSumTo([a \in Ac(m) |-> IF ww[s][a] = 0 THEN <<0, 1>> ELSE RMul(Norm(ww[s][a], QD), q[s][a])], m.K)
Bellman ==
  Done => /\ \A s \in NonAbs(M) : orc[1].v[s] = PiQ(M, w, orc[1].q, s)
          /\ \A s \in AbsAll(M) : orc[1].v[s] = <<0, 1>>
          /\ \A s \in NonAbs(M) : \A a \in Ac(M) : (a \notin Avail(M, s)) <=> (orc[1].q[s][a] = UNAV)

\* (P3) the statement's characterisation of the -infinity set, transcribed with explicit classes:
\*      closed communicating classes of the policy's chain among the non-absorbing states
\* the same classes without enumerating subsets (used on the long chain instances): the strongly
\* connected component of every state that returns to itself, if it is closed
CycleClasses(m, ww) ==
  LET mm == TM(m)
      na == St(m) \ AbsAll(m)
  IN {C \in {{s} \cup {t \in ReachPi(mm, ww, s) : s \in ReachPi(mm, ww, t)} : s \in {x \in na : x \in ReachPi(mm, ww, x)}} :
        C \subseteq na /\ \A c \in C : SuccPi(m, ww, c) \subseteq C}
ClosedClasses(m, ww) == IF m.chain = 1 THEN CycleClasses(m, ww) ELSE
  LET mm == TM(m) IN
  {C \in SUBSET (St(m) \ AbsAll(m)) :
      /\ C # {}
      /\ \A c \in C : SuccPi(m, ww, c) \subseteq C
      /\ \A c \in C : \A d \in C : d \in ReachPi(mm, ww, c)}
PaysNegative(m, ww, C) == \E c \in C : RPi(m, ww, c) < 0
CanReach(m, ww, s, C) == s \in C \/ ReachPi(TM(m), ww, s) \cap C # {}
NegInfIffNegativeClass ==
  Done => IF Discounted(M) THEN \A s \in St(M) : orc[1].v[s] # NEG
          ELSE LET cc == ClosedClasses(M, w) IN
               \A s \in St(M) \ AbsAll(M) :
                  (orc[1].v[s] = NEG) <=> (\E C \in cc : PaysNegative(M, w, C) /\ CanReach(M, w, s, C))

\* (P4) occupancy: flow equations on the finite part, +infinity exactly on closed classes reachable
\*      from the initial support (undiscounted only)
OccupancyFlow ==
  Done =>
    LET ab  == AbsAll(M)
        cc  == IF Discounted(M) THEN {} ELSE ClosedClasses(M, w)
        inf == {t \in St(M) : orc[1].occ[t] = POS}
        g   == Gamma(M)
        flow(t) == RSumTo([s \in St(M) |->
                      IF s \in ab \/ s \in inf \/ PPi(M, w, s, t) = 0 THEN <<0, 1>>
                      ELSE RMul(orc[1].occ[s], RMul(g, Norm(PPi(M, w, s, t), M.PD * QD)))], M.N)
    IN /\ \A t \in St(M) \ inf : orc[1].occ[t] = RAdd(Norm(M.p0[t], M.ID), flow(t))
       /\ \A t \in St(M) \ inf : \A s \in inf : PPi(M, w, s, t) = 0
       /\ \A t \in St(M) : (t \in inf) <=>
              (\E C \in cc : t \in C /\ \E s0 \in InitSupp(M) : s0 \notin ab /\ CanReach(M, w, s0, C))

\* (P5) duality: the initial value is the occupancy-weighted sum of the policy's expected rewards
Duality ==
  Done =>
    IF orc[1].init = NEG THEN \E s \in InitSupp(M) : orc[1].v[s] = NEG
    ELSE /\ \A s \in St(M) \ AbsAll(M) : orc[1].occ[s] = POS => RPi(M, w, s) = 0
         /\ orc[1].init = RSumTo([s \in St(M) |->
                          IF s \in AbsAll(M) \/ orc[1].occ[s] = POS THEN <<0, 1>>
                          ELSE RMul(orc[1].occ[s], Norm(RPi(M, w, s), M.PD * QD))], M.N)

\* (P6) instance filter: well-formed MDP, valid policy, no dead end, rewards <= 0 when undiscounted
\* MDP!WellFormed with the discount 0 admitted (GN = 0: only the immediate reward counts)
WellFormed0(m) ==
  /\ \A s \in St(m) : \A a \in Avail(m, s) : SumTo([t \in St(m) |-> m.P[s][a][t]], m.N) = m.PD
  /\ \A s \in St(m) : \A a \in Ac(m) : \A t \in St(m) : m.P[s][a][t] >= 0
  /\ SumTo([s \in St(m) |-> m.p0[s]], m.N) = m.ID
  /\ m.GN >= 0 /\ m.GN <= m.GD /\ m.GD > 0
InstanceOK == phase = "init" =>
  /\ WellFormed0(M)
  /\ PolicyOK(M, w)
  /\ FlagsOK(M, w, tn)
  /\ M.near1 = 1 => (Discounted(M) /\ Discounted(AltM(M)))
  /\ M.hist = 1 => M.explicit = 1
  /\ M.chain = 1 => (ChainOK(M, w) /\ M.near1 = 0 /\ M.sibofs = 0 /\ RareStates(M, tn) = {})
  /\ M.sibofs = 1 => /\ iid < Len(Batch) /\ M.near1 = 0 /\ Sib.sibofs = 0
                      /\ Sib.N = M.N /\ Sib.K = M.K /\ Sib.PD = M.PD /\ Sib.ID = M.ID /\ Sib.explicit = M.explicit
                      /\ Sib.abs = M.abs /\ Sib.avail = M.avail /\ Sib.P = M.P /\ Sib.R = M.R /\ Sib.p0 = M.p0
                      /\ Sib.gw = M.gw /\ <<Sib.GN, Sib.GD>> # <<M.GN, M.GD>>
  /\ IsPerm(M.sp, M.N) /\ IsPerm(M.ap, M.K)
  /\ DeadEnd(M) = {}
  /\ Discounted(M) \/ \A s \in St(M) : \A a \in Avail(M, s) : \A t \in St(M) : M.P[s][a][t] > 0 => M.R[s][a][t] <= 0

\* (P7) termination is checked by TLC's deadlock detection (see Finished)

\* (P8) rare weights / discount 1 - eps: the -infinity / +infinity sets depend on the support only, and the entries
\*      declared exact do not depend on the size of the rare weights (another surrogate, same answer)
\*      (written over parameters: o = oracle of the surrogate, ab = oracle of the other surrogate)
RareOK(m, ww, t, o, ab) ==
  LET qx == QExact(m, ww, t) IN
  /\ \A s \in St(m) : (ab.v[s] = NEG) <=> (o.v[s] = NEG)
  /\ \A s \in St(m) : (ab.occ[s] = POS) <=> (o.occ[s] = POS)
  /\ \A s \in VExact(m, ww, t) : ab.v[s] = o.v[s]
  /\ \A s \in OccExact(m, ww, t) : ab.occ[s] = o.occ[s]
  /\ \A s \in NonAbs(m) : \A a \in Ac(m) :
        /\ (ab.q[s][a] = NEG) <=> (o.q[s][a] = NEG)
        /\ qx[s][a] = 1 => ab.q[s][a] = o.q[s][a]
  /\ InitExact(m, ww, t) => ab.init = o.init
  /\ (ab.init = NEG) <=> (o.init = NEG)
RareWeightsIrrelevantWhereExact ==
  (Done /\ (RareStates(M, tn) # {} \/ M.near1 = 1)) => RareOK(M, w, tn, orc[1], orc[2])

\* (P9) history independence: the second evaluation by the same policy object, on the permuted
\*      presentation, ends in the (permuted) oracle values as a fresh evaluation does
ReuseMatchesFresh ==
  /\ (phase = "done" /\ round = 2) =>
       /\ \A i \in St(M) : V[i] = orc[1].v[M.sp[i]] /\ occ[i] = orc[1].occ[M.sp[i]]
       /\ ival = orc[1].init
       /\ \A i \in St(M) : M.abs[M.sp[i]] = 0 => \A j \in Ac(M) : Q[i][j] = orc[1].q[M.sp[i]][M.ap[j]]
  /\ (phase = "done" /\ round \in {3, 4}) =>
       LET o == orc[IF round = 3 THEN 3 ELSE 1] IN
       /\ V = o.v /\ occ = o.occ /\ ival = o.init
       /\ \A s \in NonAbs(M) : \A a \in Ac(M) : Q[s][a] = o.q[s][a]
=============================================================================
