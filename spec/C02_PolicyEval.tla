--------------------------- MODULE C02_PolicyEval ---------------------------
(* Property C02: exact evaluation of a tabular (stochastic) policy on a finite MDP       *)
(* (TabularPolicy.evaluate_on) returns the unique state values, action values,          *)
(* discounted state occupancies and initial value of the policy.                        *)
(*                                                                                      *)
(* (M) instances: records of the batch (fields of MDP.tla) plus                         *)
(*       gw[s][a]   policy row handed to the code at explicitly absorbing states        *)
(*                  (a "ghost" row: nothing may depend on it)                           *)
(*       allpols    1: TLC enumerates every policy over the weight menu                 *)
(*                  {0,1/3,1/2,2/3,1} on the available actions; 0: the policies listed  *)
(*                  in pols (numerators over QD = 6, one row per state)                 *)
(* (O) oracle: V by MDP!PolicyValue (Cramer on the transient system + chain classes),   *)
(*     Q by MDP!QFromV, occupancy by Cramer on the *transposed* system                  *)
(*     (I - gamma P^T) x = p0 over the transient states, +infinity on recurrent states  *)
(*     reachable from the initial support, initial value by MDP!InitialValue.           *)
(* (R) reference machine: after `Ground` (the oracle of the pair, computed outside Init *)
(*     so that TLC's workers share it) one action per statement of                      *)
(*     _evaluate_on_discounted /                                                        *)
(*     _evaluate_on_undiscounted (policy matrix, state rewards, mask, chain, mask,      *)
(*     [accessibility, classification, zero recurrent rows,] inverse, state value,      *)
(*     [-inf marking,] action value, occupancy, [+inf marking,] initial value).         *)
(* (P) design invariants at the bottom: the machine's final state equals the oracle;    *)
(*     the oracle satisfies the Bellman expectation equations, the flow equations of    *)
(*     the occupancy, the reward/occupancy duality, and the statement's                 *)
(*     characterisation of the -infinity set by closed negative classes.                *)
EXTENDS MDP, Json, IOUtils

Batch == JsonDeserialize(IOEnv.BATCH_FILE)
QD   == 6
Menu == {0, 2, 3, 4, 6}
NONE == <<>>

VARIABLES iid, w, orc, phase, pm, sr, mp, acc, cls, SR, V, Q, occ, ival
vars == <<iid, w, orc, phase, pm, sr, mp, acc, cls, SR, V, Q, occ, ival>>

M == Batch[iid]

\* ------------------------------------------------------------------ policies
RowsAt(m, s) == {r \in [Ac(m) -> Menu] : /\ SumTo(r, m.K) = QD
                                          /\ \A a \in Ac(m) : r[a] > 0 => a \in Avail(m, s)}
AllRows(m) == UNION {RowsAt(m, s) : s \in NonAbs(m)}
AllPols(m) == {p \in [NonAbs(m) -> AllRows(m)] : \A s \in NonAbs(m) : p[s] \in RowsAt(m, s)}
PolOfSeq(m, q) == [s \in NonAbs(m) |-> [a \in Ac(m) |-> q[s][a]]]
PolChoices(m) == IF m.allpols = 1 THEN AllPols(m) ELSE {PolOfSeq(m, m.pols[i]) : i \in 1..Len(m.pols)}
PolicyOK(m, ww) == \A s \in NonAbs(m) : /\ SumTo(ww[s], m.K) = QD
                                         /\ \A a \in Ac(m) : ww[s][a] >= 0 /\ (ww[s][a] > 0 => a \in Avail(m, s))
\* the tabular view of the instance: implicitly absorbing states count as absorbing
TM(m) == [m EXCEPT !.abs = [s \in St(m) |-> IF s \in AbsAll(m) THEN 1 ELSE 0]]
Gamma(m) == Norm(m.GN, m.GD)

\* ------------------------------------------------------------------ (O) occupancy oracle
\* x = p0 + gamma P_pi^T x on the transient states (transposed Cramer), flow into absorbing states,
\* +infinity on recurrent states reachable from the initial support (undiscounted only)
OccOracle(m, ww) ==
  LET mm  == TM(m)
      c   == Classify(mm, ww)
      ts  == SeqOfSet(NonAbs(mm) \ c.rec, m.N)
      k   == Len(ts)
      D   == m.GD * m.PD * QD
      A   == TLCEval([i \in 1..k |-> [j \in 1..k |->
                (IF i = j THEN D ELSE 0) - m.GN * PPi(m, ww, ts[j], ts[i])]])
      b   == TLCEval([i \in 1..k |-> m.p0[ts[i]]])
      sol == Solve(A, b, k)
      det == sol[1]
      xn  == TLCEval(sol[2])              \* occupancy of ts[i] = D * xn[i] / (det * ID)
      from0 == InitSupp(m) \cup UNION {ReachPi(mm, ww, s) : s \in InitSupp(m) \ ExplAbs(mm)}
  IN [t \in St(m) |->
        IF t \in c.rec THEN (IF t \in from0 THEN POS ELSE <<0, 1>>)
        ELSE IF det = 0 THEN Assert(FALSE, <<"singular occupancy system", ww>>)
        ELSE IF t \in Range(ts) THEN Norm(Safe(D * xn[IndexOf(ts, t)]), Safe(det * m.ID))
        ELSE Norm(Safe(m.p0[t] * det) + Safe(m.GN * SumTo([i \in 1..k |-> Safe(xn[i] * PPi(m, ww, ts[i], t))], k)),
                  Safe(det * m.ID))]

Oracle(m, ww) ==
  LET v == TLCEval(PolicyValue(m, ww, QD))
      q == TLCEval([s \in St(m) |-> [a \in Ac(m) |-> IF s \in ExplAbs(m) THEN UNAV ELSE QFromV(m, v, s, a)]])
      o == TLCEval(OccOracle(m, ww))
  IN [v |-> v, q |-> q, occ |-> o, init |-> InitialValue(m, v)]

\* ------------------------------------------------------------------ (R) pieces of the reference machine
\* transition_matrix / state_action_reward_matrix: only available actions are filled
TT(m, s, a, t) == IF a \in Avail(m, s) THEN m.P[s][a][t] ELSE 0
SAR(m, s, a)   == SumTo([t \in St(m) |-> TT(m, s, a, t) * m.R[s][a][t]], m.N)          \* numerator over PD
Tabulated(m, ww) ==
  TLCEval([s \in St(m) |-> [a \in Ac(m) |-> IF s \in ExplAbs(m) THEN m.gw[s][a] ELSE ww[s][a]]])
RawRewards(m, p) == TLCEval([s \in St(m) |-> SumTo([a \in Ac(m) |-> p[s][a] * SAR(m, s, a)], m.K)])   \* over PD*QD
RawChain(m, p)   == TLCEval([s \in St(m) |-> [t \in St(m) |->
                        SumTo([a \in Ac(m) |-> p[s][a] * TT(m, s, a, t)], m.K)]])                    \* over PD*QD
MaskVec(m, x, S)  == TLCEval([s \in St(m) |-> IF s \in S THEN 0 ELSE x[s]])
MaskRows(m, x, S) == TLCEval([s \in St(m) |-> IF s \in S THEN [t \in St(m) |-> 0] ELSE x[s]])

RECURSIVE AccK(_, _, _, _)
AccK(x, N, cur, k) ==
  IF k = 0 THEN cur
  ELSE LET nxt == cur \cup {t \in 1..N : \E s \in cur : x[s][t] > 0} IN
       IF nxt = cur THEN cur ELSE AccK(x, N, nxt, k - 1)
\* floyd_warshall(chain > 0) < inf : every state accesses itself
Accessible(m, x) == TLCEval([s \in St(m) |-> AccK(x, m.N, {s}, m.N)])

ClassesOf(m, x, r, ac) ==
  LET ab   == AbsAll(m)
      tr1  == {i \in St(m) : \E j \in ac[i] : i \notin ac[j]}
      tr2  == {i \in St(m) : SumTo(x[i], m.N) < m.PD * QD}
      tr   == (tr1 \cup tr2) \ ab
      rec  == (St(m) \ tr) \ ab
      nrec == {i \in rec : r[i] < 0}
  IN [trans |-> tr, rec |-> rec, negrec |-> nrec,
      negacc  |-> {i \in St(m) : ac[i] \cap nrec # {}},
      initrec |-> {j \in rec : \E i \in InitSupp(m) : j \in ac[i]}]

\* inverse of (I - gamma X) where the rows of X outside U are zero: block form, adjugate of the U x U block
Inverse(m, x, U) ==
  LET N   == m.N
      us  == SeqOfSet(U, N)
      k   == Len(us)
      D   == m.GD * m.PD * QD
      A   == TLCEval([i \in 1..k |-> [j \in 1..k |-> (IF i = j THEN D ELSE 0) - m.GN * x[us[i]][us[j]]]])
      det == Det(A, k)
      cf  == TLCEval([i \in 1..k |-> [j \in 1..k |-> Cof(A, k, i, j)]])
      ix  == TLCEval([s \in U |-> IndexOf(us, s)])
  IN TLCEval([i \in 1..N |-> [j \in 1..N |->
        IF i \notin U THEN (IF i = j THEN <<1, 1>> ELSE <<0, 1>>)
        ELSE IF j \in U THEN Norm(Safe(D * cf[ix[j]][ix[i]]), det)
        ELSE Norm(Safe(m.GN * SumTo([l \in 1..k |-> Safe(cf[l][ix[i]] * x[us[l]][j])], k)), det)]])

MatVec(m, S, r)  == TLCEval([i \in St(m) |-> RSumTo([j \in St(m) |-> RMul(S[i][j], Norm(r[j], m.PD * QD))], m.N)])
VecMat(m, S)     == TLCEval([z \in St(m) |-> RSumTo([s \in St(m) |-> RMul(S[s][z], Norm(m.p0[s], m.ID))], m.N)])
QCell(m, v, s, a) ==
  IF a \notin Avail(m, s) THEN UNAV                                   \* log(0)
  ELSE IF \E t \in St(m) : TT(m, s, a, t) > 0 /\ v[t] = NEG THEN NEG
  ELSE RAdd(Norm(SAR(m, s, a), m.PD),
            RSumTo([t \in St(m) |-> IF TT(m, s, a, t) = 0 \/ v[t] = NEG THEN <<0, 1>>     \* 0 * -inf := 0
                                     ELSE RMul(Norm(m.GN * TT(m, s, a, t), m.GD * m.PD), v[t])], m.N))
QTab(m, v) == TLCEval([s \in St(m) |-> [a \in Ac(m) |-> QCell(m, v, s, a)]])
Dot0(m, v) ==
  IF \E s \in InitSupp(m) : v[s] = NEG THEN NEG
  ELSE RSumTo([s \in St(m) |-> IF m.p0[s] = 0 THEN <<0, 1>> ELSE RMul(Norm(m.p0[s], m.ID), v[s])], m.N)

\* ------------------------------------------------------------------ machine
Init ==
  /\ iid \in 1..Len(Batch)
  /\ w \in PolChoices(Batch[iid])
  /\ orc = NONE
  /\ phase = "init"
  /\ pm = NONE /\ sr = NONE /\ mp = NONE /\ acc = NONE /\ cls = NONE /\ SR = NONE
  /\ V = NONE /\ Q = NONE /\ occ = NONE /\ ival = NONE

Step(from, to) == phase = from /\ phase' = to

\* the ground truth of the pair (kept out of Init: TLC evaluates initial states in a single thread)
Ground       == Step("init", "start") /\ orc' = Oracle(M, w)
                /\ UNCHANGED <<iid, w, pm, sr, mp, acc, cls, SR, V, Q, occ, ival>>
\* policy_matrix = self[mdp.state_list,][:, mdp.action_list]   (also Policy.to_tabular)
Tabulate     == Step("start", "policy") /\ pm' = Tabulated(M, w)
                /\ UNCHANGED <<iid, w, orc, sr, mp, acc, cls, SR, V, Q, occ, ival>>
\* state_rewards = einsum("sa,sa->s", policy_matrix, state_action_reward_matrix)
StateRewards == Step("policy", "rewards") /\ sr' = RawRewards(M, pm)
                /\ UNCHANGED <<iid, w, orc, pm, mp, acc, cls, SR, V, Q, occ, ival>>
\* state_rewards[absorbing_state_vec] = 0
MaskRewards  == Step("rewards", "rewards0") /\ sr' = MaskVec(M, sr, AbsAll(M))
                /\ UNCHANGED <<iid, w, orc, pm, mp, acc, cls, SR, V, Q, occ, ival>>
\* markov_process = einsum("san,sa->sn", transition_matrix, policy_matrix)
Chain        == Step("rewards0", "chain") /\ mp' = RawChain(M, pm)
                /\ UNCHANGED <<iid, w, orc, pm, sr, acc, cls, SR, V, Q, occ, ival>>
\* markov_process[absorbing_state_vec, :] = 0
MaskChain    == Step("chain", "chain0") /\ mp' = MaskRows(M, mp, AbsAll(M))
                /\ UNCHANGED <<iid, w, orc, pm, sr, acc, cls, SR, V, Q, occ, ival>>
\* undiscounted only: accessible = floyd_warshall(markov_process > 0) < inf
Access       == ~Discounted(M) /\ Step("chain0", "access") /\ acc' = Accessible(M, mp)
                /\ UNCHANGED <<iid, w, orc, pm, sr, mp, cls, SR, V, Q, occ, ival>>
\* transient / recurrent / negative recurrent / accessible sets
Classes      == Step("access", "classes") /\ cls' = ClassesOf(M, mp, sr, acc)
                /\ UNCHANGED <<iid, w, orc, pm, sr, mp, acc, SR, V, Q, occ, ival>>
\* markov_process[recurrent_states] = 0
ZeroRecurrent == Step("classes", "chain1") /\ mp' = MaskRows(M, mp, cls.rec)
                /\ UNCHANGED <<iid, w, orc, pm, sr, acc, cls, SR, V, Q, occ, ival>>
\* successor_representation = inv(eye - gamma * markov_process)
Invert ==
  /\ \/ Discounted(M) /\ Step("chain0", "inverse") /\ SR' = Inverse(M, mp, St(M) \ AbsAll(M))
     \/ Step("chain1", "inverse") /\ SR' = Inverse(M, mp, St(M) \ (AbsAll(M) \cup cls.rec))
  /\ UNCHANGED <<iid, w, orc, pm, sr, mp, acc, cls, V, Q, occ, ival>>
\* state_value = einsum("sz,z->s", successor_representation, state_rewards)
StateValue   == Step("inverse", "value") /\ V' = MatVec(M, SR, sr)
                /\ UNCHANGED <<iid, w, orc, pm, sr, mp, acc, cls, SR, Q, occ, ival>>
\* undiscounted only: state_value[negative_recurrent_accessible_states] = -inf
MarkNegInf   == ~Discounted(M) /\ Step("value", "value1")
                /\ V' = [s \in St(M) |-> IF s \in cls.negacc THEN NEG ELSE V[s]]
                /\ UNCHANGED <<iid, w, orc, pm, sr, mp, acc, cls, SR, Q, occ, ival>>
\* action_value = state_action_reward_matrix + log(action_matrix) + gamma * transition_matrix . state_value
ActionValue ==
  /\ \/ Discounted(M) /\ Step("value", "qvalue")
     \/ Step("value1", "qvalue")
  /\ Q' = QTab(M, V)
  /\ UNCHANGED <<iid, w, orc, pm, sr, mp, acc, cls, SR, V, occ, ival>>
\* state_occupancy = einsum("sz,s->z", successor_representation, initial_state_vec)
Occupancy    == Step("qvalue", "occ") /\ occ' = VecMat(M, SR)
                /\ UNCHANGED <<iid, w, orc, pm, sr, mp, acc, cls, SR, V, Q, ival>>
\* undiscounted only: state_occupancy[initial_accessible_recurrent_states] = inf
MarkPosInf   == ~Discounted(M) /\ Step("occ", "occ1")
                /\ occ' = [s \in St(M) |-> IF s \in cls.initrec THEN POS ELSE occ[s]]
                /\ UNCHANGED <<iid, w, orc, pm, sr, mp, acc, cls, SR, V, Q, ival>>
\* initial_value = state_value . initial_state_vec   (0 * -inf := 0 when undiscounted)
InitialVal ==
  /\ \/ Discounted(M) /\ Step("occ", "done")
     \/ Step("occ1", "done")
  /\ ival' = Dot0(M, V)
  /\ UNCHANGED <<iid, w, orc, pm, sr, mp, acc, cls, SR, V, Q, occ>>

\* the final state stutters; every other state must have a successor (the configuration checks deadlock,
\* so a behaviour that stops before "done" is reported by TLC)
Finished == phase = "done" /\ UNCHANGED vars
Next == \/ Ground \/ Tabulate \/ StateRewards \/ MaskRewards \/ Chain \/ MaskChain \/ Access \/ Classes
        \/ ZeroRecurrent \/ Invert \/ StateValue \/ MarkNegInf \/ ActionValue \/ Occupancy
        \/ MarkPosInf \/ InitialVal \/ Finished
Spec == Init /\ [][Next]_vars

\* ------------------------------------------------------------------ emission (pipeline A)
WOut(m, ww) == [s \in St(m) |-> [a \in Ac(m) |-> IF s \in NonAbs(m) THEN ww[s][a] ELSE 0]]
SeqSet(S, n) == SeqOfSet(S, n)
Emit ==
  phase = "done" =>
    PrintT(ToJson([iid |-> iid, w |-> WOut(M, w),
                   v |-> orc.v, q |-> orc.q, occ |-> orc.occ, init |-> orc.init,
                   mq |-> Q,                                   \* machine's action values (also absorbing rows)
                   absall |-> SeqSet(AbsAll(M), M.N), implabs |-> SeqSet(ImplAbs(M), M.N),
                   rec |-> IF Discounted(M) THEN <<>> ELSE SeqSet(cls.rec, M.N),
                   negacc |-> IF Discounted(M) THEN <<>> ELSE SeqSet(cls.negacc, M.N)]))

\* ------------------------------------------------------------------ (P) design invariants
Done == phase = "done"

\* (P1) the implementation-shaped machine ends in the oracle's values (two independent derivations)
MachineMatchesOracle ==
  Done => /\ V = orc.v
          /\ occ = orc.occ
          /\ ival = orc.init
          /\ \A s \in NonAbs(M) : \A a \in Ac(M) : Q[s][a] = orc.q[s][a]

\* (P2) Bellman expectation equations: V = sum_a pi(a|s) Q(s,a); absorbing states are worth 0;
\*      unavailable actions are worth -infinity (UNAV)
PiQ(m, ww, q, s) ==
  IF \E a \in Ac(m) : ww[s][a] > 0 /\ q[s][a] = NEG THEN NEG
  ELSE RSumTo([a \in Ac(m) |-> IF ww[s][a] = 0 THEN <<0, 1>> ELSE RMul(Norm(ww[s][a], QD), q[s][a])], m.K)
Bellman ==
  Done => /\ \A s \in NonAbs(M) : orc.v[s] = PiQ(M, w, orc.q, s)
          /\ \A s \in AbsAll(M) : orc.v[s] = <<0, 1>>
          /\ \A s \in NonAbs(M) : \A a \in Ac(M) : (a \notin Avail(M, s)) <=> (orc.q[s][a] = UNAV)

\* (P3) the statement's characterisation of the -infinity set, transcribed with explicit classes:
\*      closed communicating classes of the policy's chain among the non-absorbing states
ClosedClasses(m, ww) ==
  LET mm == TM(m) IN
  {C \in SUBSET (St(m) \ AbsAll(m)) :
      /\ C # {}
      /\ \A c \in C : SuccPi(m, ww, c) \subseteq C
      /\ \A c \in C : \A d \in C : d \in ReachPi(mm, ww, c)}
PaysNegative(m, ww, C) == \E c \in C : RPi(m, ww, c) < 0
CanReach(m, ww, s, C) == s \in C \/ ReachPi(TM(m), ww, s) \cap C # {}
NegInfIffNegativeClass ==
  Done => IF Discounted(M) THEN \A s \in St(M) : orc.v[s] # NEG
          ELSE LET cc == ClosedClasses(M, w) IN
               \A s \in St(M) \ AbsAll(M) :
                  (orc.v[s] = NEG) <=> (\E C \in cc : PaysNegative(M, w, C) /\ CanReach(M, w, s, C))

\* (P4) occupancy: flow equations on the finite part, +infinity exactly on closed classes reachable
\*      from the initial support (undiscounted only)
OccupancyFlow ==
  Done =>
    LET ab  == AbsAll(M)
        cc  == IF Discounted(M) THEN {} ELSE ClosedClasses(M, w)
        inf == {t \in St(M) : orc.occ[t] = POS}
        g   == Gamma(M)
        flow(t) == RSumTo([s \in St(M) |->
                      IF s \in ab \/ s \in inf \/ PPi(M, w, s, t) = 0 THEN <<0, 1>>
                      ELSE RMul(orc.occ[s], RMul(g, Norm(PPi(M, w, s, t), M.PD * QD)))], M.N)
    IN /\ \A t \in St(M) \ inf : orc.occ[t] = RAdd(Norm(M.p0[t], M.ID), flow(t))
       /\ \A t \in St(M) \ inf : \A s \in inf : PPi(M, w, s, t) = 0
       /\ \A t \in St(M) : (t \in inf) <=>
              (\E C \in cc : t \in C /\ \E s0 \in InitSupp(M) : s0 \notin ab /\ CanReach(M, w, s0, C))

\* (P5) duality: the initial value is the occupancy-weighted sum of the policy's expected rewards
Duality ==
  Done =>
    IF orc.init = NEG THEN \E s \in InitSupp(M) : orc.v[s] = NEG
    ELSE /\ \A s \in St(M) \ AbsAll(M) : orc.occ[s] = POS => RPi(M, w, s) = 0
         /\ orc.init = RSumTo([s \in St(M) |->
                          IF s \in AbsAll(M) \/ orc.occ[s] = POS THEN <<0, 1>>
                          ELSE RMul(orc.occ[s], Norm(RPi(M, w, s), M.PD * QD))], M.N)

\* (P6) instance filter: well-formed MDP, valid policy, no dead end, rewards <= 0 when undiscounted
InstanceOK == phase = "init" =>
  /\ WellFormed(M)
  /\ PolicyOK(M, w)
  /\ DeadEnd(M) = {}
  /\ Discounted(M) \/ \A s \in St(M) : \A a \in Avail(M, s) : \A t \in St(M) : M.P[s][a][t] > 0 => M.R[s][a][t] <= 0

\* (P7) termination is checked by TLC's deadlock detection (see Finished)
=============================================================================
