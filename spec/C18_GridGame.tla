---------------------------- MODULE C18_GridGame ----------------------------
(* Property C18, first sentence: for every grid-game layout, reachable non-terminal      *)
(* state and joint action the next-state distribution sums to 1, never puts positive     *)
(* probability on two agents sharing a non-goal cell, on two agents swapping cells, on   *)
(* an agent inside an obstacle, through a wall in its blocked direction or off the grid, *)
(* and moves every agent at most one cell; a state in which an agent stands on its own   *)
(* goal leads to the terminal state, which is absorbing and pays nothing.                *)
(*                                                                                      *)
(* (M) a layout (record read from the batch): W x H grid, obst (cells), walls and fences  *)
(*     (directional: pairs <<start, end>> of cells), goals [cell, owners], init (the two   *)
(*     agents' cells), fence success probability PN/PD, hack (1: collision_prob=None,      *)
(*     "nobody moves if a collision was possible"; 0: collision_prob=.5), rewards GR/SC/CC, *)
(*     states (closure recorded from the real code, used by the trace module), capped,     *)
(*     fine.  Cells are <<x, y>>, y upwards.                                               *)
(* (O) the allowed-move relation: clause predicates OffGrid, InObstacle, ThroughWall,     *)
(*     Shared, Swapped, BadMove, ... over one outcome (s, ja, n).  Deliberately an upper  *)
(*     bound: "nobody moves if a collision was possible" and the epsilon probability of   *)
(*     staying are allowed outcomes, not required ones.                                   *)
(* (R) reference machine shaped like TabularGridGame.next_state_dist, built from the      *)
(*     factor-table operations of lib/FactorTable.tla exactly as the code builds it:      *)
(*       Choose      per-agent move tables: base table {stay: EPS, move: 1-EPS}, fence    *)
(*                   mixture, obstacle mask, wall mask (Base/FenceLoop/ObstLoop/WallLoop) *)
(*       JoinAgents  joint table of the independent per-agent tables                      *)
(*       Interact    pairwise interaction mask (collision unless on a goal cell, swap),   *)
(*                   "if any collision was possible nobody moves" rule                    *)
(*       Sample      one positive-weight outcome becomes the next state                   *)
(*     Exact weights: a joint row carries the pair <<w1, w2>> of per-agent numerators      *)
(*     (their product would not fit TLC's 32-bit integers); P(row) = w1*w2 / sum.          *)
(*     Layouts with L.fine = 1 (few reachable states) run the three steps as three         *)
(*     actions; for the others Choose composes the same operators in one action so that    *)
(*     fewer intermediate states are stored.                                               *)
(* (P) NoSharedCell, NoSwap, InGrid, NotInObstacle, NotThroughWall, OneCellCommanded,      *)
(*     GoalLeadsToTerminal, TerminalAbsorbing, Normalisable, StateValid,                   *)
(*     AgentTablesNormalised, FenceSuccessExact - over every reachable state of every      *)
(*     layout of the batch and all 25 joint actions.                                       *)
(* MC mode explores the machine and emits, per (layout, state, joint action), the exact    *)
(* expected distribution and rewards (pipeline A: the harness compares the real            *)
(* distribution; a mismatch there is DRIFT).  The verdicts on the statement's clauses are  *)
(* taken by C18_GridGameTrace (pipeline B), which validates every outcome recorded from    *)
(* the real code against the relation (O) of this module.                                  *)
EXTENDS FactorTable, Json, IOUtils

Batch   == JsonDeserialize(IOEnv.BATCH_FILE)
Layouts == Batch.layouts

EPSD == 100000                      \* EPS = 1 / EPSD in the code
T == << <<-1, -1>>, <<-1, -1>> >>     \* the terminal state
Agents == {1, 2}
Dirs == << <<0, 0>>, <<1, 0>>, <<-1, 0>>, <<0, 1>>, <<0, -1>> >>   \* joint_actions() order
NoJa == <<0, 0>>

\* ------------------------------------------------------------------ (M) layout
InGridC(L, c) == c[1] >= 0 /\ c[1] < L.W /\ c[2] >= 0 /\ c[2] < L.H
Obst(L)   == Range(L.obst)
Walls(L)  == Range(L.walls)
Fences(L) == Range(L.fences)
GoalIdx(L) == 1..Len(L.goals)
GoalCells(L) == {L.goals[g].cell : g \in GoalIdx(L)}
Owns(L, g, i) == i \in Range(L.goals[g].owners)
OwnGoal(L, i, c) == \E g \in GoalIdx(L) : L.goals[g].cell = c /\ Owns(L, g, i)
Absorbing(L, s) == s # T /\ \E i \in Agents : OwnGoal(L, i, s[i])
Raw(c, a) == <<c[1] + Dirs[a][1], c[2] + Dirs[a][2]>>
Target(L, c, a) == LET r == Raw(c, a) IN <<MaxI(MinI(r[1], L.W - 1), 0), MaxI(MinI(r[2], L.H - 1), 0)>>

LayoutWellFormed(L) ==
  /\ L.W >= 1 /\ L.H >= 1 /\ L.PN >= 0 /\ L.PN <= L.PD /\ L.PD >= 1 /\ L.PD <= 10
  /\ \A i \in Agents : InGridC(L, L.init[i]) /\ L.init[i] \notin Obst(L)
  /\ L.init[1] = L.init[2] => L.init[1] \in GoalCells(L)
  /\ \A c \in Obst(L) \cup GoalCells(L) : InGridC(L, c)
  /\ NoDupSeq(L.fences) /\ NoDupSeq(L.walls) /\ NoDupSeq(L.obst)
  /\ \A g \in GoalIdx(L) : Range(L.goals[g].owners) \subseteq Agents /\ L.goals[g].owners # <<>>

\* ------------------------------------------------------------------ (O) allowed-move relation
\* clause predicates over one outcome n of (s, ja), s neither terminal nor absorbing
OffGrid(L, n)        == n # T /\ \E i \in Agents : ~InGridC(L, n[i])
InObstacle(L, n)     == n # T /\ \E i \in Agents : n[i] \in Obst(L)
ThroughWall(L, s, n) == n # T /\ \E i \in Agents : <<s[i], n[i]>> \in Walls(L)
Shared(L, n)         == n # T /\ n[1] = n[2] /\ n[1] \notin GoalCells(L)
Swapped(s, n)        == n # T /\ s[1] # s[2] /\ n[1] = s[2] /\ n[2] = s[1]
\* every agent stays or moves exactly the one cell it was told to
BadMove(s, ja, n)    == n # T /\ \E i \in Agents : n[i] # s[i] /\ n[i] # Raw(s[i], ja[i])
Move(L, s, ja, n) ==
  IF s = T \/ Absorbing(L, s) THEN n = T
  ELSE /\ n # T
       /\ ~OffGrid(L, n) /\ ~InObstacle(L, n) /\ ~ThroughWall(L, s, n)
       /\ ~Shared(L, n) /\ ~Swapped(s, n) /\ ~BadMove(s, ja, n)
\* names of the clauses of the statement that the outcome n of (s, ja) breaks
Clauses(L, s, ja, n) ==
  IF s = T THEN (IF n # T THEN {"terminal-not-absorbing"} ELSE {})
  ELSE IF Absorbing(L, s) THEN (IF n # T THEN {"own-goal-not-terminal"} ELSE {})
  ELSE (IF n = T THEN {"terminal-from-non-goal-state"} ELSE {})
       \cup (IF OffGrid(L, n) THEN {"off-grid"} ELSE {})
       \cup (IF InObstacle(L, n) THEN {"obstacle"} ELSE {})
       \cup (IF ThroughWall(L, s, n) THEN {"wall"} ELSE {})
       \cup (IF Shared(L, n) THEN {"shared-cell"} ELSE {})
       \cup (IF Swapped(s, n) THEN {"swap"} ELSE {})
       \cup (IF BadMove(s, ja, n) THEN {"more-than-one-cell"} ELSE {})

\* ------------------------------------------------------------------ (R) reference machine: operators
\* agentMove = Pr([{an: s[an]}, {an: agent}], probs=[EPS, 1-EPS])   (two equal rows when target = cell)
Base(i, c, t) == Tab(<<i>>, <<Row(<<c>>, 1), Row(<<t>>, EPSD - 1)>>, EPSD)
Stay(i, c)    == Tab(<<i>>, <<Row(<<c>>, 1)>>, 1)
Mask(i, c, t) == Tab(<<i>>, <<Row(<<c>>, 1), Row(<<t>>, 0)>>, 1)
\* for fence in fences: if start, end match: agentMove = agentMove * p | Pr([stay]) * (1 - p)
RECURSIVE FenceLoop(_, _, _, _, _, _)
FenceLoop(L, i, c, t, k, tab) ==
  IF k > Len(L.fences) THEN tab
  ELSE FenceLoop(L, i, c, t, k + 1,
         IF L.fences[k] = <<c, t>>
         THEN RefMix(RefScale(tab, L.PN, L.PD), RefScale(Stay(i, c), L.PD - L.PN, L.PD))
         ELSE tab)
\* for obs in obstacles: if target on it: agentMove &= Pr([stay, move], probs=[1, 0])
RECURSIVE ObstLoop(_, _, _, _, _, _)
ObstLoop(L, i, c, t, k, tab) ==
  IF k > Len(L.obst) THEN tab
  ELSE ObstLoop(L, i, c, t, k + 1, IF L.obst[k] = t THEN RefJoin(tab, Mask(i, c, t)) ELSE tab)
RECURSIVE WallLoop(_, _, _, _, _, _)
WallLoop(L, i, c, t, k, tab) ==
  IF k > Len(L.walls) THEN tab
  ELSE WallLoop(L, i, c, t, k + 1, IF L.walls[k] = <<c, t>> THEN RefJoin(tab, Mask(i, c, t)) ELSE tab)
AgentTable(L, i, c, a) ==
  LET t == Target(L, c, a) IN
  WallLoop(L, i, c, t, 1, ObstLoop(L, i, c, t, 1, FenceLoop(L, i, c, t, 1, Base(i, c, t))))

\* agentDist = m1 & m2, with the weight kept as the pair of the two factors
RECURSIVE JointLoop(_, _, _, _)
JointLoop(m1, m2, k, acc) ==
  IF k > NRows(m1) * NRows(m2) THEN acc
  ELSE LET i == ((k - 1) \div NRows(m2)) + 1
           j == ((k - 1) % NRows(m2)) + 1
           vals == <<m1.rows[i].vals[1], m2.rows[j].vals[1]>>
           w == <<WOf(m1, RowAsg(m1, i)), WOf(m2, RowAsg(m2, j))>>
       IN IF HasVals(acc, vals) \/ w[1] = 0 \/ w[2] = 0 THEN JointLoop(m1, m2, k + 1, acc)
          ELSE JointLoop(m1, m2, k + 1, Append(acc, Row(vals, w)))
JointRows(m1, m2) == JointLoop(m1, m2, 1, <<>>)

\* pairwise interaction logits
SkipPair(L, n) == \E g \in GoalIdx(L) : (Owns(L, g, 1) \/ Owns(L, g, 2)) /\ (L.goals[g].cell = n[1] \/ L.goals[g].cell = n[2])
Collide(L, n)  == ~SkipPair(L, n) /\ n[1] = n[2]
SwapRow(s, n)  == n[1] = s[2] /\ n[2] = s[1]
AnyCollision(L, rows) == \E r \in 1..Len(rows) : Collide(L, rows[r].vals)
Blocked(L, s, rows, n) ==
  \/ Collide(L, n) \/ SwapRow(s, n)
  \/ (L.hack = 1 /\ AnyCollision(L, rows) /\ n # s)     \* HACK: nobody moves if a collision was possible
FinalRows(L, s, rows) == SelectSeq(rows, LAMBDA r : ~Blocked(L, s, rows, r.vals))
TerminalRows == <<Row(T, <<1, 1>>)>>

\* joint_rewards (reference only; the statement constrains nothing but the terminal state)
GoalCount(L, i, c) == Cardinality({g \in GoalIdx(L) : L.goals[g].cell = c /\ Owns(L, g, i)})
Reward(L, s, ja, n) ==
  IF s = T \/ n = T THEN <<0, 0>>
  ELSE LET l1 == Raw(s[1], ja[1])
           l2 == Raw(s[2], ja[2])
           goalish == l1 \in GoalCells(L) \/ l2 \in GoalCells(L)
           cc == IF l1 = l2 /\ ~goalish THEN L.CC ELSE 0
       IN [i \in Agents |-> L.GR * GoalCount(L, i, n[i]) + (IF ja[i] # 1 THEN L.SC ELSE 0) + cc]

\* ------------------------------------------------------------------ (R) the machine
VARIABLES lid, pos, ja, phase, tab
gvars == <<lid, pos, ja, phase, tab>>
L == Layouts[lid]

Init ==
  /\ lid \in 1..Len(Layouts)
  /\ pos = Layouts[lid].init /\ ja = NoJa /\ phase = "state" /\ tab = <<>>

Choose ==
  /\ phase = "state"
  /\ \E a1, a2 \in 1..5 :
       /\ ja' = <<a1, a2>>
       /\ IF pos = T \/ Absorbing(L, pos)
          THEN phase' = "final" /\ tab' = TerminalRows
          ELSE IF L.fine = 1
          THEN phase' = "agents" /\ tab' = <<AgentTable(L, 1, pos[1], a1), AgentTable(L, 2, pos[2], a2)>>
          ELSE \* big layouts: the same three steps composed into one action (fewer stored states)
               /\ phase' = "final"
               /\ tab' = LET j == JointRows(AgentTable(L, 1, pos[1], a1), AgentTable(L, 2, pos[2], a2))
                         IN FinalRows(L, pos, j)
  /\ UNCHANGED <<lid, pos>>
JoinAgents ==
  /\ phase = "agents" /\ phase' = "joint"
  /\ tab' = JointRows(tab[1], tab[2])
  /\ UNCHANGED <<lid, pos, ja>>
Interact ==
  /\ phase = "joint" /\ phase' = "final"
  /\ tab' = FinalRows(L, pos, tab)
  /\ UNCHANGED <<lid, pos, ja>>
Sample ==
  /\ phase = "final" /\ phase' = "state"
  /\ \E r \in 1..Len(tab) : pos' = tab[r].vals
  /\ ja' = NoJa /\ tab' = <<>>
  /\ UNCHANGED lid
Next == Choose \/ JoinAgents \/ Interact \/ Sample
Spec == Init /\ [][Next]_gvars

\* ------------------------------------------------------------------ emission (pipeline A)
Emit ==
  phase = "final" =>
    PrintT(ToJson([lid |-> lid, s |-> pos, ja |-> ja,
                   rows |-> [r \in 1..Len(tab) |-> [n |-> tab[r].vals, w |-> tab[r].w,
                                                    rew |-> Reward(L, pos, ja, tab[r].vals)]]]))

\* ------------------------------------------------------------------ (P) properties of the design
Final == phase = "final"
Outcomes == {tab[r].vals : r \in 1..Len(tab)}
Free == pos # T /\ ~Absorbing(L, pos)
NoSharedCell     == Final => \A n \in Outcomes : ~Shared(L, n)
NoSwap           == (Final /\ Free) => \A n \in Outcomes : ~Swapped(pos, n)
InGrid           == Final => \A n \in Outcomes : ~OffGrid(L, n)
NotInObstacle    == Final => \A n \in Outcomes : ~InObstacle(L, n)
NotThroughWall   == (Final /\ Free) => \A n \in Outcomes : ~ThroughWall(L, pos, n)
OneCellCommanded == (Final /\ Free) => \A n \in Outcomes : n # T /\ ~BadMove(pos, ja, n)
GoalLeadsToTerminal == (Final /\ pos # T /\ Absorbing(L, pos)) => Outcomes = {T}
TerminalAbsorbing   == (Final /\ pos = T) => Outcomes = {T} /\ Reward(L, pos, ja, T) = <<0, 0>>
\* the whole relation at once (what the trace validation uses)
WithinMove       == Final => \A n \in Outcomes : Move(L, pos, ja, n)
\* the distribution can be normalised: some row survives, all surviving weights are positive, no row twice
Normalisable ==
  Final => /\ Len(tab) > 0
           /\ \A r \in 1..Len(tab) : tab[r].w[1] > 0 /\ tab[r].w[2] > 0
           /\ \A r1, r2 \in 1..Len(tab) : tab[r1].vals = tab[r2].vals => r1 = r2
\* every reachable state is physically valid
StateValid ==
  (phase = "state" /\ pos # T) =>
     /\ \A i \in Agents : InGridC(L, pos[i]) /\ pos[i] \notin Obst(L)
     /\ ~Shared(L, pos)
\* per-agent move tables are distributions: weights of the distinct rows sum to the denominator
\* (when the move is masked by an obstacle or a wall only the "stay" row is left)
AgentTablesNormalised ==
  phase = "agents" =>
     \A i \in Agents :
        LET m == tab[i]
            c == pos[i]
            t == Target(L, c, ja[i]) IN
        /\ NRows(m) > 0
        /\ WOf(m, AsgOf(<<i>>, <<c>>)) > 0
        /\ IF t \in Obst(L) \/ <<c, t>> \in Walls(L) \/ t = c
           THEN Asgs(m) = {AsgOf(<<i>>, <<c>>)}
           ELSE DupFree(m) /\ Total(m) = m.den /\ Asgs(m) \subseteq {AsgOf(<<i>>, <<c>>), AsgOf(<<i>>, <<t>>)}
\* a fence crossed by an agent that nothing else blocks succeeds with probability p * (1 - EPS) exactly
FenceSuccessExact ==
  phase = "agents" =>
     \A i \in Agents :
        LET c == pos[i]
            t == Target(L, c, ja[i])
            m == tab[i] IN
        (<<c, t>> \in Fences(L) /\ t \notin Obst(L) /\ <<c, t>> \notin Walls(L)) =>
           /\ m.den = EPSD * L.PD * L.PD
           /\ WOf(m, AsgOf(<<i>>, <<t>>)) = (EPSD - 1) * L.PN * L.PD
LayoutsWellFormed == LayoutWellFormed(L)
=============================================================================
