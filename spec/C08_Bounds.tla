----------------------------- MODULE C08_Bounds -----------------------------
(* Property C08: PBVI never over-estimates and QMDP never under-estimates the optimal      *)
(* POMDP value; greedy action distributions; QMDP = belief-weighted Q*_MDP; with fully     *)
(* revealing observations both coincide with the optimum up to the slack.                  *)
(*                                                                                        *)
(* (M) abstract problem: a discounted tabular POMDP instance (spec/lib/POMDP.tla) from a   *)
(*     JSON batch, with a list of evaluation beliefs (integer weight vectors), a list of   *)
(*     PBVI jobs (belief set in the order the code sees it, threshold EN/ED, horizon),     *)
(*     recorded belief-set expansions and recorded action distributions.                   *)
(* (O) exact oracle:                                                                       *)
(*     - V*_MDP, Q*_MDP of the underlying MDP (MDP!OptimalValue / QFromV);                 *)
(*     - values of the blind (one fixed action forever) policies (MDP!PolicyValue);        *)
(*     - depth-d expectimax on UNNORMALISED integer beliefs (the optimal value function is *)
(*       positively homogeneous: W(c w) = c W(w)):                                         *)
(*         W_d(w) = max_a [ r(w,a) + gamma * Sum_o W_{d-1}(Post(w,a,o)) ]                  *)
(*       with the upper leaf  Sum_s w_s V*_MDP(s)  and the lower leaf  max_a Sum_s w_s     *)
(*       V^{blind a}(s):  Lo_d <= V* <= Hi_d.  All numbers are integers over the common    *)
(*       denominator Den(d) = LD * (GD*PD*OD)^d (LD = lcm of the leaf denominators).       *)
(*       Absorbing states (explicit or implicit) end the episode: mass on them earns       *)
(*       nothing and is not propagated (POMDPPolicy.run_on stops there).                   *)
(* (R) reference machine, one action per step of the code:                                 *)
(*     Prep        evaluate the oracle once for the instance (kept in `orc`)               *)
(*     Start(j,t)  one call point_based_value_iteration(pomdp, belief_set, eps, horizon):  *)
(*                 alpha vectors := 0, one per belief; horizon None -> Pineau's formula    *)
(*     Backup      one pass of the `for i in range(horizon)` loop: point-based backup of   *)
(*                 every belief (best previous alpha per (action, observation, belief),    *)
(*                 observations summed, reward added, discount, best action per belief),   *)
(*                 then the convergence test delta < eps which breaks BEFORE assigning     *)
(*                 (a planner object that planned another POMDP before must behave like a *)
(*                 fresh one: planner-reuse histories are replayed against the same machine)*)
(*     Expand(i)   one recorded call expand_beliefs(pomdp, B) -> B' (trace validation)     *)
(*     Greedy(i)   one recorded call policy.action_dist(b) (trace validation)              *)
(*     argmax ties are resolved by position (np.argmax = first); t = "last" is explored    *)
(*     as well so that the invariants do not depend on the tie rule.                       *)
(*     Alpha vectors are integers over (PD*OD*GD)^k after k backups.                       *)
(* (P) invariants at the bottom:                                                          *)
(*     NeverOver      alpha.b <= Hi_d(b) + SlackUp(k) in every state of every backup run    *)
(*     ClosedExact    on a successor-closed belief set the backup is exact at the members  *)
(*     BracketSane    Lo_{d-1} <= Lo_d <= Hi_d <= Hi_{d-1}, per action too                 *)
(*     QMDPUpper      QMDP = Hi_1 >= Hi_d;  FullObsTight  revealing observations: Hi_d = Hi_1*)
(*     AlphaShape, HorizonRespected, Terminates, InstancesWellFormed                        *)
(*     Emit prints what the real code has to satisfy (pipeline A) and the verdicts on the    *)
(*     recorded expansions / action distributions (pipeline B).                              *)
(*                                                                                        *)
(* Batch record = POMDP instance fields (spec/lib/POMDP.tla, states restricted to the        *)
(* state list of the code) plus                                                            *)
(*   d          expectimax depth (chosen by the harness so that all integers fit 30 bits)   *)
(*   beliefs    evaluation beliefs, integer weight vectors                                 *)
(*   aord       the abstract actions in the order of the code's action_list (tie rule)      *)
(*   jobs       [bs, EN, ED, H, exact]: belief set in the code's row order, threshold EN/ED, *)
(*              horizon (H = -1: None), exact = 1 iff the exact machine may run (numbers     *)
(*              fit, horizon <= HCAP); otherwise only Closed / InSet / Covered are emitted   *)
(*   expands    [from, to, exact]: recorded expand_beliefs calls (exact = 2: all farthest     *)
(*              successors added; 1: a non-empty part of them; 0: membership only)          *)
(*   rare       transitions <<s, a, n>> of negligible positive probability (see Covered)     *)
(*   greedy     [rank, supp, wn, wd]: recorded action_dist calls - dense ranks of the        *)
(*              policy's own action values, reported support and probabilities wn/wd        *)
(* IOEnv.TIES = "both" explores the second tie rule as well.                                 *)
EXTENDS POMDP, Json, IOUtils

Batch == JsonDeserialize(IOEnv.BATCH_FILE)

VARIABLES iid,    \* instance
          phase,  \* "new" | "ready" | "run" | "stopped" | "horizon" | "nohorizon" | "skipped"
                  \* | "expanded" | "unexplained" | "greedy"
          orc,    \* oracle bundle of the instance (a function of iid, evaluated once by Prep)
          jt,     \* "none" | "pbvi" | "expand" | "greedy"
          jx,     \* index of the job / record
          tb,     \* tie rule "first" | "last"
          k,      \* number of assignments of the alpha vectors so far (bounded by the horizon of the job)
          bv,     \* alpha vectors, one per belief of the job: integers over Sc^k
          tied,   \* some argmax so far had more than one maximiser, or some stop test hit delta = eps exactly
          out     \* result record of the finished job
vars == <<iid, phase, orc, jt, jx, tb, k, bv, tied, out>>

M == Batch[iid]

\* ------------------------------------------------------------------ small helpers
RECURSIVE Pow(_, _)
Pow(b, e) == IF e = 0 THEN 1 ELSE Safe(b * Pow(b, e - 1))
RECURSIVE MaxTo(_, _)
MaxTo(f, n) == IF n = 1 THEN f[1] ELSE MaxI(f[n], MaxTo(f, n - 1))
RECURSIVE LCMTo(_, _)
LCMTo(f, n) == IF n = 0 THEN 1 ELSE Safe(LCM(f[n], LCMTo(f, n - 1)))
Dot(m, w, x) == SumTo([s \in St(m) |-> IF w[s] = 0 THEN 0 ELSE Safe(w[s] * x[s])], m.N)
W(m, v) == TLCEval([s \in St(m) |-> v[s]])     \* JSON array -> function on St(m)
Sc(m) == m.PD * m.OD * m.GD
\* expected one-step reward numerator over PD (declared rows, unmasked)
Rsa(m, s, a) == SumTo([n \in St(m) |-> m.P[s][a][n] * m.R[s][a][n]], m.N)

\* ------------------------------------------------------------------ (O) oracle
Blind(m, a) == [s \in NonAbs(m) |-> [b \in Ac(m) |-> IF b = a THEN 1 ELSE 0]]
\* every observation reveals the next state: no (action, observation) is compatible with two states
FullObs(m) == \A a \in Ac(m) : \A o \in Ob(m) : Cardinality({n \in St(m) : m.O[a][n][o] > 0}) <= 1

\* More than three non-absorbing states: the closed-form solver of Num.tla does not reach, so the batch carries
\* the values (computed by the harness) and TLC CERTIFIES them: the optimal value function of a discounted MDP is
\* the unique solution of the optimality equation, the value of a fixed-action policy the unique solution of its
\* evaluation equation.  A wrong hint is an evaluation error (machinery failure), never a verdict.
Hinted(m) == "vhint" \in DOMAIN m
CertifiedV(m) ==
  LET v == TLCEval([s \in St(m) |-> <<m.vhint[s][1], m.vhint[s][2]>>]) IN
  IF \A s \in St(m) :
        IF s \in ExplAbs(m) THEN v[s] = <<0, 1>>
        ELSE REq(v[s], RMaxSet({QFromV(m, v, s, a) : a \in Avail(m, s)}))
  THEN v ELSE Assert(FALSE, "hinted optimal values do not solve the optimality equation")
CertifiedBlind(m, a) ==
  LET v == TLCEval([s \in St(m) |-> <<m.blhint[a][s][1], m.blhint[a][s][2]>>]) IN
  IF \A s \in St(m) : IF s \in ExplAbs(m) THEN v[s] = <<0, 1>> ELSE REq(v[s], QFromV(m, v, s, a))
  THEN v ELSE Assert(FALSE, "hinted blind-policy values do not solve the evaluation equation")

Consts(m) ==
  LET na  == St(m) \ AbsAll(m)
      vs  == IF Hinted(m) THEN CertifiedV(m) ELSE OptimalValue(m)
      qs  == TLCEval([s \in St(m) |-> TLCEval([a \in Ac(m) |-> IF s \in ExplAbs(m) THEN <<0, 1>> ELSE QFromV(m, vs, s, a)])])
      bl  == TLCEval([a \in Ac(m) |-> IF Hinted(m) THEN CertifiedBlind(m, a) ELSE TLCEval(PolicyValue(m, Blind(m, a), 1))])
      LD  == LCMTo([i \in 1..(m.N * (m.K + 1)) |->
                      IF i <= m.N THEN vs[i][2] ELSE bl[((i - m.N - 1) \div m.N) + 1][((i - m.N - 1) % m.N) + 1][2]],
                   m.N * (m.K + 1))
      rs  == TLCEval([s \in St(m) |-> TLCEval([a \in Ac(m) |-> Rsa(m, s, a)])])
      rna == {rs[s][a] : s \in na, a \in Ac(m)}
  IN [na  |-> na,
      vs  |-> vs, qs |-> qs, bl |-> bl, LD |-> LD,
      ub  |-> TLCEval([s \in St(m) |-> vs[s][1] * (LD \div vs[s][2])]),
      lb  |-> TLCEval([a \in Ac(m) |-> TLCEval([s \in St(m) |-> bl[a][s][1] * (LD \div bl[a][s][2])])]),
      rs  |-> rs,
      \* extremes of the expected reward of a step from a non-absorbing state, numerators over PD
      rmin |-> IF rna = {} THEN 0 ELSE MinSet(rna),
      rmax |-> IF rna = {} THEN 0 ELSE MaxSet(rna),
      \* extremes over ALL listed states (what the automatic horizon of the code looks at)
      rlo |-> MinSet({rs[s][a] : s \in St(m), a \in Ac(m)}),
      rhi |-> MaxSet({rs[s][a] : s \in St(m), a \in Ac(m)}),
      den |-> TLCEval([d \in 0..m.d |-> Safe(LD * Pow(Sc(m), d))]),
      full |-> FullObs(m)]

\* masked joint weight of (next state n, observation o): sources on absorbing states are dropped
PostM(m, c, w, a, o) ==
  TLCEval([n \in St(m) |->
     IF m.O[a][n][o] = 0 THEN 0
     ELSE Safe(SumTo([s \in St(m) |-> IF w[s] = 0 \/ s \notin c.na THEN 0 ELSE Safe(w[s] * m.P[s][a][n])], m.N) * m.O[a][n][o])])
RewM(m, c, w, a) == SumTo([s \in St(m) |-> IF w[s] = 0 \/ s \notin c.na THEN 0 ELSE Safe(w[s] * c.rs[s][a])], m.N)
Dead(m, c, w) == \A s \in c.na : w[s] = 0

\* <<lo, hi>> numerators over c.den[d] (NOT divided by the total weight of w)
RECURSIVE EM(_, _, _, _)
RECURSIVE EMQ(_, _, _, _, _)
EM(m, c, w, d) ==
  IF Dead(m, c, w) THEN <<0, 0>>
  ELSE IF d = 0 THEN <<MaxTo([a \in Ac(m) |-> Dot(m, w, c.lb[a])], m.K), Dot(m, w, c.ub)>>
  ELSE LET qa == TLCEval([a \in Ac(m) |-> EMQ(m, c, w, d, a)])
       IN <<MaxTo([a \in Ac(m) |-> qa[a][1]], m.K), MaxTo([a \in Ac(m) |-> qa[a][2]], m.K)>>
EMQ(m, c, w, d, a) ==
  LET r  == Safe(RewM(m, c, w, a) * Safe(m.GD * m.OD * c.den[d - 1]))
      \* masked one-step prediction, shared by the observations
      pr == TLCEval([n \in St(m) |-> SumTo([s \in St(m) |-> IF w[s] = 0 \/ s \notin c.na THEN 0 ELSE Safe(w[s] * m.P[s][a][n])], m.N)])
      ch == TLCEval([o \in Ob(m) |->
               EM(m, c, TLCEval([n \in St(m) |-> IF m.O[a][n][o] = 0 THEN 0 ELSE Safe(pr[n] * m.O[a][n][o])]), d - 1)])
  IN <<Safe(r + Safe(m.GN * SumTo([o \in Ob(m) |-> ch[o][1]], m.NO))),
       Safe(r + Safe(m.GN * SumTo([o \in Ob(m) |-> ch[o][2]], m.NO)))>>

\* everything the conformance step needs about one evaluation belief
BeliefOracle(m, c, w) ==
  LET tot == BSum(m, w)
      d   == m.d
      qa  == TLCEval([a \in Ac(m) |-> EMQ(m, c, w, d, a)])
      lo  == MaxTo([a \in Ac(m) |-> qa[a][1]], m.K)
      hi  == MaxTo([a \in Ac(m) |-> qa[a][2]], m.K)
      p   == EM(m, c, w, d - 1)
      h1  == EM(m, c, w, 1)
      dd  == Safe(c.den[d] * tot)
  IN [lo |-> Norm(lo, dd), hi |-> Norm(hi, dd),
      qlo |-> [a \in Ac(m) |-> Norm(qa[a][1], dd)], qhi |-> [a \in Ac(m) |-> Norm(qa[a][2], dd)],
      \* one level less (bracket monotonicity) and depth one (= the QMDP value)
      plo |-> Norm(p[1], Safe(c.den[d - 1] * tot)), phi |-> Norm(p[2], Safe(c.den[d - 1] * tot)),
      h1  |-> Norm(h1[2], Safe(c.den[1] * tot)),
      \* QMDP: belief-weighted optimal action values of the underlying MDP
      qmdp |-> [a \in Ac(m) |-> RMul(RSumTo([s \in St(m) |-> RScale(w[s], c.qs[s][a])], m.N), <<1, tot>>)],
      \* mass on an absorbing state whose declared rows are not "self-loop, reward 0" (ghost dynamics)
      ghostmass |-> \E s \in BSupp(m, w) : s \in ExplAbs(m) /\
                       \E a \in Ac(m) : m.P[s][a][s] # m.PD \/ c.rs[s][a] # 0]

Oracle(m) ==
  LET c == Consts(m) IN
  [c |-> c,
   b |-> TLCEval([i \in 1..Len(m.beliefs) |-> BeliefOracle(m, c, W(m, m.beliefs[i]))])]

\* slack of the statement: a k-step plan followed by anything is worth at least its k-step value
\* plus gamma^k * min(0, rmin) / (1 - gamma); k-step optimal values are within gamma^k * max(0, rmax) / (1 - gamma)
GammaPow(m, kk) == Norm(Pow(m.GN, kk), Pow(m.GD, kk))
SlackUp(m, c, kk) == RMul(GammaPow(m, kk), Norm(Safe(MaxI(0, -c.rmin) * m.GD), Safe(m.PD * (m.GD - m.GN))))
SlackLo(m, c, kk) == RMul(GammaPow(m, kk), Norm(Safe(MaxI(0, c.rmax) * m.GD), Safe(m.PD * (m.GD - m.GN))))

\* ------------------------------------------------------------------ (R) point-based backup
JobBs(m, j) == TLCEval([i \in 1..Len(m.jobs[j].bs) |-> W(m, m.jobs[j].bs[i])])
ZeroAlpha(m, nb) == TLCEval([p \in 1..nb |-> TLCEval([s \in St(m) |-> 0])])
PosOf(m, a) == CHOOSE p \in 1..m.K : m.aord[p] = a
\* Pineau's horizon: ceil(log(eps / (rhi - rlo)) / log(gamma)) = least h with gamma^h (rhi - rlo) <= eps.
\* With rhi = rlo (the code divides by machine epsilon instead) the threshold exceeds the reward range: h = 0,
\* like whenever eps >= rhi - rlo: no backup is performed and the zero alpha vectors are returned.
\* HCAP + 1: more than HCAP (the machine does not run)
HCAP == 8
\* gamma^h (rhi - rlo) / PD as a rational
Shrunk(m, c, h) == RMul(Norm(Pow(m.GN, h), Pow(m.GD, h)), Norm(c.rhi - c.rlo, m.PD))
AutoH(m, c, job) ==
  IF c.rhi = c.rlo THEN 0
  ELSE LET ok(h) == RLeq(Shrunk(m, c, h), <<job.EN, job.ED>>)
       IN IF \E h \in 0..HCAP : ok(h) THEN CHOOSE h \in 0..HCAP : ok(h) /\ \A g \in 0..(h - 1) : ~ok(g)
          ELSE HCAP + 1
\* the formula hits a power of gamma exactly: floating point may round either way (generator avoids it)
AutoHExact(m, c, job) ==
  c.rhi # c.rlo /\ \E h \in 0..HCAP : REq(Shrunk(m, c, h), <<job.EN, job.ED>>)
Horizon(m, c, job) == IF job.H >= 0 THEN job.H ELSE AutoH(m, c, job)

\* position based argmax over 1..n
ArgFirst(f, n) == CHOOSE i \in 1..n : (\A j \in 1..n : f[j] <= f[i]) /\ (\A j \in 1..(i - 1) : f[j] < f[i])
ArgLast(f, n)  == CHOOSE i \in 1..n : (\A j \in 1..n : f[j] <= f[i]) /\ (\A j \in (i + 1)..n : f[j] < f[i])
Arg(t, f, n) == IF t = "first" THEN ArgFirst(f, n) ELSE ArgLast(f, n)
NMax(f, n) == Cardinality({i \in 1..n : f[i] = MaxTo(f, n)})

\* one pass of the loop body on alpha vectors X (over Sc^kk) for the belief list bs.
\* returns the new alpha vectors (over Sc^(kk+1)), the chosen action per belief, a tie flag and the stop test
BackupAll(m, c, job, bs, X, kk, t) ==
  LET nb == Len(bs)
      sk == Pow(Sc(m), kk)
      \* aops_fut_vf[a,o,p,s] = Sum_n T[s,a,n] O[a,n,o] bv[p,n]   (masked rows are zero)
      G  == TLCEval([p \in 1..nb |-> TLCEval([a \in Ac(m) |-> TLCEval([o \in Ob(m) |-> TLCEval([s \in St(m) |->
               IF s \notin c.na THEN 0
               ELSE SumTo([n \in St(m) |-> IF m.P[s][a][n] = 0 \/ m.O[a][n][o] = 0 THEN 0
                                           ELSE Safe(m.P[s][a][n] * m.O[a][n][o] * X[p][n])], m.N)])])])])
      \* aobp_fut_vf[a,o,b,p] and its argmax over p
      sc == TLCEval([a \in Ac(m) |-> TLCEval([o \in Ob(m) |-> TLCEval([b \in 1..nb |->
               TLCEval([p \in 1..nb |-> Dot(m, bs[b], G[p][a][o])])])])])
      \* the alpha-vector choice always follows np.argmax (first); `t` only varies the action rule
      ps == TLCEval([a \in Ac(m) |-> TLCEval([o \in Ob(m) |-> TLCEval([b \in 1..nb |-> ArgFirst(sc[a][o][b], nb)])])])
      \* bsa_vf[b,s,a] = sa_rf[s,a] + gamma * Sum_o ...      (over Sc^(kk+1))
      Y  == TLCEval([a \in Ac(m) |-> TLCEval([b \in 1..nb |-> TLCEval([s \in St(m) |->
               IF s \notin c.na THEN 0
               ELSE Safe(Safe(c.rs[s][a] * Safe(m.OD * m.GD * sk))
                         + Safe(m.GN * SumTo([o \in Ob(m) |-> G[ps[a][o][b]][a][o][s]], m.NO)))])])])
      \* ba_vf[b,a] by position in the action list, argmax
      va == TLCEval([b \in 1..nb |-> TLCEval([p \in 1..m.K |-> Dot(m, bs[b], Y[m.aord[p]][b])])])
      ch == TLCEval([b \in 1..nb |-> m.aord[Arg(t, va[b], m.K)]])
      nX == TLCEval([b \in 1..nb |-> Y[ch[b]][b]])
      \* a tie matters when a tied candidate is a different vector than the chosen one
      tie == \/ \E b \in 1..nb : \E p \in 1..m.K :
                   va[b][p] = va[b][PosOf(m, ch[b])] /\ Y[m.aord[p]][b] # nX[b]
             \/ \E a \in Ac(m) : \E o \in Ob(m) : \E b \in 1..nb : \E p \in 1..nb :
                   sc[a][o][b][p] = sc[a][o][b][ps[a][o][b]] /\ G[p][a][o] # G[ps[a][o][b]][a][o]
      \* delta = max_b |bv.b - new_bv.b| < eps   (both sides over BSum(b) * Sc^(kk+1) * ED)
      small == \A b \in 1..nb :
                 Safe(AbsI(Safe(Dot(m, bs[b], X[b]) * Sc(m)) - Dot(m, bs[b], nX[b])) * job.ED)
                   < Safe(Safe(job.EN * BSum(m, bs[b])) * Safe(sk * Sc(m)))
      \* delta = eps exactly: a mutated comparison (<=) would behave differently
      edge  == \E b \in 1..nb :
                 Safe(AbsI(Safe(Dot(m, bs[b], X[b]) * Sc(m)) - Dot(m, bs[b], nX[b])) * job.ED)
                   = Safe(Safe(job.EN * BSum(m, bs[b])) * Safe(sk * Sc(m)))
  IN [X |-> nX, acts |-> ch, tie |-> tie, small |-> small, edge |-> edge]

\* value of the alpha vectors at a weight vector, as a rational
AlphaSetValue(m, X, nb, kk, w) ==
  Norm(MaxTo([p \in 1..nb |-> Dot(m, w, X[p])], nb), Safe(BSum(m, w) * Pow(Sc(m), kk)))

\* canonical form of the part of a weight vector that lies on non-absorbing states
RedNA(m, c, w) == Reduce(m, [s \in St(m) |-> IF s \in c.na THEN w[s] ELSE 0])
\* every (masked) successor of w is, up to scaling and up to mass on absorbing states, a member of the
\* belief set; RS = the canonical non-absorbing parts of the members
RedSet(m, c, bs) == {RedNA(m, c, bs[i]) : i \in 1..Len(bs)}
\* m.rare lists transitions <<s, a, n>> of positive but negligible probability (1e-9 in the real POMDP): the
\* numbers P of the instance leave them out (values move by at most the harness's derived perturbation bound),
\* the STRUCTURE keeps them: with revealing observations such a step leads to the vertex of n, which is a
\* positive-probability successor belief like any other.
RareVertices(m, w) == {Vertex(m, m.rare[i][3]) : i \in {j \in 1..Len(m.rare) : w[m.rare[j][1]] > 0}}
Covered(m, c, RS, w) ==
  /\ \A a \in Ac(m) : \A o \in Ob(m) :
       LET p == RedNA(m, c, PostM(m, c, w, a, o)) IN Dead(m, c, p) \/ p \in RS
  /\ \A i \in 1..Len(m.rare) :
       (w[m.rare[i][1]] > 0 /\ m.rare[i][1] \in c.na /\ m.rare[i][3] \in c.na) => Vertex(m, m.rare[i][3]) \in RS
InSet(m, c, RS, w) == Dead(m, c, w) \/ RedNA(m, c, w) \in RS
Closed(m, c, bs) == LET RS == RedSet(m, c, bs) IN \A i \in 1..Len(bs) : Covered(m, c, RS, bs[i])

JobResult(m, c, j, t, X, kk, acts, ph, tieflag, edgeflag) ==
  LET bs == JobBs(m, j)
      nb == Len(bs)
      cl == Closed(m, c, bs)
      RS == RedSet(m, c, bs)
  IN [iid |-> iid, kind |-> "pbvi", job |-> j, tb |-> t, phase |-> ph, k |-> kk, scale |-> Pow(Sc(m), kk),
      alpha |-> X, acts |-> acts, tied |-> tieflag, edge |-> edgeflag, closed |-> cl,
      val  |-> [i \in 1..Len(m.beliefs) |-> AlphaSetValue(m, X, nb, kk, W(m, m.beliefs[i]))],
      inset |-> [i \in 1..Len(m.beliefs) |-> InSet(m, c, RS, W(m, m.beliefs[i]))],
      cov  |-> [i \in 1..Len(m.beliefs) |-> Covered(m, c, RS, W(m, m.beliefs[i]))]]

\* ------------------------------------------------------------------ (R) belief-set expansion (trace validation)
\* squared Euclidean distance between the normalised beliefs of two weight vectors, as a rational
Dist2(m, w, v) ==
  LET sw == BSum(m, w) sv == BSum(m, v) IN
  Norm(SumTo([s \in St(m) |-> LET x == Safe(w[s] * sv) - Safe(v[s] * sw) IN Safe(x * x)], m.N), Safe(Safe(sw * sv) * Safe(sw * sv)))
\* successors under the LITERAL filter (declared rows of absorbing states included): what next_beliefs enumerates
Succs(m, w) == UNION {BSucc(m, w, a) : a \in Ac(m)} \cup RareVertices(m, w)
\* farthest-successor rule: for each member, the successors whose distance to the set is maximal (if > 0)
Far(m, B, w) ==
  LET su == Succs(m, w)
      dm == [nb \in su |-> RMinSet({Dist2(m, nb, v) : v \in B})]
      mx == RMaxSet({dm[nb] : nb \in su})
  IN IF mx = <<0, 1>> THEN {} ELSE {nb \in su : REq(dm[nb], mx)}
\* membership only (cheap): every added belief is a new successor of a member
ExpandWeak(m, B, B2) ==
  /\ B \subseteq B2
  /\ \A nb \in B2 \ B : \E w \in B : nb \in Succs(m, w)
  /\ (B2 = B) <=> (\A w \in B : Succs(m, w) \subseteq B)
\* the rule of the code; ties in floating point distances may be split, so a non-empty part of Far is enough
ExpandExact(m, B, B2) ==
  /\ B \subseteq B2
  /\ \A nb \in B2 \ B : \E w \in B : nb \in Far(m, B, w)
  /\ \A w \in B : Far(m, B, w) # {} => Far(m, B, w) \cap B2 # {}
\* all probabilities and beliefs dyadic: floating point is exact, tied distances stay tied, every farthest
\* successor of every member is added - in particular none of positive probability may be dropped
ExpandAll(m, B, B2) == B2 = B \cup UNION {Far(m, B, w) : w \in B}

\* ------------------------------------------------------------------ (R) greedy action distribution (trace validation)
\* record: rank[a] (dense rank of the policy's own action value, position in action list), supp[a] in {0,1},
\* wn[a] / wd the reported probability
GreedyOK(g) ==
  LET n  == Len(g.rank)
      mx == MaxTo(g.rank, n)
      sp == {a \in 1..n : g.rank[a] = mx}
  IN /\ {a \in 1..n : g.supp[a] = 1} = sp
     /\ \A a \in sp : g.wn[a] * Cardinality(sp) = g.wd
     /\ \A a \in (1..n) \ sp : g.wn[a] = 0

\* ------------------------------------------------------------------ machine
Init ==
  /\ iid \in 1..Len(Batch)
  /\ phase = "new" /\ orc = <<>> /\ jt = "none" /\ jx = 0 /\ tb = "first"
  /\ k = 0 /\ bv = <<>> /\ tied = FALSE /\ out = <<>>

Prep ==
  /\ phase = "new"
  /\ orc' = Oracle(M)
  /\ phase' = "ready"
  /\ UNCHANGED <<iid, jt, jx, tb, k, bv, tied, out>>

TieRules == IF IOEnv.TIES = "both" THEN {"first", "last"} ELSE {"first"}

Start(j, t) ==
  /\ phase = "ready"
  /\ jt' = "pbvi" /\ jx' = j /\ tb' = t /\ k' = 0 /\ tied' = FALSE
  /\ bv' = ZeroAlpha(M, Len(M.jobs[j].bs))
  /\ LET h == Horizon(M, orc.c, M.jobs[j]) IN
     IF M.jobs[j].exact = 0 THEN
          /\ phase' = "skipped"
          /\ out' = LET RS == RedSet(M, orc.c, JobBs(M, j)) IN
                    [iid |-> iid, kind |-> "pbvi", job |-> j, tb |-> t, phase |-> "skipped", h |-> h,
                     closed |-> Closed(M, orc.c, JobBs(M, j)),
                     inset |-> [i \in 1..Len(M.beliefs) |-> InSet(M, orc.c, RS, W(M, M.beliefs[i]))],
                     cov |-> [i \in 1..Len(M.beliefs) |-> Covered(M, orc.c, RS, W(M, M.beliefs[i]))]]
     ELSE IF h = 0 THEN
          /\ phase' = "nohorizon"
          /\ out' = JobResult(M, orc.c, j, t, ZeroAlpha(M, Len(M.jobs[j].bs)), 0, <<>>, "nohorizon", FALSE, FALSE)
     ELSE /\ phase' = "run" /\ out' = <<>>
  /\ UNCHANGED <<iid, orc>>

Backup ==
  /\ phase = "run"
  /\ LET job == M.jobs[jx]
         h   == Horizon(M, orc.c, job)
         r   == BackupAll(M, orc.c, job, JobBs(M, jx), bv, k, tb)
         tf  == tied \/ r.tie \/ r.edge      \* anything floating point could decide differently
     IN IF r.small
        THEN /\ phase' = "stopped" /\ bv' = bv /\ k' = k /\ tied' = tf
             /\ out' = JobResult(M, orc.c, jx, tb, bv, k, r.acts, "stopped", tf, r.edge)
        ELSE /\ bv' = r.X /\ k' = k + 1 /\ tied' = tf
             /\ IF k + 1 = h
                THEN /\ phase' = "horizon"
                     /\ out' = JobResult(M, orc.c, jx, tb, r.X, k + 1, r.acts, "horizon", tf, r.edge)
                ELSE phase' = "run" /\ out' = <<>>
  /\ UNCHANGED <<iid, orc, jt, jx, tb>>

\* one recorded call of expand_beliefs: M.expands[i] = [from, to, exact]
AsSet(m, lst) == {Reduce(m, W(m, lst[i])) : i \in 1..Len(lst)}
Expand(i) ==
  /\ phase = "ready"
  /\ jt' = "expand" /\ jx' = i
  /\ LET e  == M.expands[i]
         B  == AsSet(M, e.from)
         B2 == AsSet(M, e.to)
         ok == IF e.exact = 2 THEN ExpandAll(M, B, B2) ELSE IF e.exact = 1 THEN ExpandExact(M, B, B2) ELSE ExpandWeak(M, B, B2)
     IN /\ phase' = IF ok THEN "expanded" ELSE "unexplained"
        /\ out' = [iid |-> iid, kind |-> "expand", rec |-> i, ok |-> ok, grew |-> B2 # B]
  /\ UNCHANGED <<iid, orc, tb, k, bv, tied>>

Greedy(i) ==
  /\ phase = "ready"
  /\ jt' = "greedy" /\ jx' = i /\ phase' = "greedy"
  /\ out' = [iid |-> iid, kind |-> "greedy", rec |-> i, ok |-> GreedyOK(M.greedy[i])]
  /\ UNCHANGED <<iid, orc, tb, k, bv, tied>>

Next ==
  \/ Prep
  \/ \E j \in 1..Len(M.jobs) : \E t \in TieRules : Start(j, t)
  \/ Backup
  \/ \E i \in 1..Len(M.expands) : Expand(i)
  \/ \E i \in 1..Len(M.greedy) : Greedy(i)
Spec == Init /\ [][Next]_vars

\* ------------------------------------------------------------------ emission (pipeline A / B)
OracleRecord(m) ==
  [iid |-> iid, kind |-> "oracle", full |-> orc.c.full, LD |-> orc.c.LD,
   rmin |-> <<orc.c.rmin, m.PD>>, rmax |-> <<orc.c.rmax, m.PD>>,
   q |-> orc.c.qs, v |-> orc.c.vs, bl |-> orc.c.bl,
   na |-> orc.c.na, b |-> orc.b]
Emit ==
  /\ phase = "ready" => PrintT(ToJson(OracleRecord(M)))
  /\ phase \in {"stopped", "horizon", "nohorizon", "skipped", "expanded", "unexplained", "greedy"}
        => PrintT(ToJson(out))

\* ------------------------------------------------------------------ (P) properties of the design (MC)
Live == phase \in {"run", "stopped", "horizon", "nohorizon"}
NB == Len(M.jobs[jx].bs)
BelW(i) == W(M, M.beliefs[i])
\* (P1) the alpha vectors never over-estimate: at every evaluation belief and at every belief of the job,
\*      max_alpha alpha.b <= Hi_d(b) + SlackUp(k); for the members of the job only the cheaper
\*      consequence alpha.b <= QMDP(b) + SlackUp(k) is evaluated
NeverOver ==
  Live =>
     /\ \A i \in 1..Len(M.beliefs) :
          RLeq(AlphaSetValue(M, bv, NB, k, BelW(i)), RAdd(orc.b[i].hi, SlackUp(M, orc.c, k)))
     /\ \A i \in 1..NB :
          LET w  == JobBs(M, jx)[i]
              h1 == EM(M, orc.c, w, 1)
          IN BSum(M, w) > 64 \/ RLeq(AlphaSetValue(M, bv, NB, k, w),
                  RAdd(Norm(h1[2], Safe(orc.c.den[1] * BSum(M, w))), SlackUp(M, orc.c, k)))
\* (P2) on a belief set that is closed under (masked) successors the point-based backup is exact: at a
\*      member, the value is the optimal k-step value, hence within SlackLo(k) below / SlackUp(k) above of
\*      anything between Lo_d and Hi_d
ClosedExact ==
  (Live /\ Closed(M, orc.c, JobBs(M, jx))) =>
     LET RS == RedSet(M, orc.c, JobBs(M, jx)) IN
     \A i \in 1..Len(M.beliefs) : InSet(M, orc.c, RS, BelW(i)) =>
        RLeq(RSub(orc.b[i].lo, SlackLo(M, orc.c, k)), AlphaSetValue(M, bv, NB, k, BelW(i)))
\* (P3) the bracket is a bracket, and deeper is tighter
BracketSane ==
  phase # "new" => \A i \in 1..Len(M.beliefs) :
     LET b == orc.b[i] IN
     /\ RLeq(b.lo, b.hi) /\ RLeq(b.plo, b.lo) /\ RLeq(b.hi, b.phi)
     /\ \A a \in Ac(M) : RLeq(b.qlo[a], b.qhi[a])
\* (P4) QMDP is the depth-one upper bound: it dominates every deeper one, hence the optimum
QMDPUpper ==
  phase # "new" => \A i \in 1..Len(M.beliefs) :
     LET b == orc.b[i] IN
     /\ REq(RMaxSet({b.qmdp[a] : a \in Ac(M)}), b.h1)
     /\ RLeq(b.hi, b.h1)
     /\ \A a \in Ac(M) : RLeq(b.qhi[a], b.qmdp[a])
\* (P5) when every observation reveals the state the upper bound is already exact at depth one
FullObsTight ==
  (phase # "new" /\ orc.c.full) => \A i \in 1..Len(M.beliefs) : REq(orc.b[i].hi, orc.b[i].h1)
\* (P6) shape of the alpha vectors: zero at absorbing states, bounded like k-step returns
AlphaShape ==
  Live => \A p \in 1..NB : \A s \in St(M) :
     /\ s \notin orc.c.na => bv[p][s] = 0
     /\ LET rb == MaxSet({AbsI(orc.c.rs[t][a]) : t \in St(M), a \in Ac(M)}) IN
        \* |alpha| <= (rb/PD) (1 - gamma^k)/(1 - gamma) <= rb GD / (PD (GD - GN))
        Safe(AbsI(bv[p][s]) * Safe(M.PD * (M.GD - M.GN))) <= Safe(Safe(rb * M.GD) * Pow(Sc(M), k))
\* (P7) the machine stays inside its horizon and ends
HorizonRespected ==
  phase \in {"run", "stopped", "horizon"} =>
     LET h == Horizon(M, orc.c, M.jobs[jx]) IN
     /\ k <= h /\ (phase = "horizon" <=> k = h) /\ (phase = "run" => k < h)
Terminates == (phase = "run") => ENABLED Backup
\* instance filter
InstancesWellFormed ==
  /\ PWellFormed(M) /\ Discounted(M) /\ M.d >= 1
  /\ \A i \in 1..Len(M.beliefs) : BSum(M, W(M, M.beliefs[i])) > 0 /\ \A s \in St(M) : M.beliefs[i][s] >= 0
  /\ {M.aord[p] : p \in 1..M.K} = Ac(M)
  /\ \A j \in 1..Len(M.jobs) :
        /\ Len(M.jobs[j].bs) >= 1
        /\ \A i \in 1..Len(M.jobs[j].bs) : BSum(M, W(M, M.jobs[j].bs[i])) > 0
        /\ (phase # "new" /\ M.jobs[j].H < 0) => ~AutoHExact(M, orc.c, M.jobs[j])
  /\ Len(M.rare) > 0 => FullObs(M)
  /\ \A i \in 1..Len(M.rare) :
        /\ M.rare[i][1] \in St(M) /\ M.rare[i][2] \in Ac(M) /\ M.rare[i][3] \in St(M)
        /\ M.P[M.rare[i][1]][M.rare[i][2]][M.rare[i][3]] = 0
=============================================================================
