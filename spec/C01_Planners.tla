--------------------------- MODULE C01_Planners ---------------------------
(* Property C01: value iteration (array and dictionary implementations) and policy       *)
(* iteration return optimal values and policies.                                        *)
(*                                                                                      *)
(* (O) oracle: MDP!OptimalValue / OptimalQ (exact rationals, policy enumeration).        *)
(* (R) reference machines, one action per sweep of the real algorithms:                 *)
(*     VIvec  - array implementation: backup, stop when |V' - V| <= eps everywhere      *)
(*              *before* assigning, so it returns the old V and Q(old V)                *)
(*     VIdict - dictionary implementation: assign, stop when max |V' - V| < eps         *)
(*     PI     - policy iteration on "uniform over exact ties" policies with exact       *)
(*              evaluation; stops when the tie-sharing policy repeats                   *)
(*     All three work on the *masked* model the code builds: rows of absorbing states    *)
(*     (explicit or implicit) and, when undiscounted, of states that cannot reach an     *)
(*     absorbing state are zeroed.                                                       *)
(* (P) invariants: see the bottom of the module.                                        *)
(*     Call histories: a batch entry with algs = <<"warm">> and a field next stands for   *)
(*     an earlier plan_on call of the same planner object on another MDP; Replan starts   *)
(*     the follow-up call in the initial state of its machine (planner objects carry      *)
(*     nothing from one call to the next).                                                *)
(*     Near-one discounts (field near = 1): discount 1 - 1/D with D ~ 1e5, on a shape     *)
(*     whose optimal values are integers over PD (NearOracle).                            *)
(* Modes (IOEnv.MODE): "mc" explores the machines over the batch and emits, per          *)
(* (instance, machine), the exact result the code must produce; "judge" reads policies   *)
(* returned by the real planners and evaluates them exactly (pipeline B, one Plan event).*)
EXTENDS MDP, Json, IOUtils, SequencesExt

Mode  == IOEnv.MODE

\* ------------------------------------------------------------------ exhaustive small family (mode "family")
\* all MDPs with two non-absorbing states 1, 2 and one explicitly absorbing state 3, two actions, every
\* transition row a composition of 2 over the three states, rewards per (state, action) from a menu,
\* state 2 with one or two available actions; discount 1/2 (rewards -1..1) or 1 (rewards -2..0).
FamRows == <<<<2,0,0>>, <<0,2,0>>, <<0,0,2>>, <<1,1,0>>, <<1,0,1>>, <<0,1,1>>>>
FamOne  == IOEnv.FAMGAMMA = "one"
FamRew  == IF FamOne THEN <<-2, -1, 0>> ELSE <<-1, 0, 1>>
FamInst(r11, r12, r21, r22, w11, w12, w21, w22, av2) ==
  [N |-> 3, K |-> 2, PD |-> 2, GN |-> 1, GD |-> IF FamOne THEN 1 ELSE 2, ID |-> 2,
   abs |-> <<0, 0, 1>>, avail |-> <<<<1, 1>>, <<1, av2>>, <<1, 0>>>>,
   P |-> <<<<r11, r12>>, <<r21, r22>>, <<<<2,0,0>>, <<0,2,0>>>>>>,
   R |-> <<<<<<w11,w11,w11>>, <<w12,w12,w12>>>>, <<<<w21,w21,w21>>, <<w22,w22,w22>>>>, <<<<-1,-1,-1>>, <<1,1,1>>>>>>,
   p0 |-> <<1, 1, 0>>, EN |-> 1, ED |-> 16, CAP |-> 8, PICAP |-> 100000, explicit |-> 1,
   algs |-> <<"oracle", "vec", "dict", "pi">>]
\* the i-th member (0-based mixed-radix decoding: four rows base 6, four rewards base 3, one bit)
FamSize == 6 * 6 * 6 * 6 * 3 * 3 * 3 * 3 * 2
FamDecode(i) ==
  LET d(k, b) == (i \div k) % b IN
  FamInst(FamRows[d(1, 6) + 1], FamRows[d(6, 6) + 1], FamRows[d(36, 6) + 1], FamRows[d(216, 6) + 1],
          FamRew[d(1296, 3) + 1], FamRew[d(3888, 3) + 1], FamRew[d(11664, 3) + 1], FamRew[d(34992, 3) + 1],
          d(104976, 2))
FamMod == atoi(IOEnv.FAMMOD)
FamRem == atoi(IOEnv.FAMREM)

Batch == IF Mode = "family" THEN <<>> ELSE JsonDeserialize(IOEnv.BATCH_FILE)
Inst(i) == IF Mode = "family" THEN FamDecode(i - 1) ELSE Batch[i]
Slice == IF Mode = "family" THEN {i \in 1..FamSize : i % FamMod = FamRem} ELSE 1..Len(Batch)
\* residual EN/ED and iteration cap CAP are per-instance fields of the batch record

VARIABLES iid, alg, phase, k, V, Q, sup, opt
vars == <<iid, alg, phase, k, V, Q, sup, opt>>

M == Inst(iid)
Eps(m) == <<m.EN, m.ED>>
\* the state list the planner works on: given explicitly (all states) or inferred by reachability
Lst(m) == IF m.explicit = 1 THEN St(m) ELSE Reach(m)
\* masked rows: absorbing, cannot reach an absorbing state (undiscounted), or not in the state list
Masked(m) == AbsAll(m) \cup CannotReach(m) \cup (St(m) \ Lst(m))
Zero(m) == [s \in St(m) |-> <<0, 1>>]

\* one-step look-ahead on the masked model: masked rows are all zero, unavailable actions UNAV (-inf)
QStep(m, mk, v, s, a) ==
  IF a \notin Avail(m, s) THEN UNAV
  ELSE IF s \in mk THEN <<0, 1>>
  ELSE LET term(t) == IF m.P[s][a][t] = 0 THEN <<0, 1>>
                      ELSE Norm(m.P[s][a][t] * (m.R[s][a][t] * m.GD * v[t][2] + m.GN * v[t][1]), m.PD * m.GD * v[t][2])
       IN RSumTo([t \in St(m) |-> term(t)], m.N)
QTable(m, v) == LET mk == TLCEval(Masked(m)) IN TLCEval([s \in St(m) |-> [a \in Ac(m) |-> QStep(m, mk, v, s, a)]])
MaxQ(m, q, s) == RMaxSet({q[s][a] : a \in Avail(m, s)})
Backup(m, q) == [s \in St(m) |-> MaxQ(m, q, s)]
Diff(m, v1, v2) == RMaxSet({RAbs(RSub(v1[s], v2[s])) : s \in St(m)})

\* ------------------------------------------------------------------ the oracle bundle
Oracle(m) ==
  LET vs == OptimalValue(m) IN
  [v |-> vs, q |-> OptimalQ(m, vs), cannot |-> CannotReach(m), absall |-> AbsAll(m),
   \* a state that can reach an absorbing state but whose optimal value is -infinity: outside the value clause
   neginf |-> {s \in St(m) \ CannotReach(m) : vs[s] = NEG},
   \* signature predicate of finding "leak": an action of a state that can reach an absorbing state
   \* leads into a cannot-reach state whose true value is not 0 (the code counts it as 0)
   leaks |-> {s \in St(m) \ Masked(m) : \E a \in Avail(m, s) : \E t \in Succ(m, s, a) :
                 t \in CannotReach(m) /\ vs[t] # <<0, 1>>}]

\* ------------------------------------------------------------------ near-one discounts (field near = 1)
\* discount 1 - 1/D with D = GD ~ 1e5, closer to 1 than the window of numpy.isclose: the generic oracle
\* would leave 32-bit integers, so this family is restricted to a shape whose optimal values are integers
\* over PD:  T "loop" states - every available action is a pure self-loop paying R[t][a][t], so
\*           V(t) = D * max_a R[t][a][t];   U the other non-absorbing states - every available action
\*           leads into T and explicitly absorbing states only.
\* A discounted MDP has no cannot-reach states: loop states are worth r/(1-gamma), never a placeholder.
IsNear(m) == "near" \in DOMAIN m /\ m.near = 1
NearT(m) == {s \in NonAbs(m) : Avail(m, s) # {} /\ \A a \in Avail(m, s) : m.P[s][a][s] = m.PD}
NearU(m) == NonAbs(m) \ NearT(m)
NearOK(m) == /\ m.GN = m.GD - 1
             /\ \A u \in NearU(m) : /\ Avail(m, u) # {}
                                    /\ \A a \in Avail(m, u) : Succ(m, u, a) \subseteq NearT(m) \cup ExplAbs(m)
NearBest(m, t) == MaxSet({m.R[t][a][t] : a \in Avail(m, t)})
\* gamma * V(t) in whole units: (D - 1) * best reward of a loop state, 0 at an absorbing state
NearNext(m, t) == IF t \in NearT(m) THEN (m.GD - 1) * NearBest(m, t) ELSE 0
\* action values in units of 1/PD
NearQ2(m, s, a) == IF s \in NearT(m) THEN m.PD * (m.R[s][a][s] + NearNext(m, s))
                   ELSE SumTo([t \in St(m) |-> m.P[s][a][t] * (m.R[s][a][t] + NearNext(m, t))], m.N)
NearOracle(m) ==
  LET q == TLCEval([s \in St(m) |-> [a \in Ac(m) |->
              IF s \in ExplAbs(m) \/ a \notin Avail(m, s) THEN UNAV ELSE Norm(Safe(NearQ2(m, s, a)), m.PD)]])
      v == [s \in St(m) |-> IF s \in ExplAbs(m) THEN <<0, 1>> ELSE RMaxSet({q[s][a] : a \in Avail(m, s)})]
  IN [v |-> v, q |-> q, cannot |-> {}, absall |-> AbsAll(m), neginf |-> {}, leaks |-> {}]
OracleFor(m) == IF IsNear(m)
                THEN (IF NearOK(m) THEN NearOracle(m) ELSE Assert(FALSE, <<"near-one instance outside the family", m>>))
                ELSE Oracle(m)

\* ------------------------------------------------------------------ machine
\* the state in which a plan_on call on instance i with machine al starts
Start(i, al) ==
  [V |-> Zero(Inst(i)), Q |-> QTable(Inst(i), Zero(Inst(i))),
   sup |-> [s \in St(Inst(i)) |-> Avail(Inst(i), s)],
   opt |-> IF al \in {"pi", "judge", "warm"} THEN <<>> ELSE OracleFor(Inst(i))]
Init ==
  /\ iid \in Slice
  /\ alg \in (IF Mode = "judge" THEN {"judge"} ELSE Range(Inst(iid).algs))
  /\ phase = "run"
  /\ k = 0
  /\ LET st == Start(iid, alg) IN V = st.V /\ Q = st.Q /\ sup = st.sup /\ opt = st.opt

\* for i in range(CAP): q = Q(V); V1 = max q; if close: break; V = V1      -> returns V, q, i
VecSweep ==
  /\ alg = "vec" /\ phase = "run"
  /\ LET q  == QTable(M, V)
         v1 == Backup(M, q)
         close == \A s \in St(M) : ~RLess(Eps(M), RAbs(RSub(V[s], v1[s])))
     IN /\ Q' = q
        /\ IF close THEN V' = V /\ phase' = "done" /\ k' = k
           ELSE /\ V' = v1
                /\ IF k + 1 = M.CAP THEN phase' = "done" /\ k' = k ELSE phase' = "run" /\ k' = k + 1
  /\ UNCHANGED <<iid, alg, sup, opt>>

\* for i in range(CAP): q = Q(V); residual = max |V - max q|; V = max q; if residual < eps: break
DictSweep ==
  /\ alg = "dict" /\ phase = "run"
  /\ LET q  == QTable(M, V)
         v1 == Backup(M, q)
         small == RLess(Diff(M, V, v1), Eps(M))
     IN /\ Q' = q /\ V' = v1
        /\ IF small \/ k + 1 = M.CAP THEN phase' = "done" /\ k' = k ELSE phase' = "run" /\ k' = k + 1
  /\ UNCHANGED <<iid, alg, sup, opt>>

\* policy iteration on the masked model: evaluate the uniform-over-`sup` policy exactly, improve
PiCap(m) == IF "PICAP" \in DOMAIN m THEN m.PICAP ELSE m.CAP
UniformW(m, sp) == [s \in NonAbs(m) |-> [a \in Ac(m) |-> IF a \in sp[s] THEN 6 \div Cardinality(sp[s]) ELSE 0]]
\* the masked model as an instance: masked states become explicitly absorbing (value 0)
MaskedInst(m) == [m EXCEPT !.abs = [s \in St(m) |-> IF s \in Masked(m) THEN 1 ELSE 0]]
PISweep ==
  /\ alg = "pi" /\ phase = "run"
  /\ LET mm == MaskedInst(M)
         w  == UniformW(mm, sup)
         c  == Classify(mm, w)
     IN IF c.rec # {}    \* the iterate is trapped in a non-absorbing class: the linear system is singular
        THEN phase' = "singular" /\ UNCHANGED <<V, Q, sup, k>>
        ELSE LET v  == PolicyValue(mm, w, 6)
                 q  == QTable(M, v)
                 ns == [s \in St(M) |-> {a \in Avail(M, s) : q[s][a] = MaxQ(M, q, s)}]
             IN /\ V' = Backup(M, q) /\ Q' = q
                /\ IF ns = sup THEN phase' = "done" /\ k' = k /\ sup' = sup
                   ELSE IF k + 1 = PiCap(M) THEN phase' = "done" /\ k' = k /\ sup' = ns
                   ELSE phase' = "run" /\ k' = k + 1 /\ sup' = ns
  /\ UNCHANGED <<iid, alg, opt>>

OracleStep == alg = "oracle" /\ phase = "run" /\ phase' = "done" /\ UNCHANGED <<iid, alg, k, V, Q, sup, opt>>

\* pipeline B: the real planner returned the policy M.pol (support sets per state); evaluate it exactly
JudgeStep ==
  /\ alg = "judge" /\ phase = "run" /\ phase' = "done"
  /\ UNCHANGED <<iid, alg, k, V, Q, sup, opt>>

\* call histories: an earlier call of the same planner object on another MDP (whatever it computed) ...
HasNext(m) == "next" \in DOMAIN m /\ m.next > 0
WarmStep == alg = "warm" /\ phase = "run" /\ phase' = "done" /\ UNCHANGED <<iid, alg, k, V, Q, sup, opt>>
\* ... followed by a call on the instance M.next: it starts exactly like a first call
Replan ==
  /\ phase # "run" /\ HasNext(M)
  /\ iid' = M.next
  /\ alg' \in Range(Inst(M.next).algs)
  /\ phase' = "run" /\ k' = 0
  /\ LET st == Start(iid', alg') IN V' = st.V /\ Q' = st.Q /\ sup' = st.sup /\ opt' = st.opt

Next == VecSweep \/ DictSweep \/ PISweep \/ OracleStep \/ JudgeStep \/ WarmStep \/ Replan
Spec == Init /\ [][Next]_vars

\* ------------------------------------------------------------------ emission (pipeline A / B)
\* near-one family: exact value of the uniform policy over the returned support sets, in closed form
\* (loop state: D * average reward; predecessor: average look-ahead), denominators 6 and 36 * PD
NearAvg6(m, sp, t) == SumSet([a \in Ac(m) |-> (6 \div Cardinality(sp[t])) * m.R[t][a][t]], sp[t])
NearPV(m, sp) ==
  [s \in St(m) |->
     IF s \in ExplAbs(m) THEN <<0, 1>>
     ELSE IF s \in NearT(m) THEN Norm(Safe(m.GD * NearAvg6(m, sp, s)), 6)
     ELSE Norm(Safe(SumSet([a \in Ac(m) |-> (6 \div Cardinality(sp[s])) *
                      SumTo([t \in St(m) |-> m.P[s][a][t] * (6 * m.R[s][a][t] +
                               (IF t \in NearT(m) THEN (m.GD - 1) * NearAvg6(m, sp, t) ELSE 0))], m.N)], sp[s])),
               36 * m.PD)]
NearJudgeRecord(m) ==
  LET sp == [s \in NonAbs(m) |-> {a \in Ac(m) : m.pol[s][a] = 1}]
      pv == NearPV(m, sp)
  IN [iid |-> iid, tag |-> m.tag, kind |-> "judge", pv |-> pv, pinit |-> InitialValue(m, pv),
      pfix |-> InitialValue(m, pv), steps |-> StepsValue(m, UniformW(m, sp), 6)]
GenericJudgeRecord(m) ==
  LET sp == [s \in NonAbs(m) |-> {a \in Ac(m) : m.pol[s][a] = 1}]
      w  == UniformW(m, sp)
      pv == PolicyValue(m, w, 6)
      cr == CannotReach(m)
      \* the same policy with the rows of the cannot-reach states replaced by optimal actions: tells
      \* whether a sub-optimal return is attributable to those rows alone (signature of a known finding)
      fixed == IF cr = {} THEN <<>> ELSE
               LET vs == OptimalValue(m)
                   qs == OptimalQ(m, vs)
                   sp2 == [s \in NonAbs(m) |-> IF s \in cr
                             THEN {a \in Avail(m, s) : REq(qs[s][a], vs[s])} ELSE sp[s]]
               IN InitialValue(m, PolicyValue(m, UniformW(m, sp2), 6))
  IN [iid |-> iid, tag |-> m.tag, kind |-> "judge", pv |-> pv, pinit |-> InitialValue(m, pv),
      pfix |-> IF cr = {} THEN InitialValue(m, pv) ELSE fixed,
      steps |-> StepsValue(m, w, 6)]
JudgeRecord(m) == IF IsNear(m) THEN NearJudgeRecord(m) ELSE GenericJudgeRecord(m)
Emit ==
  phase # "run" =>
    IF alg = "warm" THEN TRUE
    ELSE IF alg = "oracle" THEN
      PrintT(ToJson([iid |-> iid, kind |-> "oracle", v |-> opt.v, q |-> opt.q, cannot |-> opt.cannot,
                     absall |-> opt.absall, neginf |-> opt.neginf, leaks |-> opt.leaks,
                     vinit |-> InitialValue(M, opt.v),
                     inst |-> IF Mode = "family" THEN M ELSE <<>>]))
    ELSE IF alg = "judge" THEN PrintT(ToJson(JudgeRecord(M)))
    ELSE PrintT(ToJson([iid |-> iid, kind |-> alg, phase |-> phase, its |-> k, v |-> V, q |-> Q,
                        sup |-> sup]))

\* ------------------------------------------------------------------ properties of the design (MC)
Gamma(m) == <<m.GN, m.GD>>
\* eps / (1 - gamma) as a rational (discounted only)
VIBoundDisc(m) == Norm(m.EN * m.GD, m.ED * (m.GD - m.GN))
StoppedByResidual == phase = "done" /\ k + 1 < M.CAP
\* (P1) discounted: when value iteration stops by its residual test the reported values are within
\*      eps/(1-gamma) of the optimum
VIWithinBound ==
  (alg \in {"vec", "dict"} /\ StoppedByResidual /\ Discounted(M)) =>
     \A s \in Lst(M) : ~RLess(VIBoundDisc(M), RAbs(RSub(V[s], opt.v[s])))
\* (P2) undiscounted, rewards <= 0, no leak: iterates decrease towards the optimum from above
VIUpperBound ==
  (alg \in {"vec", "dict"} /\ ~Discounted(M) /\ opt.leaks = {} /\ opt.neginf = {}) =>
     \A s \in Lst(M) \ CannotReach(M) : ~RLess(V[s], opt.v[s])
\* (P3) masked states (absorbing / cannot reach) are worth 0 inside the machines at all times
MaskedZero == alg \in {"vec", "dict", "pi"} => \A s \in Masked(M) : V[s] = <<0, 1>>
\* (P4) discounted policy iteration ends at the optimum exactly, and its tie-sharing policy is the
\*      exact optimal-action set (checked against the oracle computed on the spot)
PIOptimal ==
  (alg = "pi" /\ phase = "done" /\ k + 1 < PiCap(M) /\ Discounted(M)) =>
     LET o == Oracle(M) IN
     /\ \A s \in Lst(M) : V[s] = o.v[s]
     /\ \A s \in St(M) \ Masked(M) : sup[s] = {a \in Avail(M, s) : o.q[s][a] = o.v[s]}
\* (P5) discounted policy iteration never meets a singular system
PINotSingularDisc == (alg = "pi" /\ Discounted(M)) => phase # "singular"
\* (P6) every call starts afresh, whatever the planner object did before
CallsStartAfresh == [][(phase # "run" /\ phase' = "run") => (k' = 0 /\ V' = Zero(Inst(iid')))]_vars
\* instance filter: the batch is well formed
InstancesWellFormed == WellFormed(M)
=============================================================================
