----------------------------- MODULE C09_Learn -----------------------------
(* Property C09, pipeline B for the learners: one trace per call of                         *)
(* FSCBoundedPolicyIteration.train_on / FSCGradientAscent.train_on.                         *)
(*                                                                                        *)
(* Data = sequence of runs.  A run is a record of scaled integers (round(x * S)):            *)
(*   kind     "bpi" | "ga"                                                                 *)
(*   S        scale;  teq / tmono / trow  tolerances in units of 1/S (derived in the driver)  *)
(*   rows     every row of the returned controller (action rows, node-transition rows, the   *)
(*            initial node distribution)                                                    *)
(*   rep      value reported by the learner                                                 *)
(*   cut      value of the RETURNED controller at the initial state distribution, evaluated   *)
(*            independently with episodes ending at absorbing states (the property's meaning) *)
(*   uncut    the same with absorbing states treated as ordinary states (classification only) *)
(*   rtab / ctab / utab   the reported per-(node, state) table and the two re-evaluations      *)
(*   tabs     bounded policy iteration: the value table at the start of every iteration and    *)
(*            the final one, in order (nodes x states; nodes are only ever appended)           *)
(* The machine walks through tabs (one Iterate action per iteration of the improvement loop)   *)
(* so that "never lowers the value of any node at any state" is the action property Monotone.  *)
(* The verdict is also kept in `bad` (first failing clause, "" = accepted) and printed per run. *)
EXTENDS Num, Json, IOUtils

Data == JsonDeserialize(IOEnv.BATCH_FILE)

VARIABLES tid,   \* run
          l,     \* index of the current table in tabs (0 when there is none)
          V,     \* current value table
          bad    \* first failing clause
vars == <<tid, l, V, bad>>

Run == Data[tid]

\* a row of floats is "numerically a probability distribution": entries and sum inside the window run.trow
\* (units of 1/S; the window msdm's own evaluator applies when it accepts a controller, see the driver)
\* plus the rounding of the quantisation (half a unit per entry)
RowOK(r, S, t) ==
  /\ \A i \in 1..Len(r) : r[i] >= -t /\ r[i] <= S + t
  /\ AbsI(SumTo(r, Len(r)) - S) <= t + Len(r)
RowsOK(run) == \A i \in 1..Len(run.rows) : RowOK(run.rows[i], run.S, run.trow)

TabClose(x, y, tol) ==
  /\ Len(x) = Len(y)
  /\ \A n \in 1..Len(x) : Len(x[n]) = Len(y[n]) /\ \A s \in 1..Len(x[n]) : AbsI(x[n][s] - y[n][s]) <= tol

\* clauses that do not depend on the iteration history
StaticVerdict(run) ==
  IF ~RowsOK(run) THEN "row-is-not-a-distribution"
  ELSE IF AbsI(run.rep - run.cut) > run.teq THEN
         (IF AbsI(run.rep - run.uncut) <= run.teq THEN "reported-value:absorbing-states-not-cut"
          ELSE "reported-value")
  ELSE IF ~TabClose(run.rtab, run.ctab, run.teq) THEN
         (IF TabClose(run.rtab, run.utab, run.teq) THEN "reported-table:absorbing-states-not-cut"
          ELSE "reported-table")
  ELSE ""

\* no node that exists in both tables loses value at any state (beyond the tolerance)
Mono(x, y, tol) ==
  \A n \in 1..MinI(Len(x), Len(y)) : \A s \in 1..MinI(Len(x[n]), Len(y[n])) : y[n][s] >= x[n][s] - tol

Init ==
  /\ tid \in 1..Len(Data)
  /\ l = IF Len(Data[tid].tabs) = 0 THEN 0 ELSE 1
  /\ V = IF Len(Data[tid].tabs) = 0 THEN <<>> ELSE Data[tid].tabs[1]
  /\ bad = StaticVerdict(Data[tid])

\* one iteration of the improvement loop: the table at the start of the next iteration (or the final one)
Iterate ==
  /\ l >= 1 /\ l < Len(Run.tabs)
  /\ V' = Run.tabs[l + 1]
  /\ l' = l + 1
  /\ bad' = IF bad = "" /\ ~Mono(V, Run.tabs[l + 1], Run.tmono) THEN "value-lowered-between-iterations" ELSE bad
  /\ UNCHANGED tid

Next == Iterate
Spec == Init /\ [][Next]_vars

Done == l = Len(Run.tabs)
Emit == Done => PrintT(ToJson([tid |-> tid, bad |-> bad, l |-> l]))

\* ------------------------------------------------------------------ properties
\* the returned controller is valid and its reported value is its exact evaluation
ReturnedControllerValid == bad \notin {"row-is-not-a-distribution"}
ReportedValueIsEvaluation ==
  bad \notin {"reported-value", "reported-value:absorbing-states-not-cut",
              "reported-table", "reported-table:absorbing-states-not-cut"}
\* bounded policy iteration never lowers the value of any node at any state between iterations
MonoStep == Mono(V, V', Run.tmono)
Monotone == [][MonoStep]_vars
\* the last table of the walk is the reported one
WalkEndsAtReportedTable == (Done /\ l >= 1) => V = Run.rtab
=============================================================================
