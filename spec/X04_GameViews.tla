---------------------------- MODULE X04_GameViews ----------------------------
(* Extension X04: tabular stochastic games expose consistent arrays and joint-action      *)
(* structure (msdm/core/stochasticgame/tabularstochasticgame.py and policy/).            *)
(*                                                                                      *)
(* (M) an instance is a game record of lib/StochGame.tla plus                            *)
(*       explicit   1 iff the state / joint-action lists are given (all states, all      *)
(*                  joint actions) instead of being inferred                             *)
(*       cuts       the MAX_STATES values explored for reachable_states (INF = -1)       *)
(*       big        1: pop the least frontier element only (instances extracted from     *)
(*                  grid games have too many states to explore every pop order)          *)
(*       pol        1 iff a joint policy W / WL / QD is attached                         *)
(* (O) oracle: GReach (least fixed point; terminal states are not expanded), CutResults  *)
(*     (every set reachable_states(MAX_STATES = c) may return), the keyed views           *)
(*     OT / OR / OA / OSAR / p0 / term / OAbs, the joint-action list as the union of the  *)
(*     per-state products, JointProb (product of the agents' policies).                  *)
(* (R) reference machine, one action per step of the code:                              *)
(*       Pop       one iteration of the while loop of reachable_states (set.pop() is      *)
(*                 arbitrary; a terminal state is popped and skipped), with the           *)
(*                 `len(visited) > MAX_STATES` test                                       *)
(*       MkList    state_list (given, or the reachable set in key order)                  *)
(*       AddActs   one iteration of `for s in self.state_list` in joint_action_list:      *)
(*                 the product of the per-agent lists of s is added                       *)
(*       MkJal     joint_action_list (given, or the collected set in key order)           *)
(*       FillRow   one iteration of the `for si, s in enumerate(ss)` loops of             *)
(*                 transitionmatrix / rewardmatrix / actionmatrix                         *)
(*       Derive    stateactionrewardmatrix, initialstatevec, nonterminalstatevec,         *)
(*                 reachablestatevec, absorbingstatevec, position_list                    *)
(*       MkPolicy  TabularMultiAgentPolicy.joint_policy_matrix / joint_action_dist         *)
(*     variant = 0 is what the statement asks for: positive-probability successors only,  *)
(*     rows of unavailable joint actions zero.  variant = 1 is the code as it stands in    *)
(*     two respects, explored so that a deviation of the real code can be attributed      *)
(*     precisely: `.support` of the distributions also lists zero-probability entries      *)
(*     (they enter the reachable set), and the array builders query next_state_dist for    *)
(*     every listed joint action without consulting joint_actions(s) (Unmasked, OutOf).    *)
(* (P) invariants at the bottom, stated for variant 0.                                   *)
EXTENDS StochGame, Json, IOUtils

Batch == JsonDeserialize(IOEnv.BATCH_FILE)
INF == -1

\* ------------------------------------------------------------------ (O) oracle
\* the least closed superset of the initial support, by brute force over all subsets (small N only)
LeastClosed(g) ==
  LET cands == {X \in SUBSET GSt(g) : GInit(g, 0) \subseteq X /\ GClosed(g, 0, X)} IN
  CHOOSE X \in cands : \A Y \in cands : X \subseteq Y

\* `if len(visited) > MAX_STATES: break`
Limit(c, vis) == c # INF /\ Cardinality(vis) > c
PopChoice(g, fr) == IF g.big = 1 THEN {MinSet(fr)} ELSE fr

\* every set reachable_states(MAX_STATES = c) may return
RECURSIVE CutRuns(_, _, _, _, _, _)
CutRuns(g, adj, tm, c, fr, vis) ==
  IF fr = {} \/ Limit(c, vis) THEN {vis}
  ELSE UNION { IF s \in tm THEN CutRuns(g, adj, tm, c, fr \ {s}, vis)
               ELSE LET new == adj[s] \ vis IN
                    CutRuns(g, adj, tm, c, (fr \ {s}) \cup new, vis \cup new) : s \in PopChoice(g, fr) }
CutResults(g, c, v) == CutRuns(g, GAdj(g, v), GTerm(g), c, GInit(g, v), GInit(g, v))

\* joint actions some listed state offers
JalOf(g, L) == UNION {JAvail(g, s) : s \in L}


\* what the code as it stands does differently (variant 1), as predicates on the instance:
\* listed (state, joint action) pairs whose row is filled although the joint action is unavailable there
Unmasked(g, L, JL) == {<<s, j>> \in L \X JL : j \notin JAvail(g, s)}
\* rows that list a state outside the state list (list.index raises for them)
OutOf(g, L, JL) == {<<s, j>> \in L \X JL : ~(GListed(g, s, j) \subseteq L)}
Lists(g, v) ==
  LET L == IF g.explicit = 1 THEN GSt(g) ELSE GReach(g, v) IN
  [L |-> L, JL |-> IF g.explicit = 1 THEN GJA(g) ELSE JalOf(g, L)]

\* ------------------------------------------------------------------ (R) array steps
\* L = listed states, JL = listed joint actions; entries outside the lists have no cell
\* (tables are forced with TLCEval: function constructors are lazy in TLC)
RowT(g, L, JL, s) ==
  LET av == JAvail(g, s) IN
  TLCEval([j \in JL |-> [t \in L |-> IF j \in av THEN g.P[s][j][t] ELSE 0]])
RowR(g, L, JL, s) ==
  LET av == JAvail(g, s) IN
  TLCEval([j \in JL |-> [t \in L |-> [i \in GAg(g) |->
             IF j \in av /\ g.P[s][j][t] > 0 THEN g.R[s][j][t][i] ELSE 0]]])
RowA(g, JL, s)    == LET av == JAvail(g, s) IN TLCEval([j \in JL |-> IF j \in av THEN 1 ELSE 0])
Extend(f, s, v) == TLCEval([x \in DOMAIN f \cup {s} |-> IF x = s THEN v ELSE f[x]])

Derived(g, L, JL, T, Rw, vis) ==
  [sar    |-> IF Opaque(g) THEN <<>>
              ELSE TLCEval([s \in L |-> [j \in JL |-> [i \in GAg(g) |->
                       SumSet([t \in L |-> T[s][j][t] * Rw[s][j][t][i]], L)]]]),
   p0     |-> TLCEval([s \in L |-> g.p0[s]]),
   nonterm |-> {s \in L : g.term[s] = 0},
   absv   |-> {s \in L : OAbs(g, 0, s)},
   reach  |-> vis \cap L,
   positions |-> Positions(g, L)]

FullT(g) == [s \in GSt(g) |-> RowT(g, GSt(g), GJA(g), s)]
FullR(g) == [s \in GSt(g) |-> RowR(g, GSt(g), GJA(g), s)]
FullA(g) == [s \in GSt(g) |-> RowA(g, GJA(g), s)]
JointMatrix(g, L, JL) == TLCEval([s \in L |-> [j \in JL |-> JointProb(g, s, j)]])

\* ------------------------------------------------------------------ machine
VARIABLES iid, cut, variant, phase, frontier, visited, lst, jseen, jset, jal, T, Rw, Am, der, jpm
vars == <<iid, cut, variant, phase, frontier, visited, lst, jseen, jset, jal, T, Rw, Am, der, jpm>>
M == Batch[iid]
LSet == Range(lst)
JLSet == Range(jal)

HasZeros(g) == (\E s \in GSt(g) : g.Z0[s] = 1) \/ (\E s \in GSt(g) : \E j \in GJA(g) : \E t \in GSt(g) : g.Z[s][j][t] = 1)

Init ==
  /\ iid \in 1..Len(Batch)
  /\ cut \in Range(Batch[iid].cuts) \cup {INF}
  \* the two variants only differ when some distribution lists a zero-probability entry
  /\ variant \in (IF HasZeros(Batch[iid]) THEN {0, 1} ELSE {0})
  /\ phase = "reach"
  /\ frontier = GInit(Batch[iid], variant)           \* frontier = Set(S0)
  /\ visited = GInit(Batch[iid], variant)            \* visited = Set(S0)
  /\ lst = <<>> /\ jseen = {} /\ jset = {} /\ jal = <<>>
  /\ T = <<>> /\ Rw = <<>> /\ Am = <<>> /\ der = <<>> /\ jpm = <<>>

\* while len(frontier) > 0: if len(visited) > MAX_STATES: break; s = frontier.pop();
\*   if is_terminal(s): continue;  else every successor under every joint action is added
Pop(s) ==
  /\ phase = "reach" /\ frontier # {} /\ ~Limit(cut, visited)
  /\ s \in PopChoice(M, frontier)
  /\ IF s \in GTerm(M)
     THEN frontier' = frontier \ {s} /\ visited' = visited
     ELSE LET new == GEdges(M, variant, s) \ visited IN
          /\ frontier' = (frontier \ {s}) \cup new
          /\ visited' = visited \cup new
  /\ UNCHANGED <<iid, cut, variant, phase, lst, jseen, jset, jal, T, Rw, Am, der, jpm>>

ReachEnd ==
  /\ phase = "reach" /\ (frontier = {} \/ Limit(cut, visited))
  /\ phase' = IF cut = INF /\ variant = 0 THEN "list" ELSE "cutdone"
  /\ UNCHANGED <<iid, cut, variant, frontier, visited, lst, jseen, jset, jal, T, Rw, Am, der, jpm>>

\* state_list: the given list, or the reachable set sorted by key (abstract order = key order)
MkList ==
  /\ phase = "list"
  /\ lst' = IF M.explicit = 1 THEN SeqOfSet(GSt(M), M.N) ELSE SeqOfSet(visited, M.N)
  /\ phase' = "acts"
  /\ UNCHANGED <<iid, cut, variant, frontier, visited, jseen, jset, jal, T, Rw, Am, der, jpm>>

\* for s in self.state_list: actions.add(every element of product(*joint_actions(s).values()))
AddActs ==
  /\ phase = "acts" /\ jseen # LSet
  /\ LET s == lst[Cardinality(jseen) + 1] IN
       /\ jseen' = jseen \cup {s}
       /\ jset' = jset \cup JAvail(M, s)
  /\ UNCHANGED <<iid, cut, variant, phase, frontier, visited, lst, jal, T, Rw, Am, der, jpm>>

MkJal ==
  /\ phase = "acts" /\ jseen = LSet
  /\ jal' = IF M.explicit = 1 THEN SeqOfSet(GJA(M), M.J) ELSE SeqOfSet(jset, M.J)
  /\ phase' = "rows"
  /\ UNCHANGED <<iid, cut, variant, frontier, visited, lst, jseen, jset, T, Rw, Am, der, jpm>>

FillRow ==
  /\ phase = "rows" /\ DOMAIN T # LSet
  /\ LET s == lst[Cardinality(DOMAIN T) + 1] IN
       /\ T'  = Extend(T, s, RowT(M, LSet, JLSet, s))
       /\ Rw' = Extend(Rw, s, RowR(M, LSet, JLSet, s))
       /\ Am' = Extend(Am, s, RowA(M, JLSet, s))
  /\ UNCHANGED <<iid, cut, variant, phase, frontier, visited, lst, jseen, jset, jal, der, jpm>>

Derive ==
  /\ phase = "rows" /\ DOMAIN T = LSet
  /\ der' = Derived(M, LSet, JLSet, T, Rw, visited)
  /\ phase' = IF M.pol = 1 THEN "policy" ELSE "done"
  /\ UNCHANGED <<iid, cut, variant, frontier, visited, lst, jseen, jset, jal, T, Rw, Am, jpm>>

MkPolicy ==
  /\ phase = "policy"
  /\ jpm' = JointMatrix(M, LSet, JLSet)
  /\ phase' = "done"
  /\ UNCHANGED <<iid, cut, variant, frontier, visited, lst, jseen, jset, jal, T, Rw, Am, der>>

Next == (\E s \in GSt(M) : Pop(s)) \/ ReachEnd \/ MkList \/ AddActs \/ MkJal \/ FillRow \/ Derive \/ MkPolicy
Spec == Init /\ [][Next]_vars

\* ------------------------------------------------------------------ emission (pipeline A)
SetsOf(g, v) == [i \in 1..Len(g.cuts) |-> CutResults(g, g.cuts[i], v)]
ViewRecord(g) ==
  LET l1 == Lists(g, 1) IN
  [iid |-> iid, kind |-> "views",
   reach |-> visited, reach1 |-> GReach(g, 1),
   lst |-> lst, jal |-> jal,
   T |-> FullT(g), R |-> FullR(g), A |-> FullA(g),
   lsar |-> IF Opaque(g) THEN <<>> ELSE [i \in 1..Len(lst) |-> [k \in 1..Len(jal) |-> der.sar[lst[i]][jal[k]]]],
   term |-> GTerm(g), absv |-> {s \in GSt(g) : OAbs(g, 0, s)}, absv1 |-> {s \in GSt(g) : OAbs(g, 1, s)},
   lnonterm |-> der.nonterm, labsv |-> der.absv, lreach |-> der.reach, positions |-> der.positions,
   agentacts |-> [s \in GSt(g) |-> [i \in GAg(g) |-> AgentAvail(g, s, i)]],
   unmasked |-> Unmasked(g, LSet, JLSet), outof |-> OutOf(g, LSet, JLSet),
   unmasked1 |-> Unmasked(g, l1.L, l1.JL), outof1 |-> OutOf(g, l1.L, l1.JL),
   jal1 |-> l1.JL,
   jpm |-> IF g.pol = 1 THEN [s \in GSt(g) |-> [j \in GJA(g) |-> JointProb(g, s, j)]] ELSE <<>>,
   polmissing |-> IF g.pol = 1 THEN {<<s, j>> \in LSet \X JLSet : PolMissing(g, s, j)} ELSE {},
   cuts0 |-> SetsOf(g, 0), cuts1 |-> SetsOf(g, 1)]
Emit ==
  /\ phase = "done" => PrintT(ToJson(ViewRecord(M)))
  /\ phase = "cutdone" => PrintT(ToJson([iid |-> iid, kind |-> "cut", cut |-> cut, variant |-> variant,
                                        visited |-> visited]))

\* ------------------------------------------------------------------ (P) properties
V0 == variant = 0
\* instances extracted from grid games are large: there the clauses that do not depend on the step just taken
\* are evaluated in the state that establishes them only (hand-built instances: in every state)
Fresh(p) == M.big = 0 \/ p
Listed == phase \in {"acts", "rows", "policy", "done"}
Arrays == phase \in {"rows", "policy", "done"}
\* (P1) search invariant: everything found is reachable, every state already expanded has all its
\*      positive-probability successors in the set; terminal states are never expanded
ReachInv ==
  (V0 /\ Fresh(phase = "reach")) =>
        /\ frontier \subseteq visited /\ GInit(M, 0) \subseteq visited
        /\ visited \subseteq GReach(M, 0)
        /\ \A s \in visited \ (frontier \cup GTerm(M)) : GEdges(M, 0, s) \subseteq visited
\* (P2) without a cut-off the search ends in the least fixed point
ReachFixpoint ==
  (V0 /\ cut = INF /\ phase # "reach" /\ Fresh(phase = "list")) =>
     /\ visited = GReach(M, 0) /\ GClosed(M, 0, visited)
     /\ M.N <= 6 => /\ visited = LeastClosed(M)
                    /\ \A X \in SUBSET visited : (GInit(M, 0) \subseteq X /\ GClosed(M, 0, X)) => X = visited
\* (P3) cut-off: a result is one of the oracle's; it is complete when the limit is never exceeded
CutSemantics ==
  (phase = "cutdone") =>
     /\ visited \in CutResults(M, cut, variant)
     /\ V0 => /\ visited \subseteq GReach(M, 0)
              /\ (cut = INF \/ Cardinality(GReach(M, 0)) <= cut) => visited = GReach(M, 0)
              /\ cut # INF => Cardinality(visited) >= MinI(cut + 1, Cardinality(GReach(M, 0)))
\* (P4) the state list has no duplicates and is the reachable set unless given
ListOk ==
  (Listed /\ Fresh(phase = "acts" /\ jseen = {})) =>
     /\ \A i \in 1..Len(lst) : \A k \in 1..Len(lst) : i # k => lst[i] # lst[k]
     /\ IF M.explicit = 1 THEN LSet = GSt(M) ELSE LSet = GReach(M, 0)
\* (P5) joint actions: per state the product of the per-agent lists; the list is their union over the
\*      listed states (or the given list), without duplicates, and holds every joint action a listed
\*      state offers
JalOk ==
  /\ Fresh(phase = "list") => \A s \in GSt(M) : ProductOk(M, s)
  /\ phase = "acts" => jset = JalOf(M, jseen)
  /\ (Arrays /\ Fresh(phase = "rows" /\ T = <<>>)) =>
       /\ \A i \in 1..Len(jal) : \A k \in 1..Len(jal) : i # k => jal[i] # jal[k]
       /\ JalOf(M, LSet) \subseteq JLSet
       /\ M.explicit = 0 => JLSet = JalOf(M, LSet)
\* (P6) the arrays hold the numbers the functions return; rows of unavailable joint actions are zero
ArraysAgree ==
  Arrays =>
     \A s \in DOMAIN T :
        LET av == JAvail(M, s) IN
        \A j \in JLSet :
           /\ Am[s][j] = OA(M, s, j)
           /\ IF j \in av
              THEN \A t \in LSet : /\ T[s][j][t] = M.P[s][j][t]
                                   /\ \A i \in GAg(M) : Rw[s][j][t][i] = (IF M.P[s][j][t] > 0 THEN M.R[s][j][t][i] ELSE 0)
              ELSE \A t \in LSet : T[s][j][t] = 0 /\ \A i \in GAg(M) : Rw[s][j][t][i] = 0
           /\ M.big = 0 => \A t \in LSet : /\ T[s][j][t] = OT(M, s, j, t)
                                            /\ \A i \in GAg(M) : Rw[s][j][t][i] = OR(M, s, j, t, i)
\* (P7) rows of listed non-terminal states are complete distributions (the list is closed)
RowsNormalised ==
  (Arrays /\ ~Opaque(M)) =>
     \A s \in DOMAIN T : \A j \in JAvail(M, s) \cap JLSet :
        s \notin GTerm(M) => SumSet([t \in LSet |-> T[s][j][t]], LSet) = M.PD
\* (P8) what is derived agrees with the definitions on the model itself
DerivedAgree ==
  (phase \in {"policy", "done"}) =>
     /\ der.nonterm = LSet \ GTerm(M)
     /\ der.reach = GReach(M, 0) \cap LSet
     /\ \A s \in LSet : der.p0[s] = M.p0[s]
     /\ der.absv = {s \in LSet : GEdges(M, 0, s) \subseteq GTerm(M)}
     /\ ~Opaque(M) => \A s \in LSet : \A j \in JLSet : \A i \in GAg(M) : der.sar[s][j][i] = OSAR(M, LSet, s, j, i)
     /\ SumSet([s \in LSet |-> der.p0[s]], LSet) = M.ID
\* (P9) the joint policy is the product of the agents' policies: rows are distributions and every
\*      agent's marginal is its own policy; unavailable joint actions get probability 0
PolicyProduct ==
  (phase = "done" /\ M.pol = 1) =>
     \A s \in LSet :
        /\ (JalOf(M, {s}) \subseteq JLSet /\ JAvail(M, s) # {}) =>
              SumSet([j \in JLSet |-> jpm[s][j]], JLSet) = PowI(M.QD, M.G)
        /\ \A j \in JLSet : j \notin JAvail(M, s) => jpm[s][j] = 0
        /\ JAvail(M, s) # {} => \A i \in GAg(M) : \A a \in GActs(M, i) :
              SumSet([j \in JLSet |-> IF M.comp[j][i] = a THEN jpm[s][j] ELSE 0], JLSet) = M.W[i][s][a] * PowI(M.QD, M.G - 1)
\* instance filter
InstancesWellFormed == Fresh(phase = "list") => (WellFormedGame(M) /\ (M.pol = 1 => WellFormedPolicy(M)))
\* termination: a state without successor is a terminal phase
Terminates == (~ENABLED Next) => phase \in {"done", "cutdone"}
=============================================================================
