---------------------------- MODULE C19_SoftPI ----------------------------
(* Property C19: when entropy-regularised policy iteration                               *)
(* (msdm/algorithms/entregpolicyiteration.py) reports convergence, its action values are  *)
(* the one-step look-ahead of its state values, its policy is the prior-weighted softmax  *)
(* of those action values at the given temperature, and its state values are the          *)
(* corresponding prior-weighted log-sum-exp; with a uniform prior the action values tend  *)
(* to the optimal ones as the entropy weight tends to 0.                                  *)
(*                                                                                        *)
(* What exact integer arithmetic decides, and what is trusted.  exp / log do not exist in *)
(* TLC.  Both transcendental clauses are equivalent to                                    *)
(*      lambda(s) * log(pi(a|s) / prior(a|s)) = Q(s,a) - V(s)     and   sum_a pi(a|s) = 1  *)
(* so the recorder logs, next to pi, Q, V, the ONE number L(s,a) = log(pi/prior) computed *)
(* with math.log from the RETURNED pi and the GIVEN prior (nothing transcendental is ever *)
(* read from msdm).  Everything else is decided here: the equation above, the look-ahead  *)
(* identity, normalisation, the evaluation identity of every iterate, and the distance to *)
(* the exact optimal action values (oracle MDP!OptimalQ) against gamma lambda ln|A|/(1-g) *)
(* with a rational upper bound of ln|A|.  L itself is bracketed by the rational bounds    *)
(* 1 - 1/x <= ln x <= x - 1 and must be ordered like pi/prior (recorder sanity).          *)
(*                                                                                        *)
(* (M) abstract problem: a batch record T = MDP instance of lib/MDP.tla without absorbing *)
(*     states (P/PD, integer R, discount GN/GD) + entropy weight LN[s]/LD[s] per state +  *)
(*     prior pn[s][a]/PRD on the open simplex + initial policy ip[s][a]/IPD.              *)
(*     The planner wrapper on an MDP with state-dependent action sets gives avail[s][a]:  *)
(*     its prior is uniform over the AVAILABLE actions (pn = 0 on the others), every      *)
(*     clause ranges over the available actions, and the returned policy must put no mass *)
(*     on an unavailable one (policy-mass-on-unavailable-action).                         *)
(* (O) exact oracle: OptimalValue / OptimalQ (policy enumeration, Cramer) for the limit   *)
(*     clause; for the other clauses the ground truth is the identity itself.             *)
(* (R) reference machine, one action per step of the loop of the code:                    *)
(*       EarlierCall - an earlier plan_on of the same planner object on another MDP: no   *)
(*                  effect on what follows (call histories: plan A, then B)               *)
(*       Start    - pi_0 = initial policy                                                 *)
(*       Evaluate - v = solve(I - g P_pi, r_pi - lambda KL(pi|prior)); q = look-ahead(v)  *)
(*       Improve  - pi' = softmax(q / lambda + log prior) (clamped at the smallest float)  *)
(*       Converge - all isclose(pi, pi') -> return pi, q, v, converged                    *)
(*       Cap      - iteration budget exhausted: not reported converged (counted only)     *)
(*     mode "trace" (pipeline B): the iterates pi_j, L_j, q_j, v_j observed through the    *)
(*     public API with n_planning_iters = 1, 2, ... (prefix runs) are logged in units of   *)
(*     1/2^20; each action validates the logged step; failures of statement clauses on the *)
(*     returned (converged) iterate go to `fails`, anything about intermediate iterates to *)
(*     `flags` (drift).  Verdicts are total: every trace ends in "converged" or "capped".  *)
(*     mode "mc": the lambda -> 0+ limit of the same loop with a uniform prior (softmax ->  *)
(*     uniform over the maximisers, lambda KL -> 0): MEvaluate is an exact rational solve,  *)
(*     MImprove takes the arg-max sets and stops when the policy repeats; TLC explores it   *)
(*     from EVERY initial support (initial_policy is a parameter of the code).              *)
(* (P) invariants at the bottom: ZeroTempOptimal (the limit loop stops exactly at the       *)
(*     oracle's optimal values with the full arg-max sets), SupportsNonEmpty,               *)
(*     MCWithinRewardBounds, action property MonotoneImprovement (mc); InstancesOK (the     *)
(*     quantifier of the property as an instance filter, both modes).                       *)
(*                                                                                        *)
(* Limit clause.  With a uniform prior max_a q - lambda ln|A| <= lambda ln mean_a e^(q/l)  *)
(* <= max_a q, so the soft and the hard Bellman operators differ by at most lambda ln|A|   *)
(* in sup norm, both are gamma-contractions and the soft one is below the hard one:        *)
(* Q* - gamma lambda ln|A| / (1 - gamma) <= Q_lambda <= Q*.  Converge checks this against  *)
(* the exact Q* (with max_s lambda(s) for per-state weights, ln|A| <= LogUB[|A|] / 10^4,   *)
(* and the residual of the returned v as a fixed point, ResidSlack); the harness runs the  *)
(* weights 1, 1/10, 1/100, 1/1000 on the same instances, so the distances are forced under *)
(* a sequence of bounds that tends to 0.                                                   *)
(*                                                                                        *)
(* Tolerances (units of 1/2^20; every logged integer is a rounding, error <= 1/2):        *)
(*  look-ahead     N floors + 1 floor + roundings <= N + 3; float32 runs add the forward   *)
(*                 error bound of the dot product 2 (N + 6) 2^-24 (max|R| + max|V|).      *)
(*  look-ahead, fine  the returned q, v are also logged in units of 2^-40 (two limbs); the *)
(*                 identity at the GIVEN rational discount is evaluated exactly with a     *)
(*                 tolerance from float64 round-off only (operator FineRes / FineTol).     *)
(*  improve step   exact softmax: lambda (L_a - L_b) = q_a - q_b up to ceil(lambda) + 3.   *)
(*  convergence    msdm stops when |pi - pi'| <= 1e-8 + 1e-5 pi' entrywise and returns pi  *)
(*                 (not pi'), q, v.  Hence log(pi_a / pi'_a) is bounded by                 *)
(*                 e_a = 1.0071 (1e-5 + 1e-8 / pi_a) for pi_a >= 1.5 units, in units       *)
(*                 E_a = 12 + 22200 \div (2 pi_int - 1); and v = LSE(q) - lambda KL(pi|pi')*)
(*                 with lambda KL <= sum_a w_a |d_a| / (1 - sum w), w_a = 1e-8 + 1e-5 pi_a, *)
(*                 d_a = lambda L_a - (q_a - v) (operator Delta).  Entries below 2 units   *)
(*                 are in the absolute-tolerance regime (pi and pi' may differ by orders   *)
(*                 of magnitude): only the one-sided consequence                            *)
(*                 q_a - q_ref <= lambda (ln(1.52 * 2^-20 / prior_a) - L_ref + e_ref) is    *)
(*                 judged.                                                                 *)
(*  float32 weight a scalar entropy weight w is stored by msdm in a float32 tensor: the         *)
(*                 evaluation uses float32(w) and the softmax the float32 reciprocal, each     *)
(*                 within 2^-24 relative of the given weight, hence within 2^-23 of each other;*)
(*                 every product lambda x gets the slack |lambda x| 2^-22 (operator F32) and   *)
(*                 the log-sum-exp clause lambda / 2 units for 2^-23 lambda KL(pi | prior).     *)
EXTENDS MDP, Fixed, Json, IOUtils

Batch == JsonDeserialize(IOEnv.BATCH_FILE)
Mode  == IOEnv.MODE

VARIABLES tid,     \* batch index
          l,       \* trace mode: index of the current iterate event (0 before Start); mc mode: 0
          phase,   \* trace: "init" | "improved" | "evaluated" | "converged" | "capped"; mc: "improved" | "evaluated" | "done"
          fails,   \* trace: failure records of statement clauses (on the returned, converged iterate)
          flags,   \* trace: implementation-shaped observations (drift) and recorder sanity
          sup,     \* mc: support sets of the current (uniform over ties) policy
          V        \* mc: its exact value
vars == <<tid, l, phase, fails, flags, sup, V>>

Tr == Batch[tid]

\* ------------------------------------------------------------------ (M) helpers
CeilLam(T, s)   == (T.LN[s] + T.LD[s] - 1) \div T.LD[s]
LamMul(T, s, x) == MulDivSat(x, T.LN[s], T.LD[s])
F32(x)          == AbsI(x) \div 4194304                 \* |x| * 2^-22
\* state-dependent action sets (planner wrapper on an MDP whose actions(s) differ): every clause ranges over the
\* AVAILABLE actions Avail(T, s) of lib/MDP.tla; the prior is full-support on them (pn = 0 exactly on the others)
\* and the returned policy must put no mass on an unavailable action
SA(T) == {x \in St(T) \X Ac(T) : x[2] \in Avail(T, x[1])}
RAbsMax(T) == MaxSet({AbsI(T.R[x[1]][x[2]][x[3]]) : x \in {y \in St(T) \X Ac(T) \X St(T) : y[2] \in Avail(T, y[1])}} \cup {1})
\* |V| <= max|R| / (1 - gamma) at the soft fixed point (V* from above, the prior policy's value from below)
VBound(T)  == MulDiv(RAbsMax(T) * U20, T.GD, T.GD - T.GN) + 1
BIG == 268435456                                        \* 2^28: products of logged values stay inside 31 bits below it
MagOK(T, e) == /\ \A s \in St(T) : AbsI(e.v[s]) < BIG
               /\ \A x \in SA(T) : AbsI(e.q[x[1]][x[2]]) < BIG
FR(c, j, s, a, b, got, tol) == [c |-> c, j |-> j, s |-> s, a |-> a, b |-> b, got |-> got, tol |-> tol]
Pairs(T, s) == {x \in Avail(T, s) \X Avail(T, s) : x[1] # x[2]}
SPairs(T) == {y \in St(T) \X (Ac(T) \X Ac(T)) : y[2] \in Pairs(T, y[1])}
RowSum(T, row) == SumTo(row, T.K)

\* ------------------------------------------------------------------ shape of a logged policy
NormTol(T) == (T.K \div 2) + 2
ShapeFails(T, e, j) ==
  {FR("policy-row-not-normalised", j, s, 0, 0, RowSum(T, e.pi[s]), NormTol(T)) :
      s \in {x \in St(T) : AbsI(RowSum(T, e.pi[x]) - U20) > NormTol(T)}}
  \cup {FR("policy-entry-outside-unit-interval", j, x[1], x[2], 0, e.pi[x[1]][x[2]], 0) :
      x \in {y \in St(T) \X Ac(T) : e.pi[y[1]][y[2]] < 0 \/ e.pi[y[1]][y[2]] > U20}}
  \cup {FR("policy-mass-on-unavailable-action", j, x[1], x[2], 0, e.pi[x[1]][x[2]], 0) :
      x \in {y \in (St(T) \X Ac(T)) \ SA(T) : e.pi[y[1]][y[2]] > 0}}

\* recorder sanity (the trusted math.log): L ordered like pi / prior, and 1 - 1/x <= ln x <= x - 1
LogOrderBad(T, e, s) ==
  \E x \in Pairs(T, s) :
     LET a == x[1]  b == x[2] IN
     /\ 2 * (e.pi[s][a] * T.pn[s][b] - e.pi[s][b] * T.pn[s][a]) > T.pn[s][a] + T.pn[s][b]
     /\ e.L[s][a] < e.L[s][b]
LogBracketBad(T, e, s) ==
  \E a \in Avail(T, s) :
     /\ e.pi[s][a] >= 1 /\ e.pi[s][a] <= U20
     /\ \/ (U20 + e.L[s][a]) * T.pn[s][a] > e.pi[s][a] * T.PRD + T.pn[s][a] + T.PRD
        \/ AbsI(U20 - e.L[s][a]) >= 2 * BIG
        \/ Mul20(e.pi[s][a], U20 - e.L[s][a]) - (AbsI(U20 - e.L[s][a]) \div (2 * U20)) - 3
              > MulDiv(U20, T.pn[s][a], T.PRD) + 1
LogBad(T, e) == \E s \in St(T) : LogOrderBad(T, e, s) \/ LogBracketBad(T, e, s)

\* ------------------------------------------------------------------ clause 1: Q is the look-ahead of V
VMaxAbs(T, e) == MaxSet({AbsI(e.v[t]) : t \in St(T)})
LookTol(T, e) == T.N + 3 + (IF T.f32 = 1
                            THEN 2 * (T.N + 6) * (((RAbsMax(T) * U20 + VMaxAbs(T, e)) \div 16777216) + 1)
                            ELSE 0)
LookRes(T, e, s, a) ==
  LET rs == SumTo([t \in St(T) |-> T.P[s][a][t] * T.R[s][a][t]], T.N)
      ru == MulDiv(U20, rs, T.PD)
      vs == SumTo([t \in St(T) |-> MulDiv(e.v[t], T.P[s][a][t] * T.GN, T.PD * T.GD)], T.N)
  IN e.q[s][a] - (ru + vs)
LookFails(T, e, j, clause) ==
  {FR(clause, j, x[1], x[2], 0, LookRes(T, e, x[1], x[2]), LookTol(T, e)) :
      x \in {y \in SA(T) : AbsI(LookRes(T, e, y[1], y[2])) > LookTol(T, e)}}

\* ------------------------------------------------------------------ clause 1 at the precision of float64
\* The returned iterate also carries q and v in units of 2^-40 as two limbs x = xh * 2^20 + xl (0 <= xl < 2^20):
\* fields qh, ql, vh, vl.  With D = PD * GD and n_t = P[s][a][t] * GN the look-ahead identity at the GIVEN rational
\* discount is  E = D q - GD 2^40 sum_t P_t R_t - sum_t n_t v_t = 0  in units of 2^-40 / D.  E is evaluated exactly:
\* the products of the high limbs are split into quotient and remainder modulo D, those of the low limbs into
\* 10-bit halves, so that E = 2^20 Y + Z with small Y and |Z| < 2^24.  Tolerance: roundings of the log (D), plus
\* the forward error of the float64 dot product (N + 6) 2^-53 (max|R| + max|V|) 2^40 D.
FineRes(T, e, s, a) ==
  LET D   == T.PD * T.GD
      n   == [t \in St(T) |-> T.P[s][a][t] * T.GN]
      rs  == SumTo([t \in St(T) |-> T.P[s][a][t] * T.R[s][a][t]], T.N)
      qR  == (rs * U20) \div T.PD
      rR  == (rs * U20) % T.PD
      c   == e.qh[s][a] - qR - SumTo([t \in St(T) |-> MulDiv(e.vh[t], n[t], D)], T.N)
      rem == SumTo([t \in St(T) |-> ((e.vh[t] % D) * n[t]) % D], T.N)
      W1  == (e.ql[s][a] \div K10) * D - SumTo([t \in St(T) |-> (e.vl[t] \div K10) * n[t]], T.N)
      W0  == (e.ql[s][a] % K10) * D - SumTo([t \in St(T) |-> (e.vl[t] % K10) * n[t]], T.N)
  IN IF c > 1000 THEN LIM ELSE IF c < -1000 THEN -LIM
     ELSE LET Y == D * c - T.GD * rR - rem + (W1 \div K10)
              Z == K10 * (W1 % K10) + W0
          IN IF Y > 100 THEN LIM ELSE IF Y < -100 THEN -LIM ELSE U20 * Y + Z
FineTol(T, e) ==
  T.PD * T.GD * (2 + (((T.N + 6) * (RAbsMax(T) + (VMaxAbs(T, e) \div U20) + 1)) \div 8192))
FineFails(T, e, j) ==
  IF T.f32 = 1 \/ e.fine = 0 THEN {}
  ELSE {FR("action-values-not-lookahead-at-the-given-discount", j, x[1], x[2], 0, FineRes(T, e, x[1], x[2]), FineTol(T, e)) :
          x \in {y \in SA(T) : AbsI(FineRes(T, e, y[1], y[2])) > FineTol(T, e)}}

\* ------------------------------------------------------------------ evaluation step of an iterate
\* v(s) = sum_a pi_a q_a - lambda KL(pi | prior); with sum_a pi_a = 1:  sum_a pi_a (q_a - v) = lambda sum_a pi_a L_a
Live(T, e, s, a) == a \in Avail(T, s) /\ e.pi[s][a] > 0 /\ e.pi[s][a] <= U20
EvalA1(T, e, s) == SumTo([a \in Ac(T) |-> IF ~Live(T, e, s, a) THEN 0 ELSE Mul20(e.pi[s][a], e.q[s][a] - e.v[s])], T.K)
EvalA2(T, e, s) == SumTo([a \in Ac(T) |-> IF ~Live(T, e, s, a) THEN 0 ELSE Mul20(e.pi[s][a], e.L[s][a])], T.K)
EvalRes(T, e, s) == EvalA1(T, e, s) - LamMul(T, s, EvalA2(T, e, s))
EvalTol(T, e, s) ==
  LET eq == SumTo([a \in Ac(T) |-> IF a \in Avail(T, s) THEN (AbsI(e.q[s][a] - e.v[s]) \div (2 * U20)) + 1 ELSE 1], T.K)
      \* an entry rounded to 0 contributes at most x |ln x| + x ln 16 at x = 2^-21: below 9 units
      el == SumTo([a \in Ac(T) |-> IF ~Live(T, e, s, a) THEN 9 ELSE (AbsI(e.L[s][a]) \div (2 * U20)) + 1], T.K) + 1
  IN T.K + eq + 1 + CeilLam(T, s) * (T.K + el) + 1 + F32(LamMul(T, s, EvalA2(T, e, s))) + 2
EvalFails(T, e, j) ==
  {FR("evaluation-identity", j, s, 0, 0, EvalRes(T, e, s), EvalTol(T, e, s)) :
      s \in {x \in St(T) : AbsI(EvalRes(T, e, x)) > EvalTol(T, e, x)}}

\* ------------------------------------------------------------------ improvement step (exact softmax of the previous q)
\* an entry whose logged L is above -700 is far from the clamp at the smallest positive float: two-sided;
\* the others (clamped, subnormal or exactly 0, logged as L = -740) satisfy only L_logged >= L_true - 1
Exactable(x) == x >= -700 * U20
StepTol(T, s, lam) == CeilLam(T, s) + 3 + F32(lam)
StepBad(T, eq, en, s, a, b) ==
  LET dl  == en.L[s][a] - en.L[s][b]
      dq  == eq.q[s][a] - eq.q[s][b]
      lam == LamMul(T, s, dl)
  IN IF Exactable(en.L[s][a]) /\ Exactable(en.L[s][b]) THEN AbsI(lam - dq) > StepTol(T, s, lam)
     ELSE IF Exactable(en.L[s][b]) THEN dq > lam + StepTol(T, s, lam) + LamMul(T, s, U20) + 1
     ELSE FALSE
StepFails(T, eq, en, j) ==
  {FR("improvement-step", j, x[1], x[2][1], x[2][2], 0, 0) :
      x \in {y \in SPairs(T) : StepBad(T, eq, en, y[1], y[2][1], y[2][2])}}

\* ------------------------------------------------------------------ clauses 2 and 3 on the returned iterate
Judged(T, e, s) == {a \in Avail(T, s) : e.pi[s][a] >= 2}
EUnits(e, s, a) == 12 + (22200 \div (2 * e.pi[s][a] - 1))
Ref(T, e, s)    == CHOOSE a \in Avail(T, s) : \A b \in Avail(T, s) : e.pi[s][a] > e.pi[s][b] \/ (e.pi[s][a] = e.pi[s][b] /\ a <= b)
\* d_a = lambda L_a - (q_a - v), for every action (saturating product)
DRes(T, e, s, a) == LamMul(T, s, e.L[s][a]) - (e.q[s][a] - e.v[s])
\* lambda KL(pi | softmax) in units, from the residuals: sum_a w_a |d_a| 2^-30 with w_a = 11 + 11 pi_int / 1024 (+1)
WUnits(e, s, a) == 12 + (((e.pi[s][a] + 1) * 11) \div K10)
Delta(T, e, s) ==
  1 + SumTo([a \in Ac(T) |-> IF a \notin Avail(T, s) THEN 0
                              ELSE ((((AbsI(DRes(T, e, s, a)) \div 32768) + 1) * WUnits(e, s, a)) \div 32768) + 1], T.K)
\* policy = prior-weighted softmax of Q: pairwise, among the entries of at least 2 units
SoftTol(T, e, s, a, b, lam) == LamMul(T, s, EUnits(e, s, a) + EUnits(e, s, b)) + 1 + CeilLam(T, s) + 3 + F32(lam)
SoftBad(T, e, s, a, b) ==
  LET lam == LamMul(T, s, e.L[s][a] - e.L[s][b])
  IN AbsI(lam - (e.q[s][a] - e.q[s][b])) > SoftTol(T, e, s, a, b, lam)
SoftRes(T, e, s, a, b) == LamMul(T, s, e.L[s][a] - e.L[s][b]) - (e.q[s][a] - e.q[s][b])
\* entries below 2 units against the most probable action r: q_a - q_r <= lambda (ln(1.52 2^-20 / prior_a) - L_r + e_r)
LSmall(T, s, a) == MulDiv(U20, LogUB[T.PRD] - LogLB[T.pn[s][a]] - 134400, 10000) + 1
SmallBad(T, e, s, a) ==
  LET r   == Ref(T, e, s)
      lam == LamMul(T, s, LSmall(T, s, a) - e.L[s][r] + EUnits(e, s, r))
  IN (e.q[s][a] - e.q[s][r]) > lam + CeilLam(T, s) + 4 + F32(lam)
\* V = prior-weighted log-sum-exp of Q:  v = q_a - lambda L_a for every judged a
\* (the temperatures used by the evaluation and by the softmax differ by up to 2^-23 relative, which moves v by at
\*  most 2^-23 lambda KL(pi | prior) <= 2^-23 * 2.78 * 2^20 lambda < lambda / 2 units)
LseTol(T, e, s, a) == LamMul(T, s, EUnits(e, s, a)) + 1 + Delta(T, e, s) + CeilLam(T, s) + 4
                      + F32(LamMul(T, s, e.L[s][a])) + (CeilLam(T, s) \div 2) + 1
FixFails(T, e, j) ==
  {FR("policy-not-softmax-of-action-values", j, x[1], x[2][1], x[2][2],
      SoftRes(T, e, x[1], x[2][1], x[2][2]),
      SoftTol(T, e, x[1], x[2][1], x[2][2], LamMul(T, x[1], e.L[x[1]][x[2][1]] - e.L[x[1]][x[2][2]]))) :
      x \in {y \in SPairs(T) : /\ y[2][1] < y[2][2]
                                       /\ y[2][1] \in Judged(T, e, y[1]) /\ y[2][2] \in Judged(T, e, y[1])
                                       /\ SoftBad(T, e, y[1], y[2][1], y[2][2])}}
  \cup {FR("negligible-action-not-dominated", j, x[1], x[2], Ref(T, e, x[1]), e.q[x[1]][x[2]] - e.q[x[1]][Ref(T, e, x[1])], 0) :
      x \in {y \in SA(T) : y[2] \notin Judged(T, e, y[1]) /\ SmallBad(T, e, y[1], y[2])}}
  \cup {FR("state-value-not-log-sum-exp", j, x[1], x[2], 0, DRes(T, e, x[1], x[2]), LseTol(T, e, x[1], x[2])) :
      x \in {y \in SA(T) : y[2] \in Judged(T, e, y[1])
                          /\ AbsI(DRes(T, e, y[1], y[2])) > LseTol(T, e, y[1], y[2])}}

\* ------------------------------------------------------------------ (O) limit clause: distance to the optimal action values
MaxDelta(T, e) == MaxSet({Delta(T, e, s) : s \in St(T)})
ResidSlack(T, e) == MulDiv(MaxDelta(T, e) + 3, T.GD, T.GD - T.GN) + 3
LamMaxAt(T) == CHOOSE s \in St(T) : \A t \in St(T) : T.LN[s] * T.LD[t] >= T.LN[t] * T.LD[s]
\* gamma lambda ln|A| / (1 - gamma), rounded up
LimitB(T) ==
  LET s == LamMaxAt(T)  t1 == MulDiv(U20, LogUB[T.K], 10000) + 1
  IN MulDiv(t1, T.LN[s] * T.GN, T.LD[s] * (T.GD - T.GN)) + 1
QStarU(T) == LET vs == OptimalValue(T)  qs == OptimalQ(T, vs)
             IN TLCEval([s \in St(T) |-> [a \in Ac(T) |-> IF a \in Avail(T, s) THEN ScaleRat(qs[s][a]) ELSE 0]])
LimitFails(T, e, j) ==
  IF T.orc = 0 \/ T.unif = 0 THEN {}
  ELSE LET qs == QStarU(T)  B == LimitB(T)  sl == ResidSlack(T, e) + F32(LimitB(T)) IN
       {FR("action-values-above-optimal", j, x[1], x[2], 0, e.q[x[1]][x[2]] - qs[x[1]][x[2]], sl + 2) :
           x \in {y \in SA(T) : e.q[y[1]][y[2]] > qs[y[1]][y[2]] + sl + 2}}
       \cup {FR("action-values-farther-from-optimal-than-bound", j, x[1], x[2], 0,
                qs[x[1]][x[2]] - e.q[x[1]][x[2]], B + sl + 2) :
           x \in {y \in SA(T) : e.q[y[1]][y[2]] < qs[y[1]][y[2]] - B - sl - 2}}

BoundFails(T, e, j) ==
  LET vb == VBound(T) + (IF MagOK(T, e) THEN ResidSlack(T, e) ELSE 1024) IN
  {FR("value-outside-reward-bounds", j, s, 0, 0, e.v[s], vb) : s \in {x \in St(T) : AbsI(e.v[x]) > vb}}
  \cup {FR("value-outside-reward-bounds", j, x[1], x[2], 0, e.q[x[1]][x[2]], vb) :
          x \in {y \in SA(T) : AbsI(e.q[y[1]][y[2]]) > vb}}

\* signature predicate of a defect of the unchanged tree: the wrapper emulates "prior 0 on an unavailable action" by the
\* smallest positive float (logit ln(2.2e-308) = -708.4, action value 0 from the all-zero transition row), so an
\* unavailable action competes with - and beyond about -693 lambda dominates - the available ones of a state whose
\* available action values are all below -690 lambda
ClampStates(T, e) ==
  {s \in St(T) : /\ Avail(T, s) # Ac(T)
                 /\ \A a \in Avail(T, s) : AbsI(e.q[s][a]) < BIG /\ e.q[s][a] < -LamMul(T, s, 690 * U20)}

\* all statement clauses on the returned iterate of a run that reported convergence
ReturnedFails(T, e, j) ==
  ShapeFails(T, e, j) \cup
  (IF ~MagOK(T, e) THEN BoundFails(T, e, j)
   ELSE LookFails(T, e, j, "action-values-not-lookahead-of-state-values") \cup FineFails(T, e, j)
        \cup (IF T.f32 = 1 THEN {} ELSE FixFails(T, e, j) \cup LimitFails(T, e, j) \cup BoundFails(T, e, j)))

\* numbers of the final judgement, emitted for the harness' independent re-computation (machinery cross-check)
Report(T, e) ==
  IF ~MagOK(T, e) THEN [mag |-> 0]
  ELSE [mag |-> 1,
        look |-> [s \in St(T) |-> [a \in Ac(T) |-> IF a \in Avail(T, s) THEN LookRes(T, e, s, a) ELSE 0]],
        looktol |-> LookTol(T, e),
        fine |-> IF T.f32 = 1 \/ e.fine = 0 THEN <<>>
                 ELSE [s \in St(T) |-> [a \in Ac(T) |-> IF a \in Avail(T, s) THEN FineRes(T, e, s, a) ELSE 0]],
        finetol |-> FineTol(T, e),
        d |-> [s \in St(T) |-> [a \in Ac(T) |-> IF a \in Avail(T, s) THEN DRes(T, e, s, a) ELSE 0]],
        delta |-> [s \in St(T) |-> Delta(T, e, s)],
        lsetol |-> [s \in St(T) |-> [a \in Ac(T) |-> IF a \in Judged(T, e, s) THEN LseTol(T, e, s, a) ELSE -1]],
        evalres |-> [s \in St(T) |-> EvalRes(T, e, s)], evaltol |-> [s \in St(T) |-> EvalTol(T, e, s)],
        qstar |-> IF T.orc = 1 /\ T.unif = 1 THEN QStarU(T) ELSE <<>>,
        limitb |-> IF T.orc = 1 /\ T.unif = 1 THEN LimitB(T) ELSE 0,
        slack |-> ResidSlack(T, e)]

\* ------------------------------------------------------------------ (R) trace mode
Ev(j) == Tr.ev[j]
Last  == Len(Tr.ev)

TInit ==
  /\ Mode = "trace"
  /\ tid \in 1..Len(Batch)
  /\ l = -Len(Batch[tid].pre)      \* earlier plan_on calls of the same planner object still to be replayed
  /\ phase = "init" /\ fails = {} /\ flags = {} /\ sup = <<>> /\ V = <<>>

\* call history: the SAME planner object planned before - on another MDP (T.pre[i].same = 0, its size is listed), or
\* on this very MDP object under another configuration (same = 1: planner.entropy_weight, planner.policy_prior or
\* mdp.discount_rate were changed in place afterwards).  A planner carries no state from one plan_on to the next:
\* the action changes nothing but the position, so the run on this MDP is judged exactly like the run of a fresh
\* planner under the configuration in force at the time of the call (its own prior, action sets, size, weight).
EarlierCall ==
  /\ Mode = "trace" /\ phase = "init" /\ l < 0
  /\ l' = l + 1
  /\ UNCHANGED <<tid, phase, fails, flags, sup, V>>

\* pi_0: the configured initial policy (default: uniform over the actions of positive prior)
InitialBad(T, e) ==
  T.tail = 0 /\ \E x \in St(T) \X Ac(T) : AbsI(e.pi[x[1]][x[2]] - MulDiv(U20, T.ip[x[1]][x[2]], T.IPD)) > 2
ShapeFlags(T, e) ==
  (IF LogBad(T, e) THEN {"recorder-log-inconsistent"} ELSE {})
  \cup (IF ShapeFails(T, e, 0) # {} THEN {"iterate-policy-not-normalised"} ELSE {})

Start ==
  /\ Mode = "trace" /\ phase = "init" /\ l = 0
  /\ l' = 1 /\ phase' = "improved"
  /\ flags' = flags \cup ShapeFlags(Tr, Ev(1))
                    \cup (IF InitialBad(Tr, Ev(1)) THEN {"initial-policy-differs-from-configured"} ELSE {})
  /\ UNCHANGED <<tid, fails, sup, V>>

\* v, q of the current policy.  On an intermediate iterate a mismatch is implementation-shaped (drift); the
\* same identities on the returned iterate are judged by Converge.
Evaluate ==
  /\ Mode = "trace" /\ phase = "improved" /\ Ev(l).hq = 1
  /\ phase' = "evaluated"
  /\ flags' = flags \cup
       (IF ~MagOK(Tr, Ev(l)) THEN {"iterate-magnitude-outside-arithmetic"}
        ELSE (IF LookFails(Tr, Ev(l), l, "x") # {} THEN {"iterate-lookahead"} ELSE {})
             \cup (IF Tr.f32 = 0 /\ EvalFails(Tr, Ev(l), l) # {} THEN {"iterate-evaluation-identity"} ELSE {}))
  /\ UNCHANGED <<tid, l, fails, sup, V>>

Improve ==
  /\ Mode = "trace" /\ phase = "evaluated" /\ l < Last
  /\ l' = l + 1 /\ phase' = "improved"
  /\ flags' = flags \cup ShapeFlags(Tr, Ev(l + 1))
                    \cup (IF Tr.f32 = 0 /\ MagOK(Tr, Ev(l)) /\ StepFails(Tr, Ev(l), Ev(l + 1), l) # {}
                          THEN {"iterate-improvement-step"} ELSE {})
  /\ UNCHANGED <<tid, fails, sup, V>>

Converge ==
  /\ Mode = "trace" /\ phase = "evaluated" /\ l = Last /\ Tr.conv = 1
  /\ phase' = "converged"
  /\ fails' = fails \cup ReturnedFails(Tr, Ev(l), l)
  /\ flags' = flags \cup (IF Tr.its # l - 1 THEN {"reported-iteration-count-differs"} ELSE {})
  /\ UNCHANGED <<tid, l, sup, V>>

Cap ==
  /\ Mode = "trace" /\ phase \in {"improved", "evaluated"} /\ l = Last /\ Tr.conv = 0
  /\ (phase = "improved" => Ev(l).hq = 0)
  /\ phase' = "capped"
  /\ UNCHANGED <<tid, l, fails, flags, sup, V>>

\* ------------------------------------------------------------------ (R) mc mode: the zero-temperature limit of the loop
W12(m, sp) == [s \in St(m) |-> [a \in Ac(m) |-> IF a \in sp[s] THEN 12 \div Cardinality(sp[s]) ELSE 0]]
QTab(m, v) == TLCEval([s \in St(m) |-> [a \in Ac(m) |-> QFromV(m, v, s, a)]])
ArgMax(m, q, s) == {a \in Avail(m, s) : \A b \in Avail(m, s) : ~RLess(q[s][a], q[s][b])}
Supports(m) == {f \in [St(m) -> (SUBSET Ac(m)) \ {{}}] : \A s \in St(m) : f[s] \subseteq Avail(m, s)}

MInit ==
  /\ Mode = "mc"
  /\ tid \in 1..Len(Batch)
  /\ sup \in Supports(Batch[tid])
  /\ V = <<>>                       \* nothing evaluated yet (the oracle stays out of Init: TLC evaluates Init on one thread)
  /\ l = 0 /\ phase = "improved" /\ fails = {} /\ flags = {}

\* Evaluate at lambda -> 0+: lambda KL vanishes, v is the exact value of the uniform-over-`sup` policy
MEvaluate ==
  /\ Mode = "mc" /\ phase = "improved"
  /\ V' = PolicyValue(Tr, W12(Tr, sup), 12)
  /\ phase' = "evaluated"
  /\ UNCHANGED <<tid, l, fails, flags, sup>>

\* Improve at lambda -> 0+: softmax(q / lambda) -> uniform over the maximisers; Converge when the policy repeats
MImprove ==
  /\ Mode = "mc" /\ phase = "evaluated"
  /\ LET q  == QTab(Tr, V)
         ns == [s \in St(Tr) |-> ArgMax(Tr, q, s)]
     IN IF ns = sup THEN phase' = "done" /\ sup' = sup
        ELSE sup' = ns /\ phase' = "improved"
  /\ UNCHANGED <<tid, l, fails, flags, V>>

Init == TInit \/ MInit
Next == EarlierCall \/ Start \/ Evaluate \/ Improve \/ Converge \/ Cap \/ MEvaluate \/ MImprove
Spec == Init /\ [][Next]_vars

\* ------------------------------------------------------------------ emission
Emit ==
  IF Mode = "trace"
  THEN phase \in {"converged", "capped"} =>
         PrintT(ToJson([tid |-> tid, phase |-> phase, l |-> l, fails |-> fails, flags |-> flags,
                        rep |-> IF phase = "converged" THEN Report(Tr, Ev(l)) ELSE [mag |-> -1],
                        clamp |-> IF phase = "converged" THEN ClampStates(Tr, Ev(l)) ELSE {}]))
  ELSE phase = "done" =>
         PrintT(ToJson([tid |-> tid, phase |-> phase, v |-> V, q |-> QTab(Tr, V), sup |-> sup]))

\* ------------------------------------------------------------------ (P) properties
\* the zero-temperature loop stops exactly at the optimal values with the full arg-max sets, from every start
ZeroTempOptimal ==
  (Mode = "mc" /\ phase = "done") =>
     LET o == OptimalValue(Tr)  oq == OptimalQ(Tr, o) IN
     /\ \A s \in St(Tr) : REq(V[s], o[s])
     /\ \A s \in St(Tr) : sup[s] = {a \in Avail(Tr, s) : REq(oq[s][a], o[s])}
SupportsNonEmpty == Mode = "mc" => \A s \in St(Tr) : sup[s] # {} /\ sup[s] \subseteq Avail(Tr, s)
\* policy improvement is monotone (hence the loop cannot cycle and MC terminates without a counter)
MonotoneImprovement == [][(Mode = "mc" /\ V # <<>> /\ V' # V) => \A s \in St(Tr) : RLeq(V[s], V'[s])]_vars
\* every explored value stays inside the reward bounds max|R| / (1 - gamma)
MCWithinRewardBounds ==
  (Mode = "mc" /\ V # <<>>) => \A s \in St(Tr) : RLeq(RAbs(V[s]), <<RAbsMax(Tr) * Tr.GD, Tr.GD - Tr.GN>>)
\* instance filter: the quantifier of the property (row-stochastic tensor, no absorbing states, discount in (0,1),
\* positive entropy weights, prior on the open simplex) and the ranges the arithmetic above relies on
InstancesOK ==
  /\ WellFormed(Tr) /\ Tr.GN < Tr.GD /\ ExplAbs(Tr) = {}
  /\ \A s \in St(Tr) : Avail(Tr, s) # {}
  /\ Tr.K >= 1 /\ Tr.K <= 4 /\ Tr.N >= 1 /\ Tr.N <= 6
  /\ \A s \in St(Tr) : Tr.LN[s] > 0 /\ Tr.LD[s] > 0 /\ Tr.LN[s] <= 10 * Tr.LD[s] /\ Tr.LD[s] <= 1000
  /\ Tr.PRD >= 1 /\ Tr.PRD <= 16
  /\ \A s \in St(Tr) : (\A a \in Ac(Tr) : IF a \in Avail(Tr, s) THEN Tr.pn[s][a] >= 1 ELSE Tr.pn[s][a] = 0)
                         /\ RowSum(Tr, Tr.pn[s]) = Tr.PRD
  /\ (Tr.unif = 1 => \A s \in St(Tr) : \A a \in Avail(Tr, s) : Tr.pn[s][a] * Cardinality(Avail(Tr, s)) = Tr.PRD)
  /\ VBound(Tr) < BIG \div 2
=============================================================================
