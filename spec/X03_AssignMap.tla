--------------------------- MODULE X03_AssignMap ---------------------------
(* Extension X03, first part: msdm.core.assignment.AssignmentMap / DefaultAssignmentMap   *)
(* behave like a dict keyed by (possibly unhashable) assignments.                        *)
(*                                                                                      *)
(* (M) keys: nested assignments compared structurally (X03_Keys / lib/Nested), values:    *)
(*     small integers.                                                                   *)
(* (O) oracle: the map as a FUNCTION - the set of <<key, value>> pairs Fn(m); every        *)
(*     operation has its textbook meaning on that set (override, restriction, lookup).     *)
(* (R) reference machine: an insertion-ordered association list m (python dict order:     *)
(*     overwriting keeps the position, deleting closes the gap, new keys are appended)     *)
(*     with one action per call on the real object:                                       *)
(*        Set   m[k] = v            Get   m[k]            Del   del m[k]                   *)
(*        Has   k in m              Upd   m.update(o)     Mrg   m = m.merge(o)             *)
(*     mode "plain" = AssignmentMap; "d0" / "d1" = DefaultAssignmentMap whose default      *)
(*     function takes no argument (returns 0) / the key (returns 100 + index of the key):  *)
(*     Get of a missing key returns the default WITHOUT storing it (dcall = 1: the         *)
(*     function is called exactly then, with that key); everything else is unchanged.      *)
(*     Every event carries the expected return value of the call.                         *)
(* (P) StepLaw (action property): each action of (R) is its oracle meaning on Fn;          *)
(*     MapOK: the list is a function (no key twice), len = number of pairs.                *)
(*                                                                                      *)
(* TLC explores every operation sequence of length <= Cfg.maxlen over the configured       *)
(* menus from every configured initial map and mode; every state emits its history, the    *)
(* expected items (in order), and for every map of the family whether it is equal to the   *)
(* current one (pipeline A: the harness replays the history on the real classes).          *)
EXTENDS X03_Keys

Keys   == SeqToSet(Cfg.keys)        \* indices into KeyUniv usable in Set / Get / Del / Has
Vals   == SeqToSet(Cfg.vals)
Modes  == SeqToSet(Cfg.modes)
MaxLen == Cfg.maxlen
\* family of argument maps: Cfg.others[j] = sequence of <<key index, value>> in insertion order
NOthers == Len(Cfg.others)
UpdArgs == SeqToSet(Cfg.upd)        \* members of the family usable as update argument
MrgArgs == SeqToSet(Cfg.mrg)        \* ... as merge argument
Inits   == SeqToSet(Cfg.inits)      \* 0 = empty map, j = built by the constructor from Cfg.others[j]

VARIABLES mode, init, m, hist
vars == <<mode, init, m, hist>>

\* ------------------------------------------------------------------ (R) association list
Pos(al, key) == {i \in 1..Len(al) : al[i].k = key}
HasKey(al, key) == Pos(al, key) # {}
Lookup(al, key) == al[CHOOSE i \in Pos(al, key) : TRUE].v
Put(al, key, v) ==
  IF HasKey(al, key) THEN [i \in 1..Len(al) |-> IF al[i].k = key THEN [k |-> key, v |-> v] ELSE al[i]]
  ELSE Append(al, [k |-> key, v |-> v])
Remove(al, key) == SelectSeq(al, LAMBDA e : e.k # key)
RECURSIVE PutAll(_, _)
PutAll(al, pairs) == IF pairs = <<>> THEN al ELSE PutAll(Put(al, K(Head(pairs)[1]), Head(pairs)[2]), Tail(pairs))
Other(j) == PutAll(<<>>, Cfg.others[j])
Default(md, i) == IF md = "d0" THEN 0 ELSE 100 + i

\* ------------------------------------------------------------------ (O) the map as a function
Fn(al) == {<<al[i].k, al[i].v>> : i \in 1..Len(al)}
Dom(F) == {p[1] : p \in F}
Override(F, G) == {p \in F : p[1] \notin Dom(G)} \cup G
Without(F, key) == {p \in F : p[1] # key}
Apply(F, key) == (CHOOSE p \in F : p[1] = key)[2]

\* ------------------------------------------------------------------ events
None    == [t |-> "none", v |-> 0]
KeyErr  == [t |-> "keyerr", v |-> 0]
Val(v)  == [t |-> "val", v |-> v]
Bool(b) == [t |-> "bool", v |-> IF b THEN 1 ELSE 0]
\* input shape of a key operation (names the finding if the real call deviates)
KeyShape(i) ==
  IF \E j \in Partner(i) : HasKey(m, K(j)) THEN "json-text-twin-of-the-key-is-present"
  ELSE IF Unhashable(K(i)) THEN (IF HasKey(m, K(i)) THEN "unhashable-key-present" ELSE "unhashable-key-absent")
  ELSE (IF HasKey(m, K(i)) THEN "hashable-key-present" ELSE "hashable-key-absent")
ArgShape(j) ==
  IF \E p \in SeqToSet(Cfg.others[j]) : Unhashable(K(p[1])) THEN "argument-with-unhashable-keys"
  ELSE "argument-with-hashable-keys"
Ev(op, i, v, o, ret, dcall, shape) ==
  [op |-> op, k |-> i, v |-> v, o |-> o, ret |-> ret, dcall |-> dcall, shape |-> shape]

Init ==
  /\ mode \in Modes /\ init \in Inits /\ hist = <<>>
  /\ m = IF init = 0 THEN <<>> ELSE Other(init)

Set(i, v) ==
  /\ m' = Put(m, K(i), v)
  /\ hist' = Append(hist, Ev("set", i, v, 0, None, 0, KeyShape(i)))
Get(i) ==
  /\ m' = m
  /\ hist' = Append(hist,
       IF HasKey(m, K(i)) THEN Ev("get", i, 0, 0, Val(Lookup(m, K(i))), 0, KeyShape(i))
       ELSE IF mode = "plain" THEN Ev("get", i, 0, 0, KeyErr, 0, KeyShape(i))
       ELSE Ev("get", i, 0, 0, Val(Default(mode, i)), 1, KeyShape(i)))
Del(i) ==
  /\ m' = Remove(m, K(i))
  /\ hist' = Append(hist, Ev("del", i, 0, 0, IF HasKey(m, K(i)) THEN None ELSE KeyErr, 0, KeyShape(i)))
Has(i) ==
  /\ m' = m
  /\ hist' = Append(hist, Ev("has", i, 0, 0, Bool(HasKey(m, K(i))), 0, KeyShape(i)))
Upd(j) ==
  /\ m' = PutAll(m, Cfg.others[j])
  /\ hist' = Append(hist, Ev("upd", 0, 0, j, None, 0, ArgShape(j)))
\* merge returns a NEW plain AssignmentMap (the receiver stays as it is; the harness checks that);
\* the machine continues on the returned object, so it is explored from plain maps only
Mrg(j) ==
  /\ mode = "plain"
  /\ m' = PutAll(m, Cfg.others[j])
  /\ hist' = Append(hist, Ev("mrg", 0, 0, j, None, 0, ArgShape(j)))

Next ==
  /\ Len(hist) < MaxLen
  /\ \/ \E i \in Keys : (\E v \in Vals : Set(i, v)) \/ Get(i) \/ Del(i) \/ Has(i)
     \/ \E j \in UpdArgs : Upd(j)
     \/ \E j \in MrgArgs : Mrg(j)
  /\ UNCHANGED <<mode, init>>
Spec == Init /\ [][Next]_vars

\* ------------------------------------------------------------------ emission (pipeline A)
Items(al) == [i \in 1..Len(al) |-> <<IdxOf(al[i].k), al[i].v>>]
Emit ==
  PrintT(ToJson([mode |-> mode, init |-> init, hist |-> hist, items |-> Items(m),
                 eq |-> [j \in 1..NOthers |-> Fn(m) = Fn(Other(j))]]))
\* the universe itself, once (the harness decodes the entries into python objects)
EmitUniverse ==
  (hist = <<>> /\ init = 0 /\ mode = CHOOSE x \in Modes : TRUE) =>
     PrintT(ToJson([universe |-> [i \in 1..NU |-> K(i)],
                    unhashable |-> [i \in 1..NU |-> Unhashable(K(i))],
                    shadows |-> Shadows]))

\* ------------------------------------------------------------------ (P) properties
MapOK ==
  /\ \A i \in 1..Len(m) : \A j \in 1..Len(m) : m[i].k = m[j].k => i = j     \* a function
  /\ Len(m) = Cardinality(Fn(m)) /\ Cardinality(Dom(Fn(m))) = Len(m)
  /\ \A i \in 1..Len(m) : m[i].k \in SeqToSet(KeyUniv)
ConfigOK ==
  /\ KeysOK
  /\ Keys \subseteq 1..NU /\ UpdArgs \subseteq 1..NOthers /\ MrgArgs \subseteq 1..NOthers
  /\ Inits \subseteq 0..NOthers /\ Modes \subseteq {"plain", "d0", "d1"}
  /\ \A j \in 1..NOthers : \A p \in SeqToSet(Cfg.others[j]) : p[1] \in 1..NU

\* each action of the list machine is its textbook meaning on the function
StepLaw ==
  [][LET e == hist'[Len(hist')]  F == Fn(m)  key == K(e.k) IN
     CASE e.op = "set" -> Fn(m') = Override(F, {<<key, e.v>>}) /\ e.ret = None /\ e.dcall = 0
       [] e.op = "get" -> /\ m' = m                               \* a default is never stored
                          /\ e.ret = IF key \in Dom(F) THEN Val(Apply(F, key))
                                     ELSE IF mode = "plain" THEN KeyErr ELSE Val(Default(mode, e.k))
                          /\ (e.dcall = 1) = (mode # "plain" /\ key \notin Dom(F))   \* lazily: only then
       [] e.op = "del" -> /\ Fn(m') = Without(F, key)
                          /\ e.ret = IF key \in Dom(F) THEN None ELSE KeyErr
                          /\ (key \notin Dom(F) => m' = m)
       [] e.op = "has" -> m' = m /\ e.ret = Bool(key \in Dom(F))
       [] e.op \in {"upd", "mrg"} -> Fn(m') = Override(F, Fn(Other(e.o))) /\ e.ret = None
       [] OTHER -> FALSE]_vars
\* order of iteration (python dict order): old keys keep their relative order, new keys come last
OrderLaw ==
  [][LET old == [i \in 1..Len(m) |-> m[i].k]
         new == [i \in 1..Len(m') |-> m'[i].k] IN
     /\ SelectSeq(new, LAMBDA x : x \in SeqToSet(old)) = SelectSeq(old, LAMBDA x : x \in SeqToSet(new))
     /\ \A i \in 1..Len(new) : \A j \in 1..Len(new) :
           (new[i] \in SeqToSet(old) /\ new[j] \notin SeqToSet(old)) => i < j]_vars
=============================================================================
