"""Instance families shared by the specs (as JSON batches) and the drivers.

An abstract MDP instance is a dict with the fields documented in spec/lib/MDP.tla; states and
actions are 1-based in TLA+ (JSON arrays are 0-based lists of the same order).
"""
import itertools
import random
from fractions import Fraction


def compositions(total, parts):
    """All tuples of `parts` non-negative ints summing to `total`."""
    if parts == 1:
        yield (total,)
        return
    for i in range(total + 1):
        for rest in compositions(total - i, parts - 1):
            yield (i,) + rest


def rand_row(rng, n, PD, sparse=0.5):
    """Random composition of PD over n cells, biased to few non-zero cells."""
    row = [0] * n
    k = 1 if rng.random() < sparse else rng.randint(1, min(n, PD))
    cells = rng.sample(range(n), k)
    left = PD
    for i, c in enumerate(cells):
        if i == len(cells) - 1:
            row[c] += left
        else:
            x = rng.randint(1, left - (len(cells) - 1 - i))
            row[c] += x
            left -= x
    return row


def rand_mdp(rng, *, n_na, n_abs, K, PD=2, GN=1, GD=2, rewards=(-2, -1, 0, 1, 2), ID=None,
             statedep=True, ghost=True, p_implicit=0.1, multi_init=True, force_progress=False,
             uniform_actions=False, init_on_abs=0.1):
    """Random member of MDPFam.

    n_na: states that are not explicitly absorbing; n_abs: explicitly absorbing states (with
    arbitrary ghost dynamics when ghost=True).  Positions of absorbing states are random.
    force_progress: every available action of a non-absorbing state has positive probability of
    reaching a strictly later state in a hidden order ending in an absorbing state (=> every policy
    is proper); requires n_abs >= 1.
    """
    N = n_na + n_abs
    ID = ID or PD
    order = list(range(N))
    rng.shuffle(order)
    abs_states = set(order[:n_abs])
    # hidden progress order: absorbing states last
    rank = {}
    na_states = [s for s in range(N) if s not in abs_states]
    rng.shuffle(na_states)
    for i, s in enumerate(na_states):
        rank[s] = i
    for s in abs_states:
        rank[s] = N + 1
    avail = []
    for s in range(N):
        if uniform_actions or not statedep:
            avail.append([1] * K)
        else:
            while True:
                row = [1 if rng.random() < 0.7 else 0 for _ in range(K)]
                if any(row):
                    break
            avail.append(row)
    P = [[[0] * N for _ in range(K)] for _ in range(N)]
    R = [[[0] * N for _ in range(K)] for _ in range(N)]
    for s in range(N):
        implicit = (s not in abs_states) and (not force_progress) and rng.random() < p_implicit
        for a in range(K):
            if s in abs_states and not ghost:
                P[s][a][s] = PD
                continue
            if implicit:
                # self-loop with reward 0; rewards attached to the zero-probability successors are ghosts
                P[s][a][s] = PD
                for t in range(N):
                    if t != s:
                        R[s][a][t] = rng.choice(rewards)
                continue
            row = rand_row(rng, N, PD)
            if force_progress and s not in abs_states:
                later = [t for t in range(N) if rank[t] > rank[s]]
                if not any(row[t] > 0 for t in later):
                    # move one unit of mass to a later state
                    src = next(t for t in range(N) if row[t] > 0)
                    row[src] -= 1
                    row[rng.choice(later)] += 1
            P[s][a] = row
            for t in range(N):
                R[s][a][t] = rng.choice(rewards)
    # initial distribution
    p0 = [0] * N
    cands = list(range(N)) if rng.random() < init_on_abs or not na_states else na_states
    if multi_init and rng.random() < 0.5:
        row = rand_row(rng, len(cands), ID, sparse=0.2)
        for i, c in enumerate(cands):
            p0[c] = row[i]
    else:
        p0[rng.choice(cands)] = ID
    return {"N": N, "K": K, "PD": PD, "GN": GN, "GD": GD, "ID": ID,
            "abs": [1 if s in abs_states else 0 for s in range(N)],
            "avail": avail, "P": P, "R": R, "p0": p0}


def magnitude_ok(m, QD=1):
    """Conservative bound keeping the TLA+ oracles inside 30-bit integers."""
    n = sum(1 for x in m["abs"] if not x)
    if n > 3:
        return False
    e = m["GD"] * m["PD"] * QD                      # max |entry| of the system matrix
    rmax = max([abs(x) for s in m["R"] for a in s for x in a] + [1])
    det = {0: 1, 1: e, 2: 2 * e * e, 3: 6 * e ** 3}[n]
    cof = {0: 1, 1: 1, 2: e, 3: 2 * e * e}[n]
    vn = n * cof * m["GD"] * m["PD"] * QD * rmax    # numerators of V
    worst = max(det * m["GD"] * m["PD"] * QD * rmax, vn * m["GD"] * m["PD"] * QD * m["K"])
    return worst < 2 ** 30


# ---------------------------------------------------------------------------------------------
# independent Python semantics of an abstract instance (used by builders and for cross-checks)
# ---------------------------------------------------------------------------------------------

def expl_abs(m):
    return {s for s in range(m["N"]) if m["abs"][s]}


def avail(m, s):
    return [a for a in range(m["K"]) if m["avail"][s][a]]


def reach(m):
    ab = expl_abs(m)
    seen = {s for s in range(m["N"]) if m["p0"][s] > 0}
    frontier = list(seen)
    while frontier:
        s = frontier.pop()
        if s in ab:
            continue
        for a in avail(m, s):
            for t in range(m["N"]):
                if m["P"][s][a][t] > 0 and t not in seen:
                    seen.add(t)
                    frontier.append(t)
    return seen


def ghost_closed(m):
    """True iff every positive-probability successor of a reachable absorbing state is reachable
    for other reasons (so msdm's array builders can index it with an inferred state list)."""
    r = reach(m)
    for s in r:
        if m["abs"][s]:
            for a in avail(m, s):
                for t in range(m["N"]):
                    if m["P"][s][a][t] > 0 and t not in r:
                        return False
    return True


def gamma(m):
    return Fraction(m["GN"], m["GD"])
