"""Independent exact (fractions.Fraction) re-implementation of the oracles of spec/lib/MDP.tla.

Used only to cross-check the TLA+ oracles (a disagreement is a *machinery* failure, exit 2):
it shares no code with msdm or numpy and none with the TLA+ text.
"""
import itertools
from fractions import Fraction as F

NEG = "-inf"
POS = "+inf"


def _solve(A, b):
    n = len(A)
    M = [row[:] + [b[i]] for i, row in enumerate(A)]
    for c in range(n):
        p = next((r for r in range(c, n) if M[r][c] != 0), None)
        if p is None:
            raise ZeroDivisionError("singular")
        M[c], M[p] = M[p], M[c]
        inv = 1 / M[c][c]
        M[c] = [x * inv for x in M[c]]
        for r in range(n):
            if r != c and M[r][c] != 0:
                f = M[r][c]
                M[r] = [x - f * y for x, y in zip(M[r], M[c])]
    return [M[i][n] for i in range(n)]


def prob(m, s, a, t):
    return F(m["P"][s][a][t], m["PD"])


def policy_value(m, w):
    """w[s][a] Fractions (stochastic policy on non-absorbing states). Returns list of Fraction / NEG."""
    N, K = m["N"], m["K"]
    g = F(m["GN"], m["GD"])
    ab = {s for s in range(N) if m["abs"][s]}
    na = [s for s in range(N) if s not in ab]
    Pp = {s: [sum(w[s][a] * prob(m, s, a, t) for a in range(K) if w[s][a]) for t in range(N)] for s in na}
    rp = {s: sum(w[s][a] * prob(m, s, a, t) * m["R"][s][a][t] for a in range(K) if w[s][a] for t in range(N)) for s in na}
    ninf, zero = set(), set()
    if g == 1:
        def reach_from(s):
            seen = {t for t in range(N) if Pp[s][t] > 0}
            fr = list(seen)
            while fr:
                x = fr.pop()
                if x in ab:
                    continue
                for t in range(N):
                    if Pp[x][t] > 0 and t not in seen:
                        seen.add(t)
                        fr.append(t)
            return seen
        rch = {s: reach_from(s) for s in na}
        rec = {s for s in na if not (rch[s] & ab) and all(s in rch[t] for t in rch[s])}
        neg = {s for s in rec if any(rp[t] < 0 for t in rch[s] | {s})}
        ninf = {s for s in na if s in neg or rch[s] & neg}
        zero = rec - neg
    trans = [s for s in na if s not in ninf and s not in zero]
    A = [[(1 if i == j else 0) - g * Pp[i][j] for j in trans] for i in trans]
    b = [rp[i] for i in trans]
    x = _solve(A, b) if trans else []
    V = [F(0)] * N
    for s in ninf:
        V[s] = NEG
    for i, s in enumerate(trans):
        V[s] = x[i]
    return V


def det_policies(m):
    na = [s for s in range(m["N"]) if not m["abs"][s]]
    choices = [[a for a in range(m["K"]) if m["avail"][s][a]] for s in na]
    for combo in itertools.product(*choices):
        yield {s: {a: F(1 if a == c else 0) for a in range(m["K"])} for s, c in zip(na, combo)}


def _lt(x, y):
    if x == NEG:
        return y != NEG
    if y == NEG:
        return False
    return x < y


def optimal_value(m):
    vals = [policy_value(m, w) for w in det_policies(m)]
    V = []
    for s in range(m["N"]):
        best = vals[0][s]
        for v in vals[1:]:
            if _lt(best, v[s]):
                best = v[s]
        V.append(best)
    return V


def q_from_v(m, V, s, a):
    if not m["avail"][s][a]:
        return None
    g = F(m["GN"], m["GD"])
    tot = F(0)
    for t in range(m["N"]):
        p = prob(m, s, a, t)
        if p == 0:
            continue
        v = F(0) if m["abs"][t] else V[t]
        if v == NEG:
            return NEG
        tot += p * (m["R"][s][a][t] + g * v)
    return tot
