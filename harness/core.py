"""Check context: counters, verdicts (VIOLATION / KNOWN-FINDING / DRIFT), replay files, evidence."""
import hashlib
import json
import os
import shutil
import sys
import time
from pathlib import Path

VERIF = Path(__file__).resolve().parent.parent
KNOWN_FILE = VERIF / "known_findings.json"


def canon(obj):
    return json.dumps(obj, sort_keys=True, default=str)


def digest(obj):
    return hashlib.sha1(canon(obj).encode()).hexdigest()[:16]


class Ctx:
    def __init__(self, pid, tier="quick", seed=0, selftest=False):
        self.pid = pid
        self.tier = tier
        self.seed = int(seed)
        self.selftest = selftest
        self.t0 = time.time()
        self.workdir = VERIF / ".work" / f"{pid}-{tier}-{os.getpid()}"
        self._sweep_stale()
        if self.workdir.exists():
            shutil.rmtree(self.workdir)
        self.workdir.mkdir(parents=True)
        self.states = 0
        self.transitions = 0
        self.tlc_runs = []
        self.evaluations = 0
        self.validated = 0
        self.nontrivial_keys = set()
        self.samples = []
        self.skipped = {}
        self.counters = {}
        self.violations = []          # (signature, what, replay path)
        self.known_hit = {}           # signature -> count
        self.drifts = []
        self.rule = ""
        self.assumptions = []
        self.exhaustive = False
        self.extra = {}
        self.known = self._load_known()
        self._printed_known = set()
        self._viol_sigs = {}

    @staticmethod
    def _sweep_stale():
        """Remove work directories left behind by runs whose process is gone."""
        root = VERIF / ".work"
        if not root.exists():
            return
        for d in root.iterdir():
            try:
                pid = int(d.name.rsplit("-", 1)[1])
            except (IndexError, ValueError):
                continue
            if not os.path.exists(f"/proc/{pid}"):
                shutil.rmtree(d, ignore_errors=True)

    # ---------------------------------------------------------------- known findings
    def _load_known(self):
        if not KNOWN_FILE.exists():
            return {}
        data = json.loads(KNOWN_FILE.read_text())
        return {e["signature"]: e for e in data.get("findings", [])
                if e.get("property") == self.pid and e.get("status") == "known"}

    # ---------------------------------------------------------------- accounting
    def add_tlc(self, res, what=""):
        self.states += res.distinct
        self.transitions += res.generated
        self.tlc_runs.append({"module": res.module, "what": what, "distinct": res.distinct,
                              "generated": res.generated, "depth": res.depth,
                              "wall_s": round(res.wall_s, 2),
                              "coverage": {k: list(v) for k, v in res.coverage.items()} or None})

    def count(self, key, n=1):
        self.counters[key] = self.counters.get(key, 0) + n

    def skip(self, reason, n=1):
        self.skipped[reason] = self.skipped.get(reason, 0) + n

    def sample(self, obj, limit=4):
        if len(self.samples) < limit:
            self.samples.append(obj)

    def nontrivial(self, key):
        self.nontrivial_keys.add(key if isinstance(key, str) else digest(key))

    # ---------------------------------------------------------------- verdicts
    def violation(self, signature, what, case):
        """A clause of the property failed on a concrete execution of the real code.

        signature: stable name of call site + input shape, matched against known_findings.json.
        case: json-able description sufficient for --replay.
        """
        if signature in self.known:
            self.known_hit[signature] = self.known_hit.get(signature, 0) + 1
            if signature not in self._printed_known:
                self._printed_known.add(signature)
                print(f"KNOWN-FINDING: property={self.pid} {self.known[signature]['what']}", flush=True)
            return False
        n = self._viol_sigs.get(signature, 0)
        self._viol_sigs[signature] = n + 1
        if self.selftest == "quiet":      # binding self-test: expected failures, nothing written
            self.violations.append((signature, what, None))
            print(f"  (selftest) detected: {signature}: {what}"[:300], flush=True)
            return True
        if n >= 3:           # at most three replay files per signature
            self.violations.append((signature, what, None))
            return True
        rdir = VERIF / "replays" / self.pid
        rdir.mkdir(parents=True, exist_ok=True)
        body = {"property": self.pid, "signature": signature, "what": what, "case": case,
                "seed": self.seed, "tier": self.tier}
        path = rdir / f"{digest(body)}.json"
        path.write_text(json.dumps(body, indent=1, default=str))
        self.violations.append((signature, what, str(path)))
        print(f"VIOLATION property={self.pid} replay={path}", flush=True)
        print(f"  signature={signature} what={what}", flush=True)
        return True

    def drift(self, step, detail):
        self.drifts.append({"step": step, "detail": detail})
        if len(self.drifts) <= 5:
            print(f"DRIFT property={self.pid} step={step} {canon(detail)[:300]}", flush=True)

    # ---------------------------------------------------------------- finish
    def finish(self):
        ev = {
            "property_id": self.pid,
            "tier": self.tier,
            "seed": self.seed,
            "level": "model_checking",
            "coverage": {
                "states": self.states,
                "transitions": self.transitions,
                "traces_validated_against_impl": self.validated,
                "evaluations": self.evaluations,
                "distinct_nontrivial": len(self.nontrivial_keys),
                "rule": self.rule,
                "samples": self.samples if self.samples else ["(no case recorded)"],
                "exhaustive": self.exhaustive,
                "skipped": self.skipped,
                "counters": self.counters,
                "drift": len(self.drifts),
                "drift_samples": self.drifts[:5],
                "known_findings": self.known_hit,
                "tlc_runs": self.tlc_runs,
                **self.extra,
            },
            "assumptions": self.assumptions,
            "wall_s": round(time.time() - self.t0, 2),
            "violations": len(self.violations),
        }
        # evidence describes /repo itself: a run against a scratch copy (PYTHONPATH override used by
        # tools/try_mutants.sh for seeded changes) must not overwrite it
        try:
            import msdm
            src = str(Path(msdm.__file__).resolve())
        except Exception:
            src = "?"
        if not self.selftest and not src.startswith("/repo/"):
            print(f"[{self.pid}] msdm imported from {src}: evidence/{self.pid}.json left untouched", flush=True)
        elif not self.selftest:
            edir = VERIF / "evidence"
            edir.mkdir(exist_ok=True)
            (edir / f"{self.pid}.json").write_text(json.dumps(ev, indent=1, default=str))
        shutil.rmtree(self.workdir, ignore_errors=True)
        try:
            (VERIF / ".work").rmdir()
        except OSError:
            pass
        print(f"[{self.pid}] tier={self.tier} seed={self.seed} states={self.states} "
              f"evaluations={self.evaluations} validated={self.validated} "
              f"nontrivial={len(self.nontrivial_keys)} drift={len(self.drifts)} "
              f"known={sum(self.known_hit.values())} violations={len(self.violations)} "
              f"wall={ev['wall_s']}s", flush=True)
        return 1 if self.violations else 0
