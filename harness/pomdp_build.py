"""Abstract tabular POMDP instances -> msdm TabularPOMDP objects, plus a random generator and an
independent exact (fractions.Fraction) Bayes filter used to cross-check the TLA+ oracle.

An abstract POMDP instance is a dict with the fields documented in spec/lib/POMDP.tla:
the MDP fields of spec/lib/MDP.tla (N, K, PD, GN, GD, ID, abs, avail, P, R, p0; every action
available in every state) plus NO, OD and O[a][n][o] = numerator of Pr(o | action a, next state n).
States, actions and observations are 0-based in Python and 1-based in TLA+.
"""
from dataclasses import dataclass
from fractions import Fraction
from math import gcd

from msdm.core.distributions import DictDistribution, DeterministicDistribution, UniformDistribution
from msdm.core.pomdp import TabularPOMDP

from . import gen
from .build import make_labels

OBS_KINDS = ["random", "single", "identity", "uninformative"]


# ---------------------------------------------------------------------------------------------
# random instances
# ---------------------------------------------------------------------------------------------
def rand_pomdp(rng, *, n_na, n_abs, K, NO, PD=2, OD=2, GN=1, GD=2, rewards=(-2, -1, 0, 1, 2),
               ghost=False, ID=None, obs_kind="random", sparse=0.45, init_on_abs=0.15):
    """Random member of the POMDP family.

    ghost: explicitly absorbing states keep arbitrary outgoing rows / rewards (otherwise they
    self-loop with reward 0).  obs_kind: "random" (action dependent rows with zero entries),
    "single" (NO forced to 1), "identity" (the observation reveals the next state; NO forced to N),
    "uninformative" (the same row for every next state, still action dependent).
    """
    m = gen.rand_mdp(rng, n_na=n_na, n_abs=n_abs, K=K, PD=PD, GN=GN, GD=GD, rewards=rewards, ID=ID,
                     uniform_actions=True, ghost=ghost, init_on_abs=init_on_abs)
    N = m["N"]
    if obs_kind == "single":
        NO = 1
    elif obs_kind == "identity":
        NO = N
    O = []
    for a in range(K):
        rows = []
        shared = gen.rand_row(rng, NO, OD, sparse=sparse)
        for n in range(N):
            if obs_kind == "identity":
                row = [OD if o == n else 0 for o in range(NO)]
            elif obs_kind == "uninformative":
                row = list(shared)
            else:
                row = gen.rand_row(rng, NO, OD, sparse=sparse)
            rows.append(row)
        O.append(rows)
    m.update(NO=NO, OD=OD, O=O, ghost=1 if ghost else 0)
    return m


def rand_beliefs(rng, m, listed, n_extra=3, BD=4):
    """Initial beliefs (integer weight vectors) supported on `listed`: the instance's own initial
    distribution first, then a vertex, a belief with a zero component, an interior point."""
    N = m["N"]
    ls = sorted(listed)
    out = [list(m["p0"])]
    kinds = ["vertex", "zero", "interior", "vertex_abs"]
    rng.shuffle(kinds)
    for kind in kinds[:n_extra]:
        w = [0] * N
        if kind == "vertex":
            w[rng.choice(ls)] = 1
        elif kind == "vertex_abs":
            ab = [s for s in ls if m["abs"][s]]
            w[rng.choice(ab or ls)] = 1
        elif kind == "zero":
            k = max(1, len(ls) - 1)
            for s in rng.sample(ls, k):
                w[s] = rng.randint(1, BD)
        else:
            for s in ls:
                w[s] = rng.randint(1, BD)
        if w not in out:
            out.append(w)
    return out


# ---------------------------------------------------------------------------------------------
# building msdm objects
# ---------------------------------------------------------------------------------------------
OUTSIDE_STATE = ("outside-state",)
OUTSIDE_OBS = ("outside-observation",)


def _dist(kind, pairs):
    """pairs: list of (label, Fraction) incl. zero entries (kept only by kind "dict_zeros")."""
    nz = [(e, p) for e, p in pairs if p > 0]
    if kind == "dict_zeros":
        return DictDistribution({e: float(p) for e, p in pairs})
    if kind == "det" and len(nz) == 1:
        return DeterministicDistribution(nz[0][0])
    if kind == "uniform" and len({p for _, p in nz}) == 1:
        return UniformDistribution([e for e, _ in nz])
    return DictDistribution({e: float(p) for e, p in nz})


FALSY_POOL = [None, "", (), 0]       # hashable, distinct, every one of them falsy in Python (unsortable together)


def _labels(kind, n, prefix, rng):
    """build.make_labels plus the kind "falsy": labels that are all falsy in Python."""
    if kind == "falsy":
        if n > len(FALSY_POOL):
            return make_labels("mixed", n, prefix, rng)
        labs = list(FALSY_POOL[:n]) if rng is None else rng.sample(FALSY_POOL, n)
        return labs
    return make_labels(kind, n, prefix, rng)


def _unsorted_order(labs, rng):
    """A permutation of labs that differs from sorted(labs) whenever that is possible."""
    if len(labs) < 2:
        return labs
    try:
        srt = sorted(labs)
    except TypeError:
        srt = None
    out = list(labs)
    for _ in range(20):
        if rng is not None:
            rng.shuffle(out)
        else:
            out = out[1:] + out[:1]
        if srt is None or out != srt:
            break
    return out


@dataclass
class BuiltPOMDP:
    pomdp: object
    m: dict
    slabel: list          # abstract state index -> label
    alabel: list
    olabel: list
    listed: set           # abstract states in the state list
    olisted: set          # abstract observations with positive probability at some listed (a, n)
    rep: dict

    def sidx(self, lab):
        return self.slabel.index(lab)

    def aidx(self, lab):
        return self.alabel.index(lab)

    def oidx(self, lab):
        return self.olabel.index(lab)


def listed_states(m, explicit_list):
    return set(range(m["N"])) if explicit_list else gen.reach(m)


def build_pomdp(m, *, labels="int", alabels="int", olabels="int", explicit_list=False, dist="dict",
                odist="dict", outside=None, rng=None, statedep_actions=False, declare_lists=False, **_ignored):
    """labels/alabels/olabels in build.LABEL_KINDS; dist/odist in {"dict","dict_zeros","det","uniform"}.

    With "dict_zeros" zero-probability entries are listed for members of the state / observation
    list only.  outside="state-zero" adds a zero-probability successor that is in no list,
    outside="obs-zero" a zero-probability observation that is in no list (DESIGN section 9 item 12).
    """
    N, K, NO = m["N"], m["K"], m["NO"]
    sl = _labels(labels, N, "s", rng)
    al = _labels(alabels, K, "a", rng)
    ol = _labels(olabels, NO, "o", rng)
    sidx = {l: i for i, l in enumerate(sl)}
    aidx = {l: i for i, l in enumerate(al)}
    PD, ID, OD = m["PD"], m["ID"], m["OD"]
    g = float(Fraction(m["GN"], m["GD"]))
    listed = listed_states(m, explicit_list)
    olisted = {o for o in range(NO) if any(m["O"][a][n][o] > 0 for a in range(K) for n in listed)}

    cache = {}

    def memo(fn):
        def wrapped(*args):
            if args not in cache:
                cache[args] = fn(*args)
            return cache[args]
        return wrapped

    def nsd(s, a):
        i, j = sidx[s], aidx[a]
        pairs = [(sl[t], Fraction(m["P"][i][j][t], PD)) for t in range(N)
                 if m["P"][i][j][t] > 0 or (dist == "dict_zeros" and t in listed)]
        if outside == "state-zero":
            return DictDistribution({**{e: float(p) for e, p in pairs if p > 0}, OUTSIDE_STATE: 0.0})
        return _dist(dist, pairs)

    def obd(a, ns):
        if ns == OUTSIDE_STATE:     # the real code may ask for the kernel at a zero-probability successor
            return DeterministicDistribution(ol[min(olisted)] if olisted else ol[0])
        j, n = aidx[a], sidx[ns]
        pairs = [(ol[o], Fraction(m["O"][j][n][o], OD)) for o in range(NO)
                 if m["O"][j][n][o] > 0 or (odist == "dict_zeros" and o in olisted)]
        if outside == "obs-zero":
            return DictDistribution({**{e: float(p) for e, p in pairs if p > 0}, OUTSIDE_OBS: 0.0})
        return _dist(odist, pairs)

    def isd():
        pairs = [(sl[t], Fraction(m["p0"][t], ID)) for t in range(N)
                 if m["p0"][t] > 0 or (dist == "dict_zeros" and t in listed)]
        return _dist(dist, pairs)

    class _P(TabularPOMDP):
        discount_rate = g

        def next_state_dist(self, s, a):
            return nsd_c("T", s, a)

        def reward(self, s, a, ns):
            if ns == OUTSIDE_STATE:
                return 0.0
            return float(m["R"][sidx[s]][aidx[a]][sidx[ns]])

        def actions(self, s):
            if statedep_actions:    # opt-in (C07): honour m["avail"]; the default keeps every action everywhere
                return tuple(al[a] for a in range(K) if m["avail"][sidx[s]][a])
            return tuple(al)

        def initial_state_dist(self):
            return isd()

        def is_absorbing(self, s):
            return bool(m["abs"][sidx[s]])

        def observation_dist(self, a, ns):
            return obd_c("O", a, ns)

    nsd_c = memo(lambda _, s, a: nsd(s, a))
    obd_c = memo(lambda _, a, ns: obd(a, ns))
    if declare_lists:
        # the model author declares observation_list / action_list as class attributes (plain lists, the way
        # msdm.domains.loadunload.LoadUnload does), in an order that is NOT the sorted one
        _P.observation_list = _unsorted_order(list(ol), rng)
        _P.action_list = _unsorted_order(list(al), rng)
    p = _P()
    if explicit_list and declare_lists:
        p._state_list = tuple(sl)
    elif explicit_list:
        p._state_list = tuple(sl)
        p._action_list = tuple(al)
    rep = dict(labels=labels, alabels=alabels, olabels=olabels, explicit_list=explicit_list, dist=dist,
               odist=odist, outside=outside)
    return BuiltPOMDP(pomdp=p, m=m, slabel=sl, alabel=al, olabel=ol, listed=listed, olisted=olisted, rep=rep)


def make_belief(kind, built, probs):
    """Belief over state labels from exact probabilities (list indexed by abstract state).

    kind: "dict" (support only), "dict_zeros" (explicit zero entries for every listed state),
    "det" (DeterministicDistribution at a vertex), "uniform" (UniformDistribution when the weights
    are equal)."""
    sl = built.slabel
    pairs = [(sl[s], probs[s]) for s in sorted(built.listed) if probs[s] > 0 or kind == "dict_zeros"]
    return _dist(kind, pairs)


# ---------------------------------------------------------------------------------------------
# independent exact semantics (cross-check of spec/lib/POMDP.tla; shares nothing with msdm)
# ---------------------------------------------------------------------------------------------
def normalise(w):
    tot = sum(w)
    return [Fraction(x, tot) for x in w] if tot else [Fraction(0)] * len(w)


def reduce_w(w):
    g = 0
    for x in w:
        g = gcd(g, x)
    return [x // g for x in w] if g else list(w)


def exact_predict(m, b, a):
    """One-step state prediction from an exact belief b (Fractions)."""
    N = m["N"]
    return [sum(b[s] * Fraction(m["P"][s][a][n], m["PD"]) for s in range(N)) for n in range(N)]


def exact_joint(m, b, a, o):
    pr = exact_predict(m, b, a)
    return [pr[n] * Fraction(m["O"][a][n][o], m["OD"]) for n in range(m["N"])]


def exact_filter(m, b, a, o):
    """(posterior or None for an impossible observation, Pr(o | b, a))."""
    j = exact_joint(m, b, a, o)
    tot = sum(j)
    if tot == 0:
        return None, tot
    return [x / tot for x in j], tot


def exact_obs_dist(m, b, a):
    return [sum(exact_joint(m, b, a, o)) for o in range(m["NO"])]


def exact_reward(m, b, a):
    N = m["N"]
    return sum(b[s] * Fraction(m["P"][s][a][n], m["PD"]) * m["R"][s][a][n] for s in range(N) for n in range(N))


def exact_belief_mdp_row(m, b, a):
    """dict posterior (tuple of Fractions) -> probability."""
    row = {}
    for o in range(m["NO"]):
        post, pr = exact_filter(m, b, a, o)
        if post is not None:
            row[tuple(post)] = row.get(tuple(post), 0) + pr
    return row


# ---------------------------------------------------------------------------------------------
# "tiny-mass" beliefs: a possible but very unlikely observation (0 < Pr(o | b, a) <= 1e-8)
# ---------------------------------------------------------------------------------------------
def tiny_total(m):
    """Total integer weight W of a tiny-mass belief: the rare state gets weight 1 (probability 1/W).
    W * PD * OD <= 5e8 keeps every product of spec/lib/POMDP.tla below the 2^30 overflow guard for
    the belief itself and for its (un-tabled) successors."""
    return 5 * 10 ** 8 // (m["PD"] * m["OD"])


def plant_rare_observation(rng, m):
    """Rewrites m IN PLACE so that some observation o* under some action a* can only be produced
    from ONE state t (through the successor n*), with O[a*][n*][o*] = 1/OD, and returns
    (t, a*, o*, beliefs): integer weight vectors that put weight 1 on t and the rest of
    W = tiny_total(m) on other states (positions varied, zero components included).  Then
    Pr(o* | b, a*) = P[t][a*][n*]/PD / (OD * W) <= PD / 5e8 <= 8e-9 although the observation is
    possible, and its Bayes posterior is a proper distribution (on the successors of t).
    Requires N >= 2 and NO >= 2; use an explicit state list (rows are rewritten)."""
    N, K, NO, PD, OD = m["N"], m["K"], m["NO"], m["PD"], m["OD"]
    assert N >= 2 and NO >= 2
    t = rng.randrange(N)
    a = rng.randrange(K)
    o = rng.randrange(NO)
    succ = [n for n in range(N) if m["P"][t][a][n] > 0]
    n_star = rng.choice(succ)
    for s in range(N):
        if s != t and m["P"][s][a][n_star] > 0:        # nobody else reaches n*
            other = rng.choice([n for n in range(N) if n != n_star])
            m["P"][s][a][other] += m["P"][s][a][n_star]
            m["P"][s][a][n_star] = 0
    for n in range(N):
        row = m["O"][a][n]
        keep = 1 if n == n_star else 0                 # only n* emits o*, with probability 1/OD
        if row[o] != keep:
            other = max((x for x in range(NO) if x != o), key=lambda x: row[x])   # has mass whenever row[o] = 0
            row[other] += row[o] - keep
            row[o] = keep
    if any(m["abs"]):
        m["ghost"] = 1                                 # rows of absorbing states may have been rewritten
    W = tiny_total(m)
    others = [s for s in range(N) if s != t]
    beliefs = []
    w = [0] * N
    w[t], w[rng.choice(others)] = 1, W - 1
    beliefs.append(w)
    if len(others) >= 2:
        x, y = rng.sample(others, 2)
        w = [0] * N
        k = rng.randint(1, W - 2)
        w[t], w[x], w[y] = 1, k, W - 1 - k
        beliefs.append(w)
    w = [0] * N                                        # tiny mass, but every observation stays likely
    w[t] = W - 1
    w[rng.choice(others)] = 1
    beliefs.append(w)
    return t, a, o, beliefs


# ---------------------------------------------------------------------------------------------
# state-dependent action sets with defined POMDP semantics (use build_pomdp(..., statedep_actions=True))
# ---------------------------------------------------------------------------------------------
def restrict_actions(rng, m, p_abs=0.8, p_other=0.25):
    """Rewrites m["avail"] IN PLACE: absorbing (terminal) states, and a few non-absorbing ones, offer only
    a non-empty subset of the actions; every action stays available somewhere among the non-absorbing
    states.  The kernels P[s][a] / O[a][n] stay defined for every pair.  Returns True iff some entry
    was cleared.  The filter / belief MDP are only meaningful for actions in allowed_actions(m, w)."""
    N, K = m["N"], m["K"]
    if K < 2:
        return False
    changed = False
    for s in range(N):
        if rng.random() < (p_abs if m["abs"][s] else p_other):
            keep = set(rng.sample(range(K), rng.randint(1, K - 1)))
            for a in range(K):
                if a not in keep:
                    m["avail"][s][a] = 0
                    changed = True
    for a in range(K):       # keep the action list complete
        if not any(m["avail"][s][a] for s in range(N)):
            m["avail"][rng.randrange(N)][a] = 1
    return changed


def allowed_actions(m, w):
    """Actions available in every state of the support of the weight vector w."""
    return [a for a in range(m["K"]) if all(m["avail"][s][a] for s in range(m["N"]) if w[s] > 0)]
