"""Abstract instance -> msdm objects, in several concrete representations.

Labels: the abstract states 0..N-1 / actions 0..K-1 are mapped to hashable labels of various kinds
(ints, strings, tuples, frozendicts, mixed unsortable).  `Built` keeps both directions so drivers
can project msdm results back to abstract indices.
"""
from dataclasses import dataclass
from fractions import Fraction

import numpy as np
from frozendict import frozendict

from msdm.core.distributions import DictDistribution, DeterministicDistribution, UniformDistribution
from msdm.core.mdp import TabularMarkovDecisionProcess, QuickTabularMDP, QuickMDP

from . import gen

LABEL_KINDS = ["int", "str", "tuple", "frozendict", "mixed"]


def make_labels(kind, n, prefix="s", rng=None):
    if kind == "int":
        labs = list(range(n))
    elif kind == "str":
        labs = [f"{prefix}{i}" for i in range(n)]
    elif kind == "tuple":
        labs = [(prefix, i) for i in range(n)]
    elif kind == "frozendict":
        labs = [frozendict(x=i, k=prefix) for i in range(n)]
    elif kind == "negint":  # -1, -2, ...: distinct labels with colliding hashes (CPython: hash(-1) == hash(-2))
        labs = [-(i + 1) for i in range(n)]
    elif kind == "negtuple":
        labs = [(-(i + 1), 0) for i in range(n)]
    elif kind == "mixed":   # unsortable mixture
        pool = [lambda i: i, lambda i: f"{prefix}{i}", lambda i: (prefix, i), lambda i: frozendict(x=i)]
        labs = [pool[i % len(pool)](i) for i in range(n)]
    else:
        raise ValueError(kind)
    if rng is not None and kind in ("int", "str", "tuple", "negint", "negtuple"):
        # decouple label order from abstract order (msdm sorts inferred lists)
        perm = list(range(n))
        rng.shuffle(perm)
        labs = [labs[perm[i]] for i in range(n)]
    return labs


@dataclass
class Built:
    mdp: object
    m: dict
    slabel: list          # abstract state index -> label
    alabel: list          # abstract action index -> label
    rep: str
    explicit_list: bool

    def sidx(self, lab):
        return self.slabel.index(lab)

    def aidx(self, lab):
        return self.alabel.index(lab)


def _dist(kind, pairs, rng):
    """pairs: list of (label, Fraction prob) incl. zero entries."""
    nz = [(e, p) for e, p in pairs if p > 0]
    if kind == "dict_zeros":
        return DictDistribution({e: float(p) for e, p in pairs})
    if len(nz) == 1 and kind == "det":
        return DeterministicDistribution(nz[0][0])
    if kind == "uniform" and len({p for _, p in nz}) == 1:
        return UniformDistribution([e for e, _ in nz])
    return DictDistribution({e: float(p) for e, p in nz})


def build_mdp(m, *, rep="quick", labels="int", alabels="int", explicit_list=False, dist="dict",
              rng=None, discount=None, abs_int=False):
    """rep in {"quick", "subclass", "matrices"}; dist in {"dict", "dict_zeros", "det", "uniform"}.

    With dist="dict_zeros" zero-probability entries are listed only for states that are in the
    state list anyway (reachable), because the statement quantifies over successors *inside* the
    state list.
    """
    N, K = m["N"], m["K"]
    sl = make_labels(labels, N, "s", rng)
    al = make_labels(alabels, K, "a", rng)
    sidx = {l: i for i, l in enumerate(sl)}
    aidx = {l: i for i, l in enumerate(al)}
    PD, ID = m["PD"], m["ID"]
    g = float(Fraction(m["GN"], m["GD"])) if discount is None else discount
    reach = gen.reach(m)
    listed = set(range(N)) if explicit_list else reach

    def nsd(s, a):
        i, j = sidx[s], aidx[a]
        pairs = [(sl[t], Fraction(m["P"][i][j][t], PD)) for t in range(N)
                 if m["P"][i][j][t] > 0 or (dist == "dict_zeros" and t in listed)]
        return _dist(dist, pairs, rng)

    def reward(s, a, ns):
        return float(m["R"][sidx[s]][aidx[a]][sidx[ns]])

    def actions(s):
        return tuple(al[a] for a in range(K) if m["avail"][sidx[s]][a])

    def isd():
        pairs = [(sl[t], Fraction(m["p0"][t], ID)) for t in range(N)
                 if m["p0"][t] > 0 or (dist == "dict_zeros" and t in listed)]
        return _dist(dist, pairs, rng)

    def is_abs(s):
        # abs_int: is_absorbing answers with the integers 0 / 1 (e.g. a lookup table) instead of bools
        return int(m["abs"][sidx[s]]) if abs_int else bool(m["abs"][sidx[s]])

    if rep == "quick":
        mdp = QuickTabularMDP(next_state_dist=nsd, reward=reward, actions=actions,
                              initial_state_dist=isd, is_absorbing=is_abs, discount_rate=g)
        if explicit_list:
            mdp._state_list = list(sl)
            mdp._action_list = list(al)
    elif rep == "subclass":
        class _M(TabularMarkovDecisionProcess):
            discount_rate = g

            def next_state_dist(self, s, a):
                return nsd(s, a)

            def reward(self, s, a, ns):
                return reward(s, a, ns)

            def actions(self, s):
                return actions(s)

            def initial_state_dist(self):
                return isd()

            def is_absorbing(self, s):
                return is_abs(s)
        mdp = _M()
        if explicit_list:
            mdp._state_list = tuple(sl)
            mdp._action_list = tuple(al)
    elif rep == "matrices":
        states = [i for i in range(N) if i in listed]
        pos = {s: i for i, s in enumerate(states)}
        tf = np.zeros((len(states), K, len(states)))
        rf = np.zeros((len(states), K, len(states)))
        am = np.zeros((len(states), K))
        for s in states:
            for a in range(K):
                if m["avail"][s][a]:
                    am[pos[s], a] = 1
                    for t in range(N):
                        if m["P"][s][a][t] > 0:
                            tf[pos[s], a, pos[t]] = m["P"][s][a][t] / PD
                            rf[pos[s], a, pos[t]] = m["R"][s][a][t]
        mdp = TabularMarkovDecisionProcess.from_matrices(
            state_list=tuple(sl[s] for s in states), action_list=tuple(al),
            initial_state_vec=np.array([m["p0"][s] / ID for s in states]),
            transition_matrix=tf, action_matrix=am, reward_matrix=rf,
            absorbing_state_vec=np.array([(int if abs_int else bool)(m["abs"][s]) for s in states]),
            discount_rate=g)
    else:
        raise ValueError(rep)
    return Built(mdp=mdp, m=m, slabel=sl, alabel=al, rep=rep, explicit_list=explicit_list)


def frac(x):
    """[n, d] from TLC -> Fraction / +-inf / None (UNAV)."""
    n, d = x
    if d == 0:
        if n < 0:
            return float("-inf")
        if n > 0:
            return float("inf")
        return None
    return Fraction(n, d)
