"""X01 (extension) - caches never change what a method returns.

msdm/core/utils/funcutils.py: method_cache / cached_property, and their uses on real msdm classes.

Pipeline
  worlds   a WORLD = classes with decorated functions + objects + argument universe (spec/X01_Cache.tla).
           The abstract world handed to TLC is DERIVED from real python classes that use the real decorators:
           atoms from the concrete argument values (identity / type / ==), result kinds from running the
           UNDECORATED functions on twin objects (that is the oracle of the statement), nested decorated
           calls of a body by probing a fresh object through a tracing subclass.
  MC + A   TLC explores every sequence of <= L top-level operations of the cache machine (checks the design
           invariants) and prints one record per quiescent state with the history that reached it; every
           history is replayed on fresh real objects, the final operation is judged: returned value /
           exception, identity with the object returned first, number of times each undecorated body ran
           (sys.setprofile on the code objects of the undecorated functions), _cache_info counters, which
           attributes exist, on ALL objects of the world.
  B        long random operation sequences are run on the real objects first; TLC runs the machine along each
           recorded trace and judges every event clause by clause (fv, fo, fc, fp).
  xcheck   an independent python cache machine (RefMachine) must agree with every TLC record.
"""
import inspect
import math
import random
import sys
import warnings

from msdm.core.utils import funcutils

from ..core import digest
from ..tlc import run_tlc, TLCFailure

MODULE = "X01_Cache"
INVS = ["TypeOK", "Transparent", "StoreSound", "PropSound", "CountersConsistent", "FreshObjects", "ReadOnly",
        "HitRunsNothing", "MissRunsBody"]
PROPS = ["Isolation", "CachedNeverChanges", "ComputeOnlyWhenAbsent"]
CFG = ("INIT Init\nNEXT Next\nVIEW StateView\nCHECK_DEADLOCK FALSE\nINVARIANT Emit\n"
       + "".join(f"INVARIANT {i}\n" for i in INVS) + "".join(f"PROPERTY {p}\n" for p in PROPS))

NOVAL = {"k": "no", "o": 0, "f": 0, "b": []}
UNKNOWN = {"k": "?", "o": 0, "f": 0, "b": []}


# --------------------------------------------------------------------------------------------
# independent python cache machine (cross-check of the TLA+ machine; macro-step, dictionaries)
# --------------------------------------------------------------------------------------------
def py_bind(params, sp):
    """python's binding of positional / keyword arguments to parameters 1..n; None = TypeError."""
    n, npos = len(params), len(sp["pos"])
    names = [e["n"] for e in sp["kw"]]
    if npos > n or any(x < 1 or x > n or x <= npos for x in names):
        return None
    out = []
    for j in range(1, n + 1):
        if j <= npos:
            out.append(sp["pos"][j - 1])
        elif j in names:
            out.append(sp["kw"][names.index(j)]["a"])
        elif params[j - 1]["d"]:
            out.append(params[j - 1]["d"])
        else:
            return None
    return out


class _Err(Exception):
    def __init__(self, cat):
        self.cat = cat


class RefMachine:
    def __init__(self, w):
        self.w = w
        self.nobj = w["N0"]
        self.cache = {}
        self.pv = {}

    def _ec(self, a):
        return self.w["atoms"][a - 1]["ec"]

    def key(self, m, s):
        sp = self.w["meths"][m - 1]["sps"][s - 1]
        return (tuple(self._ec(a) for a in sp["pos"]), frozenset((e["n"], self._ec(e["a"])) for e in sp["kw"]))

    def _call(self, o, m, s, last, top):
        w = self.w
        meth = w["meths"][m - 1]
        sp = meth["sps"][s - 1]
        c = self.cache.setdefault((o, m), {"hits": 0, "misses": 0, "store": {}, "made_by": {}})
        if any(w["atoms"][a - 1]["h"] == 0 for a in sp["pos"] + [e["a"] for e in sp["kw"]]):
            raise _Err("Unhashable")
        k = self.key(m, s)
        b = py_bind(meth["params"], sp)
        if k in c["store"]:
            if top:
                last["hit"] = "hit"
            if c["made_by"][k] != b:
                last["twin"] = 1
        else:
            if top:
                last["hit"] = "miss"
            if b is None:
                raise _Err("Bind")
            last["du"][m - 1] += 1
            cl = w["cls"][o - 1]
            for d in sp["deps"][cl - 1]:
                self._dep(o, d, last)
            kind = sp["k"][cl - 1]
            if kind == "raise":
                raise _Err("Raise")
            c["store"][k] = {"k": "val", "o": o, "f": m, "b": b} if kind == "val" else {"k": kind, "o": 0, "f": 0, "b": []}
            c["made_by"][k] = b
            c["misses"] += 1
        c["hits"] += 1
        return c["store"][k]

    def _read(self, o, p, last, top):
        w = self.w
        if (o, p) in self.pv:
            if top:
                last["hit"] = "hit"
        else:
            if top:
                last["hit"] = "miss"
            last["dp"][p - 1] += 1
            cl = w["cls"][o - 1]
            for d in w["props"][p - 1]["deps"][cl - 1]:
                self._dep(o, d, last)
            kind = w["props"][p - 1]["k"][cl - 1]
            if kind == "raise":
                raise _Err("Raise")
            self.pv[(o, p)] = {"k": "val", "o": o, "f": -p, "b": []} if kind == "val" else {"k": kind, "o": 0, "f": 0, "b": []}
        return self.pv[(o, p)]

    def _dep(self, o, d, last):
        if d["t"] == "call":
            self._call(o, d["m"], d["s"], last, False)
        else:
            self._read(o, d["m"], last, False)

    def op(self, op):
        w = self.w
        last = {"t": op["t"], "o": op["o"], "m": op["m"], "s": op["s"], "st": "ok", "err": "", "v": dict(NOVAL), "hit": "",
                "twin": 0, "du": [0] * len(w["meths"]), "dp": [0] * len(w["props"])}
        try:
            if op["t"] == "new":
                self.nobj += 1
            elif op["t"] in ("write", "del"):
                raise _Err("ReadOnly")
            elif op["t"] == "call":
                last["v"] = self._call(op["o"], op["m"], op["s"], last, True)
            else:
                last["v"] = self._read(op["o"], op["m"], last, True)
        except _Err as e:
            last["st"], last["err"] = "err", e.cat
        return last

    def info(self):
        out = []
        for o in range(1, self.nobj + 1):
            row = []
            for m in range(1, len(self.w["meths"]) + 1):
                c = self.cache.get((o, m))
                row.append([0, 0, 0, 0] if c is None else [1, c["hits"], c["misses"], len(c["store"])])
            out.append(row)
        return out

    def pset(self):
        return [[1 if (o, p) in self.pv else 0 for p in range(1, len(self.w["props"]) + 1)]
                for o in range(1, self.nobj + 1)]

    def keys(self, o, m):
        c = self.cache.get((o, m))
        return set() if c is None else set(c["store"])


def norm_last(last, w):
    """TLC record -> the shape RefMachine produces (empty functions print as {} or [])."""
    out = dict(last)
    out["du"] = list(last["du"]) if last["du"] else [0] * 0
    out["dp"] = list(last["dp"]) if last["dp"] else [0] * 0
    v = dict(last["v"])
    v["b"] = list(v["b"]) if v["b"] else []
    out["v"] = v
    return out


def norm_rows(rows, n):
    """[o][i] tables of TLC: a row over an empty index set prints as {} / []."""
    return [list(r) if r else [] for r in rows]


# --------------------------------------------------------------------------------------------
# concrete values
# --------------------------------------------------------------------------------------------
class Res:
    """result of a toy function: fresh object per body run, equal iff same (object, function, arguments)."""
    __slots__ = ("o", "f", "b")

    def __init__(self, o, f, b):
        self.o, self.f, self.b = o, f, b

    def __eq__(self, other):
        return isinstance(other, Res) and (self.o, self.f, self.b) == (other.o, other.f, other.b)

    __hash__ = None

    def __repr__(self):
        return f"Res(o={self.o}, f={self.f}, b={self.b})"


class Boom(Exception):
    pass


def same(a, b, depth=0):
    """deep equality of results of real functions (arrays, distributions, tables, sets, generators of randomness)."""
    import numpy as np
    if a is b:
        return True
    if a is None or b is None:
        return False
    if type(a) is not type(b) and not (isinstance(a, (int, float)) and isinstance(b, (int, float))):
        return False
    if depth > 6:
        return True
    if isinstance(a, np.ndarray):
        return a.shape == b.shape and a.dtype == b.dtype and bool(np.array_equal(a, b, equal_nan=a.dtype.kind == "f"))
    if isinstance(a, random.Random):
        return a.getstate() == b.getstate()
    if isinstance(a, dict):
        if len(a) != len(b):
            return False
        try:
            return set(a.keys()) == set(b.keys()) and all(same(a[k], b[k], depth + 1) for k in a)
        except TypeError:
            return repr(a) == repr(b)
    if isinstance(a, (tuple, list)):
        return len(a) == len(b) and all(same(x, y, depth + 1) for x, y in zip(a, b))
    if isinstance(a, (set, frozenset)):
        return a == b
    if hasattr(a, "table_index") and hasattr(a, "__array__"):
        try:
            return same(np.asarray(a), np.asarray(b), depth + 1) and \
                same(tuple(a.table_index.field_domains), tuple(b.table_index.field_domains), depth + 1) and \
                tuple(a.table_index.field_names) == tuple(b.table_index.field_names)
        except Exception:
            return repr(a) == repr(b)
    try:
        r = a == b
        if isinstance(r, (bool, np.bool_)):
            if r:
                return True
            if type(a).__eq__ is object.__eq__:          # identity-only equality: compare the contents
                da, db = getattr(a, "__dict__", None), getattr(b, "__dict__", None)
                if da is not None and db is not None:
                    return same({k: v for k, v in da.items() if not k.startswith("_cache")},
                                {k: v for k, v in db.items() if not k.startswith("_cache")}, depth + 1)
            return False
        return bool(np.all(r))
    except Exception:
        return repr(a) == repr(b)


def falsy(v):
    try:
        with warnings.catch_warnings():
            warnings.simplefilter("ignore")
            return not bool(v)
    except Exception:
        return False


def kind_of_value(v):
    return "none" if v is None else ("zero" if falsy(v) else "val")


def categorize(e, t):
    """exception -> abstract error of the machine."""
    if isinstance(e, Boom):
        return "Raise"
    if isinstance(e, TypeError):
        msg = str(e)
        if "unhashable" in msg:
            return "Unhashable"
        if any(x in msg for x in ("required positional argument", "unexpected keyword", "multiple values",
                                  "positional argument", "required keyword")):
            return "Bind"
        return "Raise"
    if t in ("write", "del") and isinstance(e, AttributeError):
        return "ReadOnly"
    return "Raise"


def find_attr(klass, name):
    for k in klass.__mro__:
        if name in k.__dict__:
            return k, k.__dict__[name]
    raise AttributeError(name)


def undecorated(attr):
    """the function a decorator of funcutils wraps (functools.wraps sets __wrapped__; else look in the closure)."""
    f = attr.fget if isinstance(attr, property) else attr
    if not inspect.isfunction(f) and inspect.isfunction(getattr(f, "func", None)):
        f = f.func                  # e.g. functools.cached_property
    u = getattr(f, "__wrapped__", None)
    if u is None and getattr(f, "__closure__", None):
        fns = [c.cell_contents for c in f.__closure__ if inspect.isfunction(c.cell_contents)]
        u = fns[0] if len(fns) == 1 else None
    if u is None and inspect.isfunction(f) and not f.__code__.co_filename.endswith("funcutils.py"):
        u = f                       # the decorator handed the function back undecorated
    return u


class BodyCounter:
    """counts how often the bodies of given code objects start running (sys.setprofile 'call' events)."""

    def __init__(self, codes):
        self.codes = codes
        self.n = {}

    def _hook(self, frame, event, arg):
        if event == "call":
            k = self.codes.get(frame.f_code)
            if k is not None:
                self.n[k] = self.n.get(k, 0) + 1

    def run(self, thunk):
        old = sys.getprofile()
        sys.setprofile(self._hook)
        try:
            return thunk()
        finally:
            sys.setprofile(old)


# --------------------------------------------------------------------------------------------
# binding: real classes <-> abstract world
# --------------------------------------------------------------------------------------------
def _hashable(v):
    try:
        hash(v)
        return True
    except TypeError:
        return False


def _typed_eq(a, b):
    if type(a) is not type(b):
        return False
    if isinstance(a, float) and (math.isnan(a) or math.isnan(b)):
        return False
    if isinstance(a, (tuple, list)):
        return len(a) == len(b) and all(_typed_eq(x, y) for x, y in zip(a, b))
    try:
        return bool(a == b)
    except Exception:
        return False


class Atoms:
    def __init__(self):
        self.labels, self.ec, self.h = [], [], []

    def atom(self, v):
        for i, lab in enumerate(self.labels):
            if v is lab:
                return i + 1
        hv = _hashable(v)
        for i, lab in enumerate(self.labels):
            if self.h[i] == int(hv) and _typed_eq(v, lab):
                return i + 1
        ec = None
        if hv:
            for i, lab in enumerate(self.labels):
                try:
                    if self.h[i] and hash(lab) == hash(v) and bool(lab == v):
                        ec = self.ec[i]
                        break
                except Exception:
                    pass
        self.labels.append(v)
        self.ec.append(ec if ec is not None else len(self.labels))
        self.h.append(int(hv))
        return len(self.labels)


class _Node:
    __slots__ = ("kind", "idx", "args", "kwargs", "children", "ran", "s")

    def __init__(self, kind, idx, args, kwargs):
        self.kind, self.idx, self.args, self.kwargs, self.children, self.ran = kind, idx, args, kwargs, [], False


class Binding:
    """A world bound to real python classes that use the decorators of msdm.core.utils.funcutils.

    classes[c-1]  python class of abstract class c;  cls[o-1] abstract class of object o;  make(o) -> fresh object
    meths  [{"name", "sps": [(args, [(kwname, value), ..], top), ..]}]     props [{"name", "top"}]
    """

    def __init__(self, desc, classes, make, meths, props, cls, N0, L, strict_nested, tag):
        self.desc, self.classes, self.make, self.cls, self.N0, self.L = desc, classes, make, list(cls), N0, L
        self.NO = len(cls)
        self.strict_nested, self.tag = strict_nested, tag
        self.mcfg, self.pcfg = meths, props
        self.atoms = Atoms()
        self.twins, self._ref = {}, {}
        self.deps_unknown = False
        self.sig_override = None
        self._build()

    # ---- construction -------------------------------------------------------------------
    def _build(self):
        C = len(self.classes)
        self.und_m = [[None] * len(self.mcfg) for _ in range(C)]
        self.und_p = [[None] * len(self.pcfg) for _ in range(C)]
        self.owner_m, self.owner_p = [None] * len(self.mcfg), [None] * len(self.pcfg)
        self.codes = {}
        for c, klass in enumerate(self.classes):
            for i, mc in enumerate(self.mcfg):
                owner, attr = find_attr(klass, mc["name"])
                u = undecorated(attr)
                if u is None:
                    raise TLCFailure(f"X01: cannot find the undecorated function of {klass.__name__}.{mc['name']}")
                self.und_m[c][i] = u
                self.owner_m[i] = self.owner_m[i] or owner.__name__
                self.codes[u.__code__] = ("m", i + 1)
            for i, pc in enumerate(self.pcfg):
                owner, attr = find_attr(klass, pc["name"])
                u = undecorated(attr)
                if u is None:
                    raise TLCFailure(f"X01: cannot find the undecorated function of {klass.__name__}.{pc['name']}")
                self.und_p[c][i] = u
                self.owner_p[i] = self.owner_p[i] or owner.__name__
                self.codes[u.__code__] = ("p", i + 1)
        # parameters (of the first class; the signature is part of the method's identity)
        self.pnames, self.params = [], []
        for i, mc in enumerate(self.mcfg):
            ps = list(inspect.signature(self.und_m[0][i]).parameters.values())[1:]
            if any(p.kind in (p.VAR_POSITIONAL, p.VAR_KEYWORD, p.KEYWORD_ONLY) for p in ps):
                raise TLCFailure(f"X01: unsupported signature of {mc['name']}")
            self.pnames.append([p.name for p in ps])
            self.params.append([{"d": 0 if p.default is p.empty else self.atoms.atom(p.default)} for p in ps])
        # configured spellings
        self.sps = [[] for _ in self.mcfg]          # abstract
        self.csp = [[] for _ in self.mcfg]          # concrete (args, kwlist)
        for i, mc in enumerate(self.mcfg):
            for args, kwl, top in mc["sps"]:
                self._spelling(i + 1, tuple(args), list(kwl), top)
        # nested decorated calls of every body, per class (probe); for methods per spelling
        self.pdeps = [[[] for _ in range(C)] for _ in self.pcfg]
        self._probe_state = {}
        for _pass in range(3):
            n_sp = sum(len(x) for x in self.sps)
            for c in range(1, C + 1):
                self._learn_deps(c)
            if sum(len(x) for x in self.sps) == n_sp:
                break
        for i in range(len(self.mcfg)):
            for sp in self.sps[i]:
                sp["deps"] = [sp["_deps"].get(c, []) for c in range(1, C + 1)]
                del sp["_deps"]
        # result kinds per spelling / property and class (oracle: the undecorated function on a twin object)
        first = {c: self.cls.index(c) + 1 for c in range(1, C + 1)}
        for i in range(len(self.mcfg)):
            for s, sp in enumerate(self.sps[i]):
                sp["k"] = []
                for c in range(1, C + 1):
                    st, cat, v = self.ref(first[c], "call", i + 1, s + 1)
                    sp["k"].append("raise" if st == "err" else kind_of_value(v))
        self.pk = []
        for i in range(len(self.pcfg)):
            row = []
            for c in range(1, C + 1):
                st, cat, v = self.ref(first[c], "read", i + 1, 0)
                row.append("raise" if st == "err" else kind_of_value(v))
            self.pk.append(row)
        self.world = {
            "NO": self.NO, "N0": self.N0, "L": self.L, "cls": self.cls,
            "atoms": [{"ec": e, "h": h} for e, h in zip(self.atoms.ec, self.atoms.h)],
            "meths": [{"params": self.params[i], "sps": self.sps[i]} for i in range(len(self.mcfg))],
            "props": [{"k": self.pk[i], "deps": self.pdeps[i], "top": self.pcfg[i]["top"]} for i in range(len(self.pcfg))],
            "trace": [],
        }
        self._check_bind()

    def _spelling(self, m, args, kwl, top):
        """index (1-based) of the spelling (args, kwl) of method m, created if new."""
        names = self.pnames[m - 1]
        pos = [self.atoms.atom(v) for v in args]
        kw = [{"n": names.index(n) + 1 if n in names else len(names) + 1, "a": self.atoms.atom(v)} for n, v in kwl]
        for s, sp in enumerate(self.sps[m - 1]):
            if sp["pos"] == pos and sp["kw"] == kw:
                sp["top"] = max(sp["top"], top)
                return s + 1
        self.sps[m - 1].append({"pos": pos, "kw": kw, "top": top, "k": None, "_deps": {}})
        self.csp[m - 1].append((tuple(self.atoms.labels[a - 1] for a in pos),
                                [(n, self.atoms.labels[e["a"] - 1]) for (n, _), e in zip(kwl, kw)]))
        return len(self.sps[m - 1])

    def _check_bind(self):
        """py_bind (and with it the Bind operator of the spec, via RefMachine agreement) against inspect's binding."""
        for i in range(len(self.mcfg)):
            sig = inspect.signature(self.und_m[0][i])
            for s, sp in enumerate(self.sps[i]):
                args, kwl = self.csp[i][s]
                try:
                    ba = sig.bind(None, *args, **dict(kwl))
                    ba.apply_defaults()
                    got = [self.atoms.atom(v) for v in list(ba.arguments.values())[1:]]
                except TypeError:
                    got = None
                if py_bind(self.params[i], sp) != got:
                    raise TLCFailure(f"X01: argument binding oracle disagrees with inspect.signature on "
                                     f"{self.mcfg[i]['name']}{args}{kwl}: {py_bind(self.params[i], sp)} vs {got}")

    # ---- probing the nested decorated calls -----------------------------------------------
    def _probe_class(self, klass, rec):
        ns = {}
        for i, mc in enumerate(self.mcfg):
            _, orig = find_attr(klass, mc["name"])

            def shim(self_, *a, _orig=orig, _i=i + 1, **k):
                node = rec("m", _i, a, k)
                try:
                    return _orig(self_, *a, **k)
                finally:
                    rec(None, node, None, None)
            ns[mc["name"]] = shim
        for i, pc in enumerate(self.pcfg):
            _, orig = find_attr(klass, pc["name"])

            def getter(self_, _orig=orig, _i=i + 1):
                node = rec("p", _i, (), {})
                try:
                    return _orig.__get__(self_, type(self_))
                finally:
                    rec(None, node, None, None)
            ns[pc["name"]] = property(getter)
        return type("Probe_" + klass.__name__, (klass,), ns)

    def _learn_deps(self, c):
        o = self.cls.index(c) + 1
        klass = self.classes[c - 1]
        stack = []
        first, tried = self._probe_state.setdefault(c, ({}, set()))
        counter = BodyCounter(self.codes)

        def rec(kind, idx, args, kwargs):
            if kind is None:                       # exit of node idx
                node = idx
                node.ran = counter.n.get((node.kind, node.idx), 0) > node.ran
                stack.pop()
                if node.ran and (node.kind, node.idx, node.s) not in first:
                    first[(node.kind, node.idx, node.s)] = node
                return None
            node = _Node(kind, idx, args, kwargs)
            node.s = self._spelling(idx, tuple(args), list(kwargs.items()), 0) if kind == "m" else 0
            node.ran = counter.n.get((kind, idx), 0)       # body count at entry
            if stack:
                stack[-1].children.append(node)
            stack.append(node)
            return node
        probe = self._probe_class(klass, rec)
        for _round in range(4):
            roots = [("p", i + 1, 0) for i in range(len(self.pcfg))]
            for i in range(len(self.mcfg)):
                roots += [("m", i + 1, s + 1) for s in range(len(self.csp[i]))]
            roots = [r for r in roots if r not in first and r not in tried]
            if not roots:
                break
            for kind, idx, s in roots:
                tried.add((kind, idx, s))
                if (kind, idx, s) in first:
                    continue
                obj = self.make(o)
                try:
                    obj.__class__ = probe
                except TypeError:
                    self.deps_unknown = True
                    return
                del stack[:]
                try:
                    if kind == "p":
                        counter.run(lambda: getattr(obj, self.pcfg[idx - 1]["name"]))
                    else:
                        args, kwl = self.csp[idx - 1][s - 1]
                        counter.run(lambda: getattr(obj, self.mcfg[idx - 1]["name"])(*args, **dict(kwl)))
                except Exception:
                    pass
        for (kind, idx, s), node in first.items():
            deps = [{"t": "call", "m": ch.idx, "s": ch.s} if ch.kind == "m" else {"t": "read", "m": ch.idx, "s": 0}
                    for ch in node.children]
            if kind == "m":
                self.sps[idx - 1][s - 1]["_deps"][c] = deps
            else:
                self.pdeps[idx - 1][c - 1] = deps

    # ---- oracle: the undecorated function on a twin object ----------------------------------
    def twin(self, o):
        if o not in self.twins:
            self.twins[o] = self.make(o)
        return self.twins[o]

    def ref(self, o, t, i, s):
        key = (o, t, i, s)
        if key not in self._ref:
            c = self.cls[o - 1]
            try:
                if t == "call":
                    args, kwl = self.csp[i - 1][s - 1]
                    v = self.und_m[c - 1][i - 1](self.twin(o), *args, **dict(kwl))
                else:
                    v = self.und_p[c - 1][i - 1](self.twin(o))
                self._ref[key] = ("ok", "", v)
            except Exception as e:
                self._ref[key] = ("err", categorize(e, t), e)
        return self._ref[key]

    def abstract_ref(self, o, t, i, s):
        """abstract value the undecorated function yields for (o, t, i, s); None if it raises."""
        if t == "call":
            b = py_bind(self.params[i - 1], self.sps[i - 1][s - 1])
            kind = self.sps[i - 1][s - 1]["k"][self.cls[o - 1] - 1]
            if b is None or kind == "raise":
                return None
            return {"k": "val", "o": o, "f": i, "b": b} if kind == "val" else {"k": kind, "o": 0, "f": 0, "b": []}
        kind = self.pk[i - 1][self.cls[o - 1] - 1]
        if kind == "raise":
            return None
        return {"k": "val", "o": o, "f": -i, "b": []} if kind == "val" else {"k": kind, "o": 0, "f": 0, "b": []}

    def concrete_of(self, av, o, t, i, s):
        """concrete reference value of an abstract value (for plain kinds: the caller's own reference)."""
        if av["k"] == "val":
            if av["f"] > 0:
                for s2, sp in enumerate(self.sps[av["f"] - 1]):
                    if py_bind(self.params[av["f"] - 1], sp) == list(av["b"]):
                        r = self.ref(av["o"], "call", av["f"], s2 + 1)
                        if r[0] == "ok":
                            return True, r[2]
                return False, None
            r = self.ref(av["o"], "read", -av["f"], 0)
            return (True, r[2]) if r[0] == "ok" else (False, None)
        if av["k"] in ("none", "zero"):
            r = self.ref(o, t, i, s)
            if r[0] == "ok" and kind_of_value(r[2]) == av["k"]:
                return True, r[2]
        return False, None

    def matches(self, value, av, o, t, i, s):
        ok, ref = self.concrete_of(av, o, t, i, s)
        return ok and same(value, ref)

    def project(self, value, o, t, i, s, hint=None):
        cands = []
        if hint is not None and hint.get("k") not in ("no", "?"):
            cands.append(hint)
        own = self.abstract_ref(o, t, i, s)
        if own is not None:
            cands.append(own)
        for av in cands:
            if self.matches(value, av, o, t, i, s):
                return dict(av)
        # whose value is it, then
        for o2 in range(1, self.NO + 1):
            for m in range(1, len(self.mcfg) + 1):
                for s2 in range(1, len(self.sps[m - 1]) + 1):
                    av = self.abstract_ref(o2, "call", m, s2)
                    if av is not None and av["k"] == "val" and self.matches(value, av, o2, "call", m, s2):
                        return dict(av)
            for p in range(1, len(self.pcfg) + 1):
                av = self.abstract_ref(o2, "read", p, 0)
                if av is not None and av["k"] == "val" and self.matches(value, av, o2, "read", p, 0):
                    return dict(av)
        return dict(UNKNOWN)

    # ---- names ----------------------------------------------------------------------------
    def site(self, t, i):
        if t == "call":
            return f"{self.tag}{self.owner_m[i - 1]}.{self.mcfg[i - 1]['name']}"
        if t in ("read", "write", "del"):
            return f"{self.tag}{self.owner_p[i - 1]}.{self.pcfg[i - 1]['name']}"
        return f"{self.tag}{self.classes[0].__name__}()"

    def shape(self, exp):
        t = exp["t"]
        if t != "call":
            return t + ("-" + exp["hit"] if exp.get("hit") else "")
        sp = self.sps[exp["m"] - 1][exp["s"] - 1]
        parts = []
        if sp["pos"]:
            parts.append(f"pos{len(sp['pos'])}")
        if sp["kw"]:
            parts.append(f"kw{len(sp['kw'])}")
        tags = []
        if any(self.atoms.h[a - 1] == 0 for a in sp["pos"] + [e["a"] for e in sp["kw"]]):
            tags.append("unhashable")
        if exp.get("twin"):
            tags.append("twin")
        kinds = set(sp["k"] or [])
        for k in ("none", "zero", "raise"):
            if k in kinds:
                tags.append(k)
        return (exp.get("hit") or exp.get("err") or "call") + "/" + ("+".join(parts) or "noargs") + ("/" + ",".join(tags) if tags else "")

    def describe(self, op):
        t = op["t"]
        if t == "new":
            return f"obj{op['o']} = new"
        if t == "call":
            args, kwl = self.csp[op["m"] - 1][op["s"] - 1]
            a = ", ".join([repr(x) for x in args] + [f"{n}={v!r}" for n, v in kwl])
            return f"obj{op['o']}.{self.mcfg[op['m'] - 1]['name']}({a})"
        name = self.pcfg[op["m"] - 1]["name"]
        return {"read": f"obj{op['o']}.{name}", "write": f"obj{op['o']}.{name} = <x>", "del": f"del obj{op['o']}.{name}"}[t]


# --------------------------------------------------------------------------------------------
# executing operations on the real objects and projecting what happened
# --------------------------------------------------------------------------------------------
_SENTINEL = object()


class Executor:
    def __init__(self, B, mutate=None):
        self.B = B
        self.objs = {o: B.make(o) for o in range(1, B.N0 + 1)}
        self.first = {}
        self.counter = BodyCounter(B.codes)
        self.mutate = mutate
        self.n_ops = 0

    def _key(self, op):
        B = self.B
        if op["t"] == "call":
            sp = B.sps[op["m"] - 1][op["s"] - 1]
            return (op["o"], "m", op["m"], tuple(B.atoms.ec[a - 1] for a in sp["pos"]),
                    frozenset((e["n"], B.atoms.ec[e["a"] - 1]) for e in sp["kw"]))
        return (op["o"], "p", op["m"])

    def info(self):
        B = self.B
        out = []
        for o in sorted(self.objs):
            d = getattr(self.objs[o], "__dict__", {})
            c = B.cls[o - 1]
            row = []
            for i in range(len(B.mcfg)):
                name = B.und_m[c - 1][i].__name__
                cache, info = d.get("_cache_" + name, _SENTINEL), d.get("_cache_info_" + name, _SENTINEL)
                if cache is _SENTINEL and info is _SENTINEL:
                    row.append([0, 0, 0, 0])
                elif isinstance(cache, dict) and isinstance(info, dict) and set(info) == {"hits", "misses"} \
                        and all(isinstance(info[k], int) for k in info):
                    row.append([1, info["hits"], info["misses"], len(cache)])
                else:
                    row.append(None)
            out.append(row)
        return out

    def pset(self):
        B = self.B
        out = []
        for o in sorted(self.objs):
            d = getattr(self.objs[o], "__dict__", {})
            c = B.cls[o - 1]
            out.append([1 if ("_cached_" + B.und_p[c - 1][i].__name__) in d else 0 for i in range(len(B.pcfg))])
        return out

    def store_keys(self, o, m):
        """abstract keys of the entries of the real store of (o, m); None if the layout is not the expected one."""
        B = self.B
        d = getattr(self.objs[o], "__dict__", {})
        cache = d.get("_cache_" + B.und_m[B.cls[o - 1] - 1][m - 1].__name__, _SENTINEL)
        if cache is _SENTINEL:
            return set()
        if not isinstance(cache, dict):
            return None
        out = set()
        names = B.pnames[m - 1]
        try:
            for key in cache:
                args, kws = key
                kp = tuple(B.atoms.ec[B.atoms.atom(v) - 1] for v in args)
                kk = frozenset((names.index(n) + 1 if n in names else len(names) + 1, B.atoms.ec[B.atoms.atom(v) - 1])
                               for n, v in (kws or ()))
                out.add((kp, kk))
        except Exception:
            return None
        return out

    def run(self, op, hint=None):
        """execute one top-level operation; returns the observation (abstract) with the raw value under '_value'."""
        B = self.B
        t, o, i, s = op["t"], op["o"], op["m"], op["s"]
        self.n_ops += 1
        obs = {"st": "ok", "err": "", "v": dict(NOVAL), "du": [0] * len(B.mcfg), "dp": [0] * len(B.pcfg), "ident": "",
               "raw": "", "_value": None}
        if t == "new":
            self.objs[o] = B.make(o)
        else:
            obj = self.objs[o]
            if t == "call":
                args, kwl = B.csp[i - 1][s - 1]
                name = B.mcfg[i - 1]["name"]
                thunk = lambda: getattr(obj, name)(*args, **dict(kwl))
            elif t == "read":
                thunk = lambda: getattr(obj, B.pcfg[i - 1]["name"])
            elif t == "write":
                thunk = lambda: setattr(obj, B.pcfg[i - 1]["name"], _SENTINEL)
            else:
                thunk = lambda: delattr(obj, B.pcfg[i - 1]["name"])
            self.counter.n = {}
            try:
                with warnings.catch_warnings():
                    warnings.simplefilter("ignore")
                    value = self.counter.run(thunk)
                if self.mutate is not None:
                    value = self.mutate(op, value)
                obs["_value"] = value
                obs["raw"] = repr(value)[:120]
                if t in ("call", "read"):
                    obs["v"] = B.project(value, o, t, i, s, hint)
                    k = self._key(op)
                    if k not in self.first:
                        self.first[k] = value
                        obs["ident"] = "first"
                    else:
                        obs["ident"] = "same" if value is self.first[k] else "diff"
            except Exception as e:
                obs["st"], obs["err"] = "err", categorize(e, t)
                obs["raw"] = f"{type(e).__name__}: {e}"[:160]
            for (kind, idx), n in self.counter.n.items():
                obs["du" if kind == "m" else "dp"][idx - 1] = n
        obs["info"] = self.info()
        obs["pset"] = self.pset()
        return obs


def reach(B, o, t, i):
    """decorated functions that the operation may touch on its object (closure of the learned deps)."""
    c = B.cls[o - 1]
    seen, todo = set(), [("m" if t == "call" else "p", i)]
    while todo:
        k = todo.pop()
        if k in seen:
            continue
        seen.add(k)
        if k[0] == "m":
            deps = [d for sp in B.sps[k[1] - 1] for d in sp["deps"][c - 1]]
        else:
            deps = B.pdeps[k[1] - 1][c - 1]
        for d in deps:
            todo.append(("m" if d["t"] == "call" else "p", d["m"]))
    return seen


def same_up_to_twin(B, x, y):
    ec = lambda b: [B.atoms.ec[a - 1] for a in b]
    return x["k"] == y["k"] and x["o"] == y["o"] and x["f"] == y["f"] and ec(x["b"]) == ec(y["b"])


def judge(B, exp, exp_info, exp_pset, obs, ex=None, exp_keys=None, pre=None):
    """Compare the machine's expectation with the observation of the real code.

    returns [(level, clause, what)], level 'viol' (a clause of the statement) or 'drift' (implementation shaped).
    pre = (expected info, expected pset, observed info, observed pset) BEFORE the operation: an entry on which the code
    had already left the machine before this operation is not attributed to it (that step has its own record).
    """
    def stale(kind, oo, j):
        if pre is None:
            return False
        e, g = (pre[0], pre[2]) if kind == "m" else (pre[1], pre[3])
        try:
            return list(e[oo - 1][j]) != list(g[oo - 1][j]) if kind == "m" else e[oo - 1][j] != g[oo - 1][j]
        except (IndexError, TypeError):
            return False
    out = []
    t, o, i, s = exp["t"], exp["o"], exp["m"], exp["s"]
    V = lambda clause, what: out.append(("viol", clause, what))
    D = lambda clause, what: out.append(("drift", clause, what))
    own_kind = "m" if t == "call" else "p"
    if t in ("write", "del"):
        if obs["st"] == "ok":
            V("read-only", f"{'assignment to' if t == 'write' else 'deletion of'} a cached property succeeded")
        elif obs["err"] != "ReadOnly":
            D("error-kind", f"{t} raised {obs['raw']}")
    elif t in ("call", "read"):
        value_ok = False
        if exp["st"] == "ok":
            if obs["st"] != "ok":
                V("value", f"raised {obs['raw']} where the undecorated function returns a value")
            else:
                ov = obs["v"]
                if ov != exp["v"] and B.matches(obs["_value"], exp["v"], o, t, i, s):
                    ov = exp["v"]       # the projection prefers the caller's own reference; values of twins can be equal
                if ov == exp["v"]:
                    value_ok = True
                    if exp["hit"] == "hit" and obs["ident"] == "diff":
                        D("copy", "a hit returned an equal object, not the object returned the first time")
                else:
                    own = B.abstract_ref(o, t, i, s)
                    if exp["twin"] and own is not None and (ov == own or B.matches(obs["_value"], own, o, t, i, s)):
                        D("twin", "an argument equal to (but of another type than) a cached one was computed separately")
                        value_ok = True
                    elif ov["k"] == "val" and (ov["o"] != o or ov["f"] != exp["v"]["f"]) and exp["v"]["k"] == "val":
                        V("isolation", f"returned the result of object {ov['o']} function {ov['f']} arguments {ov['b']} "
                                       f"({obs['raw']}); expected {exp['v']}")
                    else:
                        V("value", f"returned {obs['raw']} (= {ov}); the undecorated function returns {exp['v']}")
        else:
            if obs["st"] == "ok":
                own = B.abstract_ref(o, t, i, s)
                if exp["err"] == "Unhashable" and own is not None and B.matches(obs["_value"], own, o, t, i, s):
                    D("unhashable-bypass", "an unhashable argument was computed without caching instead of raising TypeError")
                else:
                    V("error", f"returned {obs['raw']} where the undecorated function raises ({exp['err']})")
            elif obs["err"] != exp["err"]:
                D("error-kind", f"raised {obs['raw']} ({obs['err']}); the reference machine raises {exp['err']}")
        # how often the bodies ran
        for kind, vec_e, vec_o in (("m", exp["du"], obs["du"]), ("p", exp["dp"], obs["dp"])):
            for j, (e, g) in enumerate(zip(vec_e, vec_o)):
                if e == g:
                    continue
                is_own = (kind == own_kind and j + 1 == i)
                name = (B.mcfg if kind == "m" else B.pcfg)[j]["name"]
                if g > e:
                    if is_own and exp["hit"] == "hit":
                        if exp["twin"]:
                            D("twin", f"{name}: body ran again for an equal argument of another type")
                        else:
                            V("once", f"{name}: the body ran {g} time(s) on a call whose result was already cached")
                    elif is_own:
                        V("once", f"{name}: the body ran {g} times during one call (expected {e})")
                    elif B.strict_nested:
                        V("once", f"{name}: the body ran {g} time(s) inside {B.describe(exp)} (expected {e}): "
                                  f"a nested cached call was recomputed")
                    else:
                        D("nested-count", f"{name}: body ran {g} time(s), reference machine {e}")
                else:
                    if is_own and exp["st"] == "ok" and not value_ok:
                        pass                                   # already reported with the value
                    D("fewer-runs", f"{name}: body ran {g} time(s), reference machine {e} "
                                    f"(spellings identified, or a dependency not taken)")
    # counters and attribute sets of ALL objects
    touched = reach(B, o, t, i) if t in ("call", "read") else set()
    layout_reported = False
    for oo, (row_e, row_o) in enumerate(zip(exp_info, obs["info"]), 1):
        for j, (e, g) in enumerate(zip(row_e, row_o)):
            name = B.mcfg[j]["name"]
            if g is None:
                if not layout_reported:
                    D("layout", f"{name}: _cache_/_cache_info_ attributes do not have the documented layout")
                    layout_reported = True
                continue
            init, hits, misses, n = g
            unchanged = pre is not None and oo <= len(pre[2]) and pre[2][oo - 1][j] is not None \
                and list(pre[2][oo - 1][j]) == list(g)
            if not unchanged and (misses != n or hits < misses or (init == 0 and (hits or misses or n))):
                V("counters", f"obj{oo}.{name}: inconsistent bookkeeping hits={hits} misses={misses} entries={n}")
                continue
            if list(e) == list(g) or stale("m", oo, j):
                continue
            if oo != o or ("m", j + 1) not in touched:
                V("isolation", f"{B.describe(exp)} changed the cache of obj{oo}.{name}: [init,hits,misses,entries] "
                               f"{g}, expected {list(e)}")
            elif t == "call" and j + 1 == i:
                V("counters", f"obj{oo}.{name}: [init,hits,misses,entries] = {g} after {B.describe(exp)}, expected {list(e)}")
            elif B.strict_nested:
                V("counters", f"obj{oo}.{name}: [init,hits,misses,entries] = {g} after the nested calls of "
                              f"{B.describe(exp)}, expected {list(e)}")
            else:
                D("nested-counters", f"obj{oo}.{name}: {g}, reference machine {list(e)}")
    if len(exp_info) != len(obs["info"]):
        D("objects", "number of objects differs")
    for oo, (row_e, row_o) in enumerate(zip(exp_pset, obs["pset"]), 1):
        for j, (e, g) in enumerate(zip(row_e, row_o)):
            if e == g or stale("p", oo, j):
                continue
            name = B.pcfg[j]["name"]
            if oo != o or ("p", j + 1) not in touched:
                V("isolation", f"{B.describe(exp)} {'set' if g else 'removed'} the cached value of obj{oo}.{name}")
            else:
                D("attr", f"obj{oo}.{name}: cached attribute present={g}, reference machine {e}")
    if exp_keys is not None and ex is not None:
        for (oo, m), ke in exp_keys.items():
            kg = ex.store_keys(oo, m)
            if kg is None:
                if not layout_reported:
                    D("layout", f"{B.mcfg[m - 1]['name']}: store keys are not (args, frozenset(kwargs.items()) or None)")
                    layout_reported = True
            elif kg != ke:
                D("store-keys", f"obj{oo}.{B.mcfg[m - 1]['name']}: keys {sorted(map(str, kg))} vs {sorted(map(str, ke))}")
    order = {"value": 0, "error": 0, "isolation": 1, "read-only": 1, "once": 2, "counters": 3}
    out.sort(key=lambda f: (0 if f[0] == "viol" else 1, order.get(f[1], 9)))
    return out


# --------------------------------------------------------------------------------------------
# TLC runs, cross-check, reporting
# --------------------------------------------------------------------------------------------
def _op4(op):
    return {"t": op["t"], "o": op["o"], "m": op["m"], "s": op["s"]}


def _pub(obs):
    return {k: v for k, v in obs.items() if not k.startswith("_")}


def report(ctx, B, fails, ops, focus, exp, obs):
    """first violation (or first drift) of one judged operation -> ctx; returns True iff nothing was wrong."""
    viols = [f for f in fails if f[0] == "viol"]
    drifts = [f for f in fails if f[0] == "drift"]
    if viols:
        _, clause, what = viols[0]
        sig = B.sig_override or f"X01:{B.site(exp['t'], exp['m'])}:{clause}:{B.shape(exp)}"
        script = [B.describe(op) for op in ops[:focus + 1]]
        more = "; ".join(f"[{c}] {w}" for _, c, w in viols[1:4])
        case = {"desc": B.desc, "ops": [_op4(op) for op in ops[:focus + 1]], "focus": focus, "script": script,
                "expected": exp, "observed": _pub(obs)}
        ctx.violation(sig, f"after {' ; '.join(script[:-1]) or '(fresh objects)'} -> {script[-1]}: {what}"
                           + (f" | also: {more}" if more else ""), case)
        return False
    if drifts:
        _, clause, what = drifts[0]
        ctx.count("drift:" + clause)
        if B.sig_override:
            return True
        ctx.drift(f"{B.site(exp['t'], exp['m'])}:{clause}", {"op": B.describe(ops[focus]), "what": what,
                                                             "script": [B.describe(op) for op in ops[:focus + 1]][-6:]})
    return True


def run_tlc_batch(ctx, worlds, what, workers):
    res = run_tlc(ctx.workdir / f"tlc{len(ctx.tlc_runs)}", MODULE, CFG, files={"batch.json": worlds},
                  env={"BATCH_FILE": "batch.json"}, workers=workers, heap="4g")
    ctx.add_tlc(res, what)
    bad = [v for v in res.violated if v in INVS + PROPS]
    if bad:
        raise TLCFailure(f"design-level property violated in {MODULE}: {sorted(set(bad))}\n"
                         + (res.traces[0][:3000] if res.traces else ""))
    return res


def _keys_of(store_rows):
    out = {}
    for o, row in enumerate(store_rows, 1):
        for m, entries in enumerate(row if row else [], 1):
            out[(o, m)] = {(tuple(e["kp"]), frozenset(tuple(x) for x in e["kk"])) for e in entries}
    return out


def xcheck(world, ops, exp_last, exp_info, exp_pset, exp_keys=None):
    """independent python machine against what TLC emitted for the state after ops."""
    rm = RefMachine(world)
    last = None
    for op in ops:
        last = rm.op(op)
    if last != exp_last or rm.info() != exp_info or rm.pset() != exp_pset:
        raise TLCFailure(f"X01: the TLA+ machine and the independent python machine disagree after {ops}:\n"
                         f"TLC {exp_last} {exp_info} {exp_pset}\npy  {last} {rm.info()} {rm.pset()}")
    if exp_keys is not None:
        for (o, m), ks in exp_keys.items():
            if rm.keys(o, m) != ks:
                raise TLCFailure(f"X01: store keys disagree after {ops}: TLC {ks} py {rm.keys(o, m)}")


def nontrivial_key(B, ops):
    """a behaviour is non-trivial if its final operation is a hit, an error, a nested computation, a non-plain
    spelling, or follows operations on another object / function (interleaving)."""
    last = ops[-1]
    others = {(op["o"], op["t"] in ("call",), op["m"]) for op in ops[:-1] if op["t"] != "new"}
    me = (last["o"], last["t"] in ("call",), last["m"])
    return len(ops) >= 2 and (me in others or len(others - {me}) > 0)


def run_mc(ctx, bindings, what, workers=4, mutate=None, xevery=1):
    """MC + pipeline A over the worlds of the bindings."""
    res = run_tlc_batch(ctx, [B.world for B in bindings], what, workers)
    n_ok = 0
    for k, rec in enumerate(res.records):
        B = bindings[rec["tid"] - 1]
        w = B.world
        ops = rec["hist"]
        exp = norm_last(rec["last"], w)
        exp_info = norm_rows(rec["state"]["info"], len(w["meths"]))
        exp_info = [[list(x) for x in row] for row in exp_info]
        exp_pset = norm_rows(rec["state"]["pset"], len(w["props"]))
        exp_keys = _keys_of(rec["state"]["store"])
        if k % xevery == 0:
            xcheck(w, ops, exp, exp_info, exp_pset, exp_keys)
            ctx.count("oracle_crosschecks")
        ex = Executor(B, mutate)
        rm = RefMachine(w)
        for op in ops[:-1]:
            ex.run(op)
            rm.op(op)
        pre = (rm.info(), rm.pset(), ex.info(), ex.pset())
        if pre[0] != pre[2] or pre[1] != pre[3]:
            ctx.count("prefix_diverged")
        obs = ex.run(ops[-1], hint=exp["v"])
        ctx.evaluations += ex.n_ops
        fails = judge(B, exp, exp_info, exp_pset, obs, ex, exp_keys, pre)
        if report(ctx, B, fails, ops, len(ops) - 1, exp, obs):
            ctx.validated += 1
            n_ok += 1
        ctx.count(f"{B.desc['kind']}:{exp['t']}" + (":" + exp["hit"] if exp["hit"] else "") + (":" + exp["err"] if exp["err"] else ""))
        if exp["twin"]:
            ctx.count("twin_hits")
        if exp["hit"] == "hit" or exp["st"] == "err" or sum(exp["du"]) + sum(exp["dp"]) > 1 or nontrivial_key(B, ops):
            ctx.nontrivial(digest([B.desc, [_op4(o) for o in ops]]))
        if len(ctx.samples) < 4 and len(ops) >= 3 and exp["hit"] == "hit" and k % 97 == 0:
            ctx.sample({"binding": B.desc.get("name", B.desc["kind"]), "behaviour": [B.describe(o) for o in ops],
                        "expected_last": exp, "observed": _pub(obs)})
    return res, n_ok


def run_traces(ctx, items, what, workers=2, mutate=None, drop=None):
    """pipeline B: items = [(binding, ops)]; the real code runs first, TLC judges the recorded traces."""
    worlds, observed = [], []
    for B, ops in items:
        ex = Executor(B, mutate)
        obs_list = [ex.run(op) for op in ops]
        ctx.evaluations += ex.n_ops
        events = []
        for op, obs in zip(ops, obs_list):
            info = [[(x if x is not None else [-1, -1, -1, -1]) for x in row] for row in obs["info"]]
            events.append({"op": _op4(op), "obs": {"st": obs["st"], "err": obs["err"], "v": obs["v"], "du": obs["du"],
                                                   "dp": obs["dp"], "info": info, "pset": obs["pset"]}})
        if drop is not None and drop < len(events):
            del events[drop]
            ops = ops[:drop] + ops[drop + 1:]
            obs_list = obs_list[:drop] + obs_list[drop + 1:]
        w = dict(B.world)
        w["trace"] = events
        worlds.append(w)
        observed.append((B, ops, obs_list))
    res = run_tlc_batch(ctx, worlds, what, workers)
    by = {(r["tid"], r["l"]): r for r in res.records}
    accepted = 0
    for tid, (B, ops, obs_list) in enumerate(observed, 1):
        w = B.world
        rm = RefMachine(w)
        good = True
        for l, (op, obs) in enumerate(zip(ops, obs_list), 1):
            rec = by.get((tid, l))
            if rec is None:
                raise TLCFailure(f"X01: TLC emitted no verdict for event {l} of trace {tid}")
            exp = norm_last(rec["last"], w)
            exp_info = [[list(x) for x in row] for row in norm_rows(rec["info"], len(w["meths"]))]
            exp_pset = norm_rows(rec["pset"], len(w["props"]))
            last = rm.op(op)
            if last != exp or rm.info() != exp_info or rm.pset() != exp_pset:
                raise TLCFailure(f"X01: TLA+ machine and python machine disagree at event {l} of trace {tid}: {exp} vs {last}")
            ctx.count("oracle_crosschecks")
            if rec["fv"] and rec["fo"] and rec["fc"] and rec["fp"]:
                ctx.count("events_accepted")
                continue
            fails = judge(B, exp, exp_info, exp_pset, obs)
            if not fails and not (rec["fo"] and rec["fc"] and rec["fp"]):
                raise TLCFailure(f"X01: TLC rejects event {l} of trace {tid} ({rec}) but the python comparison finds no difference")
            if not fails:
                ctx.count("events_accepted")
                continue                                  # equal values of twins: the projection preferred the caller's own
            ok = report(ctx, B, fails, ops, l - 1, exp, obs)
            good = good and ok
            ctx.count("events_rejected")
            if ok and all(f[1] in ("layout", "copy", "error-kind", "store-keys") for f in fails):
                continue                                   # nothing that changes the state of the caches
            if ok:
                ctx.count("traces_cut_after_drift")
            break                                          # the machine and the code have diverged
        if good:
            accepted += 1
            ctx.validated += 1
            ctx.nontrivial(digest([B.desc, [_op4(o) for o in ops]]))
    return res, accepted


# --------------------------------------------------------------------------------------------
# toy worlds: classes generated in the driver, decorated with the REAL decorators
# --------------------------------------------------------------------------------------------
class _StrTwin(str):
    pass


class _TupTwin(tuple):
    pass


_ODD = [None, 0, "", (), frozenset(), math.nan, 0.5, b"x", -1, Ellipsis, "0", (None,)]
_ZEROS = [0, (), "", False, 0.0, frozenset()]


def toy_labels(family, atoms):
    """concrete python values of the abstract atoms [{ec, h, kind}] (ec = index of the first atom of the class)."""
    labels = []
    seen = {}
    for i, a in enumerate(atoms, 1):
        e = a["ec"]
        nth = seen.get(e, 0)
        seen[e] = nth + 1
        if family == "int":
            base = e
        elif family == "neg":
            base = -e
        elif family == "str":
            base = str((e + 1) // 2) if e % 2 else e // 2
        elif family == "tuple":
            base = (e, "x")
        else:
            base = _ODD[e - 1]
        if a["h"] == 0:
            v = (base[0], ["x"]) if family == "tuple" else ({"k": base} if family == "str" else [base])
        elif nth == 0:
            v = base
        elif isinstance(base, bool) or base is None or base is Ellipsis:
            raise ValueError("no twin")
        elif isinstance(base, int):
            v = float(base) if nth == 1 else (True if base == 1 else (False if base == 0 else complex(base)))
        elif isinstance(base, str):
            v = _StrTwin(base)
        elif isinstance(base, tuple) and base and isinstance(base[0], int):
            v = (float(base[0]),) + base[1:]
        elif isinstance(base, tuple):
            v = _TupTwin(base)
        else:
            raise ValueError("no twin")
        labels.append(v)
    return labels


def toy_binding(cfg):
    """cfg (JSON-able): name, family, classes flat|sub|two, NO, N0, L, atoms [{ec,h,kind}],
    meths [{name, params [default atom | 0], sps [{pos, kw [[n, a]], top}], deps [{t, m, s}]}],
    props [{name, kind, deps, top}]."""
    labels = toy_labels(cfg["family"], cfg["atoms"])

    def atom_of(v):
        for i, lab in enumerate(labels):
            if v is lab:
                return i + 1
        for i, lab in enumerate(labels):
            if _typed_eq(v, lab):
                return i + 1
        return 0

    def concrete(m, sp):
        n = len(cfg["meths"][m - 1]["params"])
        return (tuple(labels[a - 1] for a in sp["pos"]),
                [(f"q{k}" if 1 <= k <= n else "zz", labels[a - 1]) for k, a in sp["kw"]])

    def dodep(self, d):
        if d["t"] == "call":
            mc = cfg["meths"][d["m"] - 1]
            args, kwl = concrete(d["m"], mc["sps"][d["s"] - 1])
            getattr(self, mc["name"])(*args, **dict(kwl))
        else:
            getattr(self, cfg["props"][d["m"] - 1]["name"])

    def body(self, m, bound):
        for d in cfg["meths"][m - 1]["deps"]:
            dodep(self, d)
        b = tuple(atom_of(v) for v in bound)
        kind = cfg["atoms"][b[0] - 1]["kind"] if b and b[0] else "val"
        if kind == "raise":
            raise Boom(f"m{m}{b} on obj{self._tag}")
        if kind == "none":
            return None
        if kind == "zero":
            return _ZEROS[(m + b[0]) % len(_ZEROS)]
        return Res(self._tag, m, b)

    def pbody(self, p):
        pc = cfg["props"][p - 1]
        for d in pc["deps"]:
            dodep(self, d)
        if pc["kind"] == "raise":
            raise Boom(f"p{p} on obj{self._tag}")
        if pc["kind"] == "none":
            return None
        if pc["kind"] == "zero":
            return _ZEROS[p % len(_ZEROS)]
        return Res(self._tag, -p, ())

    def make_class(cname):
        glb = {"_body": body, "_pbody": pbody, "_L": labels}
        ns = {"__init__": lambda self, tag: setattr(self, "_tag", tag)}
        for m, mc in enumerate(cfg["meths"], 1):
            ps = "".join(f", q{j}" + (f"=_L[{d - 1}]" if d else "") for j, d in enumerate(mc["params"], 1))
            args = "".join(f"q{j}, " for j in range(1, len(mc["params"]) + 1))
            loc = {}
            exec(f"def {mc['name']}(self{ps}):\n    return _body(self, {m}, ({args}))\n", glb, loc)
            ns[mc["name"]] = funcutils.method_cache(loc[mc["name"]])
        for p, pc in enumerate(cfg["props"], 1):
            loc = {}
            exec(f"def {pc['name']}(self):\n    return _pbody(self, {p})\n", glb, loc)
            ns[pc["name"]] = funcutils.cached_property(loc[pc["name"]])
        return type(cname, (object,), ns)

    NO = cfg["NO"]
    if cfg["classes"] == "flat":
        classes, cls = [make_class("Toy")], [1] * NO
    elif cfg["classes"] == "sub":
        base = make_class("Toy")
        classes, cls = [base, type("ToySub", (base,), {})], [1 + (o % 2) for o in range(NO)]
    else:
        classes, cls = [make_class("Toy"), make_class("Toy")], [1 + (o % 2) for o in range(NO)]
    meths = [{"name": mc["name"], "sps": [concrete(m, sp) + (sp["top"],) for sp in mc["sps"]]}
             for m, mc in enumerate(cfg["meths"], 1)]
    props = [{"name": pc["name"], "top": pc["top"]} for pc in cfg["props"]]
    B = Binding({"kind": "toy", "name": cfg["name"], "cfg": cfg}, classes, lambda o: classes[cls[o - 1] - 1](o),
                meths, props, cls, cfg["N0"], cfg["L"], True, "toy:")
    for m, mc in enumerate(cfg["meths"]):
        for s, sp in enumerate(B.sps[m]):
            runs = py_bind(B.params[m], sp) is not None and all(B.atoms.h[a - 1] for a in sp["pos"] + [e["a"] for e in sp["kw"]])
            if runs and any(len(x) > len(mc["deps"]) for x in sp["deps"]):
                raise TLCFailure(f"X01: probe of toy method {mc['name']} found {sp['deps']} but it performs {mc['deps']}")
    if cfg.get("collision"):
        B.sig_override = f"X01:funcutils:attr-name-collision:{cfg['collision']}"
        return B
    for p, pc in enumerate(cfg["props"]):
        if [len(x) for x in B.pdeps[p]] != [len(pc["deps"])] * len(classes):
            raise TLCFailure(f"X01: probe of toy property {pc['name']} found {B.pdeps[p]} but it performs {pc['deps']}")
    return B


def _sp(pos=(), kw=(), top=1):
    return {"pos": list(pos), "kw": [list(x) for x in kw], "top": top}


# template atoms: 1 A1, 2 A2, 3 twin of A1, 4 unhashable, 5 -> None, 6 -> falsy, 7 -> raises, 8 default, 9 A3, 10 twin of A2
def _atoms(twins=True):
    a = [{"ec": 1, "h": 1, "kind": "val"}, {"ec": 2, "h": 1, "kind": "val"}, {"ec": 1 if twins else 3, "h": 1, "kind": "val"},
         {"ec": 4, "h": 0, "kind": "val"}, {"ec": 5, "h": 1, "kind": "none"}, {"ec": 6, "h": 1, "kind": "zero"},
         {"ec": 7, "h": 1, "kind": "raise"}, {"ec": 8, "h": 1, "kind": "val"}, {"ec": 9, "h": 1, "kind": "val"},
         {"ec": 2 if twins else 10, "h": 1, "kind": "val"}]
    return a


A1, A2, A1T, U, N, Z, R, DF, A3, A2T = range(1, 11)


def toy_templates(tier):
    big = tier == "thorough"
    T = []

    def add(name, family, classes, NO, N0, L, meths, props, twins=True):
        T.append({"name": name, "family": family, "classes": classes, "NO": NO, "N0": N0, "L": L,
                  "atoms": _atoms(twins), "meths": meths, "props": props})
    spell = [_sp([A1]), _sp([A2]), _sp([A1, DF]), _sp([], [[1, A1]]), _sp([A1], [[2, DF]]), _sp([], [[1, A1], [2, DF]]),
             _sp([], [[2, DF], [1, A1]]), _sp([A1T]), _sp([A1], [[2, A2]]), _sp([], [[2, A2], [1, A1]]), _sp([], [[1, A2]]),
             _sp([], [[1, A1T]])]
    for fam in (("int", "str", "neg", "tuple") if big else ("int", "str")):
        add(f"spellings-{fam}", fam, "flat", 1, 1, 4 if big else 3,
            [{"name": "alpha", "params": [0, DF], "sps": spell, "deps": []}], [])
    errs = [_sp([A1]), _sp([U]), _sp([], [[1, U]]), _sp([A1], [[2, U]]), _sp([N]), _sp([Z]), _sp([R]), _sp([]),
            _sp([A1, DF, A1]), _sp([A1], [[1, A1]]), _sp([A1], [[3, A1]]), _sp([], [[1, N]]), _sp([U], [[3, A1]])]
    for fam in (("int", "odd", "tuple") if big else ("int", "odd")):
        add(f"errors-kinds-{fam}", fam, "flat", 1, 1, 4 if big else 3,
            [{"name": "alpha", "params": [0, DF], "sps": errs, "deps": []}], [], twins=False)
    two = [_sp([A1]), _sp([A2])]
    for classes, fam in (("flat", "neg"), ("two", "int"), ("sub", "str")):
        add(f"isolation-{classes}", fam, classes, 2, 1, 4,
            [{"name": "alpha", "params": [0], "sps": two, "deps": []}, {"name": "beta", "params": [0], "sps": two, "deps": []}],
            [{"name": "pa", "kind": "val", "deps": [], "top": 1}, {"name": "pb", "kind": "val", "deps": [], "top": 1}])
    add("isolation-3-objects", "int", "flat", 3, 1, 4 if big else 3,
        [{"name": "alpha", "params": [0, DF], "sps": [_sp([A1]), _sp([], [[1, A1]]), _sp([N])], "deps": []}],
        [{"name": "pa", "kind": "zero", "deps": [], "top": 1}])
    add("properties", "int", "two", 2, 1, 4 if big else 3, [],
        [{"name": "pa", "kind": "val", "deps": [], "top": 2}, {"name": "pn", "kind": "none", "deps": [], "top": 2},
         {"name": "pz", "kind": "zero", "deps": [], "top": 2}, {"name": "pr", "kind": "raise", "deps": [], "top": 2}])
    add("nested", "int", "flat", 2, 1, 3,
        [{"name": "alpha", "params": [0], "sps": [_sp([A1]), _sp([A2]), _sp([N])], "deps": []},
         {"name": "beta", "params": [0, DF], "sps": [_sp([A1]), _sp([A2], [[2, A1]]), _sp([R])],
          "deps": [{"t": "call", "m": 1, "s": 1}, {"t": "read", "m": 1, "s": 0}]},
         {"name": "gamma", "params": [0], "sps": [_sp([A1]), _sp([Z])],
          "deps": [{"t": "read", "m": 1, "s": 0}, {"t": "read", "m": 3, "s": 0}]}],
        [{"name": "pa", "kind": "val", "deps": [], "top": 2},
         {"name": "pb", "kind": "zero", "deps": [{"t": "read", "m": 1, "s": 0}, {"t": "call", "m": 2, "s": 2},
                                                 {"t": "call", "m": 1, "s": 3}], "top": 1},
         {"name": "pc", "kind": "raise", "deps": [{"t": "call", "m": 1, "s": 2}], "top": 1}])
    # the attribute names the decorators derive from the function names
    add("names-private", "int", "flat", 2, 2, 3,
        [{"name": "_cached_beta", "params": [0], "sps": two, "deps": []}, {"name": "__alpha", "params": [0], "sps": two, "deps": []}],
        [{"name": "alpha", "kind": "val", "deps": [], "top": 2}, {"name": "_alpha", "kind": "none", "deps": [], "top": 1}])
    return T


def toy_name_collisions():
    """function names whose derived attribute names coincide: '_cache_' + 'info_foo' == '_cache_info_' + 'foo', and a
    cached property foo next to ANY attribute called _cached_foo (msdm's own naming pattern for cached methods:
    _cached_next_state_dist, _cached_actions)."""
    two = [_sp([A1]), _sp([A2])]
    return [{"name": "names-foo-info_foo", "collision": "method_cache(foo)+method_cache(info_foo)", "family": "int",
             "classes": "flat", "NO": 1, "N0": 1, "L": 3, "atoms": _atoms(),
             "meths": [{"name": "foo", "params": [0], "sps": two, "deps": []},
                       {"name": "info_foo", "params": [0], "sps": two, "deps": []}], "props": []},
            {"name": "names-foo-_cached_foo", "collision": "cached_property(foo)+attribute(_cached_foo)", "family": "int",
             "classes": "flat", "NO": 1, "N0": 1, "L": 2, "atoms": _atoms(),
             "meths": [{"name": "_cached_foo", "params": [0], "sps": two, "deps": []}],
             "props": [{"name": "foo", "kind": "val", "deps": [], "top": 1}]}]


def toy_random(rng, k, L=3):
    """a random toy world from the grammar of spellings."""
    fam = rng.choice(["int", "neg", "str", "tuple"])
    NO = rng.choice([1, 2, 2])
    nm = rng.choice([1, 2, 2])
    npp = rng.choice([0, 1, 2])
    pool_ok = [A1, A2, A1T, N, Z, A3, A2T]
    meths = []
    for m in range(nm):
        npar = rng.choice([1, 2, 2])
        params = [0] + ([rng.choice([0, DF, DF])] if npar == 2 else [])
        sps = []
        for _ in range(rng.choice([3, 4, 5])):
            style = rng.choice(["pos", "pos", "kw", "mixed", "full", "bad", "unh", "raise"])
            a = rng.choice(pool_ok)
            b = rng.choice([DF, A1, A2])
            if style == "pos":
                sp = _sp([a])
            elif style == "kw":
                sp = _sp([], [[1, a]])
            elif style == "mixed":
                sp = _sp([a], [[2, b]]) if npar == 2 else _sp([], [[1, a]])
            elif style == "full":
                sp = rng.choice([_sp([a, b]), _sp([], [[2, b], [1, a]]), _sp([], [[1, a], [2, b]])]) if npar == 2 else _sp([a])
            elif style == "bad":
                sp = rng.choice([_sp([]), _sp([a], [[1, a]]), _sp([a], [[npar + 1, a]]), _sp([a, b, a])])
            elif style == "unh":
                sp = rng.choice([_sp([U]), _sp([], [[1, U]])])
            else:
                sp = _sp([R])
            if sp not in sps:
                sps.append(sp)
        meths.append({"name": ["alpha", "beta"][m], "params": params, "sps": sps, "deps": []})
    props = [{"name": ["pa", "pb"][p], "kind": rng.choice(["val", "val", "none", "zero", "raise"]), "deps": [],
              "top": rng.choice([1, 2])} for p in range(npp)]
    # dependencies along the order alpha, pa, beta, pb (acyclic)
    order = [("m", 1)] + ([("p", 1)] if npp >= 1 else []) + ([("m", 2)] if nm == 2 else []) + ([("p", 2)] if npp == 2 else [])
    for j, (kind, idx) in enumerate(order):
        deps = []
        for kind2, idx2 in order[:j]:
            if rng.random() < 0.5:
                if kind2 == "m":
                    mc = meths[idx2 - 1]
                    good = [s + 1 for s, sp in enumerate(mc["sps"])
                            if py_bind([{"d": d} for d in mc["params"]], {"pos": sp["pos"], "kw": [{"n": n, "a": a} for n, a in sp["kw"]]})
                            is not None]
                    if good:
                        deps.append({"t": "call", "m": idx2, "s": rng.choice(good)})
                else:
                    deps.append({"t": "read", "m": idx2, "s": 0})
        (meths[idx - 1] if kind == "m" else props[idx - 1])["deps"] = deps
    return {"name": f"random-{k}", "family": fam, "classes": rng.choice(["flat", "flat", "sub", "two"]), "NO": NO,
            "N0": rng.choice([1, NO]), "L": L, "atoms": _atoms(), "meths": meths, "props": props}


# --------------------------------------------------------------------------------------------
# real msdm classes
# --------------------------------------------------------------------------------------------
def _is_funcutils_wrapper(f):
    code = getattr(f, "__code__", None)
    return code is not None and code.co_filename.endswith("funcutils.py") and undecorated(f) is not None


# what the statement names as cached (msdm at the time the check was written); these stay in the worlds even if a
# decorator is dropped, so that "computed once" is then judged against the plain function / property
REQUIRED = {
    "MarkovDecisionProcess": (["reachable_states"], []),
    "TabularMarkovDecisionProcess": (["_cached_actions", "_cached_next_state_dist"],
                                     ["_unable_to_reach_absorbing", "absorbing_state_vec", "action_list", "action_matrix",
                                      "dead_end_state_vec", "initial_state_vec", "reachable_state_vec", "reward_matrix",
                                      "reward_table", "state_action_reward_matrix", "state_action_reward_table", "state_list",
                                      "transition_matrix", "transition_table"]),
    "TabularPOMDP": (["_cached_observation_dist"], ["observation_index", "observation_list", "observation_matrix"]),
    "GridMDP": ([], ["feature_list", "feature_locations_dict", "grid", "location_feature_dict", "location_list"]),
    "WindyGridWorld": (["next_state_reward_dist"], []),
    "GridWorld": ([], ["feature_locations"]),
    "TableIndex": ([], ["field_domains", "field_names", "fields", "shape"]),
    "domaintuple": ([], ["_index"]),
    "ImplicitDistribution": ([], ["_rng"]),
}


def discover(klass):
    """names of the attributes of klass decorated with method_cache / cached_property (plus the REQUIRED ones)."""
    meths, props = [], []
    for k in klass.__mro__:
        rm, rp = REQUIRED.get(k.__name__, ([], []))
        for name in rm:                   # (an override in a subclass is that subclass's business)
            owner, attr = find_attr(klass, name)
            if name not in meths and owner is k and inspect.isfunction(attr):
                meths.append(name)
        for name in rp:
            owner, attr = find_attr(klass, name)
            if name not in props and owner is k and not inspect.isfunction(attr):
                props.append(name)
    for name in sorted(dir(klass)):
        try:
            _, attr = find_attr(klass, name)
        except AttributeError:
            continue
        if isinstance(attr, property) and _is_funcutils_wrapper(attr.fget) and name not in props:
            props.append(name)
        elif inspect.isfunction(attr) and _is_funcutils_wrapper(attr) and name not in meths:
            meths.append(name)
    return sorted(meths), sorted(props)


def _mdp_labels(family):
    if family == "int":
        return [0, 1, 2, 3], 0.0, 99, [0], ["a", "b"]
    if family == "str":
        return ["s0", "s1", "s2", "sT"], _StrTwin("s0"), "zz", ["s0"], ["a", "b"]
    if family == "tuple":
        return [(0, 0), (0, 1), (1, 0), (1, 1)], (0.0, 0), (9, 9), ([0], 0), [("a", 0), ("b", 1)]
    return [0, "b", (2,), frozenset({3})], False, None, [0], ["a", 1]          # unsortable states and actions


def mdp_binding(cfg):
    """cfg: name, family int|str|tuple|mixed, explicit (state/action lists given), base subclass|quick|pomdp,
    focus methods|props|spellings, NO, N0, L.  Object o is variant o of a 4-state chain (different dynamics, initial
    distribution and action sets per variant, so that results of different objects differ)."""
    from msdm.core.mdp import TabularMarkovDecisionProcess
    from msdm.core.mdp.quickmdp import QuickTabularMDP
    from msdm.core.pomdp.tabularpomdp import TabularPOMDP
    from msdm.core.distributions import DictDistribution
    S, twin0, bad, unh, A = _mdp_labels(cfg["family"])

    def idx(s):
        for i, x in enumerate(S):
            if _hashable(s) and x == s and hash(x) == hash(s):
                return i
        raise KeyError(s)

    def nsd(v, s, a):
        i = idx(s)
        if i == 3:
            return DictDistribution({s: 1.0})
        if a == A[0]:
            return DictDistribution({S[i + 1]: 1.0})
        if a == A[1]:
            p = [0.5, 0.25, 0.75][v % 3]
            return DictDistribution({S[i]: p, S[i + 1]: 1 - p})
        raise KeyError(a)

    def actions(v, s):
        i = idx(s)
        if i == 3:
            return ()
        return (A[0],) if (v % 2 == 0 and i == 1) else (A[0], A[1])

    def isd(v):
        return DictDistribution({S[0]: 1.0}) if v % 2 else DictDistribution({S[1]: 1.0})

    base = cfg["base"]
    parent = {"subclass": TabularMarkovDecisionProcess, "pomdp": TabularPOMDP}.get(base)
    if parent is not None:
        ns = {
            "__init__": lambda self, v: (setattr(self, "v", v), setattr(self, "discount_rate", 0.9))[0],
            "next_state_dist": lambda self, s, a: nsd(self.v, s, a),
            "actions": lambda self, s: actions(self.v, s),
            "initial_state_dist": lambda self: isd(self.v),
            "is_absorbing": lambda self, s: idx(s) == 3,
            "reward": lambda self, s, a, ns: -1.0 - self.v * idx(ns),
        }
        if base == "pomdp":
            ns["observation_dist"] = lambda self, a, ns_: DictDistribution({("o", (idx(ns_) + self.v) % 2): 1.0})
        klass = type("ChainPOMDP" if base == "pomdp" else "ChainMDP", (parent,), ns)

        def make(o):
            m = klass(o)
            if cfg["explicit"]:
                m._state_list = list(S)
                m._action_list = list(A)
            return m
    else:
        klass = QuickTabularMDP

        def make(o):
            m = QuickTabularMDP(next_state_dist=lambda s, a: nsd(o, s, a), reward=lambda s, a, ns: -1.0 - o * idx(ns),
                                actions=lambda s: actions(o, s), initial_state_dist=lambda: isd(o),
                                is_absorbing=lambda s: idx(s) == 3, discount_rate=0.9)
            if cfg["explicit"]:
                m._state_list = list(S)
                m._action_list = list(A)
            return m
    inf = float("inf")
    focus = cfg["focus"]
    T = lambda *f: 1 if focus in f else 0
    m1 = [((S[0], A[0]), [], T("methods", "spellings")), ((S[1], A[0]), [], T("methods", "spellings")),
          ((S[0], A[1]), [], T("spellings")), ((), [("s", S[0]), ("a", A[0])], T("methods", "spellings")),
          ((S[0],), [("a", A[0])], T("spellings")), ((), [("a", A[0]), ("s", S[0])], T("spellings")),
          ((twin0, A[0]), [], T("spellings")), ((bad, A[0]), [], T("spellings")), ((unh, A[0]), [], T("spellings")),
          ((S[0],), [("a", unh)], T("spellings")), ((S[0],), [], T("spellings")), ((S[0], A[0], A[0]), [], T("spellings")),
          ((S[0], A[0]), [("zz", 1)], T("spellings"))]
    m2 = [((S[0],), [], T("methods", "spellings", "props")), ((S[3],), [], T("methods", "spellings")),
          ((S[1],), [], T("spellings")), ((), [("s", S[0])], T("spellings")), ((twin0,), [], T("spellings")),
          ((bad,), [], T("spellings"))]
    m3 = [((), [], T("methods", "spellings", "props")), ((2,), [], T("methods", "spellings")),
          ((), [("max_states", 2)], T("methods", "spellings")), ((inf,), [], T("spellings")),
          ((), [("max_states", inf)], T("spellings")), ((2.0,), [], T("spellings")), ((1,), [], T("spellings")),
          ((), [("max_states", [2])], T("spellings")), ((None,), [], T("spellings")), ((), [("max_state", 2)], T("spellings"))]
    meths = [{"name": "_cached_next_state_dist", "sps": m1}, {"name": "_cached_actions", "sps": m2},
             {"name": "reachable_states", "sps": m3}]
    dm, dp = discover(klass)
    if base == "pomdp":
        meths.append({"name": "_cached_observation_dist", "sps": [((A[0], S[1]), [], T("methods", "spellings")),
                                                                    ((), [("ns", S[1]), ("a", A[0])], T("spellings"))]})
    for name in dm:
        if name not in [m["name"] for m in meths]:
            meths.append({"name": name, "sps": []})
    tops = {"methods": {"state_list": 1, "transition_matrix": 1},
            "spellings": {"state_list": 1},
            "props": {"state_list": 2, "action_list": 1, "transition_matrix": 2, "reward_matrix": 1, "absorbing_state_vec": 1,
                      "reachable_state_vec": 1, "initial_state_vec": 1, "state_action_reward_matrix": 1,
                      "observation_matrix": 1, "observation_list": 1}}[focus]
    props = [{"name": n, "top": tops.get(n, 0)} for n in dp]
    NO = cfg["NO"]
    return Binding(dict(cfg), [klass] * NO, make, meths, props, list(range(1, NO + 1)), cfg["N0"], cfg["L"], False, "")


def sweep_binding(cfg):
    """cfg: name (a class of msdm), L.  Two differently parameterised instances; every cached property is read at the
    top level (the first two are also written / deleted), cached methods with the spellings given here."""
    name = cfg["name"]
    meths = []
    if name == "GridWorld":
        from msdm.domains import GridWorld
        klass = GridWorld
        make = lambda o: GridWorld(tile_array=["s.g"] if o == 1 else [".s", "g#"], step_cost=-o)
    elif name == "WindyGridWorld":
        from msdm.domains.gridmdp.windygridworld import WindyGridWorld
        from msdm.domains.gridmdp import Location, GridAction
        klass = WindyGridWorld
        make = lambda o: WindyGridWorld(grid="@>$" if o == 1 else "$<\n.@", wind_probability=0.5 if o == 1 else 0.25)
        meths = [{"name": "next_state_reward_dist",
                  "sps": [((Location(1, 0), GridAction(1, 0)), [], 1), (((1, 0), (1, 0)), [], 1),
                          ((), [("a", GridAction(0, 1)), ("s", Location(0, 0))], 1)]}]
    elif name == "Tiger":
        from msdm.domains.tiger import Tiger
        klass = Tiger
        make = lambda o: Tiger(coherence=0.85 if o == 1 else 0.7, discount_rate=0.9)
        meths = [{"name": "_cached_observation_dist", "sps": [(("listen", "left"), [], 1), ((), [("ns", "left"), ("a", "listen")], 1)]}]
    elif name == "TableIndex":
        from msdm.core.table.tableindex import TableIndex
        klass = TableIndex
        make = lambda o: TableIndex(field_names=["a", "b"] if o == 1 else ["b"],
                                    field_domains=[(1, 2), ("x", "y", "z")] if o == 1 else [(), ][:0] + [("x",)])
    elif name == "domaintuple":
        from msdm.core.table.tableindex import domaintuple
        klass = domaintuple
        make = lambda o: domaintuple([3, 4, (5,)]) if o == 1 else domaintuple(())
    elif name == "ImplicitDistribution":
        from msdm.core.distributions.distributions import ImplicitDistribution
        klass = ImplicitDistribution
        make = lambda o: ImplicitDistribution(lambda rng: rng.random(), n_samples=5, _seed=o)
    elif name == "FromMatrices":
        import numpy as np
        from msdm.core.mdp import TabularMarkovDecisionProcess
        from msdm.core.mdp.quickmdp import QuickTabularMDP
        klass = QuickTabularMDP

        def make(o):
            tf = np.zeros((2, 2, 2))
            tf[0, 0] = [0.5, 0.5] if o == 1 else [0.25, 0.75]
            tf[0, 1] = [0, 1]
            tf[1, :, 1] = 1
            return TabularMarkovDecisionProcess.from_matrices(
                state_list=["x", "y"], action_list=[0, 1], initial_state_vec=np.array([1.0, 0.0]), transition_matrix=tf,
                action_matrix=np.ones((2, 2)), reward_matrix=-np.ones((2, 2, 2)) * o,
                absorbing_state_vec=np.array([False, True]), discount_rate=0.9)
        meths = [{"name": "reachable_states", "sps": [((), [], 1), ((), [("max_states", 1)], 1)]},
                 {"name": "_cached_actions", "sps": [(("x",), [], 1)]}]
    else:
        raise ValueError(name)
    dm, dp = discover(klass)
    for n in dm:
        if n not in [m["name"] for m in meths]:
            meths.append({"name": n, "sps": []})
    order = list(range(len(dp)))
    random.Random(cfg.get("pick", 0)).shuffle(order)
    chosen = set(order[:cfg.get("max_top", 99)])
    props = [{"name": n, "top": (2 if k in order[:2] else 1) if k in chosen else 0} for k, n in enumerate(dp)]
    return Binding(dict(cfg), [klass, klass], make, meths, props, [1, 2], 2, cfg["L"], False, "")


def make_binding(desc):
    if desc["kind"] == "toy":
        return toy_binding(desc["cfg"])
    if desc["kind"] == "mdp":
        return mdp_binding(desc)
    return sweep_binding(desc)


# --------------------------------------------------------------------------------------------
# tiers
# --------------------------------------------------------------------------------------------
RULE = ("worlds = real python classes using msdm's method_cache / cached_property: generated toy classes (every spelling "
        "of a call: positional, keyword, mixed, reordered keywords, explicit defaults, equal arguments of another type, "
        "unhashable arguments, binding errors; results None / falsy / raising; nested cached calls; 1-3 objects of one class, "
        "of a subclass, of separately decorated classes; label families int / negative ints with equal hashes / str-vs-int / "
        "tuples / odd values incl. nan) and msdm's own classes (a TabularMarkovDecisionProcess / QuickTabularMDP / "
        "TabularPOMDP chain in 4 label families with and without explicit state lists, GridWorld, WindyGridWorld, Tiger, "
        "TableIndex, domaintuple, ImplicitDistribution, from_matrices). TLC enumerates every sequence of <= L top-level "
        "operations (call, property read / write / delete, new object); each is replayed on fresh objects and its last "
        "operation judged. non-trivial = the last operation is a cache hit, an error case, a nested computation, or follows "
        "an operation on another object or function; plus every accepted random trace of pipeline B")


def random_ops(rng, B, n):
    """a random top-level behaviour (pipeline B): biased towards repeating earlier operations."""
    ops, nobj = [], B.N0
    menu_m = [(m, s) for m in range(1, len(B.mcfg) + 1) for s in range(1, len(B.sps[m - 1]) + 1)]
    menu_p = list(range(1, len(B.pcfg) + 1))
    while len(ops) < n:
        r = rng.random()
        if ops and r < 0.3:
            op = dict(rng.choice(ops))
            if op["t"] == "new":
                continue
            if rng.random() < 0.4:
                op["o"] = rng.randint(1, nobj)
        elif r < 0.36 and nobj < B.NO:
            nobj += 1
            op = {"t": "new", "o": nobj, "m": 0, "s": 0}
        elif menu_m and (r < 0.75 or not menu_p):
            m, s = rng.choice(menu_m)
            op = {"t": "call", "o": rng.randint(1, nobj), "m": m, "s": s}
        elif menu_p:
            op = {"t": rng.choice(["read", "read", "read", "read", "write", "del"]), "o": rng.randint(1, nobj),
                  "m": rng.choice(menu_p), "s": 0}
        else:
            continue
        ops.append(op)
    return ops


def build_bindings(rng, tier):
    thorough = tier == "thorough"
    out = [toy_binding(c) for c in toy_templates(tier)]
    for k in range(24 if thorough else 8):
        for _ in range(20):
            try:
                out.append(toy_binding(toy_random(rng, k, L=3)))
                break
            except ValueError:
                continue
    fams = ["int", "str", "tuple", "mixed"]
    bases = ["subclass", "quick", "pomdp"]
    if thorough:
        combos = [(f, b, e, foc) for f in fams for b in bases for e in (False, True) for foc in ("methods", "props", "spellings")]
        rng.shuffle(combos)
        combos = combos[:18]
    else:
        r = rng.randrange(12)
        combos = [(fams[r % 4], bases[r % 3], False, "methods"), (fams[(r + 1) % 4], bases[(r + 1) % 3], True, "props"),
                  (fams[(r + 2) % 4], bases[(r + 2) % 3], False, "spellings"), (fams[(r + 3) % 4], bases[r % 3], False, "props")]
    for f, b, e, foc in combos:
        NO, N0 = {"methods": (2, 2), "props": (2, 1), "spellings": (1, 1)}[foc]
        L = 3 if (thorough and foc != "props") else 2
        out.append(mdp_binding({"kind": "mdp", "name": f"chain-{b}-{f}-{'explicit' if e else 'inferred'}-{foc}", "family": f,
                                "explicit": e, "base": b, "focus": foc, "NO": NO, "N0": N0, "L": L}))
    for n in ["GridWorld", "WindyGridWorld", "Tiger", "TableIndex", "domaintuple", "ImplicitDistribution", "FromMatrices"]:
        out.append(sweep_binding({"kind": "sweep", "name": n, "L": 2, "max_top": 99 if thorough else 5,
                                  "pick": rng.randrange(1 << 30)}))
    return out


def run(ctx):
    rng = random.Random(ctx.seed * 7919 + 101)
    ctx.rule = RULE
    ctx.assumptions = [
        "TLC evaluates the TLA+ machine correctly (an independent python cache machine must agree with every emitted record; "
        "python's argument binding oracle is checked against inspect.signature)",
        "the oracle 'what the undecorated function returns' is obtained by calling the function the decorator wraps "
        "(__wrapped__) on a twin object built by the same factory",
        "how often a body runs is observed with sys.setprofile on the code objects of the undecorated functions",
        "nested decorated calls of msdm's own bodies are learned by probing a fresh object through a tracing subclass; "
        "what they predict (nested counters) is judged at DRIFT level for msdm's classes and strictly for the toy classes",
        "arguments that python's == identifies (1, 1.0, True) share one entry: judged against the reference machine at DRIFT level",
    ]
    thorough = ctx.tier == "thorough"
    with warnings.catch_warnings():
        warnings.simplefilter("ignore")
        bindings = build_bindings(rng, ctx.tier)
        chunk = 12
        for k in range(0, len(bindings), chunk):
            part = bindings[k:k + chunk]
            run_mc(ctx, part, f"mc: every sequence of <= L top-level operations over {len(part)} worlds "
                              f"({', '.join(B.desc['name'] for B in part)})"[:600], workers=None)
        # attribute-name collisions of the decorators themselves
        coll = [toy_binding(c) for c in toy_name_collisions()]
        run_mc(ctx, coll, "mc: function names whose derived attribute names coincide", workers=2)
        # pipeline B
        items = []
        per = 6 if thorough else 1
        n = 60 if thorough else 30
        for B in bindings:
            for _ in range(per):
                items.append((B, random_ops(rng, B, n)))
        for k in range(0, len(items), 40):
            run_traces(ctx, items[k:k + 40], f"trace validation: {len(items[k:k + 40])} recorded behaviours of {n} operations",
                       workers=None)
    ctx.extra["worlds"] = len(bindings) + len(coll)


def replay(ctx, case):
    ctx.rule = RULE
    with warnings.catch_warnings():
        warnings.simplefilter("ignore")
        B = make_binding(case["desc"])
        run_traces(ctx, [(B, case["ops"])], "replay of a stored behaviour", workers=2)


def selftest(ctx):
    """binding demonstration: (1) a value returned by the real code is corrupted, (2) an event is dropped from a
    recorded trace, (3) the decorators are replaced in-process by broken ones.  Each must be detected."""
    ctx.rule = RULE
    T = {c["name"]: c for c in toy_templates("quick")}
    with warnings.catch_warnings():
        warnings.simplefilter("ignore")
        iso = toy_binding(T["isolation-flat"])
        _, ok = run_mc(ctx, [iso], "selftest baseline", workers=2)
        base = len(ctx.violations)

        def mutate(op, value):
            if op["t"] == "call" and op["o"] == 2 and isinstance(value, Res):
                return Res(1, value.f, value.b)
            return value
        run_mc(ctx, [iso], "selftest (1): corrupted returned value", workers=2, mutate=mutate)
        got1 = any(":isolation:" in v[0] for v in ctx.violations[base:])
        print(f"  selftest (1) corrupted returned value detected: {got1}")
        n0 = len(ctx.violations)
        nest = toy_binding(T["nested"])
        ops = [{"t": "call", "o": 1, "m": 2, "s": 1}, {"t": "call", "o": 1, "m": 1, "s": 1}, {"t": "read", "o": 1, "m": 2, "s": 0},
               {"t": "call", "o": 1, "m": 2, "s": 1}, {"t": "read", "o": 1, "m": 1, "s": 0}]
        _, acc = run_traces(ctx, [(nest, ops)], "selftest baseline trace", workers=2)
        _, acc2 = run_traces(ctx, [(nest, ops)], "selftest (2): first event dropped", workers=2, drop=0)
        got2 = acc == 1 and acc2 == 0 and len(ctx.violations) > n0
        print(f"  selftest (2) dropped event detected: {got2}")
        n0 = len(ctx.violations)
        real_mc, real_cp = funcutils.method_cache, funcutils.cached_property
        try:
            def bad_method_cache(fn):
                store = {}

                def wrapped(self, *args, **kwargs):
                    key = (args, frozenset(kwargs) if kwargs else None)          # keyword VALUES ignored, store shared
                    if key not in store:
                        store[key] = fn(self, *args, **kwargs)
                    return store[key]
                wrapped.__wrapped__ = fn
                return wrapped

            def bad_cached_property(fn):
                return property(fn)                                               # recomputes on every read
            funcutils.method_cache, funcutils.cached_property = bad_method_cache, bad_cached_property
            worlds = [toy_binding(T["spellings-int"]), toy_binding(T["isolation-flat"]), toy_binding(T["properties"])]
            run_mc(ctx, worlds, "selftest (3): broken decorators", workers=2)
        finally:
            funcutils.method_cache, funcutils.cached_property = real_mc, real_cp
        sigs = {v[0] for v in ctx.violations[n0:]}
        got3 = any(":value:" in s_ or ":isolation:" in s_ for s_ in sigs) and any(":once:" in s_ for s_ in sigs)
        print(f"  selftest (3) broken decorators detected: {got3} ({len(sigs)} signatures)")
    return ok > 0 and base == 0 and got1 and got2 and got3
