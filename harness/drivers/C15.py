"""C15 - augmented sub-tasks and options preserve the base MDP and stop at their goals.

Four parts, each a TLC run of spec/C15_Options.tla bound to the real code:

  aug    (A)  TLC explores the augment() machine over every subset of overridden components and emits
              the derived MDP; the driver calls msdm's augment() with the same overrides on bases built
              in several representations and compares every component on every argument.
  plan   (A)  the same machine with the sub-goal option's overrides + exact planning oracle; compared
              with PlanToSubgoalOption.sub_task (all components) and .planning_result (V, Q, initial).
  opt    (A)  TLC explores every history of an option run (all starts, step limits 0..4) and emits the
              behaviour, what its end must be (return / raise) and its discounted return; the
              driver replays each behaviour through Option.run_on with scripted sampling and through a
              one-simulation semi-MDP.
  trace  (B)  simulations recorded from SemiMarkovDecisionProcess queries on bigger random instances
              (real rng, real seeds) are validated event by event by TLC, which also emits the exact
              outcome tally, its marginals and expectation; the driver compares the distributions the
              semi-MDP reported (joint, marginals, expectation, run_simulations, primitive actions,
              available actions) with them.
All verdicts come from what TLC emitted; python only builds msdm objects, runs them and projects.
"""
import math
import random
import warnings
from fractions import Fraction as F

from .. import gen, build, pyoracle
from ..build import frac
from ..core import digest
from ..tlc import run_tlc, TLCFailure

MODULE = "C15_Options"
COMPS = ["initial", "actions", "next", "reward", "absorbing", "state_list", "action_list"]
KW = {"initial": "initial_state_dist", "actions": "actions", "next": "next_state_dist", "reward": "reward",
      "absorbing": "is_absorbing", "state_list": "state_list", "action_list": "action_list"}
BASE = "INIT Init\nNEXT Next\nCHECK_DEADLOCK FALSE\nINVARIANT Emit\nINVARIANT InstancesWellFormed\n"
INVS = {
    "aug": ["AugPreserved", "AugOverridden", "AugMatchesOracle", "AugOrder", "ViewsOfDerived", "DerivedIsolated"],
    "plan": ["AugPreserved", "AugOverridden", "AugMatchesOracle", "AugOrder", "ViewsOfDerived", "DerivedIsolated", "SubTaskSound",
             "PlanOracleSound"],
    "opt": ["OptVerdictSound", "OptFirstTerminal", "OptWithinLimit", "OptReturnExact", "OptStepsFollowModel"],
    "trace": ["OptWithinLimit", "OptReturnExact", "OptStepsFollowModel", "TraceTally"],
}
TMAX = {1: 20, 2: 12, 4: 8, 10: 6}          # step limits keeping GD^t * n * rewards inside 30 bits
BADR = 1000003                              # stands for a reward that is not an integer
MDPF = ("N", "K", "PD", "GN", "GD", "ID", "abs", "avail", "P", "R", "p0")


def cfg(mode):
    return BASE + "".join(f"INVARIANT {i}\n" for i in INVS[mode])


def tlc(ctx, name, mode, batch, what, variant="intended"):
    res = run_tlc(ctx.workdir / name, MODULE, cfg(mode), files={"batch.json": batch},
                  env={"BATCH_FILE": "batch.json", "MODE": mode, "VARIANT": variant,
                       "_JAVA_OPTIONS": "-Xss64m"},      # recursive folds over long corridor runs need a deeper stack
                  coverage=False, continue_=(variant == "intended"))   # -coverage 1 exhausts the heap on this module
    if variant == "intended":
        ac = ctx.extra.setdefault("machine_actions_in_emitted_behaviours", {})
        for r in res.records:
            k = r.get("kind")
            if k in ("aug", "plan"):
                n = sum(1 for c in COMPS if r["d"].get(c) != [] or c not in ("state_list", "action_list"))
                for a, x in (("AugClass", 1), ("AugSet", n), ("AugInstantiate", 1), ("PlanStep", int(k == "plan"))):
                    ac[a] = ac.get(a, 0) + x
            elif k == "opt":
                for a, x in (("OptStep", r["nst"]), ("OptBreak", 1), ("OptCheck", 1)):
                    ac[a] = ac.get(a, 0) + x
            elif k == "trace":
                ac["Tr" + r["verdict"].capitalize()] = ac.get("Tr" + r["verdict"].capitalize(), 0) + 1
    ctx.add_tlc(res, what)
    if variant == "intended" and res.violated:
        raise TLCFailure(f"design-level invariant violated in {MODULE} ({mode}): {sorted(set(res.violated))}\n"
                         + (res.traces[0][:3000] if res.traces else ""))
    return res


def close(x, exact, tol=0.0):
    return abs(float(x) - float(exact)) <= tol + 1e-9 * max(1.0, abs(float(exact)))


# ==============================================================================================
# building bases
# ==============================================================================================
def make_base(m, rep, rng):
    """Returns (Built, gclass, ginst, tab)."""
    from msdm.core.mdp import QuickMDP
    kind = rep["kind"]
    kw = dict(labels=rep["labels"], alabels=rep["alabels"], explicit_list=rep["explicit_list"], dist=rep["dist"], rng=rng)
    eff = [m["GN"], m["GD"]]
    if kind in ("quick", "matrices"):
        b = build.build_mdp(m, rep=kind, **kw)
        return b, [1, 1], eff, 1
    if kind == "subclass":
        b = build.build_mdp(m, rep="subclass", **kw)
        return b, eff, [0, 0], 1
    if kind == "subclass_inst":      # class-level default plus an attribute set on the instance (as msdm's domains do)
        gc = rep["gclass"]
        b = build.build_mdp(m, rep="subclass", discount=float(F(*gc)), **kw)
        b.mdp.discount_rate = float(F(*eff))
        return b, list(gc), eff, 1
    if kind == "nontab":
        kw["explicit_list"] = False
        b = build.build_mdp(m, rep="quick", **kw)
        q = b.mdp
        b.mdp = QuickMDP(next_state_dist=q._next_state_dist, reward=q._reward, actions=q._actions,
                         initial_state_dist=q._initial_state_dist, is_absorbing=q._is_absorbing,
                         discount_rate=q.discount_rate)
        return b, [1, 1], eff, 0
    raise ValueError(kind)


def wrap_method(mdp, name, make):
    """Replaces a core method of a built base by make(original): through the private function slot of
    Quick MDPs, through the (per-build, local) class otherwise - never through msdm's own classes."""
    from msdm.core.mdp import QuickMDP
    if isinstance(mdp, QuickMDP):
        setattr(mdp, "_" + name, make(getattr(mdp, "_" + name)))
    else:
        fn = make(getattr(mdp, name))
        setattr(type(mdp), name, lambda self, *a: fn(*a))


def sidx0(b, lab):
    try:
        return b.slabel.index(lab)
    except ValueError:
        return -1


def aidx0(b, lab):
    try:
        return b.alabel.index(lab)
    except ValueError:
        return -1


def proj_dist(dist, b):
    out = {}
    for e, p in dist.items():
        if p != 0:
            i = sidx0(b, e)
            out[i] = out.get(i, 0.0) + float(p)
    return out


def project_mdp(dm, b, tab):
    """Every component of an MDP object on every argument, in abstract indices (errors kept per component)."""
    N, K = b.m["N"], b.m["K"]
    out = {}

    def guard(name, fn):
        try:
            out[name] = fn()
        except Exception as e:                                       # noqa: BLE001
            out[name] = {"error": f"{type(e).__name__}: {e}"[:200]}
    guard("discount", lambda: float(dm.discount_rate))
    guard("initial", lambda: proj_dist(dm.initial_state_dist(), b))
    guard("actions", lambda: [sorted(aidx0(b, a) for a in dm.actions(b.slabel[s])) for s in range(N)])
    guard("absorbing", lambda: [bool(dm.is_absorbing(b.slabel[s])) for s in range(N)])
    guard("next", lambda: [[proj_dist(dm.next_state_dist(b.slabel[s], b.alabel[a]), b) for a in range(K)] for s in range(N)])
    guard("reward", lambda: [[[float(dm.reward(b.slabel[s], b.alabel[a], b.slabel[t])) for t in range(N)]
                              for a in range(K)] for s in range(N)])
    if tab:
        guard("state_list", lambda: [sidx0(b, s) for s in dm.state_list])
        guard("action_list", lambda: [aidx0(b, a) for a in dm.action_list])
    return out


def compare_components(real, d, m, tab, comps=None, support_only=False):
    """real: project_mdp output; d: derived record emitted by TLC.  Returns [(component, message)].

    support_only: dynamics are compared on available actions and rewards on positive-probability
    successors only (bases rebuilt from matrices are not defined elsewhere)."""
    N, K, PD = m["N"], m["K"], m["PD"]
    bad = []
    for c in (comps or (["discount"] + COMPS)):
        if c in ("state_list", "action_list") and not tab:
            continue
        r = real.get(c)
        if isinstance(r, dict) and "error" in r:
            bad.append((c, f"raised {r['error']}"))
            continue
        if c == "discount":
            g = frac(d["discount"])
            if not close(r, g, 1e-12):
                bad.append((c, f"discount_rate {r} but the base's is {float(g)}"))
        elif c == "initial":
            p0, ID = d["initial"]
            exp = {s: F(p0[s], ID) for s in range(N) if p0[s] > 0}
            if set(r) != set(exp) or any(not close(r[s], exp[s], 1e-12) for s in exp):
                bad.append((c, f"initial_state_dist {r} expected { {s: float(p) for s, p in exp.items()} }"))
        elif c == "actions":
            for s in range(N):
                exp = [a for a in range(K) if d["actions"][s][a]]
                if r[s] != exp:
                    bad.append((c, f"actions(state {s}) = {r[s]} expected {exp}"))
                    break
        elif c == "absorbing":
            exp = [bool(x) for x in d["absorbing"]]
            if r != exp:
                bad.append((c, f"is_absorbing = {r} expected {exp}"))
        elif c == "next":
            done = False
            for s in range(N):
                for a in range(K):
                    if support_only and not d["actions"][s][a]:
                        continue
                    exp = {t: F(d["next"][s][a][t], PD) for t in range(N) if d["next"][s][a][t] > 0}
                    got = r[s][a]
                    if set(got) != set(exp) or any(not close(got[t], exp[t], 1e-12) for t in exp):
                        bad.append((c, f"next_state_dist({s},{a}) = {got} expected { {t: float(p) for t, p in exp.items()} }"))
                        done = True
                        break
                if done:
                    break
        elif c == "reward":
            done = False
            for s in range(N):
                for a in range(K):
                    for t in range(N):
                        if support_only and not (d["actions"][s][a] and d["next"][s][a][t] > 0):
                            continue
                        if r[s][a][t] != d["reward"][s][a][t]:
                            bad.append((c, f"reward({s},{a},{t}) = {r[s][a][t]} expected {d['reward'][s][a][t]}"))
                            done = True
                            break
                    if done:
                        break
                if done:
                    break
        elif c in ("state_list", "action_list"):
            exp = [x - 1 for x in d[c]]
            if r != exp:
                bad.append((c, f"{c} = {r} expected {exp}"))
    return bad


WARMS = ["none", "arrays", "plan", "both", "both"]


def warm_base(mdp, how, tab):
    """Call history before augment() / the option is built: read the base's array views and reachable set
    and / or plan on it, so that everything msdm caches per instance is cached on the base."""
    if how == "none":
        return
    from msdm.algorithms import ValueIteration
    with warnings.catch_warnings():
        warnings.simplefilter("ignore")
        if how in ("arrays", "both"):
            reads = [lambda: mdp.reachable_states()]
            if tab:
                reads += [lambda: mdp.state_list, lambda: mdp.action_list, lambda: mdp.transition_matrix,
                          lambda: mdp.reward_matrix, lambda: mdp.action_matrix, lambda: mdp.absorbing_state_vec,
                          lambda: mdp.state_action_reward_matrix, lambda: mdp.initial_state_vec,
                          lambda: mdp._unable_to_reach_absorbing]
            for f in reads:
                try:
                    f()
                except Exception:                                    # noqa: BLE001 - only the history matters
                    pass
        if how in ("plan", "both") and tab:
            try:
                ValueIteration(max_iterations=60).plan_on(mdp)
            except Exception:                                        # noqa: BLE001
                pass


def project_views(dm, b, arrays):
    """Array views of an MDP object keyed by abstract indices (reachable set always, arrays when asked)."""
    out = {}

    def guard(name, fn):
        try:
            out[name] = fn()
        except Exception as e:                                       # noqa: BLE001
            out[name] = {"error": f"{type(e).__name__}: {e}"[:200]}
    guard("reach", lambda: sorted(sidx0(b, s) for s in dm.reachable_states()))
    if arrays:
        guard("lists", lambda: [[sidx0(b, s) for s in dm.state_list], [aidx0(b, a) for a in dm.action_list]])
        guard("T", lambda: dm.transition_matrix.tolist())
        guard("R", lambda: dm.reward_matrix.tolist())
        guard("absvec", lambda: [bool(x) for x in dm.absorbing_state_vec])
    return out


def compare_views(real, v, m):
    """real: project_views output; v: views emitted by TLC.  Returns [(view, message)]."""
    bad = []
    if not real:
        return bad
    for name in real:
        if isinstance(real[name], dict):
            bad.append(("raises", f"{name}: {real[name]['error']}"))
    if bad:
        return bad
    exp = sorted(x - 1 for x in v["reach"])
    if real["reach"] != exp:
        bad.append(("reachable_states", f"reachable_states() = {real['reach']} but the derived MDP reaches {exp}"))
    if "T" not in real:
        return bad
    sl, al = real["lists"]
    PD = m["PD"]

    def shape(x):
        return [len(x), len(x[0]) if x else 0, len(x[0][0]) if x and x[0] else 0]
    if len(real["absvec"]) != len(sl):
        bad.append(("absorbing_state_vec", f"absorbing_state_vec has {len(real['absvec'])} entries for a state_list of {len(sl)}"))
    for name, key in (("transition_matrix", "T"), ("reward_matrix", "R")):
        if shape(real[key]) != [len(sl), len(al), len(sl)]:
            bad.append((name, f"{name} has shape {shape(real[key])} for {len(sl)} listed states and {len(al)} listed actions"))
    if bad:
        return bad
    for si, s in enumerate(sl):
        if bool(v["absvec"][s]) != real["absvec"][si]:
            bad.append(("absorbing_state_vec", f"absorbing_state_vec[state {s}] = {real['absvec'][si]} expected {bool(v['absvec'][s])}"))
            break
    for name, key in (("transition_matrix", "T"), ("reward_matrix", "R")):
        done = False
        for si, s in enumerate(sl):
            for ai, a in enumerate(al):
                for ti, t in enumerate(sl):
                    e = F(v[key][s][a][t], PD) if key == "T" else v[key][s][a][t]
                    if not close(real[key][si][ai][ti], e, 1e-12):
                        bad.append((name, f"{name}[{s},{a},{t}] = {real[key][si][ai][ti]} but the derived MDP has {float(e)}"))
                        done = True
                        break
                if done:
                    break
            if done:
                break
    return bad


def py_derived(m, ovr):
    """Independent (python) statement of Derived(m, ovr) for the machinery cross-check."""
    ov = m["ov"]
    pick = lambda c, base, over: over if c in ovr else base          # noqa: E731
    d = {"discount": [m["GN"], m["GD"]],
         "initial": pick("initial", [m["p0"], m["ID"]], [ov["p0"], ov["ID"]]),
         "actions": pick("actions", m["avail"], ov["avail"]),
         "next": pick("next", m["P"], ov["P"]),
         "reward": pick("reward", m["R"], ov["R"]),
         "absorbing": pick("absorbing", m["abs"], ov["abs"])}
    if m["tab"]:
        d["state_list"] = pick("state_list", m["slist"], ov["slist"])
        d["action_list"] = pick("action_list", m["alist"], ov["alist"])
    else:
        d["state_list"] = []
        d["action_list"] = []
    return d


# ==============================================================================================
# part aug
# ==============================================================================================
AUG_REPS = [
    dict(kind="quick", labels="int", alabels="str", explicit_list=False, dist="dict"),
    dict(kind="subclass", labels="tuple", alabels="str", explicit_list=False, dist="det"),
    dict(kind="quick", labels="str", alabels="int", explicit_list=True, dist="dict_zeros"),
    dict(kind="subclass_inst", labels="frozendict", alabels="tuple", explicit_list=True, dist="dict"),
    dict(kind="quick", labels="mixed", alabels="mixed", explicit_list=False, dist="uniform"),
    dict(kind="nontab", labels="str", alabels="str", explicit_list=False, dist="dict"),
    dict(kind="subclass_inst", labels="int", alabels="int", explicit_list=False, dist="dict"),
    dict(kind="subclass", labels="mixed", alabels="tuple", explicit_list=True, dist="dict_zeros"),
]
GAMMAS = [(1, 2), (3, 4), (9, 10), (1, 1), (1, 2), (1, 1)]


def rand_override(rng, m):
    """One replacement per component, different from the base's wherever the shape allows it."""
    N, K, PD = m["N"], m["K"], m["PD"]
    best = None
    for _ in range(40):
        o = gen.rand_mdp(rng, n_na=N - sum(m["abs"]), n_abs=sum(m["abs"]), K=K, PD=PD, GN=1, GD=2,
                         rewards=(-5, -4, 3, 4, 5), ID=rng.choice([2, 4]))
        sl = list(range(1, N + 1))
        al = list(range(1, K + 1))
        rng.shuffle(sl)
        rng.shuffle(al)
        ov = {"p0": o["p0"], "ID": o["ID"], "avail": o["avail"], "P": o["P"], "R": o["R"], "abs": o["abs"],
              "slist": sl, "alist": al}
        if rng.random() < 0.5:
            ov["abs"] = [1 - x for x in m["abs"]]
        score = ((ov["avail"] != m["avail"]) + (ov["P"] != m["P"]) + (ov["abs"] != m["abs"])
                 + ([F(x, ov["ID"]) for x in ov["p0"]] != [F(x, m["ID"]) for x in m["p0"]]))
        if best is None or score > best[0]:
            best = (score, ov)
        if score == 4:
            break
    return best[1]


def make_aug_cases(rng, n, tier):
    cases = []
    while len(cases) < n:
        i = len(cases)
        rep = dict(AUG_REPS[i % len(AUG_REPS)])
        GN, GD = GAMMAS[i % len(GAMMAS)]
        m = gen.rand_mdp(rng, n_na=rng.choice([1, 2, 2, 3]), n_abs=rng.choice([0, 1, 1, 2]), K=rng.choice([1, 2, 2, 3]),
                         PD=rng.choice([2, 4]), GN=GN, GD=GD, rewards=(-2, -1, 0, 1, 2), ID=rng.choice([2, 4]))
        if rep["kind"] == "subclass_inst":
            rep["gclass"] = rng.choice([g for g in [(1, 2), (3, 4), (1, 1)] if F(*g) != F(GN, GD)])
        m["ov"] = rand_override(rng, m)
        # the second MDP derived while the first is alive: Quick bases share msdm's class, so another base instance
        # (other dynamics, other discount) is used; locally defined classes are per base, so the same base is
        # derived again with other override values
        if rep["kind"] in ("quick", "nontab"):
            g2 = rng.choice([g for g in [(1, 2), (3, 4), (9, 10), (1, 1)] if F(*g) != F(GN, GD)])
            sm = gen.rand_mdp(rng, n_na=m["N"] - sum(m["abs"]), n_abs=sum(m["abs"]), K=m["K"], PD=m["PD"], GN=g2[0], GD=g2[1],
                              rewards=(-3, -1, 0, 2, 3), ID=rng.choice([2, 4]))
            sm["ov"] = rand_override(rng, sm)
            sib = {"same_base": False, "m": sm}
        else:
            sib = {"same_base": True, "ov": rand_override(rng, m)}
        cases.append({"m": m, "rep": rep, "ovrs": "all", "warm": rng.choice(WARMS), "sib": sib})
    return cases


def aug_kwargs(b, ov, ovr):
    from msdm.core.distributions import DictDistribution
    N, K, PD = b.m["N"], b.m["K"], b.m["PD"]
    sl, al = b.slabel, b.alabel
    si = {id(x): i for i, x in enumerate(sl)}

    def s_(x):
        return sl.index(x)

    def a_(x):
        return al.index(x)
    full = {
        "initial": lambda: DictDistribution({sl[t]: ov["p0"][t] / ov["ID"] for t in range(N) if ov["p0"][t] > 0}),
        "actions": lambda s: [al[a] for a in range(K) if ov["avail"][s_(s)][a]],
        "next": lambda s, a: DictDistribution({sl[t]: ov["P"][s_(s)][a_(a)][t] / PD for t in range(N)
                                               if ov["P"][s_(s)][a_(a)][t] > 0}),
        "reward": lambda s, a, ns: float(ov["R"][s_(s)][a_(a)][s_(ns)]),
        "absorbing": lambda s: bool(ov["abs"][s_(s)]),
        "state_list": [sl[i - 1] for i in ov["slist"]],
        "action_list": [al[i - 1] for i in ov["alist"]],
    }
    del si
    return {KW[c]: full[c] for c in ovr}


def aug_prepare(case):
    """Builds the base, observes its lists, returns (built, tab, batch record)."""
    m = case["m"]
    rng = random.Random(digest(case["m"]) + digest(case["rep"]))
    b, gclass, ginst, tab = make_base(m, case["rep"], rng)
    rec = {k: m[k] for k in MDPF}
    rec.update(gclass=gclass, ginst=ginst, tab=tab, ov=m["ov"], warm=case.get("warm", "none"))
    warm_base(b.mdp, case.get("warm", "none"), tab)
    if tab:
        rec["slist"] = [b.sidx(s) + 1 for s in b.mdp.state_list]
        rec["alist"] = [b.aidx(a) + 1 for a in b.mdp.action_list]
    else:
        rec["slist"], rec["alist"] = [], []
    if case["ovrs"] == "all":
        rec["allsub"], rec["ovrs"] = 1, [["initial"]]
    else:
        rec["allsub"], rec["ovrs"] = 0, [list(o) for o in case["ovrs"]]
    sib = case.get("sib") or {"same_base": True, "ov": m["ov"]}
    if sib["same_base"]:
        sb, sov = b, sib["ov"]
        srec = dict(rec, ov=sov)
    else:
        sm = sib["m"]
        sb, sgclass, sginst, _ = make_base(sm, case["rep"], random.Random(digest(sm)))
        sov = sm["ov"]
        srec = {k: sm[k] for k in MDPF}
        srec.update(gclass=sgclass, ginst=sginst, tab=tab, ov=sov)
        if tab:
            srec["slist"] = [sb.sidx(s) + 1 for s in sb.mdp.state_list]
            srec["alist"] = [sb.aidx(a) + 1 for a in sb.mdp.action_list]
        else:
            srec["slist"], srec["alist"] = [], []
    rec["cls"] = srec["cls"] = case["rep"]["kind"]
    srec = {k: v for k, v in srec.items() if k not in ("sib", "allsub", "ovrs", "warm")}
    rec["sib"] = srec
    b.sib = (sb, sov)
    return b, tab, rec


def aug_real(b, tab, m, ovr, d=None):
    from msdm.core.semimdp.option import augment
    try:
        dm = augment(b.mdp, **aug_kwargs(b, m["ov"], ovr))
        sb, sov = b.sib
        dm2 = augment(sb.mdp, **aug_kwargs(sb, sov, ovr))      # a second derived MDP; the first is read only now
    except Exception as e:                                           # noqa: BLE001
        return {"error": f"{type(e).__name__}: {e}"[:300]}
    out = project_mdp(dm, b, tab)
    out["second"] = project_mdp(dm2, sb, tab)
    # arrays are defined when the derived lists hold every state and action (then every successor can be indexed)
    full = bool(tab and d is not None and sorted(d["state_list"]) == list(range(1, m["N"] + 1))
                and sorted(d["action_list"]) == list(range(1, m["K"] + 1)))
    with warnings.catch_warnings():
        warnings.simplefilter("ignore")
        out["views"] = project_views(dm, b, full)
    return out


def discount_signature(site, rec, real):
    return f"C15:{site}:discount_rate:not-preserved"


def judge_aug(ctx, cases, tamper=None):
    prepared = [aug_prepare(c) for c in cases]
    res = tlc(ctx, "aug", "aug", [p[2] for p in prepared],
              "aug: augment() machine over all subsets of overridden components")
    for k, r in enumerate(res.records):
        i = r["iid"] - 1
        c = cases[i]
        b, tab, brec = prepared[i]
        ovr = sorted(r["ovr"], key=COMPS.index)
        m = dict(c["m"], tab=tab, slist=brec["slist"], alist=brec["alist"])
        if k % 7 == 0:        # machinery cross-check of the TLA+ oracle
            pd = py_derived(m, ovr)
            for comp, val in pd.items():
                if r["d"][comp] != val:
                    raise TLCFailure(f"TLA+ Derived and python Derived disagree on case {i} ovr {ovr} component {comp}")
            ctx.count("oracle_crosschecks")
        real = aug_real(b, tab, c["m"], ovr, r["d"])
        ctx.evaluations += 1
        if tamper:
            tamper(i, ovr, real)
        key = {"m": c["m"], "rep": c["rep"], "ovr": ovr}
        if "error" in real:
            ctx.violation("C15:augment:raises", f"augment(overrides={ovr}) raised {real['error']} on a {c['rep']['kind']} base",
                          {"part": "aug", "case": dict(c, ovrs=[ovr])})
            continue
        bad = compare_components(real, r["d"], c["m"], tab)
        for comp, msg in bad:
            if comp == "discount":
                sig = discount_signature("augment", r, real)
            else:
                sig = f"C15:augment:{comp}:{'overridden' if comp in ovr else 'not-preserved'}"
            ctx.violation(sig, f"augment(overrides={ovr}) on a {c['rep']['kind']} base, read after a second MDP was derived "
                               f"with the same set of overrides: {msg}",
                          {"part": "aug", "case": dict(c, ovrs=[ovr])})
        for comp, msg in compare_components(real["second"], r["d2"], c["m"], tab):
            bad.append((comp, msg))
            ctx.violation(f"C15:augment:{comp}:second-derived-mdp", f"second MDP derived with overrides={ovr} while the first is "
                          f"alive ({c['rep']['kind']} base): {msg}", {"part": "aug", "case": dict(c, ovrs=[ovr])})
        vbad = compare_views(real["views"], r["views"], c["m"])
        for view, msg in vbad:
            ctx.violation(f"C15:augment:array-view:{view}", f"augment(overrides={ovr}) on a {c['rep']['kind']} base "
                          f"(call history before augment: {c.get('warm', 'none')}): {msg}",
                          {"part": "aug", "case": dict(c, ovrs=[ovr])})
        bad = bad + vbad
        if r["cachediffers"] and "T" in real["views"]:
            ctx.nontrivial("aug-history:" + digest(key))
            ctx.count("aug_derived_views_differ_from_views_cached_on_the_base")
        if not bad:
            ctx.validated += 1
        if 0 < len(ovr) < (7 if tab else 5) and (c["m"]["GN"], c["m"]["GD"]) != (1, 1):
            ctx.nontrivial("aug:" + digest(key))
        if k % 997 == 0:
            ctx.sample(limit=1, obj={"part": "aug", "rep": c["rep"], "overridden": ovr, "base_discount": [c["m"]["GN"], c["m"]["GD"]],
                        "expected": {"discount": r["d"]["discount"], "absorbing": r["d"]["absorbing"], "state_list": r["d"]["state_list"]},
                        "real": {"discount": real.get("discount"), "absorbing": real.get("absorbing"), "state_list": real.get("state_list")}})
    return res


# ==============================================================================================
# part plan
# ==============================================================================================
PLAN_REPS = [
    dict(kind="quick", labels="int", alabels="int", explicit_list=False, dist="dict"),
    dict(kind="subclass", labels="str", alabels="str", explicit_list=True, dist="dict_zeros"),
    dict(kind="matrices", labels="tuple", alabels="str", explicit_list=True, dist="dict"),
    dict(kind="subclass_inst", labels="str", alabels="int", explicit_list=False, dist="det"),
    dict(kind="quick", labels="mixed", alabels="str", explicit_list=True, dist="uniform"),
    dict(kind="quick", labels="frozendict", alabels="tuple", explicit_list=False, dist="dict"),
]


def derived_nonabs(m, o):
    sub = set(o["sub"])
    return [s for s in range(m["N"]) if not (s in sub or (o["incl"] and m["abs"][s]))]


def plan_magnitude_ok(m, o):
    n = len(derived_nonabs(m, o))
    if n > 3:
        return False
    e = m["GD"] * m["PD"]
    rmax = max([abs(x) for s in m["R"] for a in s for x in a] + [1])
    det = {0: 1, 1: e, 2: 2 * e * e, 3: 6 * e ** 3}[n]
    cof = {0: 1, 1: 1, 2: e, 3: 2 * e * e}[n]
    vn = n * cof * e * rmax
    return max(det * e * rmax, vn * e * m["K"]) < 2 ** 30


def make_plan_cases(rng, n, tier):
    fams = [dict(GN=1, GD=2, PD=2, rewards=(-3, -1, 0, 1, 3)), dict(GN=3, GD=4, PD=2, rewards=(-2, -1, 0, 2, 3)),
            dict(GN=9, GD=10, PD=2, rewards=(-2, -1, 0, 1, 2)), dict(GN=1, GD=2, PD=4, rewards=(-3, -1, 0, 1, 3)),
            dict(GN=1, GD=1, PD=2, rewards=(-3, -2, -1)), dict(GN=3, GD=4, PD=4, rewards=(-2, -1, 0, 2, 3))]
    cases = []
    while len(cases) < n:
        i = len(cases)
        f = fams[i % len(fams)]
        und = f["GN"] == f["GD"]
        N_na = rng.choice([2, 2, 3, 3])
        N_abs = rng.choice([1, 1, 2]) if und else rng.choice([0, 1, 1])
        m = gen.rand_mdp(rng, n_na=N_na, n_abs=N_abs, K=rng.choice([1, 2, 2, 3]), PD=f["PD"], GN=f["GN"], GD=f["GD"],
                         rewards=f["rewards"], ID=rng.choice([2, 4]), force_progress=und)
        N = m["N"]
        sub = sorted(rng.sample(range(N), rng.choice([1, 1, 2]) if N > 2 else 1))
        inis = rng.sample(range(N), rng.randint(1, N))
        o = {"sub": sub, "inis": inis, "incl": 1 if (und or rng.random() < 0.4) else 0,
             "clip": rng.choice([None, None, -1, 0, 1, -2]), "subgoals_as": rng.choice(["list", "set"])}
        if not plan_magnitude_ok(m, o):
            continue
        rep = dict(PLAN_REPS[i % len(PLAN_REPS)])
        if rep["kind"] == "subclass_inst":
            rep["gclass"] = rng.choice([g for g in [(1, 2), (3, 4), (1, 1)] if F(*g) != F(f["GN"], f["GD"])])
        if not rep["explicit_list"] and (not gen.ghost_closed(m) or set(inis) - gen.reach(m) or set(sub) - gen.reach(m)):
            rep["explicit_list"] = True
        sub2 = sorted(rng.sample(range(N), rng.choice([1, 1, 2]) if N > 2 else 1))
        if sub2 == sub:
            sub2 = [(sub[0] + 1) % N]
        o2 = {"sub": sub2, "inis": rng.sample(range(N), rng.randint(1, N)), "incl": rng.choice([0, 1]),
              "clip": rng.choice([None, -1, 0, 2]), "subgoals_as": "list"}
        # call history: the option is first configured otherwise, read (sub_task arrays, planning_result), then
        # reconfigured to `o` through its public attributes (or by growing the sub-goal list it was given)
        pre = None
        if rng.random() < 0.5:
            pre = dict(o, grown=False)
            for what in rng.sample(["clip", "incl", "inis", "sub"], rng.randint(1, 3)):
                if what == "clip":
                    pre["clip"] = rng.choice([x for x in [None, -2, -1, 0, 1, 2] if x != o["clip"]])
                elif what == "incl":
                    pre["incl"] = 1 - o["incl"]
                elif what == "inis":
                    pre["inis"] = rng.sample(range(N), rng.randint(1, N))
                elif len(sub) == 2 and o["subgoals_as"] == "list":
                    pre["sub"], pre["grown"] = [sub[0]], True
                else:
                    pre["sub"] = [rng.choice([s for s in range(N) if s not in sub] or [sub[0]])]
        cases.append({"m": m, "rep": rep, "o": o, "warm": rng.choice(WARMS), "o2": o2, "pre": pre})
    return cases


def plan_real(case):
    from msdm.algorithms import ValueIteration
    from msdm.core.semimdp.option import PlanToSubgoalOption
    m, o = case["m"], case["o"]
    rng = random.Random(digest(case["m"]) + digest(case["rep"]))
    b, gclass, ginst, tab = make_base(m, case["rep"], rng)
    subl = [b.slabel[s] for s in o["sub"]]
    out = {"gclass": gclass, "ginst": ginst}
    warm_base(b.mdp, case.get("warm", "none"), tab)
    def summary(pr):
        listed = [b.sidx(s) for s in b.mdp.state_list]
        V, Q = {}, {}
        for s in listed:
            V[s] = float(pr.state_value[b.slabel[s]])
            Q[s] = {a: float(pr.action_value[b.slabel[s]][b.alabel[a]]) for a in range(m["K"]) if m["avail"][s][a]}
        return {"V": V, "Q": Q, "initial_value": float(pr.initial_value), "iterations": int(pr.iterations),
                "converged": bool(pr.converged)}

    def make(oo, name):
        sl = [b.slabel[s] for s in oo["sub"]]
        return PlanToSubgoalOption(
            mdp=b.mdp, initial_states=[b.slabel[s] for s in oo["inis"]],
            subgoals=(sl if oo["subgoals_as"] == "list" else set(sl)),
            planner=ValueIteration(max_residual=1e-10, max_iterations=4000),
            include_mdp_absorbing_states=bool(oo["incl"]), name=name, max_steps=50,
            max_nonterminal_pseudoreward=(float("inf") if oo["clip"] is None else float(oo["clip"])))
    try:
        # two sub-goal options on one base, both sub-tasks built before either is read
        pre = case.get("pre")
        if pre:
            opt = make(pre, "g")
            with warnings.catch_warnings():
                warnings.simplefilter("ignore")
                project_views(opt.sub_task, b, True)        # read under the earlier configuration ...
                try:
                    opt.planning_result
                except Exception:                            # noqa: BLE001 - only the history matters
                    pass
            # ... then reconfigure
            opt.max_nonterminal_pseudoreward = float("inf") if o["clip"] is None else float(o["clip"])
            opt.include_mdp_absorbing_states = bool(o["incl"])
            opt.initial_states = [b.slabel[s] for s in o["inis"]]
            if pre.get("grown"):
                opt.subgoals.extend(b.slabel[s] for s in o["sub"] if s not in pre["sub"])      # the caller's list grows
            elif pre["sub"] != o["sub"]:
                opt.subgoals = subl if o["subgoals_as"] == "list" else set(subl)
        else:
            opt = make(o, "g")
        opt2 = make(case.get("o2") or o, "g2")
        held = opt.sub_task
        held2 = opt2.sub_task
        out["sub_task"] = project_mdp(held, b, 1)
        out["second"] = project_mdp(held2, b, 1)
        with warnings.catch_warnings():
            warnings.simplefilter("ignore")
            out["views"] = project_views(held, b, True)
            try:
                out["held_plan"] = summary(opt.planner.plan_on(held))
            except Exception as e:                                   # noqa: BLE001
                out["held_plan"] = {"error": f"{type(e).__name__}: {e}"[:300]}
    except Exception as e:                                           # noqa: BLE001
        out["sub_task"] = {"error": f"{type(e).__name__}: {e}"[:300]}
        return out
    try:
        with warnings.catch_warnings():
            warnings.simplefilter("ignore")
            pr = opt.planning_result
        out["plan"] = summary(pr)
    except Exception as e:                                           # noqa: BLE001
        out["plan"] = {"error": f"{type(e).__name__}: {e}"[:300]}
    return out


def py_subtask_instance(m, o):
    sub = set(o["sub"])
    clip = o["clip"]
    R = [[[m["R"][s][a][t] if (t in sub or clip is None or m["R"][s][a][t] <= clip) else clip
           for t in range(m["N"])] for a in range(m["K"])] for s in range(m["N"])]
    inst = {k: m[k] for k in MDPF}
    inst.update(R=R, abs=[1 if (s in sub or (o["incl"] and m["abs"][s])) else 0 for s in range(m["N"])],
                p0=[1 if s in o["inis"] else 0 for s in range(m["N"])], ID=len(o["inis"]))
    return inst


def judge_plan(ctx, cases, tamper=None):
    batch, gs = [], []
    for c in cases:
        m, o, kind = c["m"], c["o"], c["rep"]["kind"]
        eff = [m["GN"], m["GD"]]
        gclass, ginst = (eff, [0, 0]) if kind == "subclass" else ((list(c["rep"]["gclass"]), eff) if kind == "subclass_inst" else ([1, 1], eff))
        rec = {k: m[k] for k in MDPF}
        rec.update(gclass=gclass, ginst=ginst, tab=1, slist=list(range(1, m["N"] + 1)), alist=list(range(1, m["K"] + 1)),
                   sub=[s + 1 for s in o["sub"]], inis=[s + 1 for s in o["inis"]], incl=o["incl"],
                   clip=[1, 0] if o["clip"] is None else [o["clip"], 1], warm=c.get("warm", "none"), cls=kind)
        pre = c.get("pre") or o
        rec["reconf"] = 1 if c.get("pre") else 0
        rec["pre"] = dict(rec, sub=[s + 1 for s in pre["sub"]], inis=[s + 1 for s in pre["inis"]], incl=pre["incl"],
                          clip=[1, 0] if pre["clip"] is None else [pre["clip"], 1])
        o2 = c.get("o2") or o
        rec["sib"] = dict({k: v for k, v in rec.items() if k != "pre"}, sub=[s + 1 for s in o2["sub"]], inis=[s + 1 for s in o2["inis"]], incl=o2["incl"],
                          clip=[1, 0] if o2["clip"] is None else [o2["clip"], 1])
        batch.append(rec)
    res = tlc(ctx, "plan", "plan", batch, "plan: sub-task machine + exact optimum of the derived instance")
    by = {r["iid"]: r for r in res.records}
    for i, c in enumerate(cases, start=1):
        r = by.get(i)
        if r is None:
            raise TLCFailure(f"no plan record for case {i}")
        m, o = c["m"], c["o"]
        N, K = m["N"], m["K"]
        g = F(m["GN"], m["GD"])
        if i % 5 == 0 and r["judge"]:
            inst = py_subtask_instance(m, o)
            pv = pyoracle.optimal_value(inst)
            for s in range(N):
                tv = frac(r["v"][s])
                if (pv[s] == pyoracle.NEG) != (tv == float("-inf")) or (pv[s] != pyoracle.NEG and pv[s] != tv):
                    raise TLCFailure(f"TLA+ sub-task optimum and python oracle disagree on plan case {i} state {s}: {tv} vs {pv[s]}")
            if inst["R"] != r["d"]["reward"] or inst["abs"] != r["d"]["absorbing"]:
                raise TLCFailure(f"TLA+ sub-task and python sub-task disagree on plan case {i}")
            ctx.count("oracle_crosschecks")
        real = plan_real(c)
        ctx.evaluations += 1
        if tamper:
            tamper(i - 1, real)
        site = "PlanToSubgoalOption.sub_task"
        rc = {"part": "plan", "case": c}
        st = real["sub_task"]
        if "error" in st:
            ctx.violation(f"C15:{site}:raises", f"sub_task raised {st['error']}", rc)
            continue
        d = dict(r["d"])
        # the lists of the sub-task are the base's (observed on the real base by the aug part; here: same set, any order)
        bad = compare_components(st, d, m, 1, comps=["discount", "initial", "actions", "next", "reward", "absorbing"],
                                 support_only=(c["rep"]["kind"] == "matrices"))
        disc_bad = False
        for comp, msg in bad:
            if comp == "discount":
                sig = discount_signature(site, r, st)
                disc_bad = True
            else:
                sig = f"C15:{site}:{comp}"
            ctx.violation(sig, f"sub-goal sub-task (subgoals {o['sub']}, clip {o['clip']}, include_mdp_absorbing {o['incl']}) on a "
                               f"{c['rep']['kind']} base: {msg}", rc)
        ok = not bad
        vbad = compare_views(real.get("views", {}), r["views"], m)
        for view, msg in vbad:
            ok = False
            ctx.violation(f"C15:{site}:array-view:{view}", f"sub-goal sub-task (subgoals {o['sub']}, clip {o['clip']}, "
                          f"include_mdp_absorbing {o['incl']}) on a {c['rep']['kind']} base (call history before the option "
                          f"was built: {c.get('warm', 'none')}): {msg}", rc)
        if r["cachediffers"]:
            ctx.nontrivial("plan-history:" + digest(c))
            ctx.count("plan_derived_views_differ_from_views_cached_on_the_base")
        for comp, msg in compare_components(real.get("second", {}), r["d2"], m, 1,
                                            comps=["discount", "initial", "actions", "next", "reward", "absorbing"],
                                            support_only=(c["rep"]["kind"] == "matrices")) if "second" in real else []:
            ok = False
            ctx.violation(f"C15:{site}:{comp}:second-option", f"sub-task of a second option (subgoals {c.get('o2', o)['sub']}) on the "
                          f"same {c['rep']['kind']} base: {msg}", rc)
        eps = 1e-10
        tol = (eps / (1 - float(g)) if g < 1 else eps * float(frac(r["nmax"]) or 1)) if r["judge"] else 0.0
        vstar = [frac(x) for x in r["v"]]
        dabs = d["absorbing"]

        def value_mismatch(pl):
            for s, v in pl["V"].items():
                if not close(v, vstar[s], tol):
                    return f"state_value[{s}] = {v} but the optimum of the sub-task with the base's discount {float(g)} is {float(vstar[s])}"
                if dabs[s]:
                    continue
                for a, q in pl["Q"][s].items():
                    qs = frac(r["q"][s][a])
                    if qs is not None and not close(q, qs, tol):
                        return f"action_value[{s}][{a}] = {q} but Q* of the sub-task is {float(qs)}"
            ev = sum(F(1, len(o["inis"])) * vstar[s] for s in o["inis"])
            if not close(pl["initial_value"], ev, tol):
                return f"initial_value = {pl['initial_value']} but the optimum over the uniform initiation set is {float(ev)}"
            return None
        if not r["judge"]:
            ctx.skip("plan: undiscounted derived instance without a finite optimum for every policy (not judged)")
            continue
        for key, psite in (("plan", "PlanToSubgoalOption.planning_result"), ("held_plan", "PlanToSubgoalOption.sub_task:planned-after-second-option")):
            pl = real.get(key)
            if pl is None:
                continue
            if "error" in pl:
                ok = False
                sig = discount_signature(psite, r, st) if disc_bad else f"C15:{psite}:raises"
                ctx.violation(sig, f"planning raised {pl['error']}", rc)
                continue
            if not pl["converged"] and not disc_bad:
                ctx.skip("plan: planner stopped by its iteration cap (values not judged)")
                continue
            vbad = value_mismatch(pl)
            if vbad:
                sig = discount_signature(psite, r, st) if disc_bad else f"C15:{psite}:value"
                ctx.violation(sig, f"{vbad} (subgoals {o['sub']}, clip {o['clip']}, {c['rep']['kind']} base)", rc)
                ok = False
        pl = real.get("plan") or {}
        if ok:
            ctx.validated += 1
        nonabs = [s for s in range(N) if not dabs[s]]
        if g < 1 and any(vstar[s] != 0 for s in nonabs) and r["d"]["reward"] != m["R"]:
            ctx.nontrivial("plan:" + digest(c))
        if i % 37 == 1:
            ctx.sample(limit=2, obj={"part": "plan", "rep": c["rep"], "option": o, "discount": [m["GN"], m["GD"]],
                        "vstar": [str(x) for x in vstar], "real_V": pl.get("V"), "real_discount": st.get("discount")})
    return res


# ==============================================================================================
# options (shared by parts opt and trace)
# ==============================================================================================
class ScriptExhausted(Exception):
    pass


class ScriptMismatch(Exception):
    pass


def option_classes():
    from msdm.core.semimdp.option import Option, PlanToSubgoalOption
    from msdm.core.mdp.policy import Policy
    from msdm.core.distributions import FiniteDistribution

    class Scripted(FiniteDistribution):
        """A distribution whose samples are dictated by the TLC behaviour being replayed."""
        def __init__(self, inner, queue, kind, ctl=None):
            self.inner, self.queue, self.kind, self.ctl = inner, queue, kind, ctl

        @property
        def support(self):
            return tuple(e for e, p in self.inner.items() if p > 0)

        def prob(self, e):
            return self.inner.prob(e)

        def sample(self, *, rng=random, k=1):
            if self.ctl is not None and not self.ctl["scripted"]:      # free-running phase (earlier run elsewhere)
                return self.inner.sample(rng=rng)
            if not self.queue:
                raise ScriptExhausted(self.kind)
            x = self.queue.pop(0)
            if not self.inner.prob(x) > 0:       # the code is not where the behaviour says it is
                raise ScriptMismatch(f"scripted {self.kind} {x!r} is outside the support of the distribution the code sampled")
            return x

    class RecPolicy(Policy):
        """Delegates to the inner policy; keeps every trajectory Policy.run_on produced."""
        def __init__(self, inner, log):
            self.inner, self.log = inner, log

        def action_dist(self, s):
            return self.inner.action_dist(s)

        def run_on(self, mdp, initial_state=None, max_steps=int(2 ** 30), rng=random):
            res = self.inner.run_on(mdp, initial_state=initial_state, max_steps=max_steps, rng=rng)
            self.log.append(res)
            return res

    class SimpleOption(Option):
        def __init__(self, name, policy, term, inits, max_steps, term_as="set"):
            self.name, self.policy, self.max_steps = name, policy, max_steps
            self.term = set(term) if term_as == "set" else list(term)
            self.inits = inits

        def is_initial(self, s):
            return s in self.inits

        def is_terminal(self, s):
            return s in self.term

        def __hash__(self):
            return hash(self.name)

        def __repr__(self):
            return f"SimpleOption({self.name})"

    class RecPlanOption(PlanToSubgoalOption):
        def __init__(self, log, **kw):
            super().__init__(**kw)
            self._log, self._wrapped = log, None

        @property
        def policy(self):
            if self._wrapped is None:
                self._wrapped = RecPolicy(self.planning_result.policy, self._log)
            return self._wrapped

        def __repr__(self):
            return f"RecPlanOption({self.name})"

    return Scripted, RecPolicy, SimpleOption, RecPlanOption


def other_dynamics(rng, m):
    """An MDP over the same states, actions, availability and labels with other transitions and rewards."""
    N, K, PD = m["N"], m["K"], m["PD"]
    for _ in range(20):
        P = [[gen.rand_row(rng, N, PD) for _ in range(K)] for _ in range(N)]
        if P != m["P"]:
            break
    R = [[[rng.choice((-7, -6, 5, 6, 7)) for _ in range(N)] for _ in range(K)] for _ in range(N)]
    g = rng.choice([g for g in [(1, 2), (3, 4), (1, 1)] if F(*g) != F(m["GN"], m["GD"])] if m["GN"] else [(1, 2)])
    return dict(m, P=P, R=R, GN=g[0], GD=g[1])


def run_elsewhere_first(case, option, rep):
    """Call history: the same option object is executed once on another MDP (same labels, other dynamics)."""
    prev = case.get("prev")
    if not prev:
        return
    rng = random.Random(digest(case["m"]) + digest(case["rep"]))      # the seed the labels of the base came from
    pb, _, _, _ = make_base(prev["m"], dict(rep, kind="quick" if rep["kind"] == "matrices" else rep["kind"]), rng)
    try:
        with warnings.catch_warnings():
            warnings.simplefilter("ignore")
            option.run_on(pb.mdp, pb.slabel[prev["s0"]], rng=random.Random(11))
    except Exception:                                                # noqa: BLE001 - only the history matters
        pass
    # the option object also carries that MDP (other discount) as an attribute, as planning options do:
    # the semi-MDP discounts at the rate of the MDP it is built on, not at the option's
    option.mdp = pb.mdp


def policy_fn(b, pol):
    from msdm.core.distributions import DictDistribution

    def f(s):
        row = pol[b.sidx(s)]
        tot = sum(row)
        return DictDistribution({b.alabel[a]: w / tot for a, w in enumerate(row) if w > 0})
    return f


def rand_policy(rng, m, deterministic=False):
    pol = []
    for s in range(m["N"]):
        av = [a for a in range(m["K"]) if m["avail"][s][a]]
        sup = [rng.choice(av)] if deterministic or rng.random() < 0.4 else [a for a in av if rng.random() < 0.7] or [rng.choice(av)]
        pol.append([rng.choice([1, 1, 2, 3]) if a in sup else 0 for a in range(m["K"])])
    return pol


def project_run(b, res):
    steps = list(res.steps)
    ev = []
    for st in steps[:-1]:
        r = st.get("reward")
        try:
            ri = int(r) if float(r) == int(r) else BADR
        except Exception:                                            # noqa: BLE001
            ri = BADR
        ev.append([sidx0(b, st.get("state")) + 1, aidx0(b, st.get("action")) + 1, sidx0(b, st.get("next_state")) + 1, ri])
    return ev, sidx0(b, steps[-1].get("state")) + 1


# ==============================================================================================
# part opt (pipeline A with scripted sampling)
# ==============================================================================================
OPT_REPS = [
    dict(kind="quick", labels="int", alabels="int", explicit_list=True, dist="dict"),
    dict(kind="subclass", labels="str", alabels="str", explicit_list=False, dist="dict_zeros"),
    dict(kind="quick", labels="mixed", alabels="tuple", explicit_list=False, dist="det"),
    dict(kind="nontab", labels="tuple", alabels="str", explicit_list=False, dist="dict"),
    dict(kind="subclass_inst", labels="frozendict", alabels="int", explicit_list=True, dist="uniform", gclass=(1, 1)),
]


def make_opt_cases(rng, n, tier):
    cases = []
    while len(cases) < n:
        i = len(cases)
        GN, GD = rng.choice([(1, 2), (3, 4), (1, 1), (9, 10), (0, 1), (0, 1)])
        m = gen.rand_mdp(rng, n_na=rng.choice([1, 2, 2, 3]), n_abs=rng.choice([0, 1, 1]), K=rng.choice([1, 2, 2]),
                         PD=rng.choice([2, 2, 4]), GN=GN, GD=GD, rewards=(-2, -1, 0, 1, 3), ID=2)
        N = m["N"]
        term = sorted(rng.sample(range(N), rng.choice([0, 1, 1, 1, 2]) if N > 1 else rng.choice([0, 1])))
        if rng.random() < 0.3:      # terminal exactly at the base's absorbing states
            term = [s for s in range(N) if m["abs"][s]]
        rep = dict(OPT_REPS[i % len(OPT_REPS)])
        if rep["kind"] == "subclass_inst" and (GN, GD) == (1, 1):
            rep["gclass"] = (1, 2)
        cases.append({"m": m, "rep": rep, "term": term, "pol": rand_policy(rng, m), "lim": i % 5,
                      "term_as": rng.choice(["set", "list"]),
                      "prev": ({"m": other_dynamics(rng, m), "s0": rng.randrange(N)} if rng.random() < 0.6 else None)})
    return cases


def scripted_world(case, aq, nq):
    """Base MDP whose next-state distributions and option policy sample from the given scripts."""
    from msdm.core.mdp.policy import FunctionalPolicy
    Scripted, RecPolicy, SimpleOption, _ = option_classes()
    m = case["m"]
    rng = random.Random(digest(case["m"]) + digest(case["rep"]))
    b, _, _, tab = make_base(m, case["rep"], rng)
    wrap_method(b.mdp, "next_state_dist", lambda orig: (lambda s, a: Scripted(orig(s, a), nq, "successor")))
    pf = policy_fn(b, case["pol"])
    ctl = {"scripted": False}
    pol = FunctionalPolicy(lambda s: Scripted(pf(s), aq, "action", ctl))
    opt = SimpleOption("o", pol, [b.slabel[s] for s in case["term"]], b.slabel, case["lim"], case["term_as"])
    run_elsewhere_first(case, opt, case["rep"])      # free-running, on another MDP, before the scripted replay
    ctl["scripted"] = True
    return b, opt


def opt_real(case, rec):
    """Replays one TLC behaviour.  Returns the observed outcome in abstract terms."""
    from msdm.core.exceptions import AlgorithmException
    from msdm.core.semimdp.semimdp import SemiMarkovDecisionProcess
    hist = rec["hist"]
    s0 = rec["s0"] - 1
    out = {}
    aq_i = [h[1] - 1 for h in hist]
    nq_i = [h[2] - 1 for h in hist]
    aq, nq = [], []
    b, opt = scripted_world(case, aq, nq)
    aq.extend(b.alabel[a] for a in aq_i)
    nq.extend(b.slabel[s] for s in nq_i)
    try:
        res = opt.run_on(b.mdp, b.slabel[s0], rng=random.Random(0))
        ev, fin = project_run(b, res)
        out.update(outcome="returned", ev=ev, fin=fin)
    except AlgorithmException:
        out.update(outcome="raised")
    except ScriptExhausted as e:
        out.update(outcome="wanted-more", kind=str(e))
    except ScriptMismatch as e:
        out.update(outcome="mismatch", error=str(e)[:300])
    except Exception as e:                                           # noqa: BLE001
        out.update(outcome="error", error=f"{type(e).__name__}: {e}"[:300])
    out["left"] = [len(aq), len(nq)]
    if out["outcome"] == "returned":
        # the same behaviour through a one-simulation semi-MDP
        aq2, nq2 = [], []
        b2, opt2 = scripted_world(case, aq2, nq2)
        aq2.extend(b2.alabel[a] for a in aq_i)
        nq2.extend(b2.slabel[s] for s in nq_i)
        try:
            smdp = SemiMarkovDecisionProcess(mdp=b2.mdp, options=[opt2], n_option_simulations=1, seed=3)
            dist = smdp.next_state_transit_time_reward_dist(b2.slabel[s0], opt2)
            out["smdp"] = [[sidx0(b2, k[0]) + 1, int(k[1]), float(k[2]), float(p)] for k, p in dist.items() if p != 0]
        except Exception as e:                                       # noqa: BLE001
            out["smdp"] = {"error": f"{type(e).__name__}: {e}"[:300]}
    return out


def opt_batch_record(c):
    m = c["m"]
    rec = {k: m[k] for k in MDPF}
    pm = (c.get("prev") or {}).get("m") or m
    rec.update(prev=1 if c.get("prev") else 0, prevP=pm["P"], prevR=pm["R"])
    rec.update(term=[s + 1 for s in c["term"]], pol=c["pol"], lim=c["lim"], hmax=c["lim"],
               starts=[s + 1 for s in c.get("starts", range(m["N"]))])
    return rec


def judge_opt(ctx, cases, tamper=None):
    res = tlc(ctx, "opt", "opt", [opt_batch_record(c) for c in cases],
              "opt: every history of Option.run_on for all starts, step limits 0..4")
    for k, r in enumerate(res.records):
        i = r["iid"] - 1
        c = cases[i]
        m = c["m"]
        hist, n, lim, must = r["hist"], r["nst"], c["lim"], r["must"]
        if k % 11 == 0:       # machinery cross-check: discounted return of the history
            g = F(m["GN"], m["GD"])
            cs = sum(g ** t * m["R"][h[0] - 1][h[1] - 1][h[2] - 1] for t, h in enumerate(hist))
            if cs != frac(r["cum"]):
                raise TLCFailure(f"TLA+ DiscSum and python disagree on opt case {i}: {r['cum']} vs {cs}")
            ctx.count("oracle_crosschecks")
        real = opt_real(c, r)
        ctx.evaluations += 1
        if tamper:
            tamper(i, r, real)
        rc = {"part": "opt", "case": dict(c, starts=[r["s0"] - 1]), "behaviour": {"hist": hist, "must": must}}
        what = None
        desc = f"option run from state {r['s0'] - 1}, terminal {c['term']}, max_steps {lim}, history {hist}"
        oc = real["outcome"]
        if oc == "error":
            what = ("error", f"raised {real['error']}")
        elif oc == "mismatch":
            what = ("trajectory-differs", real["error"])
        elif oc == "wanted-more":
            why = "continued-past-terminal" if (r["end"] - 1) in c["term"] else "stepped-beyond-limit"
            what = (why, f"asked for another {real['kind']} after the behaviour was complete")
        elif oc == "returned":
            if must == "raise":
                what = ("returned-at-limit-without-terminal", "returned although no terminal state was reached within the limit")
            elif real["left"] != [0, 0]:
                what = ("returned-before-terminal", f"stopped after {len(real['ev'])} of {n} steps")
            else:
                exp_ev = [[h[0], h[1], h[2], m["R"][h[0] - 1][h[1] - 1][h[2] - 1]] for h in hist]
                if real["ev"] != exp_ev or real["fin"] != r["end"]:
                    why = "reward-differs" if [e[:3] for e in real["ev"]] == [e[:3] for e in exp_ev] and real["fin"] == r["end"] else "trajectory-differs"
                    what = (why, f"trajectory {real['ev']} end {real['fin']} expected {exp_ev} end {r['end']}")
        elif oc == "raised":
            if must == "return":
                what = ("raised-at-terminal", f"raised although the terminal state {r['end'] - 1} was reached after {n} <= {lim} steps")
            elif must == "raise" and real["left"] != [0, 0]:
                what = ("raised-before-limit-nonterminal", f"raised with {real['left']} scripted samples left")
        if what:
            ctx.violation(f"C15:Option.run_on:{what[0]}", f"{desc}: {what[1]}", rc)
        elif n == lim and must == "return":
            ctx.count("opt_terminal_on_exactly_the_last_allowed_step")
        # one-simulation semi-MDP: outcome (end, steps, discounted return) with probability 1
        ok2 = True
        if oc == "returned" and what is None:
            sm = real.get("smdp")
            site = "SemiMarkovDecisionProcess.next_state_transit_time_reward_dist"
            cum = frac(r["cum"])
            if isinstance(sm, dict):
                ok2 = False
                ctx.violation(f"C15:{site}:raises", f"{desc}: {sm['error']}", rc)
            elif not (len(sm) == 1 and sm[0][0] == r["end"] and sm[0][1] == n and close(sm[0][2], cum, 1e-12) and close(sm[0][3], 1, 1e-12)):
                ok2 = False
                clause = "scripted-outcome"
                if len(sm) == 1 and sm[0][0] == r["end"] and sm[0][1] == n and close(sm[0][3], 1, 1e-12):
                    clause = "discounted-return"
                ctx.violation(f"C15:{site}:{clause}", f"{desc}: outcome distribution {sm} expected "
                              f"[[{r['end']}, {n}, {float(cum)}, 1.0]]", rc)
        if what is None and ok2:
            ctx.validated += 1
            if n >= 2:
                ctx.nontrivial("opt:" + digest([c["m"], c["term"], c["pol"], lim, hist]))
        if k % 499 == 3:
            ctx.sample(limit=3, obj={"part": "opt", "rep": c["rep"], "terminal": c["term"], "max_steps": lim, "history": hist,
                        "must": must, "real": real})
    return res


# ==============================================================================================
# part trace (pipeline B)
# ==============================================================================================
TRACE_REPS = [
    dict(kind="quick", labels="int", alabels="int", explicit_list=True, dist="dict", actions_as="tuple"),
    dict(kind="subclass", labels="str", alabels="str", explicit_list=True, dist="dict_zeros", actions_as="list"),
    dict(kind="quick", labels="tuple", alabels="str", explicit_list=True, dist="det", actions_as="list"),
    dict(kind="matrices", labels="str", alabels="int", explicit_list=True, dist="dict", actions_as="tuple"),
    dict(kind="subclass_inst", labels="mixed", alabels="tuple", explicit_list=True, dist="uniform", actions_as="list", gclass=(1, 1)),
    dict(kind="quick", labels="frozendict", alabels="mixed", explicit_list=True, dist="dict", actions_as="list"),
]


def make_corridor_case(rng, i):
    """A long (slippery) corridor: the option walks 25..60 cells to the far end, i.e. for more primitive steps
    than any discount power stays above float resolution (discounts 1/2, 1/4, 0) - end state and duration are
    exact clauses, the return is exact up to the bound TLC derives for the steps beyond its exact horizon."""
    L = rng.randint(25, 60)
    N, K, PD = L + 1, rng.choice([1, 2]), rng.choice([2, 4])
    GN, GD = [(1, 2), (1, 4), (0, 1), (1, 1), (1, 2), (1, 4)][i % 6]
    fwd = rng.choice([PD, PD - 1, PD // 2])
    P = [[[0] * N for _ in range(K)] for _ in range(N)]
    R = [[[rng.choice((-3, -2, -1, 0, 1, 2)) for _ in range(N)] for _ in range(K)] for _ in range(N)]
    for s in range(N):
        nxt = min(s + 1, L)
        P[s][0][nxt] += fwd
        P[s][0][s] += PD - fwd
        if K == 2:
            P[s][1][max(s - 1, 0)] += 1
            P[s][1][s] += PD - 1
    m = {"N": N, "K": K, "PD": PD, "GN": GN, "GD": GD, "ID": 2, "abs": [0] * L + [rng.choice([0, 1])],
         "avail": [[1] * K for _ in range(N)], "P": P, "R": R, "p0": [2] + [0] * L}
    rep = dict(TRACE_REPS[i % len(TRACE_REPS)])
    if rep["kind"] == "subclass_inst" and (GN, GD) == (1, 1):
        rep["gclass"] = (3, 4)
    lim = 8 * L * PD // fwd
    opt = {"type": "simple", "name": "walk", "term": [L], "inits": list(range(N)), "lim": lim,
           "pol": [[3, 1][:K] for _ in range(N)], "term_as": rng.choice(["set", "list"])}
    return {"m": m, "rep": rep, "opts": [opt], "n": rng.choice([1, 2, 3]), "seed": rng.choice([None, 0, 7]),
            "inclprim": rng.choice([0, 1]), "queries": [[0, 0]] + ([[rng.randrange(1, L // 3), 0]] if rng.random() < 0.4 else []),
            "corridor": L, "prev": ({"m": other_dynamics(rng, m), "s0": 0} if rng.random() < 0.5 else None)}


def make_trace_cases(rng, n, tier):
    cases = [make_corridor_case(rng, i) for i in range(12 if tier == "quick" else 72)]
    n += len(cases)
    while len(cases) < n:
        i = len(cases)
        GN, GD = [(1, 2), (1, 1), (3, 4), (1, 2), (1, 1), (9, 10), (0, 1)][i % 7]
        m = gen.rand_mdp(rng, n_na=rng.choice([2, 3, 4, 5]), n_abs=rng.choice([0, 1, 2]), K=rng.choice([1, 2, 3]),
                         PD=rng.choice([2, 4]), GN=GN, GD=GD, rewards=(-3, -2, -1, 0, 1, 2), ID=rng.choice([2, 4]))
        N = m["N"]
        tm = TMAX[GD]
        rep = dict(TRACE_REPS[i % len(TRACE_REPS)])
        if rep["kind"] == "subclass_inst" and (GN, GD) == (1, 1):
            rep["gclass"] = (3, 4)
        opts = []
        for k in range(rng.choice([1, 2, 2, 3])):
            term = sorted(rng.sample(range(N), min(max(1, N - 1), rng.choice([1, 1, 2, 2, 3]))))
            if rng.random() < 0.25:
                term = sorted(set(term) | {s for s in range(N) if m["abs"][s]})
            inits = sorted(rng.sample(range(N), rng.randint(1, N)))
            lim = rng.choice([1, 2, 3, 4, tm, tm, tm, tm, tm, tm, tm, tm])
            if k == 0 and rng.random() < 0.35:
                opts.append({"type": "plan", "name": f"p{k}", "term": term, "inits": inits, "lim": lim,
                             "incl": rng.choice([0, 1]), "clip": rng.choice([None, -1, 0]),
                             "own_discount": rng.choice([None] + [g for g in [(1, 2), (9, 10), (1, 1)] if F(*g) != F(GN, GD)])})
            else:
                pol = rand_policy(rng, m) if rng.random() < 0.4 else [list(r) for r in m["avail"]]
                opts.append({"type": "simple", "name": f"o{k}", "term": term, "inits": inits, "lim": lim,
                             "pol": pol, "term_as": rng.choice(["set", "list"])})
        nsim = rng.choice([1, 2, 3, 5, 8, 12, 20])
        queries = []
        for _ in range(rng.choice([1, 2, 2, 3])):
            oi = rng.randrange(len(opts))
            nonterm = [s for s in range(N) if s not in opts[oi]["term"]]
            queries.append([rng.choice(nonterm) if nonterm and rng.random() < 0.85 else rng.randrange(N), oi])
        cases.append({"m": m, "rep": rep, "opts": opts, "n": nsim, "seed": rng.choice([None, 0, 1, 12345, 2 ** 31]),
                      "inclprim": rng.choice([0, 1]), "queries": queries,
                      "prev": ({"m": other_dynamics(rng, m), "s0": rng.randrange(N)} if rng.random() < 0.6 else None)})
    return cases


def trace_world(case):
    from msdm.algorithms import ValueIteration
    from msdm.core.mdp.policy import FunctionalPolicy
    from msdm.core.semimdp.semimdp import SemiMarkovDecisionProcess
    _, RecPolicy, SimpleOption, RecPlanOption = option_classes()
    m = case["m"]
    rng = random.Random(digest(case["m"]) + digest(case["rep"]))
    random.seed(digest(case["m"]))          # seed=None makes the semi-MDP draw its seed from the global generator
    b, _, _, _ = make_base(m, case["rep"], rng)
    if case["rep"]["actions_as"] == "list":
        wrap_method(b.mdp, "actions", lambda orig: (lambda s: list(orig(s))))
    log = []
    options = []
    for o in case["opts"]:
        term = [b.slabel[s] for s in o["term"]]
        inits = [b.slabel[s] for s in o["inits"]]
        if o["type"] == "simple":
            options.append(SimpleOption(o["name"], RecPolicy(FunctionalPolicy(policy_fn(b, o["pol"])), log), term, inits,
                                        o["lim"], o["term_as"]))
        else:
            own = b.mdp
            if o.get("own_discount"):       # planned on a copy of the world with another discount (same dynamics, same labels)
                cm = dict(m, GN=o["own_discount"][0], GD=o["own_discount"][1])
                own = make_base(cm, case["rep"], random.Random(digest(case["m"]) + digest(case["rep"])))[0].mdp
            options.append(RecPlanOption(log, mdp=own, initial_states=inits, subgoals=term,
                                         planner=ValueIteration(max_residual=1e-8, max_iterations=500),
                                         include_mdp_absorbing_states=bool(o["incl"]), name=o["name"], max_steps=o["lim"],
                                         max_nonterminal_pseudoreward=(float("inf") if o["clip"] is None else float(o["clip"]))))
    if case.get("prev"):
        # call history: the same option objects were first used by a semi-MDP over another MDP (same labels,
        # other transitions, rewards and discount)
        prev = case["prev"]
        pb, _, _, _ = make_base(prev["m"], dict(case["rep"], kind="quick" if case["rep"]["kind"] == "matrices" else case["rep"]["kind"]),
                                random.Random(digest(case["m"]) + digest(case["rep"])))
        before = SemiMarkovDecisionProcess(mdp=pb.mdp, options=options, n_option_simulations=1, seed=5)
        for o, od in zip(options, case["opts"]):
            if od["type"] == "simple":
                try:
                    before.next_state_transit_time_reward_dist(pb.slabel[prev["s0"]], o)
                except Exception:                                    # noqa: BLE001 - only the history matters
                    pass
                o.mdp = pb.mdp      # the option keeps a reference to that MDP (other discount)
        del log[:]
    smdp = SemiMarkovDecisionProcess(mdp=b.mdp, options=options, n_option_simulations=case["n"],
                                     include_mdp_actions=bool(case["inclprim"]), seed=case["seed"])
    return b, smdp, options, log


def proj_outcomes(b, dist, arity):
    out = []
    for k, p in dist.items():
        if p == 0:
            continue
        if arity == 3:
            out.append([sidx0(b, k[0]) + 1, int(k[1]), float(k[2]), float(p)])
        elif arity == 2:
            out.append([sidx0(b, k[0]) + 1, int(k[1]), float(p)])
        else:
            out.append([sidx0(b, k) + 1, float(p)])
    return out


def trace_real(case):
    """Runs every query of the case; returns one observation per query (json-able)."""
    from msdm.core.exceptions import AlgorithmException
    m = case["m"]
    obs = []
    with warnings.catch_warnings():
        warnings.simplefilter("ignore")
        b, smdp, options, log = trace_world(case)
        for s0, oi in case["queries"]:
            o, od = options[oi], case["opts"][oi]
            ob = {"s0": s0, "oi": oi}
            sl = b.slabel[s0]
            # the option's policy support as the real policy object states it
            try:
                pol = []
                for s in range(m["N"]):
                    try:
                        row = {aidx0(b, a): p for a, p in o.policy.action_dist(b.slabel[s]).items() if p > 0}
                        pol.append([1 if a in row else 0 for a in range(m["K"])])
                    except Exception:                                # noqa: BLE001
                        pol.append(list(m["avail"][s]))
                    if not any(pol[-1]):
                        pol[-1] = list(m["avail"][s])
                if any(pol[s][a] and not m["avail"][s][a] for s in range(m["N"]) for a in range(m["K"])):
                    raise ValueError("planned policy puts weight on unavailable actions (a matter of C01)")
                ob["pol"] = pol
            except Exception as e:                                   # noqa: BLE001
                ob["skip"] = f"policy unavailable: {type(e).__name__}: {e}"[:200]
                obs.append(ob)
                continue
            del log[:]
            try:
                dist = smdp.next_state_transit_time_reward_dist(sl, o)
                ob["outcome"] = "dist"
                ob["joint"] = proj_outcomes(b, dist, 3)
            except AlgorithmException:
                ob["outcome"] = "raised"
            except Exception as e:                                   # noqa: BLE001
                ob["outcome"] = "error"
                ob["error"] = f"{type(e).__name__}: {e}"[:300]
            sims = []
            for k, res in enumerate(log):
                ev, fin = project_run(b, res)
                sims.append({"ev": ev, "fin": fin,
                             "out": "raised" if (ob["outcome"] == "raised" and k == len(log) - 1) else "returned"})
            ob["sims"] = sims
            if ob["outcome"] == "dist":
                other = {}
                for name, fn, ar in (("st", smdp.next_state_transit_time_dist, 2), ("s", smdp.next_state_dist, 1)):
                    del log[:]
                    try:
                        other[name] = proj_outcomes(b, fn(sl, o), ar)
                    except Exception as e:                           # noqa: BLE001
                        other[name] = {"error": f"{type(e).__name__}: {e}"[:300]}
                    other[name + "_same_sims"] = [project_run(b, r)[0] for r in log] == [x["ev"] for x in sims]
                del log[:]
                try:
                    other["exp"] = float(smdp.expected_cumulative_reward(sl, o))
                except Exception as e:                               # noqa: BLE001
                    other["exp"] = {"error": f"{type(e).__name__}: {e}"[:300]}
                other["exp_same_sims"] = [project_run(b, r)[0] for r in log] == [x["ev"] for x in sims]
                del log[:]
                try:
                    rs = smdp.run_simulations(sl, o)
                    other["run_simulations"] = [list(project_run(b, r)) for r in rs]
                except Exception as e:                               # noqa: BLE001
                    other["run_simulations"] = {"error": f"{type(e).__name__}: {e}"[:300]}
                ob["other"] = other
            # primitive actions and the semi-MDP's action set at s0
            prim = {}
            for a in range(m["K"]):
                if m["avail"][s0][a]:
                    try:
                        prim[a] = proj_outcomes(b, smdp.next_state_transit_time_reward_dist(sl, b.alabel[a]), 3)
                    except Exception as e:                           # noqa: BLE001
                        prim[a] = {"error": f"{type(e).__name__}: {e}"[:300]}
            ob["prim"] = prim
            try:
                acts = smdp.actions(sl)
                ob["acts"] = {"prim": sorted(aidx0(b, a) + 1 for a in acts if not any(a is x for x in options)),
                              "opts": sorted(k + 1 for a in acts for k, x in enumerate(options) if a is x),
                              "order": [next((f"o{k + 1}" for k, x in enumerate(options) if a is x), f"a{aidx0(b, a) + 1}")
                                        for a in acts]}
            except Exception as e:                                   # noqa: BLE001
                ob["acts"] = {"error": f"{type(e).__name__}: {e}"[:300]}
            obs.append(ob)
    return obs


def trace_hmax(m, lim):
    """Number of leading steps whose discounted rewards TLC tracks exactly (gamma^k inside 30 bits)."""
    if m["GN"] == 0:
        return min(lim, 1)          # later terms are exactly 0
    return lim if m["GN"] == m["GD"] else min(lim, TMAX[m["GD"]])


def trace_record(case, ob):
    m = case["m"]
    od = case["opts"][ob["oi"]]
    rec = {k: m[k] for k in MDPF}
    rec.update(prev=1 if (case.get("prev") and od["type"] == "simple") else 0)
    rec.update(term=[s + 1 for s in od["term"]], pol=ob["pol"], lim=od["lim"], hmax=trace_hmax(m, od["lim"]),
               n=case["n"], s0=ob["s0"] + 1,
               sims=ob["sims"], outcome=ob["outcome"] if ob["outcome"] != "error" else "dist",
               oinit=[[s + 1 for s in o["inits"]] for o in case["opts"]], inclprim=case["inclprim"])
    return rec


RUN_REASONS = {"not-chained", "unknown-state-or-action", "continued-past-terminal", "stepped-beyond-limit",
               "action-outside-policy", "successor-outside-support", "reward-differs", "final-record-differs",
               "returned-before-terminal", "returned-at-limit-without-terminal", "raised-at-terminal",
               "raised-before-limit-nonterminal"}


def match_outcomes(real, expected, arity, n):
    """real: [[e, t, r, p]] floats; expected: TLC records {e, t, r:[n,d], c}.  Returns message or None.
    Real entries denoting the same exact outcome (equal up to float rounding of the return) are merged."""
    left = list(real)
    for x in expected:
        hits = [y for y in left if y[0] == x["e"] and (arity < 2 or y[1] == x["t"])
                and (arity < 3 or close(y[2], frac(x["r"]), 1e-12))]
        if not hits:
            return f"outcome {x} of the simulations is missing from {real}"
        for y in hits:
            left.remove(y)
        p = sum(y[-1] for y in hits)
        if not close(p, F(x["c"], n), 1e-12):
            return f"probability {p} of outcome {hits[0][:-1]} but it occurred in {x['c']} of {n} simulations"
    if left:
        return f"outcomes {left} occurred in no simulation"
    return None


def judge_trace(ctx, cases, tamper=None, reals=None):
    batch, index = [], []
    for ci, c in enumerate(cases):
        obs = reals[ci] if reals is not None else trace_real(c)
        if tamper:
            tamper(ci, obs)
        for ob in obs:
            ctx.evaluations += 1
            if "skip" in ob:
                ctx.skip("trace: " + ob["skip"][:60])
                continue
            batch.append(trace_record(c, ob))
            index.append((ci, ob))
    if not batch:
        return None
    res = tlc(ctx, "trace", "trace", batch, "trace: recorded option simulations validated event by event, outcome tallies")
    by = {r["iid"]: r for r in res.records}
    for k, (ci, ob) in enumerate(index, start=1):
        r = by.get(k)
        if r is None:
            raise TLCFailure(f"no trace verdict for record {k}")
        c = cases[ci]
        m, od = c["m"], c["opts"][ob["oi"]]
        rc = {"part": "trace", "case": dict(c, queries=[[ob["s0"], ob["oi"]]])}
        desc = (f"{od['type']} option (terminal {od['term']}, max_steps {od['lim']}) from state {ob['s0']}, "
                f"{c['n']} simulations, seed {c['seed']}, {c['rep']['kind']} base")
        ok = True

        def fail(site, clause, msg):
            nonlocal ok
            ok = False
            ctx.violation(f"C15:{site}:{clause}", f"{desc}: {msg}", rc)
        SM = "SemiMarkovDecisionProcess"
        if ob["outcome"] == "error":
            fail(f"{SM}.next_state_transit_time_reward_dist", "raises", ob["error"])
        if r["verdict"] == "rejected":
            j, l = r["at"]
            site = "Option.run_on" if r["reason"] in RUN_REASONS else f"{SM}.run_simulations"
            fail(site, r["reason"], f"simulation {j} is not a run of the option: {r['reason']} after {l} events "
                                    f"({r['nst']} steps, limit {r['lim']}): {ob['sims'][j - 1] if j <= len(ob['sims']) else None}")
        elif ob["outcome"] == "dist":
            n = c["n"]
            if k % 9 == 0 or c.get("corridor"):      # machinery cross-check of the tally
                g = F(m["GN"], m["GD"])
                tl = {}
                for s in ob["sims"]:
                    key = (s["fin"], len(s["ev"]), sum(g ** t * e[3] for t, e in enumerate(s["ev"][:trace_hmax(m, od["lim"])])))
                    tl[key] = tl.get(key, 0) + 1
                tt = {(x["e"], x["t"], frac(x["r"])): x["c"] for x in r["joint"]}
                if tl != tt:
                    raise TLCFailure(f"TLA+ tally and python tally disagree on trace record {k}: {tt} vs {tl}")
                ctx.count("oracle_crosschecks")
            site = f"{SM}.next_state_transit_time_reward_dist"
            tot = sum(x[3] for x in ob["joint"])
            if not close(tot, 1, 1e-12):
                fail(site, "not-normalised", f"probabilities sum to {tot}")
            tail = float(frac(r["tail"]))       # bound on the return of the steps beyond TLC's exact horizon (0 if none)
            if tail == 0:
                msg = match_outcomes(ob["joint"], r["joint"], 3, n)
            else:       # end state and duration exact, return within the bound; probabilities judged on the marginals
                ctx.count("trace_queries_with_runs_beyond_the_exact_horizon")
                msg = None
                for y in ob["joint"]:
                    if not any(x["e"] == y[0] and x["t"] == y[1] and close(y[2], frac(x["r"]), tail) for x in r["joint"]):
                        msg = f"outcome {y[:3]} (end state, steps, return) occurred in no simulation (return tolerance {tail})"
                for x in r["joint"]:
                    if not any(x["e"] == y[0] and x["t"] == y[1] and close(y[2], frac(x["r"]), tail) for y in ob["joint"]):
                        msg = f"outcome {x} of the simulations is missing from {ob['joint']}"
            if msg:
                fail(site, "differs-from-simulations", msg)
            oth = ob["other"]
            for name, ar, fn in (("st", 2, "next_state_transit_time_dist"), ("s", 1, "next_state_dist")):
                if isinstance(oth[name], dict):
                    fail(f"{SM}.{fn}", "raises", oth[name]["error"])
                elif not oth[name + "_same_sims"]:
                    fail(f"{SM}.run_simulations", "not-reproducible-for-seed",
                         f"{fn} ran different simulations than next_state_transit_time_reward_dist for the same (state, option, seed)")
                else:
                    msg = match_outcomes(oth[name], r[name], ar, n)
                    if msg:
                        fail(f"{SM}.{fn}", "differs-from-simulations", msg)
            if isinstance(oth["exp"], dict):
                fail(f"{SM}.expected_cumulative_reward", "raises", oth["exp"]["error"])
            elif not oth["exp_same_sims"]:
                fail(f"{SM}.run_simulations", "not-reproducible-for-seed", "expected_cumulative_reward ran different simulations")
            elif not close(oth["exp"], frac(r["exp"]), tail + 1e-12):
                fail(f"{SM}.expected_cumulative_reward", "differs-from-simulations",
                     f"{oth['exp']} but the mean discounted return of the simulations is {float(frac(r['exp']))}")
            rs = oth["run_simulations"]
            if isinstance(rs, dict):
                fail(f"{SM}.run_simulations", "raises", rs["error"])
            elif [x[0] for x in rs] != [s["ev"] for s in ob["sims"]] or [x[1] for x in rs] != [s["fin"] for s in ob["sims"]]:
                fail(f"{SM}.run_simulations", "not-reproducible-for-seed",
                     "run_simulations(s, option) differs from the simulations the outcome distribution was built from")
        # primitive actions: one-step outcomes with duration 1
        for a, got in ob["prim"].items():
            a = int(a)
            site = f"{SM}.next_state_transit_time_reward_dist"
            if isinstance(got, dict):
                fail(site, "primitive-raises", f"primitive action {a}: {got['error']}")
                continue
            exp = [{"e": x["e"], "t": x["t"], "r": [x["r"], 1], "c": x["p"]} for x in r["prim"][a]]
            msg = match_outcomes(got, exp, 3, m["PD"])
            if msg:
                fail(site, "primitive-outcomes", f"primitive action {a} at state {ob['s0']}: {msg}")
        # the semi-MDP's actions: options whose initiation set contains the state (+ primitive actions)
        acts = ob["acts"]
        site = f"{SM}.actions"
        if "error" in acts:
            fail(site, "raises", f"actions(state {ob['s0']}) raised {acts['error']} (include_mdp_actions={bool(c['inclprim'])}, "
                              f"mdp.actions returns a {c['rep']['actions_as']})")
        elif acts["prim"] != sorted(r["acts"]["prim"]) or acts["opts"] != sorted(r["acts"]["opts"]):
            fail(site, "wrong-action-set", f"actions(state {ob['s0']}) = {acts} expected {r['acts']}")
        else:
            exp_order = [f"a{a + 1}" for a in range(m["K"]) if m["avail"][ob["s0"]][a] and c["inclprim"]] + \
                        [f"o{k}" for k in sorted(r["acts"]["opts"])]
            if acts["order"] != exp_order and sorted(acts["order"]) == sorted(exp_order):
                ctx.drift("SemiMarkovDecisionProcess.actions-order", {"got": acts["order"], "machine": exp_order})
        if ok:
            ctx.validated += 1
            if ob["outcome"] == "dist" and (len(r["joint"]) >= 2 or any(x["t"] >= 2 for x in r["joint"])):
                ctx.nontrivial("trace:" + digest([c["m"], od, ob["s0"], c["n"], c["seed"]]))
        if k % 61 == 2:
            ctx.sample(limit=5, obj={"part": "trace", "rep": c["rep"], "option": od, "s0": ob["s0"], "n": c["n"], "seed": c["seed"],
                        "verdict": r["verdict"], "reason": r["reason"], "tally": r["joint"], "reported": ob.get("joint")})
    return res


# ==============================================================================================
# as-built model: TLC reproduces the two deviations of the pinned tree at the model level
# ==============================================================================================
def asbuilt_runs(ctx, aug_cases, opt_cases):
    """MC-only demonstration: the model of msdm's two former deviations violates the invariants.  No verdict
    about the real code depends on it."""
    info = {}
    lossy = [c for c in aug_cases if c["rep"]["kind"] in ("quick", "subclass_inst") and (c["m"]["GN"], c["m"]["GD"]) != (1, 1)][:2]
    if lossy:
        batch = [aug_prepare(dict(c, ovrs=[["absorbing"]]))[2] for c in lossy]
        res = tlc(ctx, "aug_asbuilt", "aug", batch, "aug, former as-built variant (discount from the class), MC only: expected counterexample", variant="asbuilt")
        info["aug"] = sorted(set(res.violated))
    oc = [c for c in opt_cases if c["lim"] >= 1 and c["term"]][:6]
    if oc:
        res = tlc(ctx, "opt_asbuilt", "opt", [opt_batch_record(c) for c in oc],
                  "opt, former as-built variant (raise when len(trajectory) >= max_steps), MC only: expected counterexample", variant="asbuilt")
        info["opt"] = sorted(set(res.violated))
    if aug_cases:
        batch = [aug_prepare(dict(c, ovrs=[["reward", "absorbing"]]))[2] for c in aug_cases[:2]]
        res = tlc(ctx, "aug_shared", "aug", batch, "aug, variant with one class shared per (base class, overridden set), MC only: "
                  "expected counterexample to DerivedIsolated", variant="sharedclass")
        info["aug_sharedclass"] = sorted(set(res.violated))
    oc = [c for c in opt_cases if c.get("prev") and c["lim"] >= 2][:4]
    if oc:
        res = tlc(ctx, "opt_memo", "opt", [opt_batch_record(c) for c in oc], "opt, variant that reuses the termination-augmented MDP of "
                  "an earlier execution on another MDP, MC only: expected counterexample", variant="memo")
        info["opt_memo"] = sorted(set(res.violated))
    ctx.extra["former_asbuilt_model_violates"] = info


# ==============================================================================================
SIZES = {"quick": dict(aug=20, plan=200, opt=150, trace=200), "thorough": dict(aug=300, plan=5000, opt=2400, trace=4000)}


def run(ctx):
    import msdm.algorithms      # noqa: F401  (slow import, once)
    sz = SIZES[ctx.tier]
    ctx.rule = ("aug: (base instance x representation x call history x subset of the 7 overridable components), non-trivial = a "
                "proper non-empty subset on a base with discount < 1, or (aug-history / plan-history) a derived MDP whose array "
                "views differ from the ones cached on the base by the call history; plan: sub-goal option on a discounted base whose clipped "
                "rewards differ from the base's and whose optimum is not identically 0; opt: TLC behaviour of an option run "
                "with >= 2 steps replayed by scripted sampling; trace: semi-MDP query whose validated simulations give >= 2 "
                "distinct outcomes or an outcome of >= 2 steps")
    ctx.assumptions = [
        "TLC evaluates the TLA+ oracles correctly (cross-checked against python Fractions on a sample of every part)",
        "floats are compared with exact rationals at 1e-9 relative (values pass through augment() unchanged; tallies are k/n); "
        "planning values within eps/(1-gamma) resp. eps*max expected steps, eps = 1e-10",
        "a run that reaches a terminal state within max_steps primitive steps (including on exactly the max_steps-th) must "
        "return; raising is required iff max_steps steps were taken and the last state is not terminal",
        "./check runs with a fixed hash seed, so simulations seeded from (state, option, seed) are the same across runs"]
    rng = random.Random(ctx.seed * 104729 + 15)
    aug_cases = make_aug_cases(rng, sz["aug"], ctx.tier)
    plan_cases = make_plan_cases(rng, sz["plan"], ctx.tier)
    opt_cases = make_opt_cases(rng, sz["opt"], ctx.tier)
    trace_cases = make_trace_cases(rng, sz["trace"], ctx.tier)
    for k in range(0, len(aug_cases), 40):
        judge_aug(ctx, aug_cases[k:k + 40])
    for k in range(0, len(plan_cases), 600):
        judge_plan(ctx, plan_cases[k:k + 600])
    for k in range(0, len(opt_cases), 150):
        judge_opt(ctx, opt_cases[k:k + 150])
    for k in range(0, len(trace_cases), 450):
        judge_trace(ctx, trace_cases[k:k + 450])
    asbuilt_runs(ctx, aug_cases, opt_cases)
    ctx.exhaustive = False


def replay(ctx, case):
    import msdm.algorithms      # noqa: F401
    part, c = case["part"], case["case"]
    {"aug": judge_aug, "plan": judge_plan, "opt": judge_opt, "trace": judge_trace}[part](ctx, [c])


def selftest(ctx):
    """Binding demonstration: corrupt values returned by the real code, fields handed to msdm, logged events."""
    import msdm.algorithms      # noqa: F401
    rng = random.Random(77)
    results = {}

    def detected(fn, *frags):
        """fn must add a violation whose signature contains one of the fragments (the defects of the
        pinned tree produce violations of their own, which do not count)."""
        before = len(ctx.violations)
        fn()
        return any(any(f in v[0] for f in frags) for v in ctx.violations[before:])
    # (A1) one reward returned by the derived MDP is off by one
    ac = [c for c in make_aug_cases(rng, 8, "quick") if c["rep"]["kind"] == "subclass"][:1]
    ac = [dict(ac[0], ovrs=[["absorbing"], ["reward", "state_list"]])]

    def t_aug(i, ovr, real):
        if ovr == ["absorbing"] and isinstance(real.get("reward"), list):
            real["reward"][0][0][0] += 1.0
    results["aug: corrupted reward of the derived MDP"] = detected(lambda: judge_aug(ctx, ac, tamper=t_aug), "C15:augment:reward")
    baseline = len(ctx.violations)
    judge_aug(ctx, ac)
    results["aug: untampered subclass case is clean"] = len(ctx.violations) == baseline
    # (A2) the instance handed to msdm differs in one field (sub-goal moved)
    pc = [c for c in make_plan_cases(rng, 12, "quick") if c["rep"]["kind"] == "subclass" and c["m"]["GN"] < c["m"]["GD"]][:1]

    def t_plan(i, real):
        if isinstance(real.get("plan"), dict) and "V" in real["plan"]:
            s = next(iter(real["plan"]["V"]))
            real["plan"]["V"][s] += 0.5
    results["plan: corrupted state value"] = detected(lambda: judge_plan(ctx, pc, tamper=t_plan), "planning_result:value")
    # (A3) a scripted option run reports a different end state
    oc = [c for c in make_opt_cases(rng, 10, "quick") if c["term"] and c["lim"] >= 2][:2]

    def t_opt(i, r, real):
        if real["outcome"] == "returned":
            real["fin"] = real["fin"] % oc[i]["m"]["N"] + 1
    results["opt: corrupted end state"] = detected(lambda: judge_opt(ctx, oc, tamper=t_opt), "Option.run_on:trajectory-differs")
    # (B) corrupt one logged successor; drop one event; corrupt one reported probability
    tc = make_trace_cases(rng, 30, "quick")
    reals = [trace_real(c) for c in tc]

    def pick(pred):
        for ci, obs in enumerate(reals):
            for ob in obs:
                if "skip" not in ob and ob.get("outcome") == "dist" and pred(ob):
                    return ci, ob
        return None, None

    def run_trace_with(mut, *frags):
        import copy
        rr = copy.deepcopy(reals)
        ci, _ = pick(lambda ob: any(len(s["ev"]) >= 2 for s in ob["sims"]))
        if ci is None:
            return False
        ob = next(ob for ob in rr[ci] if ob.get("outcome") == "dist" and any(len(s["ev"]) >= 2 for s in ob["sims"]))
        mut(ob, tc[ci]["m"])
        return detected(lambda: judge_trace(ctx, [tc[ci]], reals=[rr[ci]]), *frags)

    def m_succ(ob, m):
        s = next(s for s in ob["sims"] if len(s["ev"]) >= 2)
        s["ev"][0][2] = s["ev"][0][2] % m["N"] + 1
    results["trace: corrupted logged successor"] = run_trace_with(m_succ, "successor-outside-support", "not-chained", "reward-differs", "final-record-differs")

    def m_drop(ob, m):
        s = next(s for s in ob["sims"] if len(s["ev"]) >= 2)
        del s["ev"][-1]
    results["trace: dropped event"] = run_trace_with(m_drop, "final-record-differs", "returned-before-terminal", "not-chained")

    def m_prob(ob, m):
        ob["joint"][0][3] *= 0.5
    results["trace: corrupted reported probability"] = run_trace_with(m_prob, "not-normalised", "differs-from-simulations")
    for k, v in results.items():
        print(f"  selftest {k}: {'ok' if v else 'NOT DETECTED'}")
    return all(results.values())
